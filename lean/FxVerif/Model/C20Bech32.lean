/-!
# C20 — bech32 decoding as the address validators run it (round 5)

Every fx-core `ValidateBasic` that checks a Cosmos address ends in `sdk.AccAddressFromBech32` / `sdk.ValAddressFromBech32` →
`sdk.GetFromBech32` → `types/bech32.DecodeAndConvert` → `github.com/cosmos/btcutil/bech32.Decode(bech, 1023)` +
`ConvertBits(data, 5, 8, false)`.  Until round 4 these were oracles of the environment.  This file models the decoder byte for
byte, in the order of the Go code (`Decode`: length limit; `DecodeNoLimit`: minimum length 8, `Normalize` — printable range and
mixed case in ONE left-to-right pass, so the first offending byte decides the error —; `DecodeUnsafe`: last `'1'`, the separator
window `one < 1 || one+7 > len`, `toBytes` over the charset, the two slices `decoded[:len-6]` / `decoded[len-6:]`;
`VerifyChecksum` = the BCH polymod over hrp-high ++ [0] ++ hrp-low ++ values ++ checksum; `ConvertBits` 5→8 without padding with
its incomplete-group rule), so that

* the error CLASS of every byte string is computed (tied by the `bech` driver lines to the real `DecodeAndConvert`), and
* the places where the Go code slices (`decoded[:len(decoded)-6]`, `bech[one+1:]`, …) are proved in range whenever they are
  reached (`Props/C20.lean`: `bech32_slices_in_range`), which is what "the decoder is total" means for the Go code.

Bytes are `Nat`s (< 256 by construction of the driver).  Core Lean only.
-/
namespace FxVerif.Model.C20Bech32

inductive Err where
  | tooLong | tooShort | invalidChar | mixedCase | separator | nonCharset | checksum | incompleteGroup
  deriving DecidableEq, Repr

def Err.name : Err → String
  | .tooLong => "too-long" | .tooShort => "too-short" | .invalidChar => "invalid-char" | .mixedCase => "mixed-case"
  | .separator => "separator" | .nonCharset => "non-charset" | .checksum => "checksum" | .incompleteGroup => "incomplete-group"

/-- `const charset = "qpzry9x8gf2tvdw0s3jn54khce6mua7l"` -/
def charset : List Nat := "qpzry9x8gf2tvdw0s3jn54khce6mua7l".toList.map Char.toNat

/-- `var gen = []int{0x3b6a57b2, 0x26508e6d, 0x1ea119fa, 0x3d4233dd, 0x2a1462b3}` -/
def gen : List Nat := [0x3b6a57b2, 0x26508e6d, 0x1ea119fa, 0x3d4233dd, 0x2a1462b3]

/-- the SDK's limit (`bech32.Decode(bech, 1023)`) and btcutil's minimum -/
def limit : Nat := 1023
def minLen : Nat := 8

/-- one round of `bech32Polymod` -/
def polyStep (chk v : Nat) : Nat :=
  let b := chk >>> 25
  let c := ((chk &&& 0x1ffffff) <<< 5) ^^^ v
  (gen.zipIdx).foldl (fun c gi => if b.testBit gi.2 then c ^^^ gi.1 else c) c

def polymod (hrp values checksum : List Nat) : Nat :=
  (hrp.map (· >>> 5) ++ [0] ++ hrp.map (· &&& 31) ++ values ++ checksum).foldl polyStep 1

/-- `Normalize`: one pass; printable range first, then the case flags -/
def normalize : List Nat → Bool → Bool → Except Err Bool
  | [], _, up => .ok up
  | b :: bs, lo, up =>
    if b < 33 || b > 126 then .error .invalidChar
    else
      let lo := lo || (97 ≤ b && b ≤ 122)
      let up := up || (65 ≤ b && b ≤ 90)
      if lo && up then .error .mixedCase else normalize bs lo up

def toLower (b : Nat) : Nat := if 65 ≤ b && b ≤ 90 then b + 32 else b

/-- `strings.LastIndexByte(bech, '1')` -/
def lastIndexOf (c : Nat) : List Nat → Nat → Option Nat → Option Nat
  | [], _, acc => acc
  | b :: bs, i, acc => lastIndexOf c bs (i + 1) (if b == c then some i else acc)

def indexOf (c : Nat) : List Nat → Nat → Option Nat
  | [], _ => none
  | b :: bs, i => if b == c then some i else indexOf c bs (i + 1)

/-- `toBytes` -/
def toBytes : List Nat → Except Err (List Nat)
  | [] => .ok []
  | c :: cs =>
    match indexOf c charset 0 with
    | none => .error .nonCharset
    | some i => match toBytes cs with
      | .ok r => .ok (i :: r)
      | .error e => .error e

/-- the separator test of `DecodeUnsafe` (`one < 1 || one+7 > len(bech)`), returning the index when it passes -/
def separator (s : List Nat) : Except Err Nat :=
  match lastIndexOf 49 s 0 none with
  | none => .error .separator
  | some one => if one < 1 || one + 7 > s.length then .error .separator else .ok one

/-- `ConvertBits(data, 5, 8, false)`: accumulator, number of pending bits (< 8), output -/
def convAux : List Nat → Nat → Nat → List Nat → Nat × Nat × List Nat
  | [], acc, bits, out => (acc, bits, out)
  | v :: vs, acc, bits, out =>
    let acc := (acc <<< 5) ||| (v &&& 31)
    let bits := bits + 5
    if 8 ≤ bits then convAux vs (acc &&& (2 ^ (bits - 8) - 1)) (bits - 8) (out ++ [(acc >>> (bits - 8)) &&& 255])
    else convAux vs acc bits out

def convertBits (vs : List Nat) : Except Err (List Nat) :=
  let r := convAux vs 0 0 []
  if r.2.1 > 0 && (r.2.1 > 4 || r.1 != 0) then .error .incompleteGroup else .ok r.2.2

/-- `bech32.Decode(bech, 1023)`: human-readable part (lower case) and the 5-bit values without the checksum -/
def decode (s : List Nat) : Except Err (List Nat × List Nat) :=
  if s.length > limit then .error .tooLong
  else if s.length < minLen then .error .tooShort
  else match normalize s false false with
    | .error e => .error e
    | .ok up =>
      let s := if up then s.map toLower else s
      match separator s with
      | .error e => .error e
      | .ok one =>
        let hrp := s.take one
        match toBytes (s.drop (one + 1)) with
        | .error e => .error e
        | .ok decoded =>
          let values := decoded.take (decoded.length - 6)
          let checksum := decoded.drop (decoded.length - 6)
          if polymod hrp values checksum == 1 then .ok (hrp, values) else .error .checksum

/-- `types/bech32.DecodeAndConvert` -/
def decodeAndConvert (s : List Nat) : Except Err (List Nat × List Nat) :=
  match decode s with
  | .error e => .error e
  | .ok (hrp, values) => match convertBits values with
    | .error e => .error e
    | .ok bz => .ok (hrp, bz)

/-- the six checksum values `writeBech32Checksum` appends (used by the examples and by the driver's `b32enc` line) -/
def checksumOf (hrp values : List Nat) : List Nat :=
  let p := polymod hrp values [0, 0, 0, 0, 0, 0] ^^^ 1
  (List.range 6).map fun i => (p >>> (5 * (5 - i))) &&& 31

/-- `sdk.GetFromBech32(bech, prefix)` followed by the length rule of the address verifier (`lens` = accepted byte lengths; the
SDK default accepts 1..255): `ok | empty | <decoder class> | prefix | length` -/
def addressClass (pfx : List Nat) (lens : Nat → Bool) (s : List Nat) : String :=
  if s.isEmpty then "empty"
  else match decodeAndConvert s with
    | .error e => e.name
    | .ok (hrp, bz) => if hrp != pfx then "prefix" else if lens bz.length then "ok" else "length"

end FxVerif.Model.C20Bech32
