import FxVerif.Model.C03Fmt

/-!
# C03 — the Go functions a hashed argument (or an executed claim) may go through (core Lean only)

`go/extract/c03.go` translates every argument *expression* of a `ClaimHash` path structurally: a call `pkg.F(a, b)` becomes
`Go.pkg_F a b`, a method call `x.M(a)` on a value of repository type `T` of package `p` becomes `Go.p_T_M x a` (repository
packages are named by their directory with `/` → `_`).  The functions defined here are the ones that are modelled, so a
`ClaimHash` that hashes e.g. `strings.ToLower(m.Sender)` or `fxtypes.ParseFxTarget(m.TargetIbc, true).GetTarget()` still
yields a generated `path` that compiles, can be executed by the driver and compared with the real hash — and the
injectivity proof, not the translator, is what stops checking.  Anything else makes `Gen/C03.lean` fail to compile.

`fxtypes.ParseFxTarget` is also part of the *executed* code: `SendToFxExecuted` routes a deposit by
`ParseFxTarget(claim.TargetIbc, true)` (IBC transfer / ERC-20 conversion / plain credit); the driver prints it for the
generated targets and the harness compares with the real function.

Byte strings: one `Char` per byte.  `strings.ToLower/ToUpper` are exact on ASCII (Go maps the other runes through the
Unicode tables and replaces invalid UTF-8 by U+FFFD: not modelled); `strings.TrimSpace` knows the UTF-8 encodings of
all `unicode.IsSpace` runes.
-/
namespace FxVerif.Model.C03

/-- `fxtypes.FxTarget` (types/target.go) -/
structure FxTarget where
  isIBC : Bool
  target : Str
  Prefix : Str
  SourcePort : Str
  SourceChannel : Str
  deriving DecidableEq, Repr

/-! ## call structure of `Keeper.Attest` (the table `attestTrySites` in Gen/C03.lean is regenerated from the AST) -/

/-- which attestation a `TryAttestation` call site is handed -/
inductive AttSel where
  | voted    -- the one looked up (or created) under the voter's own key `nonce ‖ ClaimHash(claim)`
  | stored   -- some other stored attestation (e.g. each open attestation of the nonce, in a loop)
  | other
  deriving DecidableEq, Repr

/-- which claim object a `TryAttestation` call site is handed (the one that will be executed) -/
inductive ClaimSel where
  | voter     -- the claim being submitted
  | recorded  -- the claim recorded in the attestation that is handed over (`UnpackAttestationClaim`)
  | other
  deriving DecidableEq, Repr

structure TrySite where
  att : AttSel
  claim : ClaimSel
  inLoop : Bool
  fn : String
  guard : String
  deriving Repr

/-- the claim handed to `TryAttestation` hashes to the key of the attestation whose votes are tallied: either it is the
voter's claim together with the attestation found under the voter's key, or it is the attestation's own recorded claim -/
def TrySite.wellKeyed (t : TrySite) : Bool :=
  (t.att == .voted && t.claim == .voter) || t.claim == .recorded

/-- where `Attest` gets the attestation it appends the vote to: one entry per assignment to that variable, in program order
(the table `attestLookup` in Gen/C03.lean is regenerated from the body of `Keeper.Attest`; a later entry is only reached when
the earlier ones yielded nil) -/
inductive AttSource where
  /-- `k.GetAttestation(ctx, claim.GetEventNonce(), claim.ClaimHash())`: the attestation stored under the voter's own key -/
  | ownKey
  /-- `&types.Attestation{Observed: false, Claim: <Any of the voter's claim>}` -/
  | fresh
  /-- anything else (a lookup under another key, a keeper method that is not followed): it may yield any OTHER open stored
  attestation of that event nonce -/
  | otherStored (src : String)
  deriving DecidableEq, Repr

/-- the attestation comes from the voter's own key (or is new) -/
def AttSource.own : AttSource → Bool
  | .ownKey | .fresh => true
  | .otherStored _ => false

/-! ## what the handlers read of a claim (the table `handlerView` in Gen/C03.lean is regenerated from the AST) -/

/-- one value a handler reads of a claim -/
inductive HLeaf where
  | str (s : Str)
  | nat (n : Nat)
  | int (i : Option Int)
  | bool (b : Bool)
  | strs (l : List Str)
  | ints (l : List (Option Int))
  | members (l : List BridgeValidator)
  /-- a chain name used only as the index of `externalAddressRouter`: all the code sees is the registered address class -/
  | kind (k : Option AddrKind)
  /-- the claim object itself handed to code the translator does not follow -/
  | whole (what : String)
  deriving DecidableEq, Repr

/-- one maximal expression rooted at the claim variable inside a keeper function: where, its shape (methods of the claim
unfolded), and the values it depends on -/
structure HEntry where
  fn : String
  expr : String
  vals : List HLeaf
  deriving DecidableEq, Repr

/-! ## byte layout of store keys (the tables `attestationKeyParts` / `pendingClaimKeyParts` are regenerated from key.go) -/

inductive KeyPart where
  | lit (bytes : List Nat)        -- a package-level prefix
  | be64 (param : String)         -- `sdk.Uint64ToBigEndian(<uint64 parameter>)`
  | raw (param : String)          -- `<[]byte parameter>...`
  | unknown (src : String)
  deriving DecidableEq, Repr

/-- `sdk.Uint64ToBigEndian`: 8 bytes, most significant first -/
def be64 (n : Nat) : List Nat :=
  [n / 2^56 % 256, n / 2^48 % 256, n / 2^40 % 256, n / 2^32 % 256, n / 2^24 % 256, n / 2^16 % 256, n / 2^8 % 256, n % 256]

/-- the bytes a key function builds from its `uint64` argument `n` and its `[]byte` argument `h` -/
def keyBytes (n : Nat) (h : List Nat) : List KeyPart → List Nat
  | [] => []
  | .lit b :: r => b ++ keyBytes n h r
  | .be64 _ :: r => be64 n ++ keyBytes n h r
  | .raw _ :: r => h ++ keyBytes n h r
  | .unknown _ :: r => keyBytes n h r

namespace Go

/-- `externalAddressRouter[name]`: the address class a chain name is registered with (`none`: unrecognized chain) -/
def chainClass (chains : List (String × AddrKind)) (name : Str) : Option AddrKind := chains.lookup (String.ofList name)

/-! ## package strings -/

def strings_ToLower (s : Str) : Str := s.map fun c => if 'A' ≤ c ∧ c ≤ 'Z' then Char.ofNat (c.toNat + 32) else c
def strings_ToUpper (s : Str) : Str := s.map fun c => if 'a' ≤ c ∧ c ≤ 'z' then Char.ofNat (c.toNat - 32) else c

def strings_HasPrefix (s p : Str) : Bool := p.isPrefixOf s
def strings_HasSuffix (s p : Str) : Bool := p.reverse.isPrefixOf s.reverse
def strings_TrimPrefix (s p : Str) : Str := if p.isPrefixOf s then s.drop p.length else s
def strings_TrimSuffix (s p : Str) : Str := if strings_HasSuffix s p then s.take (s.length - p.length) else s

/-- number of bytes of the whitespace rune (`unicode.IsSpace`) a byte string starts with, 0 if it starts with none -/
def spaceLen : Str → Nat
  | [] => 0
  | c :: r =>
    let n := c.toNat
    if n == 32 || (9 ≤ n && n ≤ 13) then 1 else
    match r with
    | d :: r' =>
      let m := d.toNat
      if n == 0xC2 && (m == 0x85 || m == 0xA0) then 2 else
      match r' with
      | e :: _ =>
        let o := e.toNat
        if n == 0xE1 && m == 0x9A && o == 0x80 then 3
        else if n == 0xE2 && m == 0x80 && ((0x80 ≤ o && o ≤ 0x8A) || o == 0xA8 || o == 0xA9 || o == 0xAF) then 3
        else if n == 0xE2 && m == 0x81 && o == 0x9F then 3
        else if n == 0xE3 && m == 0x80 && o == 0x80 then 3
        else 0
      | [] => 0
    | [] => 0

def trimLeftSpace : Nat → Str → Str
  | 0, s => s
  | fuel + 1, s => match spaceLen s with
    | 0 => s
    | n => trimLeftSpace fuel (s.drop n)

/-- length of the whitespace rune a byte string ends with (looked at from the reversed string) -/
def spaceLenRev : Str → Nat
  | [] => 0
  | c :: r =>
    let n := c.toNat
    if n == 32 || (9 ≤ n && n ≤ 13) then 1 else
    match r with
    | d :: r' =>
      if spaceLen [d, c] == 2 then 2 else
      match r' with
      | e :: _ => if spaceLen [e, d, c] == 3 then 3 else 0
      | [] => 0
    | [] => 0

def trimLeftSpaceRev : Nat → Str → Str
  | 0, s => s
  | fuel + 1, s => match spaceLenRev s with
    | 0 => s
    | n => trimLeftSpaceRev fuel (s.drop n)

def strings_TrimSpace (s : Str) : Str :=
  let a := trimLeftSpace s.length s
  (trimLeftSpaceRev a.length a.reverse).reverse

/-- `strings.Split(s, sep)` for a one-byte separator -/
def splitChar (sep : Char) : Str → List Str
  | [] => [[]]
  | c :: r =>
    match splitChar sep r with
    | [] => [[]]
    | h :: t => if c == sep then [] :: h :: t else (c :: h) :: t

def strings_Split (s sep : Str) : List Str :=
  match sep with
  | [c] => splitChar c s
  | _ => [s]   -- not modelled: longer or empty separators

def strings_Join : List Str → Str → Str
  | [], _ => []
  | [a], _ => a
  | a :: b :: r, sep => a ++ sep ++ strings_Join (b :: r) sep

/-! ## package encoding/hex -/

def hexVal (c : Char) : Option Nat :=
  if c.isDigit then some (c.toNat - 48)
  else if 'a' ≤ c ∧ c ≤ 'f' then some (c.toNat - 87)
  else if 'A' ≤ c ∧ c ≤ 'F' then some (c.toNat - 55)
  else none

/-- first result of `hex.DecodeString`: the bytes decoded before the first error (all of them when there is none) -/
def hex_DecodeString : Str → Str
  | a :: b :: r =>
    match hexVal a, hexVal b with
    | some x, some y => Char.ofNat (x * 16 + y) :: hex_DecodeString r
    | _, _ => []
  | _ => []

def hex_EncodeToString (s : Str) : Str := fmtHexStr s

/-! ## loops that write list elements into a `strings.Builder` -/

/-- `for _, x := range xs { b.WriteString(f x) }` -/
def concatMap {α : Type} (f : α → Str) (xs : List α) : Str := xs.flatMap f

/-- the same with `if i > 0 { b.WriteString(sep) }` in front -/
def joinMap {α : Type} (sep : Str) (f : α → Str) (xs : List α) : Str := strings_Join (xs.map f) sep

/-- what the translator could not model (an unknown function, a statement it does not understand): an opaque string, so
that `Gen/C03.lean` always compiles — the driver then disagrees with the real hash and nothing can be proved about it -/
opaque unmodelledStr (src : String) : Str

/-- the same for a list-valued local (`[]string`) assigned by a statement the translator does not model -/
opaque unmodelledList (src : String) : List Str

/-! ## strconv -/

def strconv_FormatUint (n : Nat) (base : Nat) : Str := Nat.toDigits base n
def strconv_Itoa (n : Nat) : Str := Nat.toDigits 10 n

/-! ## sdkmath.Int -/

def math_Int_String (a : Option Int) : Str := fmtInt a

/-! ## conversions, `len` -/

def conv_string (s : Str) : Str := s
def conv___byte (s : Str) : Str := s
def len {α : Type} (xs : List α) : Nat := xs.length

/-! ## fxtypes (directory `types`): `ParseFxTarget`, `FxTarget` -/

def natOfDigits (d : Str) : Nat := d.foldl (fun a c => a * 10 + (c.toNat - 48)) 0

/-- `channeltypes.IsValidChannelID`: `^channel-[0-9]{1,20}$` and the number fits 64 bits -/
def isValidChannelID (s : Str) : Bool :=
  let p := "channel-".toList
  let d := s.drop 8
  p.isPrefixOf s && 1 ≤ d.length && d.length ≤ 20 && d.all Char.isDigit && natOfDigits d < 2 ^ 64

def types_FxTarget_IBCValidate (t : FxTarget) : Bool :=
  t.isIBC && t.SourcePort == "transfer".toList && isValidChannelID t.SourceChannel && !(strings_TrimSpace t.Prefix).isEmpty

def notIBC (s : Str) : FxTarget := { isIBC := false, target := s, Prefix := [], SourcePort := [], SourceChannel := [] }

def orNotIBC (s : Str) (t : FxTarget) : FxTarget := if types_FxTarget_IBCValidate t then t else notIBC s

/-- `fxtypes.ParseFxTarget(targetStr, isHex...)` -/
def types_ParseFxTarget (raw : Str) (isHex : Bool := false) : FxTarget :=
  let s := if isHex then hex_DecodeString raw else raw
  if s == "module/evm".toList then notIBC "erc20".toList else
  let s := strings_TrimPrefix s "chain/".toList
  if s == "gravity".toList then notIBC "eth".toList else
  let three (s : Str) : FxTarget :=
    match splitChar '/' s with
    | [a, b, c] => orNotIBC s { isIBC := true, target := [], Prefix := a, SourcePort := b, SourceChannel := c }
    | _ => notIBC s
  if strings_HasPrefix s "ibc/".toList then
    match splitChar '/' s with
    | [_, ch, px] =>
      orNotIBC s { isIBC := true, target := [], Prefix := px, SourcePort := "transfer".toList, SourceChannel := "channel-".toList ++ ch }
    | [_, _, _, _] => three (strings_TrimPrefix s "ibc/".toList)
    | _ => notIBC s
  else three s

def types_FxTarget_GetTarget (t : FxTarget) : Str :=
  if t.isIBC then t.SourceChannel ++ '/' :: t.Prefix else t.target

def types_FxTarget_String (t : FxTarget) : Str :=
  if t.isIBC then "ibc/".toList ++ strings_TrimPrefix t.SourceChannel "channel-".toList ++ '/' :: t.Prefix else t.target

def types_FxTarget_IsIBC (t : FxTarget) : Bool := t.isIBC

end Go

/-! ## extra renderers for derived arguments -/

def fmt_v_bool (b : Bool) : Str := fmt_t_bool b
def fmt_v_uint64 (n : Nat) : Str := fmtNat n
def fmt_d_int (n : Nat) : Str := fmtNat n
def fmt_v_int (n : Nat) : Str := fmtNat n
def fmt_x_uint64 (n : Nat) : Str := Nat.toDigits 16 n

end FxVerif.Model.C03
