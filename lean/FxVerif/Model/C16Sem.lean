import FxVerif.Gen.C16Sem
import FxVerif.Model.C16
/-!
# C16 semantic layer — what the regenerated guard expressions, helpers, handler bodies and the router dispatch MEAN

`Gen/C16Sem.lean` (regenerated on every run) contains, as terms of `Model/C16Syntax.lean`: every method of an in-repo type
whose request carries an `Authority`, statement by statement; the helpers its guards call; the Msg services, the
`RegisterMsgServer` sites with the concrete type registered, the struct embeddings; what `ValidateBasic` does with the
authority.  This file gives them an executable meaning:

* strings are code-point lists; `strings.EqualFold` is `foldEq` (exact whenever one side is ASCII, as the keeper
  authority is); `sdk.AccAddressFromBech32` is modelled in full (`accAddress`: btcutil bech32 `Decode` front checks,
  checksum, 5→8 bit regrouping, prefix, address-length verifier);
* `evalB` evaluates a guard condition for an authority string (helpers followed one level);
* `exec` runs a handler body statement by statement: rejecting `if`s, arbitrary work (universally quantified: may write
  and may return), delegation to another implementation resolved by Go's method promotion (`resolve`);
* `atoms`/`guardCmp`/`protectedAt` are the decision procedures the theorems in `Props/C16.lean` are proved sound for.

Core Lean only.
-/
namespace FxVerif.Model.C16
open FxVerif.Gen

/-! ## text -/

def isUpperC (n : Nat) : Bool := decide (65 ≤ n) && decide (n ≤ 90)
def isLowerC (n : Nat) : Bool := decide (97 ≤ n) && decide (n ≤ 122)
def lowerC (n : Nat) : Nat := if isUpperC n then n + 32 else n
def upperC (n : Nat) : Nat := if isLowerC n then n - 32 else n

/-- representative of the Unicode simple-case-folding orbit of a code point, for the orbits that contain an ASCII
character: `A–Z`/`a–z`, U+017F (ſ, folds with `s`) and U+212A (K, folds with `k`).  Every other code point is its own
representative here, which is exact for `strings.EqualFold(a, b)` whenever `a` or `b` is ASCII. -/
def foldC (n : Nat) : Nat := if n = 0x17F then 115 else if n = 0x212A then 107 else lowerC n

/-- `strings.EqualFold` -/
def foldEq (a b : Str) : Bool := a.map foldC == b.map foldC

def strOf (s : String) : Str := s.toList.map Char.toNat

/-! ## bech32 account addresses (`sdk.AccAddressFromBech32`) -/

def bechCharset : Str := strOf "qpzry9x8gf2tvdw0s3jn54khce6mua7l"

def bechGen : List Nat := [0x3b6a57b2, 0x26508e6d, 0x1ea119fa, 0x3d4233dd, 0x2a1462b3]

/-- one round of `bech32Polymod`: `b := chk >> 25; chk = (chk & 0x1ffffff) << 5 ^ v; chk ^= gen[i]` for the bits of `b` -/
def polyStep (chk v : Nat) : Nat :=
  let b := chk >>> 25
  let c := ((chk &&& 0x1ffffff) <<< 5) ^^^ v
  (List.range 5).foldl (fun acc i => if (b >>> i) &&& 1 == 1 then acc ^^^ bechGen.getD i 0 else acc) c

def polymod (hrp : Str) (values : List Nat) : Nat :=
  let c1 := hrp.foldl (fun c h => polyStep c (h >>> 5)) 1
  let c2 := polyStep c1 0
  let c3 := hrp.foldl (fun c h => polyStep c (h &&& 31)) c2
  values.foldl polyStep c3

def indexOf (xs : List Nat) (x : Nat) : Option Nat :=
  let rec go : List Nat → Nat → Option Nat
    | [], _ => none
    | y :: ys, i => if y == x then some i else go ys (i + 1)
  go xs 0

def lastIndexOf (xs : List Nat) (x : Nat) : Option Nat :=
  let rec go : List Nat → Nat → Option Nat → Option Nat
    | [], _, r => r
    | y :: ys, i, r => go ys (i + 1) (if y == x then some i else r)
  go xs 0 none

/-- `bech32.ConvertBits(data, 5, 8, false)` -/
def convert5to8 (data : List Nat) : Option (List Nat) :=
  let rec go : List Nat → Nat → Nat → List Nat → Option (List Nat)
    | [], acc, bits, out => if bits > 4 || acc != 0 then none else some out.reverse
    | d :: ds, acc, bits, out =>
      let acc := acc * 32 + d
      let bits := bits + 5
      if bits ≥ 8 then
        let bits := bits - 8
        go ds (acc % (2 ^ bits)) bits ((acc / (2 ^ bits)) :: out)
      else go ds acc bits out
  go data 0 0 []

/-- `Normalize`'s checks: every byte in 33..126 and not mixed case (a code point above 126 stands for bytes ≥ 0x80) -/
def bechFrontOk (s : Str) : Bool :=
  decide (8 ≤ s.length) && decide (s.length ≤ 1023) && s.all (fun c => decide (33 ≤ c) && decide (c ≤ 126)) &&
    !(s.any isLowerC && s.any isUpperC)

/-- `DecodeUnsafe` + `VerifyChecksum` on a lower-case string: (hrp, 5-bit data without the checksum) -/
def bechCore (s : Str) : Option (Str × List Nat) :=
  match lastIndexOf s 49 with   -- '1'
  | none => none
  | some one =>
    if one < 1 || one + 7 > s.length then none else
    let hrp := s.take one
    let data := s.drop (one + 1)
    match data.mapM (indexOf bechCharset) with
    | none => none
    | some vals => if polymod hrp vals == 1 then some (hrp, vals.take (vals.length - 6)) else none

/-- `bech32.DecodeAndConvert` up to the regrouping -/
def bechDecode (s : Str) : Option (Str × List Nat) :=
  if bechFrontOk s then bechCore (s.map lowerC) else none

def isSpaceC (c : Nat) : Bool := c == 32 || (decide (9 ≤ c) && decide (c ≤ 13)) || c == 0x85 || c == 0xA0

/-- address configuration of the running app: account prefix and the lengths the address verifier accepts -/
structure AddrCfg where
  pref : Str
  minLen : Nat
  maxLen : Nat
  /-- the string is the EIP-55 (Keccak-256 checksum) spelling of a 0x hex address — Keccak is not modelled; supplied by
  the harness (`eip55` lines); only the lenient decoder reads it -/
  eip55 : Str → Bool := fun _ => false

/-- `sdk.AccAddressFromBech32` -/
def accAddress (cfg : AddrCfg) (s : Str) : Option (List Nat) :=
  if s.all isSpaceC then none else
  match bechDecode s with
  | none => none
  | some (hrp, d5) =>
    match convert5to8 d5 with
    | none => none
    | some bz => if hrp == cfg.pref && decide (cfg.minLen ≤ bz.length) && decide (bz.length ≤ cfg.maxLen) then some bz else none

/-- operand of an address comparison: the decoded bytes, empty when the string does not decode (`addr, _ := …`) -/
def decodeOrEmpty (cfg : AddrCfg) (s : Str) : List Nat := (accAddress cfg s).getD []

/-! ## the other decoders a guard can put in front of its comparison (round 4) -/

/-- `common.BytesToAddress`: the last 20 bytes, left-padded with zeros -/
def evmAddr (bz : List Nat) : List Nat :=
  let t := bz.drop (bz.length - 20)
  List.replicate (20 - t.length) 0 ++ t

def hexVal (c : Nat) : Option Nat :=
  if 48 ≤ c ∧ c ≤ 57 then some (c - 48)
  else if 97 ≤ c ∧ c ≤ 102 then some (c - 87)
  else if 65 ≤ c ∧ c ≤ 70 then some (c - 55)
  else none

def hexBytes : List Nat → Option (List Nat)
  | [] => some []
  | [_] => none
  | a :: b :: rest =>
    match hexVal a, hexVal b, hexBytes rest with
    | some x, some y, some r => some ((x * 16 + y) :: r)
    | _, _, _ => none

/-- `fxtypes.ParseAddress`: `bech32.DecodeAndConvert` (no prefix check, no length check), else
`contract.ValidateEthereumAddress` (42 characters, `0x`, hex digits, EIP-55 spelling) and `common.HexToAddress` -/
def parseAddress (cfg : AddrCfg) (s : Str) : Option (List Nat) :=
  match (bechDecode s).bind (fun p => convert5to8 p.2) with
  | some bz => some bz
  | none => if s.length == 42 && s.take 2 == [48, 120] && cfg.eip55 s then hexBytes (s.drop 2) else none

/-- the bytes a decoder yields for an operand; what a failed decoding leaves in the variable (`nil`, and for `evm20`
the zero address `common.BytesToAddress(nil)`) -/
def decodeOr (cfg : AddrCfg) : Dec → Str → List Nat
  | .acc, s => decodeOrEmpty cfg s
  | .lenient, s => (parseAddress cfg s).getD []
  | .evm20, s => evmAddr (decodeOrEmpty cfg s)

def decOk (cfg : AddrCfg) : Dec → Str → Bool
  | .acc, s => (accAddress cfg s).isSome
  | .lenient, s => (parseAddress cfg s).isSome
  | .evm20, s => (accAddress cfg s).isSome

/-! ## evaluation of guard expressions -/

/-- comparison kinds an authority check can use -/
inductive CmpK where | strict | fold | addr | lenient | evm20
  deriving DecidableEq, Repr

def relK (cfg : AddrCfg) : CmpK → Str → Str → Bool
  | .strict, a, b => a == b
  | .fold, a, b => foldEq a b
  | .addr, a, b => decodeOrEmpty cfg a == decodeOrEmpty cfg b
  | .lenient, a, b => decodeOr cfg .lenient a == decodeOr cfg .lenient b
  | .evm20, a, b => decodeOr cfg .evm20 a == decodeOr cfg .evm20 b

def CmpK.ofDec : Dec → CmpK
  | .acc => .addr
  | .lenient => .lenient
  | .evm20 => .evm20

/-- everything a guard can depend on besides the request's authority -/
structure Env where
  cfg : AddrCfg
  gov : Str                         -- the keeper's authority (wired to the governance module account, see `authority_wired_to_gov`)
  modAddr : String → Str            -- `authtypes.NewModuleAddress(<expr>).String()`
  field : String → Str              -- other request fields
  otherS : String → Str             -- unrecognised string operands
  otherB : Nat → Bool               -- unrecognised conditions
  callB : String → Bool             -- helpers that are not followed
  otherH : String → Option Bool     -- unrecognised helper statements: return a value, or fall through
  listNonEmpty : String → Bool      -- the request's list field is non-empty
  payloadGood : Bool                -- every entry of every list of the payload passes the handler's entry validation
  clob : Nat → Option Bool          -- other assignments to a named result: the value assigned, or none
  stateModAddr : String → Str := fun _ => []
      -- the address string of a module account as the x/auth STATE has it (`GetModuleAccount(ctx, name).GetAddress().String()`)

def evalS (env : Env) (auth : Str) : SExpr → Str
  | .reqAuthority => auth
  | .keeperAuthority => env.gov
  | .moduleAddr n => env.modAddr n
  | .reqField f => env.field f
  | .param i => env.otherS ("param" ++ toString i)
  | .lit s => strOf s
  | .other src => env.otherS src
  | .moduleAccInState n => env.stateModAddr n

def substS (args : List SExpr) : SExpr → SExpr
  | .param i => args.getD i (.param i)
  | e => e

def substB (args : List SExpr) : BExpr → BExpr
  | .ne a b => .ne (substS args a) (substS args b)
  | .eq a b => .eq (substS args a) (substS args b)
  | .equalFold a b => .equalFold (substS args a) (substS args b)
  | .addrEq a b => .addrEq (substS args a) (substS args b)
  | .not x => .not (substB args x)
  | .and x y => .and (substB args x) (substB args y)
  | .or x y => .or (substB args x) (substB args y)
  | .call h as => .call h (as.map (substS args))
  | .other i s => .other i s
  | .decEq d a b => .decEq d (substS args a) (substS args b)
  | .decodes d a => .decodes d (substS args a)

def substH (args : List SExpr) : HStmt → HStmt
  | .retIf c v => .retIf (substB args c) v
  | .ret v => .ret v
  | .retB c => .retB (substB args c)
  | .setIf c v => .setIf (substB args c) v
  | .retVar => .retVar
  | .clobberLoop f => .clobberLoop f
  | .checkLoop f => .checkLoop f
  | .clobber i s => .clobber i s
  | .other s => .other s

/-- conditions, with the value of helper calls supplied by `callVal` -/
def evalBWith (env : Env) (auth : Str) (callVal : String → List SExpr → Bool) : BExpr → Bool
  | .ne a b => !(relK env.cfg .strict (evalS env auth a) (evalS env auth b))
  | .eq a b => relK env.cfg .strict (evalS env auth a) (evalS env auth b)
  | .equalFold a b => relK env.cfg .fold (evalS env auth a) (evalS env auth b)
  | .addrEq a b => relK env.cfg .addr (evalS env auth a) (evalS env auth b)
  | .not x => !(evalBWith env auth callVal x)
  | .and x y => evalBWith env auth callVal x && evalBWith env auth callVal y
  | .or x y => evalBWith env auth callVal x || evalBWith env auth callVal y
  | .call h as => callVal h as
  | .other i _ => env.otherB i
  | .decEq d a b => relK env.cfg (CmpK.ofDec d) (evalS env auth a) (evalS env auth b)
  | .decodes d a => decOk env.cfg d (evalS env auth a)

/-- conditions inside a helper body: further helper calls are not followed -/
def evalB0 (env : Env) (auth : Str) : BExpr → Bool := evalBWith env auth (fun h _ => env.callB h)

/-- value of a helper body: the first statement that returns decides; `cur` is the current value of a named result
(`false` = nil), which `return err` returns -/
def helperVal (env : Env) (auth : Str) : Bool → List HStmt → Bool
  | cur, [] => cur
  | cur, .retIf c v :: rest => if evalB0 env auth c then v else helperVal env auth cur rest
  | _, .ret v :: _ => v
  | _, .retB c :: _ => evalB0 env auth c
  | cur, .setIf c v :: rest => helperVal env auth (if evalB0 env auth c then v else cur) rest
  | cur, .retVar :: _ => cur
  | cur, .clobberLoop f :: rest =>
    if !env.listNonEmpty f then helperVal env auth cur rest      -- no iteration: the named result keeps its value
    else if env.payloadGood then helperVal env auth false rest   -- the last good entry left nil in it
    else true                                                     -- a bad entry: returns an error
  | cur, .checkLoop f :: rest =>
    if env.listNonEmpty f && !env.payloadGood then true else helperVal env auth cur rest
  | cur, .clobber i _ :: rest => helperVal env auth (match env.clob i with | some v => v | none => cur) rest
  | cur, .other s :: rest => match env.otherH s with | some v => v | none => helperVal env auth cur rest

def findHelper (hs : List Helper) (k : String) : Option Helper := hs.find? (fun h => h.key == k)

def callVal (hs : List Helper) (env : Env) (auth : Str) (h : String) (args : List SExpr) : Bool :=
  match findHelper hs h with
  | some hp => helperVal env auth false (hp.body.map (substH args))
  | none => env.callB h

/-- a guard condition of a handler, helpers followed one level -/
def evalB (hs : List Helper) (env : Env) (auth : Str) : BExpr → Bool := evalBWith env auth (callVal hs env auth)

/-! ## normal form of a guard: the set of comparisons it accepts -/

inductive Atom where
  | gov (c : CmpK)                 -- the request's authority against the keeper's authority
  | cmp (c : CmpK) (a b : SExpr)   -- any other comparison
  deriving DecidableEq, Repr

def Atom.holds (env : Env) (auth : Str) : Atom → Bool
  | .gov c => relK env.cfg c env.gov auth
  | .cmp c a b => relK env.cfg c (evalS env auth a) (evalS env auth b)

def isGovPair (a b : SExpr) : Bool :=
  (a == .keeperAuthority && b == .reqAuthority) || (a == .reqAuthority && b == .keeperAuthority)

def mkAtom (c : CmpK) (a b : SExpr) : Atom := if isGovPair a b then .gov c else .cmp c a b

/-- `atomsWith true b = some as`: `b` holds iff some atom of `as` holds;
    `atomsWith false b = some as`: `b` holds iff no atom of `as` holds -/
def atomsWith (callAtoms : Bool → String → List SExpr → Option (List Atom)) : Bool → BExpr → Option (List Atom)
  | true, .eq a b => some [mkAtom .strict a b]
  | false, .ne a b => some [mkAtom .strict a b]
  | true, .equalFold a b => some [mkAtom .fold a b]
  | true, .addrEq a b => some [mkAtom .addr a b]
  | true, .decEq d a b => some [mkAtom (CmpK.ofDec d) a b]
  | p, .not x => atomsWith callAtoms (!p) x
  | true, .or x y =>
    match atomsWith callAtoms true x, atomsWith callAtoms true y with
    | some as, some bs => some (as ++ bs)
    | _, _ => none
  | false, .and x y =>
    match atomsWith callAtoms false x, atomsWith callAtoms false y with
    | some as, some bs => some (as ++ bs)
    | _, _ => none
  | p, .call h as => callAtoms p h as
  | _, _ => none

def atoms0 : Bool → BExpr → Option (List Atom) := atomsWith (fun _ _ _ => none)

/-- helper bodies of the exact shapes -/
def helperAtoms (p : Bool) : List HStmt → Option (List Atom)
  | [.retIf c true, .ret false] => atoms0 p c
  | [.retIf c false, .ret true] => atoms0 (!p) c
  | [.retB c] => atoms0 p c
  | [.setIf c true, .retVar] => atoms0 p c
  | _ => none

def callAtoms (hs : List Helper) (p : Bool) (h : String) (args : List SExpr) : Option (List Atom) :=
  match findHelper hs h with
  | some hp => helperAtoms p (hp.body.map (substH args))
  | none => none

def atoms (hs : List Helper) : Bool → BExpr → Option (List Atom) := atomsWith (callAtoms hs)

/-- a rejecting condition is an authority guard of kind `c` when it holds exactly if the authority is NOT `c`-related to
the keeper's authority -/
def guardCmp (hs : List Helper) (g : BExpr) : Option CmpK :=
  match atoms hs false g with
  | some [.gov c] => some c
  | _ => none

/-! ## method resolution (Go method promotion) and execution of handler bodies -/

structure Program where
  helpers : List Helper
  impls : List Impl
  types : List TypeDecl

def declared (P : Program) (T m : String) : Option Impl := P.impls.find? (fun i => i.recv == T && i.method == m)

def embedsOf (P : Program) (T : String) : List String :=
  match P.types.find? (fun d => d.name == T) with
  | some d => d.embeds
  | none => []

/-- the method `m` declared at embedding depth exactly `d` below `T` -/
def resolveAt (P : Program) : Nat → String → String → Option Impl
  | 0, T, m => declared P T m
  | d + 1, T, m => (embedsOf P T).findSome? (fun E => resolveAt P d E m)

/-- Go's rule: the shallowest depth wins (the repo compiles, so it is unique at that depth) -/
def resolve (P : Program) (T m : String) : Option Impl :=
  (List.range 4).findSome? (fun d => resolveAt P d T m)

inductive Outcome (σ : Type) where
  | cont (s : σ)
  | ret (r : Res) (s : σ)

/-- everything outside the authority checks, universally quantified in the theorems -/
structure World (σ : Type) where
  work : String → String → Nat → σ → Outcome σ   -- (receiver type, method, statement index): arbitrary effect
  routeOk : Bool                                   -- the crosschain router has a route for the message's chain
  pick : Nat                                       -- which of several possible forward targets is the dynamic type
  unknown : σ → Res × σ                            -- unresolved method / recursion too deep: anything can happen
  ensureAcc : String → σ → σ := fun _ s => s       -- `GetModuleAccount`: creates the named module account when it is missing

def execBody {σ : Type} (hs : List Helper) (env : Env) (auth : Str) (W : World σ) (T m : String)
    (call : String → String → σ → Res × σ) : List Stmt → σ → Res × σ
  | [], s => (.ok, s)
  | .rejectIf g :: rest, s => if evalB hs env auth g then (.err, s) else execBody hs env auth W T m call rest s
  | .nop _ :: rest, s => execBody hs env auth W T m call rest s
  | .work id _ :: rest, s =>
    match W.work T m id s with
    | .cont s' => execBody hs env auth W T m call rest s'
    | .ret r s' => (r, s')
  | .forward needRoute targets m' :: _, s =>
    if needRoute && !W.routeOk then (.err, s) else
    match targets[W.pick % targets.length]? with
    | some T' => call T' m' s
    | none => W.unknown s
  | .ensureModuleAcc n _ :: rest, s => execBody hs env auth W T m call rest (W.ensureAcc n s)

/-- run method `m` on a value of concrete type `T` -/
def exec {σ : Type} (P : Program) (env : Env) (auth : Str) (W : World σ) : Nat → String → String → σ → Res × σ
  | 0, _, _, s => W.unknown s
  | f + 1, T, m, s =>
    match resolve P T m with
    | none => W.unknown s
    | some impl => execBody P.helpers env auth W impl.recv impl.method (exec P env auth W f) impl.body s

/-- operands that are values of the request / the keeper / constants (no call that could touch state) -/
def pureS : SExpr → Bool
  | .other _ => false
  | .moduleAccInState _ => false
  | _ => true

/-- a condition made only of comparisons and decodings of such operands: evaluating it cannot touch state (round 4) -/
def pureB : BExpr → Bool
  | .ne a b => pureS a && pureS b
  | .eq a b => pureS a && pureS b
  | .equalFold a b => pureS a && pureS b
  | .addrEq a b => pureS a && pureS b
  | .decEq _ a b => pureS a && pureS b
  | .decodes _ a => pureS a
  | .not x => pureB x
  | .and x y => pureB x && pureB y
  | .or x y => pureB x && pureB y
  | .call _ _ => false
  | .other _ _ => false

/-- decision procedure: the body starts (after statements that cannot touch state, and after rejecting `if`s whose
condition cannot touch state — `authority, err := decode(req.Authority); if err != nil { return … }`) with an authority
guard of kind `c`, or delegates to implementations that all do -/
def protectedBody (hs : List Helper) (chk : String → String → Option CmpK) : List Stmt → Option CmpK
  | .rejectIf g :: rest =>
    match guardCmp hs g with
    | some c => some c
    | none => if pureB g then protectedBody hs chk rest else none
  | .nop _ :: rest => protectedBody hs chk rest
  | .forward _ targets m :: _ =>
    match targets with
    | [] => none
    | T :: ts =>
      match chk T m with
      | none => none
      | some c => if ts.all (fun T' => chk T' m == some c) then some c else none
  | _ => none

def protectedAt (P : Program) : Nat → String → String → Option CmpK
  | 0, _, _ => none
  | f + 1, T, m =>
    match resolve P T m with
    | none => none
    | some impl => protectedBody P.helpers (protectedAt P f) impl.body

/-- the first statement of a body that is not a no-op, if it is a rejecting `if`: its condition -/
def firstGuard : List Stmt → Option BExpr
  | .rejectIf g :: _ => some g
  | .nop _ :: rest => firstGuard rest
  | _ => none

/-- the regenerated program -/
def prog : Program := ⟨C16Sem.helpers, C16Sem.impls, C16Sem.types⟩

/-- dispatch check for one registration: every authority-carrying method of the registered service resolves (by method
promotion from the registered concrete type) to an implementation for that very message, and that implementation is
protected -/
def registrationOk (P : Program) (svcs : List Service) (r : Registration) : Bool :=
  svcs.all fun sv =>
    sv.pkg != r.service ||
      sv.methods.all fun mm =>
        mm.2 == "" ||
          ((match resolve P r.impl mm.1 with | some i => i.msg == mm.2 | none => false) &&
            (protectedAt P 4 r.impl mm.1).isSome)

/-- every in-repo Msg service is registered (a service nobody registers is not routed; one registered with an unresolved
type would escape the table) -/
def serviceRegistered (regs : List Registration) (sv : Service) : Bool := regs.any (fun r => r.service == sv.pkg)

/-- `ValidateBasic` (run by the SDK router before the handler) decodes the authority as an account address -/
def vbDecodes (infos : List MsgInfo) (msg : String) : Bool :=
  match infos.find? (fun i => i.msg == msg) with
  | some i => i.hasValidateBasic && i.decodesAuthority
  | none => false

/-- where a routed message ends -/
inductive Stage where | authorityFormat | payload | handler
  deriving DecidableEq, Repr

/-- the routed pipeline for one message: ValidateBasic's authority check (when the message has one; it is the first
statement), the rest of ValidateBasic (`payloadOk`), then the handler -/
def routedStage {σ : Type} (P : Program) (infos : List MsgInfo) (env : Env) (auth : Str) (W : World σ)
    (payloadOk : Bool) (T m msg : String) (s : σ) : Stage × (Res × σ) :=
  if vbDecodes infos msg && (accAddress env.cfg auth).isNone then (.authorityFormat, (.err, s))
  else if !payloadOk then (.payload, (.err, s))
  else (.handler, exec P env auth W 4 T m s)

def routed {σ : Type} (P : Program) (infos : List MsgInfo) (env : Env) (auth : Str) (W : World σ)
    (payloadOk : Bool) (T m msg : String) (s : σ) : Res × σ :=
  (routedStage P infos env auth W payloadOk T m msg s).2

/-- a routed message runs on a branch of the state that is written back only on success (baseapp `runMsgs`; the
governance end-blocker per proposal) -/
def onBranch {σ : Type} (f : σ → Res × σ) (s : σ) : Res × σ :=
  match f s with
  | (.ok, s') => (.ok, s')
  | (.err, _) => (.err, s)

/-- the registration and method serving a message type: (registered concrete type, method) -/
def routeOf (svcs : List Service) (regs : List Registration) (msg : String) : Option (String × String) :=
  svcs.findSome? fun sv =>
    match sv.methods.find? (fun mm => mm.2 == msg) with
    | none => none
    | some mm =>
      match regs.find? (fun r => r.service == sv.pkg) with
      | some r => some (r.impl, mm.1)
      | none => none

/-- the implementation `m` resolves to on `T` starts (after statements that cannot touch state) with the per-chain server
lookup that errors when the crosschain router has no route for the message's chain -/
def needsRouteBody : List Stmt → Bool
  | .nop _ :: rest => needsRouteBody rest
  | .forward true _ _ :: _ => true
  | _ => false

def needsRoute (P : Program) (T m : String) : Bool :=
  match resolve P T m with
  | some impl => needsRouteBody impl.body
  | none => false

/-- the method of the Msg service that takes a message type -/
def methodOf (svcs : List Service) (msg : String) : Option String :=
  svcs.findSome? fun sv => (sv.methods.find? (fun mm => mm.2 == msg)).map (·.1)

end FxVerif.Model.C16
