import FxVerif.Gen.C17
/-!
# C17 model — the places where Go iterates a map or uses floating point on a state-affecting path

`Gen.C17.sites` (typed translator, regenerated every run) lists every `range` over a map (with a syntactic class of its
body; `+exit` marks a `break` / non-constant `return` out of the loop), every floating-point operation (marked
`in-maprange` when it is executed inside a range over a map; accumulations carry the shape of what is added),
`time.Now` (also every call of a dependency function whose body reads the clock: wrappers such as cometbft `tmtime.Now`),
`go`, `select`, random-number call (`rand`: also dependency wrappers of `math/rand` / `crypto/rand`), process-specific value
(`procValue`: `debug.Stack`, `runtime.Stack/Caller/NumGoroutine/…`, `os.Getpid`), environment read (`envRead`:
`os.Getenv/LookupEnv/Environ/ExpandEnv/Hostname/Getwd/UserHomeDir/…` and dependency wrappers of them, followed to a fixpoint
through the parsed dependency packages) and printed address (`pointerFormat`: `%p`, a formatted argument whose static type
reaches a pointer below the top level / a channel / a function without a `String`/`Error`/`Format` method, reflect /
unsafe pointer values) in the non-generated, non-CLI code of `x/…`, `app`, `ante`, `types`, `contract`.  Each site is assigned a *class*; each class has an order- and platform-independence theorem in
`Props/C17.lean` about the executable model of that computation given here.  A new site in the source is not in
`reviewed`, so `inventory_covered` stops checking.
-/
namespace FxVerif.Model.C17
open FxVerif.Gen.C17

inductive Class where
  | telemetry        -- float handed to the metrics sink only; never read back into state
  | permSum          -- Σ over map values of exact integers (PowerDiff): `absSum_perm`, `prefix_sums_exact`
  | floatOfExactInt  -- float ops of PowerDiff on integers < 2^53 and one final division: function of the integer sum
  | sortedUnique     -- collect map entries (distinct keys) then sort by key: `sorted_perm_unique`
  | permFold         -- accumulate with exact commutative addition (gov tally): `tally_perm`
  | mapCopy          -- copy into another map / JSON object keyed by the iteration key: `lookup_perm`
  | cliOnly          -- command-line option assembly, not executed in block processing
  | pureCompare      -- a float produced from an integer by a fixed function and only compared with 0
  | exportOnly       -- state export for a zero-height genesis (`app export`), never part of block execution
  | nodeConfig       -- default node home directory computed at package initialisation (CLI / config default, not state)
  deriving DecidableEq, Repr

/-- hand-reviewed sites, keyed by (package, function, kind, expression) — never by line number -/
def reviewed : List (String × String × String × String × Class) := [
  ("app", "App.AutoCliOpts", "mapRange", "app.mm.Modules", .cliOnly),
  ("app", "App.GetModules", "mapRange", "app.mm.Modules", .mapCopy),
  ("app", "GetMaccPerms", "mapRange", "maccPerms", .mapCopy),
  ("app", "ModuleAccountAddrs", "mapRange", "maccPerms", .mapCopy),
  ("app", "NewDefAppGenesisByDenom", "mapRange", "moduleBasics", .mapCopy),
  ("x/crosschain/keeper", "Keeper.AddOutgoingBridgeCallWithoutBuild", "float", "float32", .telemetry),
  ("x/crosschain/keeper", "Keeper.AddOutgoingBridgeCallWithoutBuild", "float", "telemetry.IncrCounterWithLabels", .telemetry),
  ("x/crosschain/keeper", "Keeper.BridgeCallHandler", "float", "float32", .telemetry),
  ("x/crosschain/keeper", "Keeper.BridgeCallHandler", "float", "telemetry.IncrCounterWithLabels", .telemetry),
  ("x/crosschain/keeper", "Keeper.GetAllBatchFees", "mapRange", "batchFeesMap", .sortedUnique),
  ("x/crosschain/keeper", "Keeper.SendToFxExecuted", "float", "float32", .telemetry),
  ("x/crosschain/keeper", "Keeper.SendToFxExecuted", "float", "telemetry.IncrCounterWithLabels", .telemetry),
  ("x/crosschain/keeper", "Keeper.SlashOracle", "float", "float32", .telemetry),
  ("x/crosschain/keeper", "Keeper.SlashOracle", "float", "telemetry.SetGaugeWithLabels", .telemetry),
  ("x/crosschain/keeper", "Keeper.addToOutgoingPool", "float", "telemetry.IncrCounterWithLabels", .telemetry),
  ("x/crosschain/keeper", "Keeper.isNeedOracleSetRequest", "float", "fmt.Sprintf", .floatOfExactInt),
  ("x/crosschain/keeper", "Keeper.isNeedOracleSetRequest", "float", "types.BridgeValidators(currentOracleSet.Members).PowerDiff", .floatOfExactInt),
  ("x/crosschain/keeper", "MsgServer.AddDelegate", "float", "float32", .telemetry),
  ("x/crosschain/keeper", "MsgServer.AddDelegate", "float", "telemetry.SetGaugeWithLabels", .telemetry),
  ("x/crosschain/types", "BridgeValidators.PowerDiff", "float", "in-maprange assignop += exact-int", .permSum),
  ("x/crosschain/types", "BridgeValidators.PowerDiff", "float", "in-maprange float64", .floatOfExactInt),
  ("x/crosschain/types", "BridgeValidators.PowerDiff", "float", "in-maprange math.Abs", .floatOfExactInt),
  ("x/crosschain/types", "BridgeValidators.PowerDiff", "float", "binop /", .floatOfExactInt),
  ("x/crosschain/types", "BridgeValidators.PowerDiff", "float", "float64", .floatOfExactInt),
  ("x/crosschain/types", "BridgeValidators.PowerDiff", "float", "math.Abs", .floatOfExactInt),
  ("x/crosschain/types", "BridgeValidators.PowerDiff", "mapRange", "powers", .permSum),
  ("x/crosschain/types", "GetSupportChains", "mapRange", "externalAddressRouter", .sortedUnique),
  ("x/erc20/keeper", "Keeper.ConvertCoin", "float", "telemetry.IncrCounterWithLabels", .telemetry),
  ("x/erc20/keeper", "Keeper.ConvertDenom", "float", "telemetry.IncrCounterWithLabels", .telemetry),
  ("x/erc20/keeper", "Keeper.ConvertERC20", "float", "telemetry.IncrCounterWithLabels", .telemetry),
  ("x/gov/keeper", "Keeper.Tally", "mapRange", "currValidators", .permFold),
  ("x/gov/types", "CustomParams.ValidateBasic", "float", "binop <=", .pureCompare),
  ("x/gov/types", "CustomParams.ValidateBasic", "float", "p.VotingPeriod.Seconds", .pureCompare),
  ("x/migrate/keeper", "Keeper.MigrateAccount", "float", "telemetry.IncrCounter", .telemetry),
  -- clock wrappers (dependency functions whose body reads the clock) and process-specific values
  ("x/gov", "EndBlocker", "timeNow", "github.com/cosmos/cosmos-sdk/telemetry.Now (calls time.Now)", .telemetry),
  ("app", "App.prepForZeroHeightGenesis", "timeNow", "github.com/cosmos/cosmos-sdk/x/crisis/keeper.Keeper.AssertInvariants (calls time.Now)", .exportOnly),
  ("types", "init", "envRead", "os.ExpandEnv", .nodeConfig),
  ("types", "init", "envRead", "os.UserHomeDir", .nodeConfig)
]

/-- hand-reviewed uses of a clock / random / environment source as a function VALUE (`Gen.C17.valueSites`), with the reason -/
def valueReviewed : List (String × String × String × String × String) := [
  ("app", "App.RegisterTendermintService", "timeNow", "github.com/cosmos/cosmos-sdk/baseapp.BaseApp.Query (function value)",
    "the node's ABCI Query entry point handed to the CometBFT gRPC service at start-up: it serves queries and is never part of block execution")
]

/-- a function-value use is admissible only in the node wiring of package `app`, and only when reviewed -/
def valueCovered (s : Site) : Bool :=
  s.pkg == "app" && valueReviewed.any (fun r => r.1 == s.pkg && r.2.1 == s.func && r.2.2.1 == s.kind && r.2.2.2.1 == s.expr)

def classify (s : Site) : Option Class :=
  (reviewed.find? (fun r => r.1 == s.pkg && r.2.1 == s.func && r.2.2.1 == s.kind && r.2.2.2.1 == s.expr)).map (·.2.2.2.2)

/-- a mapRange site may only be put in a class whose theorem matches what the translator saw in the loop body -/
def classConsistent (s : Site) (c : Class) : Bool :=
  if s.kind == "mapRange" then
    match c with
    | .sortedUnique => s.cls == "collect-sorted"
    | .permSum | .permFold => s.cls == "accumulate"
    | .mapCopy => s.cls == "assign" || s.cls == "effects"   -- app-level copies; `effects` = JSON/genesis map fill
    | .cliOnly => true
    | _ => false
  else if s.kind == "float" then
    match c with
    | .telemetry | .pureCompare => true
    -- the only float accumulation admitted inside a range over a map adds integers converted to float (exact below 2^53)
    | .permSum => s.expr == "in-maprange assignop += exact-int"
    -- conversions / |x| of integers inside the loop; one division, formatting and |x| after it: never float arithmetic
    -- (a product, quotient or inexact sum) inside a range over a map
    | .floatOfExactInt => ["in-maprange float64", "in-maprange math.Abs", "binop /", "float64", "math.Abs", "fmt.Sprintf",
        "types.BridgeValidators(currentOracleSet.Members).PowerDiff"].contains s.expr
    | _ => false
  else if s.kind == "timeNow" then
    match c with
    -- `telemetry.Now()` whose value is only handed to `telemetry.ModuleMeasureSince` (deferred metrics of the end blocker)
    | .telemetry => s.expr == "github.com/cosmos/cosmos-sdk/telemetry.Now (calls time.Now)" && s.func == "EndBlocker"
    | .exportOnly => s.pkg == "app" && s.func == "App.prepForZeroHeightGenesis"
    | _ => false   -- a direct time.Now / Since / Until, or any other wrapper, has no admissible class
  else if s.kind == "envRead" then
    match c with
    -- an environment read is admissible only at package initialisation of `types` (the default node home: a CLI / config
    -- default that no handler reads — `env_read_at_init_irrelevant`); the same holds for a dependency wrapper of one
    | .nodeConfig => s.pkg == "types" && s.func == "init"
    | _ => false
  else false   -- go / select / rand / procValue (stack traces, goroutine and cpu counts, pids) / pointerFormat (%p, printed
               -- addresses, %v of a value containing a pointer, reflect / unsafe pointer values) have no admissible class:
               -- any occurrence breaks the obligation

def covered (s : Site) : Bool :=
  match classify s with
  | some c => classConsistent s c
  | none => false

/-! ## executable models of the order-sensitive computations -/

/-- `PowerDiff`: the map `powers` after both loops, as an association list (address ↦ signed difference) -/
def mergePowers (b c : List (String × Nat)) : List (String × Int) :=
  let m₀ : List (String × Int) := b.foldl (fun m bv => (bv.1, (bv.2 : Int)) :: m.filter (fun e => e.1 != bv.1)) []
  c.foldl (fun m bv =>
    match m.find? (fun e => e.1 == bv.1) with
    | some e => (bv.1, e.2 - (bv.2 : Int)) :: m.filter (fun e => e.1 != bv.1)
    | none => (bv.1, -(bv.2 : Int)) :: m) m₀

/-- Σ |v| over the map values in iteration order `vals` -/
def absSum (vals : List Int) : Nat := (vals.map Int.natAbs).sum

/-! ### binary64 on non-negative integer values

`round53 n` is the value `float64(n)` holds: `n` rounded to 53 significant bits, ties to even (IEEE-754 round-to-nearest-even;
the exponent range is irrelevant for the magnitudes here).  `fadd` is the float addition of two such values: the exact sum,
rounded.  `fsumAbs` is the loop `for _, v := range powers { delta += math.Abs(float64(v)) }` in a given iteration order.
That Go's `float64(int64)` conversion and `+` are these functions is the (smaller) named assumption. -/

def round53 (n : Nat) : Nat :=
  let bits := if n = 0 then 0 else n.log2 + 1
  if bits ≤ 53 then n else
    let sh := bits - 53
    let q := n / 2 ^ sh
    let r := n % 2 ^ sh
    let half := 2 ^ (sh - 1)
    let q' := if r > half || (r == half && q % 2 == 1) then q + 1 else q
    q' * 2 ^ sh

def fadd (a b : Nat) : Nat := round53 (a + b)

def fsumAbs (vals : List Int) : Nat := vals.foldl (fun acc v => fadd acc (round53 v.natAbs)) 0

/-- the integer the float `delta` holds before the final division -/
def powerDiffNumerator (b c : List (String × Nat)) : Nat := absSum ((mergePowers b c).map (·.2))

/-- gov tally accumulation: each validator contributes (yes, abstain, no, veto, total) -/
abbrev Vec5 := Nat × Nat × Nat × Nat × Nat
def vadd (a b : Vec5) : Vec5 := (a.1 + b.1, a.2.1 + b.2.1, a.2.2.1 + b.2.2.1, a.2.2.2.1 + b.2.2.2.1, a.2.2.2.2 + b.2.2.2.2)
def tally (contribs : List Vec5) : Vec5 := contribs.foldl vadd (0, 0, 0, 0, 0)

/-- map copy: lookup in the map built by inserting the entries in iteration order -/
def mapLookup (entries : List (String × Nat)) (k : String) : Option Nat :=
  (entries.find? (fun e => e.1 == k)).map (·.2)

/-! ## `GetSupportChains` and `createBatchFees` + `GetAllBatchFees` (collect from a map, then sort by key) -/

def strLe (a b : String) : Bool := decide (a ≤ b)

/-- `GetSupportChains`: the keys of `externalAddressRouter`, sorted -/
def sortChains (l : List String) : List String := l.mergeSort strLe

/-- totals the fee map holds for one token: (Σ fee, Σ amount, number of txs) over the pool entries (token, fee, amount) -/
def tokenTotals (es : List (String × Nat × Nat)) (t : String) : Nat × Nat × Nat :=
  let mine := es.filter (fun e => e.1 == t)
  ((mine.map (·.2.1)).sum, (mine.map (·.2.2)).sum, mine.length)

/-- `GetAllBatchFees`: one entry per token of the pool, sorted by token -/
def allBatchFees (es : List (String × Nat × Nat)) : List (String × Nat × Nat × Nat) :=
  ((es.map (·.1)).eraseDups.mergeSort strLe).map fun t =>
    let r := tokenTotals es t
    (t, r.1, r.2.1, r.2.2)

end FxVerif.Model.C17
