import FxVerif.Model.C04Sig
/-!
# C04 model — bridge ledger: deposits, outgoing pool / batches / bridge calls, refunds, conversions

State = ledger (all assets of all token groups) + per-chain in-flight records + ghost counters `deposited`,
`withdrawn` per token group (only ever increased, never read by `step`).  Every operation is the flow of the Go
function(s) it stands for (`Model/Flows.lean`) followed by the store update; a failing flow leaves the state
unchanged (message-level cache context / EVM revert).

Configuration (`Cfg`): ownership kind of every token group and on which chains it has a bridge token (and an alias in
the bank metadata).  Chains are `0 … nChains-1`.
-/
namespace FxVerif.Model.C04
open FxVerif.Model.Ledger FxVerif.Model.Flows

def nChains : Nat := 3

structure Cfg where
  kind : Nat → Option Kind
  onChain : Nat → Nat → Bool
  /-- token-pair `Enabled` flag (static in this model; toggling is a C08 operation) -/
  enabled : Nat → Bool := fun _ => true
  /-- environment hypothesis, explicit: the external chain cannot send in (deposit) more of a token that originates
  on fxcore (FX, externally-owned pair) than circulates outside, i.e. what was there initially plus what the bridge
  executed out minus what already came back.  `false` = no restriction (the theorems that do not need it hold for
  both values). -/
  envBound : Bool := false
  /-- the group has an IBC voucher registered as one more alias of its base denomination (`Model/C04Ibc.lean`) -/
  ibcAlias : Nat → Bool := fun _ => false

structure PoolTx where
  id : Nat
  sender : Nat
  g : Nat
  amount : Nat
  fee : Nat
  /-- erc20 `OutgoingTransferRelation`: the transfer came from the precompile with an ERC-20 token, a refund goes
  back to the ERC-20 -/
  relation : Bool
  deriving DecidableEq, Repr

structure Batch where
  nonce : Nat
  g : Nat
  txs : List PoolTx
  deriving DecidableEq, Repr

structure OutCall where
  nonce : Nat
  sender : Nat
  refund : Nat
  tokens : List (Nat × Nat)   -- (group, amount)
  fromMsg : Bool
  deriving Repr

/-- Per-chain records.  `created`, `extLast`, `expired` are *ghost* components describing the external bridge contract
(never read by `step`): every batch ever built, the contract's `state_lastBatchNonces[token]` (set by `submitBatch`,
one entry PER TOKEN while fxcore allocates batch nonces from ONE counter per chain), and the batches whose external
timeout height has passed (environment). -/
structure ChainSt where
  pool : List PoolTx := []
  batches : List Batch := []
  calls : List OutCall := []
  nextTx : Nat := 1
  nextBatch : Nat := 1
  nextCall : Nat := 1
  created : List Batch := []
  extLast : Nat → Nat := fun _ => 0
  expired : List (Nat × Nat) := []
  /-- ghost: amount of each token group circulating on the external chain (initial + executed out − deposited) -/
  ext : Nat → Nat := fun _ => 0

structure State where
  L : Ledger
  chains : Nat → ChainSt
  deposited : Nat → Nat
  withdrawn : Nat → Nat

inductive Op where
  /-- observed `MsgSendToFxClaim` executed (`SendToFxExecuted`); `toErc`: target `erc20` -/
  | deposit (c g u n : Nat) (toErc : Bool)
  /-- `MsgSendToExternal` -/
  | send (c g u n fee : Nat)
  /-- precompile `crossChain` with the group's ERC-20 token -/
  | xsend (c g u n fee : Nat)
  /-- precompile `crossChain` with the zero token address and `msg.value = n + fee` (FX itself) -/
  | vsend (c g u n fee : Nat)
  /-- precompile `increaseBridgeFee` with the group's ERC-20 token -/
  | xincfee (c id u g n : Nat)
  /-- `MsgCancelSendToExternal` / precompile `cancelSendToExternal` -/
  | cancel (c id u : Nat)
  /-- `MsgIncreaseBridgeFee` with a coin of the bridge denomination of `(g, c)` -/
  | incfee (c id u g n : Nat)
  /-- `MsgRequestBatch{Denom = bridge denomination of (g, c), MinimumFee, BaseFee}` through the message router, signed by
  a registered bridger (`asOracle`) or by a plain user -/
  | batch (c g baseFee minFee : Nat) (asOracle : Bool)
  /-- observed `MsgSendToExternalClaim`: `OutgoingTxBatchExecuted` -/
  | executed (c g nonce : Nat)
  /-- batch timed out: `CancelOutgoingTxBatch` -/
  | btimeout (c g nonce : Nat)
  /-- `MsgBridgeCall` (`pre = false`) / precompile `bridgeCall` with ERC-20 tokens (`pre = true`) -/
  | bcout (c u r : Nat) (tokens : List (Nat × Nat)) (pre : Bool)
  /-- precompile `bridgeCall` with `msg.value = v` (FX, group `gfx`) in addition to ERC-20 tokens -/
  | vbcout (c gfx u r v : Nat) (tokens : List (Nat × Nat))
  /-- observed `MsgBridgeCallResultClaim` -/
  | bcresult (c nonce : Nat) (success : Bool)
  /-- outgoing bridge call timed out (`cleanupTimeOutBridgeCall`) -/
  | bctimeout (c nonce : Nat)
  /-- observed `MsgBridgeCallClaim` to a plain account `to` -/
  | bcin (c to : Nat) (tokens : List (Nat × Nat))
  /-- observed `MsgBridgeCallClaim` to a contract whose call fails; refund address `r` -/
  | bcinfail (c r : Nat) (tokens : List (Nat × Nat))
  /-- `MsgConvertCoin`, `MsgConvertERC20`, `MsgConvertDenom` -/
  | convertCoin (g u r n : Nat)
  | convertERC20 (g u r n : Nat)
  | convertDenom (g u r n : Nat) (src dst : Den)
  deriving Repr

/-! ### flows of the precompile entry points that only C04 models (x/crosschain/precompile) -/

/-- the precompile account and the evm module account (`handlerOriginToken`) -/
abbrev precompileAcc : Addr := .ext 2
abbrev evmMod : Addr := .ext 3

/-- `msg.value` of a precompile call: the EVM moves the value to the precompile address, `handlerOriginToken` hands it
back to the sender through the evm module account -/
def valueIn (g : Nat) (s : Addr) (n : Nat) : List Prim :=
  [.send (.base g) s precompileAcc n, .send (.base g) precompileAcc evmMod n, .send (.base g) evmMod s n]

/-- precompile `increaseBridgeFee`: the fee (a base coin after `handlerERC20Token`) becomes the chain's bridge
denomination through the erc20 module's `ConvertDenomToTarget` (escrow in `E`); FX is its own bridge denomination -/
def feeToBridgeDenom (k : Kind) (g c : Nat) (h : Addr) (n : Nat) : List Prim :=
  match k with
  | .fx => []
  | _ => convertDenom k g h n .base (.chain c)

/-- the contract whose call always reverts (receiver of failing inbound bridge calls) -/
def badContract : Addr := .ext 0

def U (u : Nat) : Addr := .user u

def setChain (s : State) (c : Nat) (cs : ChainSt) : State :=
  { s with chains := fun c' => if c' = c then cs else s.chains c' }

def bump (f : Nat → Nat) (g n : Nat) : Nat → Nat := fun g' => if g' = g then f g' + n else f g'

/-- bridge token of group `g` on chain `c` exists (`GetBridgeDenomByContract` / alias with the chain's prefix).  For
FX the bridge denomination is FX itself and the chain argument of `ManyToOne` is ignored. -/
def bridged (cfg : Cfg) (g c : Nat) : Option Kind :=
  if c < nChains ∧ cfg.onChain g c then cfg.kind g else none

/-- kinds for the erc20 message handlers: pair registered and enabled -/
def pairOk (cfg : Cfg) (g : Nat) : Option Kind := if cfg.enabled g then cfg.kind g else none

def run (s : State) (fl : List Prim) : Except Err State :=
  match runFlow fl s.L with
  | .ok L' => .ok { s with L := L' }
  | .error e => .error e

def tokensFlow (cfg : Cfg) (c : Nat) (tokens : List (Nat × Nat)) (f : Kind → Nat → Nat → List Prim) :
    Except Err (List Prim) :=
  tokens.foldlM (fun acc t =>
    match bridged cfg t.1 c with
    | some k => .ok (acc ++ f k t.1 t.2)
    | none => .error .notFound) []

def totalFees (txs : List PoolTx) : Nat := (txs.map (·.fee)).sum

def bumpAll (f : Nat → Nat) (tokens : List (Nat × Nat)) : Nat → Nat :=
  tokens.foldl (fun acc t => bump acc t.1 t.2) f

/-- first element satisfying `p`, and the list without it (the stores are keyed, so there is at most one) -/
def extract {α : Type} (p : α → Bool) : List α → Option (α × List α)
  | [] => none
  | x :: xs => if p x then some (x, xs) else
    match extract p xs with
    | some (y, ys) => some (y, x :: ys)
    | none => none

def tokensValue (g : Nat) (tokens : List (Nat × Nat)) : Nat :=
  (tokens.map (fun t => if t.1 = g then t.2 else 0)).sum

/-- end of every operation: store the chain's records, bump the ghost counters (deposits observed, withdrawals observed
as executed, and with them the amount circulating on the external chain) -/
def finish (s : State) (c : Nat) (cs : ChainSt) (dep wd : List (Nat × Nat)) : State :=
  let s1 := setChain s c { cs with ext := fun g => cs.ext g + tokensValue g wd - tokensValue g dep }
  { s1 with deposited := bumpAll s1.deposited dep, withdrawn := bumpAll s1.withdrawn wd }

/-- tokens whose bridge side locks / unlocks (they originate on fxcore): FX and externally-owned pairs -/
def locks (cfg : Cfg) (g : Nat) : Bool :=
  match cfg.kind g with
  | some .moduleOwned => false
  | some _ => true
  | none => false

/-- the environment can produce this deposit: for every locking token the external chain holds what it sends in -/
def envOk (cfg : Cfg) (cs : ChainSt) (tokens : List (Nat × Nat)) : Bool :=
  !cfg.envBound || tokens.all (fun t => !locks cfg t.1 || decide (tokensValue t.1 tokens ≤ cs.ext t.1))

def Op.chain? : Op → Option Nat
  | .deposit c .. | .send c .. | .xsend c .. | .vsend c .. | .xincfee c .. | .cancel c .. | .incfee c .. | .batch c .. | .executed c ..
  | .btimeout c .. | .bcout c .. | .vbcout c .. | .bcresult c .. | .bctimeout c .. | .bcin c .. | .bcinfail c .. => some c
  | _ => none

/-- operations that touch the batch records of their chain -/
def Op.touchesBatches : Op → Bool
  | .batch .. | .executed .. | .btimeout .. => true
  | _ => false

def batchValue (b : Batch) : Nat := (b.txs.map (fun t => t.amount + t.fee)).sum

/-- flow of `bridgeCallTransferTokens` (refund of a precompile-originated call goes back to the ERC-20) -/
def refundToEvmFlow (cfg : Cfg) (refund : Nat) (tokens : List (Nat × Nat)) : Except Err (List Prim) :=
  tokens.foldlM (fun acc t =>
    match cfg.kind t.1 with
    | some .fx => .ok acc
    | some k => (match pairOk cfg t.1 with
                 | some _ => .ok (acc ++ bridgeCallRefundToEvm k t.1 (U refund) t.2)
                 | none => .error .disabled)
    | none => .error .notFound) []

def pairsFlow (cfg : Cfg) (tokens : List (Nat × Nat)) (f : Kind → Nat → Nat → List Prim) : Except Err (List Prim) :=
  tokens.foldlM (fun acc t =>
    match pairOk cfg t.1 with
    | some k => .ok (acc ++ f k t.1 t.2)
    | none => .error .disabled) []

/-- a denomination of the group that exists (base, or an alias of a bridged chain) -/
def okDen (cfg : Cfg) (g : Nat) : Den → Bool
  | .base => true
  | .chain c => decide (c < nChains) && cfg.onChain g c

/-! ### `MsgRequestBatch` → `BuildOutgoingTxBatch`: the statements in source order

The two functions are modelled as *interpreters over their statement lists* (`List RStep`, `List BStep`); the lists
the model uses (`requestSteps`, `buildSteps`) are obliged to equal the lists regenerated from the Go AST
(`Gen.C04.requestBatch_steps`, `Gen.C04.buildOutgoingTxBatch_steps`).  `pickUnBatchedTx` *removes* the selected transfers
from the pool; they are written back (as a batch) only by `StoreBatch`.  Every early exit between the two must be an
error — only an error makes the message's cache context discard the removal — and the caller must propagate it. -/

inductive BGuard where
  | maxZero | notProfitable | pickErr | noTx | belowMinFee | zeroTimeout | storeErr | unknown
  deriving DecidableEq, Repr

/-- how an `if <guard> { return … }` leaves `BuildOutgoingTxBatch`: `return nil, err` or `return nil, nil` -/
inductive BExit where
  | err | okNoBatch
  deriving DecidableEq, Repr

inductive BStep where
  | guard (g : BGuard) (x : BExit)
  /-- `selectedTx, err := k.pickUnBatchedTx(…)` -/
  | pick
  /-- `nextID := k.autoIncrementID(…)`; `k.StoreBatch(ctx, batch)` -/
  | store
  deriving DecidableEq, Repr

/-- result of `BuildOutgoingTxBatch`: `(nil, err)`, `(nil, nil)`, `(batch, nil)` -/
inductive BOut where
  | err | nil | built
  deriving DecidableEq, Repr

structure BArgs where
  g : Nat
  baseFee : Nat
  minFee : Nat

structure BSt where
  cs : ChainSt
  /-- the Go variable `selectedTx` -/
  sel : List PoolTx := []
  built : Bool := false

/-- `pickUnBatchedTx` selects the transfers of the token whose fee is at least the base fee (pool below
`OutgoingTxBatchSize`) -/
def selects (a : BArgs) (t : PoolTx) : Bool := t.g == a.g && decide (a.baseFee ≤ t.fee)

/-- fees of the latest pending batch of the token (`GetLastOutgoingBatchByToken(...).GetFees()`), 0 if there is none -/
def lastBatchFees (cs : ChainSt) (g : Nat) : Nat :=
  ((cs.batches.filter (·.g == g)).foldl
    (fun (acc : Nat × Nat) b => if b.nonce > acc.1 then (b.nonce, totalFees b.txs) else acc) (0, 0)).2

def guardHolds (a : BArgs) (st : BSt) : BGuard → Bool
  | .maxZero => false            -- `RequestBatch` passes `OutgoingTxBatchSize`
  | .notProfitable => decide (lastBatchFees st.cs a.g > totalFees (st.cs.pool.filter (selects a)))
  | .pickErr => false
  | .noTx => st.sel.isEmpty
  | .belowMinFee => decide (totalFees st.sel < a.minFee)
  | .zeroTimeout => false        -- an external block height has been observed (environment)
  | .storeErr => false           -- at most one batch request per block (environment)
  | .unknown => false

def runBuild (a : BArgs) : List BStep → BSt → BSt × BOut
  | [], st => (st, if st.built then .built else .nil)
  | .guard g x :: r, st =>
    if guardHolds a st g then (st, match x with | .err => .err | .okNoBatch => .nil) else runBuild a r st
  | .pick :: r, st =>
    runBuild a r { st with
      cs := { st.cs with pool := st.cs.pool.filter (fun t => !selects a t) },
      sel := st.sel ++ st.cs.pool.filter (selects a) }
  | .store :: r, st =>
    let b : Batch := ⟨st.cs.nextBatch, a.g, st.sel⟩
    runBuild a r { st with
      cs := { st.cs with batches := b :: st.cs.batches, created := b :: st.cs.created, nextBatch := st.cs.nextBatch + 1 },
      built := true }

/-- statements of `BuildOutgoingTxBatch` (obliged to equal `Gen.C04.buildOutgoingTxBatch_steps`) -/
def buildSteps : List BStep :=
  [.guard .maxZero .err, .guard .notProfitable .err, .pick, .guard .pickErr .err, .guard .noTx .err,
   .guard .belowMinFee .err, .guard .zeroTimeout .err, .store, .guard .storeErr .err]

inductive RGuard where
  | badSender | noToken | notOracle | buildErr | nilBatch | unknown
  deriving DecidableEq, Repr

inductive RExit where
  | err | okEmpty
  deriving DecidableEq, Repr

inductive RStep where
  | guard (g : RGuard) (x : RExit)
  /-- `batch, err := s.BuildOutgoingTxBatch(…)` -/
  | build
  /-- `return &MsgRequestBatchResponse{BatchNonce: batch.BatchNonce}, nil` (dereferences `batch`) -/
  | respond
  deriving DecidableEq, Repr

structure RArgs where
  tokenFound : Bool
  asOracle : Bool
  b : BArgs

def rguardHolds (a : RArgs) (o : Option BOut) : RGuard → Bool
  | .badSender => false
  | .noToken => !a.tokenFound
  | .notOracle => !a.asOracle
  | .buildErr => o == some .err
  | .nilBatch => o == some .nil
  | .unknown => false

/-- `MsgServer.RequestBatch`; an `.error` result discards all writes (message-level cache context), an `.ok` result
commits the chain state as it is at that point -/
def runRequest (bs : List BStep) (a : RArgs) : List RStep → ChainSt × Option BOut → Except Err ChainSt
  | [], (cs, _) => .ok cs
  | .guard g x :: r, (cs, o) =>
    if rguardHolds a o g then (match x with | .err => .error .invalid | .okEmpty => .ok cs)
    else runRequest bs a r (cs, o)
  | .build :: r, (cs, _) =>
    let res := runBuild a.b bs { cs := cs }
    runRequest bs a r (res.1.cs, some res.2)
  | .respond :: _, (cs, o) => if o == some .built then .ok cs else .error .invalid   -- nil dereference: panic

/-- statements of `MsgServer.RequestBatch` (obliged to equal `Gen.C04.requestBatch_steps`) -/
def requestSteps : List RStep :=
  [.guard .badSender .err, .guard .noToken .err, .guard .notOracle .err, .build, .guard .buildErr .err, .respond]

/-- order condition on `BuildOutgoingTxBatch`: phase 0 = nothing picked, 1 = picked and not yet stored, 2 = stored.
While transfers are picked and not stored every exit must be an error; the function must not end in phase 1. -/
def safeOrder : Nat → List BStep → Bool
  | ph, [] => ph != 1
  | ph, .guard _ .err :: r => safeOrder ph r
  | ph, .guard _ .okNoBatch :: r => ph != 1 && safeOrder ph r
  | ph, .pick :: r => ph == 0 && safeOrder 1 r
  | ph, .store :: r => ph == 1 && safeOrder 2 r

/-- order condition on `RequestBatch` (`d`: a failed build may have left partial writes): an error of the build is
propagated before any successful return -/
def reqSafe : Bool → List RStep → Bool
  | d, [] => !d
  | _, .guard .buildErr .err :: r => reqSafe false r
  | d, .guard _ .err :: r => reqSafe d r
  | d, .guard .nilBatch .okEmpty :: r => reqSafe d r
  | d, .guard _ .okEmpty :: r => !d && reqSafe d r
  | d, .build :: r => !d && reqSafe true r
  | _, .respond :: _ => true

/-- statements of `ExecuteClaim` (precompile `executeClaim`): look the pending claim up, delete it from the pending
store, run its handler — in source order (regenerated: `Gen.C04.executeClaim_steps`) -/
inductive XStep where
  | lookup | delete | handle
  deriving DecidableEq, Repr

/-! ### `OutgoingTxBatchExecuted`: which other batches are cancelled; the external contract's acceptance rule -/

inductive Cmp where
  | lt | le | gt | ge | eq | ne | unknown
  deriving DecidableEq, Repr

def Cmp.eval : Cmp → Nat → Nat → Bool
  | .lt, a, b => decide (a < b)
  | .le, a, b => decide (a ≤ b)
  | .gt, a, b => decide (a > b)
  | .ge, a, b => decide (a ≥ b)
  | .eq, a, b => decide (a = b)
  | .ne, a, b => decide (a ≠ b)
  | .unknown, _, _ => false

/-- the guard of the cancel loop of `OutgoingTxBatchExecuted`:
`iterBatch.BatchNonce <cmp> batch.BatchNonce [&& iterBatch.TokenContract == tokenContract]` -/
structure CancelRule where
  cmp : Cmp
  sameToken : Bool
  deriving DecidableEq, Repr

/-- the rule the model uses (obliged to equal `Gen.C04.executedCancelRule`) -/
def cancelRule : CancelRule := ⟨.lt, true⟩

def cancels (r : CancelRule) (g nonce : Nat) (b : Batch) : Bool :=
  r.cmp.eval b.nonce nonce && (!r.sameToken || b.g == g)

def isBatch (g nonce : Nat) (b : Batch) : Bool := b.g == g && b.nonce == nonce

/-- WHICH batch the cancel loop of `OutgoingTxBatchExecuted` hands to `CancelOutgoingTxBatch`: the iterated batch's nonce or
the executed batch's (regenerated: `Gen.C04.executedCancelArg`) -/
inductive CancelArg where
  | iter | executed | unknown
  deriving DecidableEq, Repr

/-- the argument the model uses (obliged to equal `Gen.C04.executedCancelArg`) -/
def cancelArg : CancelArg := .iter

/-- `OutgoingTxBatchExecuted(token of g, nonce)` on the chain's records (the batch is known to exist): the cancelled
batches' transfers go back to the pool, the executed batch is deleted; ghost: the contract's last nonce of that
token -/
def executedWith (r : CancelRule) (cs : ChainSt) (g nonce : Nat) : ChainSt :=
  { cs with
    pool := (cs.batches.filter (cancels r g nonce)).flatMap (·.txs) ++ cs.pool,
    batches := cs.batches.filter (fun b => !cancels r g nonce b && !isBatch g nonce b),
    extLast := fun g' => if g' = g then nonce else cs.extLast g' }

/-- `OutgoingTxBatchExecuted` with the cancel call of the loop made explicit: for every stored batch the guard selects,
`CancelOutgoingTxBatch(token, <arg>)` runs.  With the ITERATED batch's nonce that is `executedWith`.  With the EXECUTED batch's
nonce the first selected batch makes the executed batch's own transfers go back to the pool (the older batch stays stored), and
a second selected batch finds the executed batch gone: `CancelOutgoingTxBatch` fails and the handler panics (`none`). -/
def executedWithArg (r : CancelRule) (a : CancelArg) (cs : ChainSt) (g nonce : Nat) : Option ChainSt :=
  match a with
  | .iter => some (executedWith r cs g nonce)
  | .unknown => none
  | .executed =>
    let ext := fun g' => if g' = g then nonce else cs.extLast g'
    match cs.batches.filter (cancels r g nonce) with
    | [] => some { cs with batches := cs.batches.filter (fun b => !isBatch g nonce b), extLast := ext }
    | [_] => some { cs with
        pool := (cs.batches.filter (isBatch g nonce)).flatMap (·.txs) ++ cs.pool,
        batches := cs.batches.filter (fun b => !isBatch g nonce b), extLast := ext }
    | _ => none

/-- the bridge contract's `submitBatch` still accepts the batch: it was signed (built) on fxcore,
`state_lastBatchNonces[token] <cmp> nonce` (`cmp` = `<`, regenerated from `FxBridgeLogic.sol`), and its timeout height has
not passed -/
def extAcceptsWith (cmp : Cmp) (cs : ChainSt) (b : Batch) : Prop :=
  b ∈ cs.created ∧ cmp.eval (cs.extLast b.g) b.nonce = true ∧ (b.g, b.nonce) ∉ cs.expired

def refundCall (cfg : Cfg) (s : State) (c : Nat) (call : OutCall) (cs' : ChainSt) : Except Err State := do
  let fl1 ← tokensFlow cfg c call.tokens (fun k g n => bridgeCallRefundCoin k g c (U call.refund) n)
  let fl2 ← if call.fromMsg then pure [] else refundToEvmFlow cfg call.refund call.tokens
  let s1 ← run s (fl1 ++ fl2)
  pure (finish s1 c cs' [] [])

def stepCore (cfg : Cfg) (s : State) : Op → Except Err State
  | .deposit c g u n toErc => do
    let some k := bridged cfg g c | .error .notFound
    if !envOk cfg (s.chains c) [(g, n)] then .error .invalid else
    let fl1 := bridgeTokenToBaseCoin k g c (U u) n
    let fl ← if toErc then
        (match pairOk cfg g with
         | some _ => pure (fl1 ++ convertCoin k g (U u) (U u) n)
         | none => .error .disabled)
      else pure fl1
    let s1 ← run s fl
    pure (finish s1 c (s1.chains c) [(g, n)] [])
  | .send c g u n fee => do
    -- `MsgSendToExternal.ValidateBasic` (run by the crosschain message router): amount and fee positive
    if n = 0 ∨ fee = 0 then .error .invalid else
    let some k := bridged cfg g c | .error .notFound
    let cs := s.chains c
    let s1 ← run s (baseCoinToBridgeToken k g c (U u) (n + fee))
    pure (finish s1 c { cs with pool := ⟨cs.nextTx, u, g, n, fee, false⟩ :: cs.pool, nextTx := cs.nextTx + 1 } [] [])
  | .xsend c g u n fee => do
    -- `CrossChainArgs.Validate`: amount positive
    if n = 0 then .error .invalid else
    let some kp := cfg.kind g | .error .notFound
    let some k := bridged cfg g c | .error .notFound
    let cs := s.chains c
    let s1 ← run s (precompileTokenIn kp g (U u) (n + fee) ++ baseCoinToBridgeToken k g c (U u) (n + fee))
    pure (finish s1 c { cs with pool := ⟨cs.nextTx, u, g, n, fee, true⟩ :: cs.pool, nextTx := cs.nextTx + 1 } [] [])
  | .vsend c g u n fee => do
    if n = 0 then .error .invalid else
    -- the zero token address stands for the origin token: only FX travels as `msg.value`
    if cfg.kind g ≠ some .fx then .error .notFound else
    let some k := bridged cfg g c | .error .notFound
    let cs := s.chains c
    let s1 ← run s (valueIn g (U u) (n + fee) ++ baseCoinToBridgeToken k g c (U u) (n + fee))
    pure (finish s1 c { cs with pool := ⟨cs.nextTx, u, g, n, fee, false⟩ :: cs.pool, nextTx := cs.nextTx + 1 } [] [])
  | .xincfee c id u g n => do
    if n = 0 then .error .invalid else
    let some kp := cfg.kind g | .error .notFound
    let cs := s.chains c
    let some (tx, rest) := extract (·.id == id) cs.pool | .error .notFound
    let some k := bridged cfg g c | .error .notFound
    if tx.g ≠ g then .error .invalid else
    let s1 ← run s (precompileTokenIn kp g (U u) n ++ feeToBridgeDenom k g c (U u) n ++ addBridgeFee k g c (U u) n)
    pure (finish s1 c { cs with pool := { tx with fee := tx.fee + n } :: rest } [] [])
  | .cancel c id u => do
    let cs := s.chains c
    let some (tx, rest) := extract (·.id == id) cs.pool | .error .notFound
    if tx.sender ≠ u then .error .invalid else
    let some k := bridged cfg tx.g c | .error .notFound
    let tot := tx.amount + tx.fee
    let fl1 := bridgeTokenToBaseCoin k tx.g c (U u) tot
    let fl ← if tx.relation then
        (match pairOk cfg tx.g with
         | some _ => pure (fl1 ++ convertCoin k tx.g (U u) (U u) tot)
         | none => .error .disabled)
      else pure fl1
    let s1 ← run s fl
    pure (finish s1 c { cs with pool := rest } [] [])
  | .incfee c id u g n => do
    if n = 0 then .error .invalid else
    let cs := s.chains c
    let some (tx, rest) := extract (·.id == id) cs.pool | .error .notFound
    let some k := bridged cfg g c | .error .notFound
    if tx.g ≠ g then .error .invalid else
    let s1 ← run s (addBridgeFee k g c (U u) n)
    pure (finish s1 c { cs with pool := { tx with fee := tx.fee + n } :: rest } [] [])
  | .batch c g baseFee minFee asOracle => do
    -- `MsgRequestBatch.ValidateBasic` (message router): minimum fee positive
    if minFee = 0 then .error .invalid else
    let cs ← runRequest buildSteps ⟨(bridged cfg g c).isSome, asOracle, ⟨g, baseFee, minFee⟩⟩ requestSteps (s.chains c, none)
    pure (finish s c cs [] [])
  | .executed c g nonce => do
    let cs := s.chains c
    let exec := cs.batches.filter (isBatch g nonce)
    if exec.isEmpty then .error .notFound else
    pure (finish s c (executedWith cancelRule cs g nonce)
      [] (exec.flatMap (fun b => b.txs.map (fun t => (t.g, t.amount + t.fee)))))
  | .btimeout c g nonce => do
    let cs := s.chains c
    let sel := cs.batches.filter (isBatch g nonce)
    if sel.isEmpty then .error .notFound else
    pure (finish s c { cs with
      pool := sel.flatMap (·.txs) ++ cs.pool,
      batches := cs.batches.filter (fun b => !isBatch g nonce b),
      expired := (g, nonce) :: cs.expired } [] [])
  | .bcout c u r tokens pre => do
    let cs := s.chains c
    let flIn ← if pre then pairsFlow cfg tokens (fun k g n => convertERC20 k g (U u) (U u) n) else pure []
    let flOut ← tokensFlow cfg c tokens (fun k g n => baseCoinToBridgeToken k g c (U u) n)
    let s1 ← run s (flIn ++ flOut)
    pure (finish s1 c { cs with
      calls := ⟨cs.nextCall, u, r, tokens, !pre⟩ :: cs.calls, nextCall := cs.nextCall + 1 } [] [])
  | .vbcout c gfx u r v tokens => do
    -- `value.Cmp(0) == 1`: the origin coin is prepended to the converted tokens
    if v = 0 then .error .invalid else
    if cfg.kind gfx ≠ some .fx then .error .notFound else
    let cs := s.chains c
    let flIn ← pairsFlow cfg tokens (fun k g n => convertERC20 k g (U u) (U u) n)
    let flOut ← tokensFlow cfg c ((gfx, v) :: tokens) (fun k g n => baseCoinToBridgeToken k g c (U u) n)
    let s1 ← run s (valueIn gfx (U u) v ++ (flIn ++ flOut))
    pure (finish s1 c { cs with
      calls := ⟨cs.nextCall, u, r, (gfx, v) :: tokens, false⟩ :: cs.calls, nextCall := cs.nextCall + 1 } [] [])
  | .bcresult c nonce success => do
    let cs := s.chains c
    let some (call, rest) := extract (·.nonce == nonce) cs.calls | .error .notFound
    let cs' := { cs with calls := rest }
    if success then pure (finish s c cs' [] call.tokens)
    else refundCall cfg s c call cs'
  | .bctimeout c nonce => do
    let cs := s.chains c
    let some (call, rest) := extract (·.nonce == nonce) cs.calls | .error .notFound
    refundCall cfg s c call { cs with calls := rest }
  | .bcin c to tokens => do
    if !envOk cfg (s.chains c) tokens then .error .invalid else
    let fl1 ← tokensFlow cfg c tokens (fun k g n => bridgeTokenToBaseCoin k g c (U to) n)
    let fl2 ← pairsFlow cfg tokens (fun k g n => convertCoin k g (U to) (U to) n)
    let s1 ← run s (fl1 ++ fl2)
    pure (finish s1 c (s1.chains c) tokens [])
  | .bcinfail c r tokens => do
    let cs := s.chains c
    if !envOk cfg cs tokens then .error .invalid else
    -- credit to the callee outside the cache context; the EVM part fails and is discarded; the credited coins are
    -- handed to the refund address (`SendCoins(receiver, refundAddr, baseCoins)`), and the refund is an outgoing bridge
    -- call built from the refund address' coins
    let fl1 ← tokensFlow cfg c tokens (fun k g n =>
      bridgeTokenToBaseCoin k g c badContract n ++ [.send (.base g) badContract (U r) n])
    let fl2 ← tokensFlow cfg c tokens (fun k g n => baseCoinToBridgeToken k g c (U r) n)
    let s1 ← run s (fl1 ++ fl2)
    pure (finish s1 c { cs with
      calls := ⟨cs.nextCall, r, r, tokens, false⟩ :: cs.calls, nextCall := cs.nextCall + 1 } tokens [])
  | .convertCoin g u r n => do
    let some k := pairOk cfg g | .error .disabled
    run s (convertCoin k g (U u) (U r) n)
  | .convertERC20 g u r n => do
    let some k := pairOk cfg g | .error .disabled
    run s (convertERC20 k g (U u) (U r) n)
  | .convertDenom g u r n src dst => do
    let some k := cfg.kind g | .error .notFound
    -- `ToTargetDenom`: a target chain without an alias falls back to the base denomination
    let dst := if okDen cfg g dst then dst else .base
    if k = .fx ∨ src = dst then .error .invalid else
    if !(okDen cfg g src && okDen cfg g dst) then .error .notFound else
    let fl := convertDenom k g (U u) n src dst ++
      (if u = r then [] else [.send (dst.asset g) (U u) E n, .send (dst.asset g) E (U r) n])
    run s fl

/-- flow of the refund of an outgoing bridge call -/
def refundFlow (cfg : Cfg) (c : Nat) (call : OutCall) : Except Err (List Prim) := do
  let fl1 ← tokensFlow cfg c call.tokens (fun k g n => bridgeCallRefundCoin k g c (U call.refund) n)
  let fl2 ← if call.fromMsg then pure [] else refundToEvmFlow cfg call.refund call.tokens
  pure (fl1 ++ fl2)

/-- **the ledger flow of an operation**: the list of bank / ERC-20 primitives a successful `stepCore cfg s op` runs on
the ledger (`Proofs.C04.stepCore_flow`); operations that only touch records have the empty flow.  Statements about what
an operation does to balances are statements about this list. -/
def opFlow (cfg : Cfg) (s : State) : Op → Except Err (List Prim)
  | .deposit c g u n toErc => do
    let some k := bridged cfg g c | .error .notFound
    let fl1 := bridgeTokenToBaseCoin k g c (U u) n
    if toErc then
      (match pairOk cfg g with
       | some _ => pure (fl1 ++ convertCoin k g (U u) (U u) n)
       | none => .error .disabled)
    else pure fl1
  | .send c g u n fee => do
    let some k := bridged cfg g c | .error .notFound
    pure (baseCoinToBridgeToken k g c (U u) (n + fee))
  | .xsend c g u n fee => do
    let some kp := cfg.kind g | .error .notFound
    let some k := bridged cfg g c | .error .notFound
    pure (precompileTokenIn kp g (U u) (n + fee) ++ baseCoinToBridgeToken k g c (U u) (n + fee))
  | .vsend c g u n fee => do
    let some k := bridged cfg g c | .error .notFound
    pure (valueIn g (U u) (n + fee) ++ baseCoinToBridgeToken k g c (U u) (n + fee))
  | .xincfee c _ u g n => do
    let some kp := cfg.kind g | .error .notFound
    let some k := bridged cfg g c | .error .notFound
    pure (precompileTokenIn kp g (U u) n ++ feeToBridgeDenom k g c (U u) n ++ addBridgeFee k g c (U u) n)
  | .cancel c id u => do
    let some (tx, _) := extract (·.id == id) (s.chains c).pool | .error .notFound
    let some k := bridged cfg tx.g c | .error .notFound
    let tot := tx.amount + tx.fee
    let fl1 := bridgeTokenToBaseCoin k tx.g c (U u) tot
    if tx.relation then
      (match pairOk cfg tx.g with
       | some _ => pure (fl1 ++ convertCoin k tx.g (U u) (U u) tot)
       | none => .error .disabled)
    else pure fl1
  | .incfee c _ u g n => do
    let some k := bridged cfg g c | .error .notFound
    pure (addBridgeFee k g c (U u) n)
  | .batch .. => pure []
  | .executed .. => pure []
  | .btimeout .. => pure []
  | .bcout c u _ tokens pre => do
    let flIn ← if pre then pairsFlow cfg tokens (fun k g n => convertERC20 k g (U u) (U u) n) else pure []
    let flOut ← tokensFlow cfg c tokens (fun k g n => baseCoinToBridgeToken k g c (U u) n)
    pure (flIn ++ flOut)
  | .vbcout c gfx u _ v tokens => do
    let flIn ← pairsFlow cfg tokens (fun k g n => convertERC20 k g (U u) (U u) n)
    let flOut ← tokensFlow cfg c ((gfx, v) :: tokens) (fun k g n => baseCoinToBridgeToken k g c (U u) n)
    pure (valueIn gfx (U u) v ++ (flIn ++ flOut))
  | .bcresult c nonce success => do
    let some (call, _) := extract (·.nonce == nonce) (s.chains c).calls | .error .notFound
    if success then pure [] else refundFlow cfg c call
  | .bctimeout c nonce => do
    let some (call, _) := extract (·.nonce == nonce) (s.chains c).calls | .error .notFound
    refundFlow cfg c call
  | .bcin c to tokens => do
    let fl1 ← tokensFlow cfg c tokens (fun k g n => bridgeTokenToBaseCoin k g c (U to) n)
    let fl2 ← pairsFlow cfg tokens (fun k g n => convertCoin k g (U to) (U to) n)
    pure (fl1 ++ fl2)
  | .bcinfail c r tokens => do
    let fl1 ← tokensFlow cfg c tokens (fun k g n =>
      bridgeTokenToBaseCoin k g c badContract n ++ [.send (.base g) badContract (U r) n])
    let fl2 ← tokensFlow cfg c tokens (fun k g n => baseCoinToBridgeToken k g c (U r) n)
    pure (fl1 ++ fl2)
  | .convertCoin g u r n => do
    let some k := pairOk cfg g | .error .disabled
    pure (convertCoin k g (U u) (U r) n)
  | .convertERC20 g u r n => do
    let some k := pairOk cfg g | .error .disabled
    pure (convertERC20 k g (U u) (U r) n)
  | .convertDenom g u r n src dst => do
    let some k := cfg.kind g | .error .notFound
    let dst := if okDen cfg g dst then dst else .base
    pure (convertDenom k g (U u) n src dst ++
      (if u = r then [] else [.send (dst.asset g) (U u) E n, .send (dst.asset g) E (U r) n]))

/-- **what an operation says it moves**: the change of the holdings of account `x` (a user `U u`, a contract, …) in token
group `g'` (base coin, bridge denominations and ERC-20 together) that the operation states, read in the pre-state — the sender of a transfer pays
amount + fee, a cancel / refund gives back exactly what the record holds, a fee increase costs the added fee, a
conversion moves the amount from sender to receiver, building / executing / timing out a batch moves nothing -/
def stated (s : State) (op : Op) (x : Addr) (g' : Nat) : Int :=
  let one (g u n : Nat) : Int := if g = g' ∧ U u = x then (n : Int) else 0
  let many (u : Nat) (ts : List (Nat × Nat)) : Int := if U u = x then (tokensValue g' ts : Int) else 0
  match op with
  | .deposit _ g u n _ => one g u n
  | .send _ g u n fee => - one g u (n + fee)
  | .xsend _ g u n fee => - one g u (n + fee)
  | .vsend _ g u n fee => - one g u (n + fee)
  | .incfee _ _ u g n => - one g u n
  | .xincfee _ _ u g n => - one g u n
  | .cancel c id u =>
    match extract (·.id == id) (s.chains c).pool with
    | some (tx, _) => one tx.g u (tx.amount + tx.fee)
    | none => 0
  | .batch .. => 0
  | .executed .. => 0
  | .btimeout .. => 0
  | .bcout _ u _ ts _ => - many u ts
  | .vbcout _ gfx u _ v ts => - many u ((gfx, v) :: ts)
  | .bcresult c nonce success =>
    if success then 0 else
    match extract (·.nonce == nonce) (s.chains c).calls with
    | some (call, _) => many call.refund call.tokens
    | none => 0
  | .bctimeout c nonce =>
    match extract (·.nonce == nonce) (s.chains c).calls with
    | some (call, _) => many call.refund call.tokens
    | none => 0
  | .bcin _ to ts => many to ts
  | .bcinfail .. => 0
  | .convertCoin g u r n => one g r n - one g u n
  | .convertERC20 g u r n => one g r n - one g u n
  | .convertDenom g u r n _ _ => one g r n - one g u n

/-- operations on a chain outside `0 … nChains-1` are rejected (no such route) -/
def step (cfg : Cfg) (s : State) (op : Op) : Except Err State :=
  match op.chain? with
  | some c => if c < nChains then stepCore cfg s op else .error .notFound
  | none => stepCore cfg s op

/-- total step: a failing operation leaves the state unchanged -/
def stepT (cfg : Cfg) (s : State) (op : Op) : State :=
  match step cfg s op with
  | .ok s' => s'
  | .error _ => s

def runOps (cfg : Cfg) (s : State) (ops : List Op) : State := ops.foldl (stepT cfg) s

/-! ### in-flight value and initial state -/

def poolValue (g : Nat) (txs : List PoolTx) : Nat :=
  (txs.map (fun t => if t.g = g then t.amount + t.fee else 0)).sum

def chainInFlight (g : Nat) (cs : ChainSt) : Nat :=
  poolValue g cs.pool + (cs.batches.map (fun b => poolValue g b.txs)).sum
    + (cs.calls.map (fun cl => tokensValue g cl.tokens)).sum

def inFlight (s : State) (g : Nat) : Nat :=
  chainInFlight g (s.chains 0) + chainInFlight g (s.chains 1) + chainInFlight g (s.chains 2)

/-- all assets of a group -/
def assets (g : Nat) : List Asset := [.base g, .bridge g 0, .bridge g 1, .bridge g 2, .erc g]

/-- accounts that are not holders: the crosschain module accounts, the erc20 module account, the WFX contract -/
def modules : List Addr := [.chainMod 0, .chainMod 1, .chainMod 2, .erc20Mod, .wfx]

/-- initial state: ledger `L`, no records, `e0 c g` of group `g` circulating on external chain `c` -/
def initE (L : Ledger) (e0 : Nat → Nat → Nat) : State := ⟨L, fun c => { ext := e0 c }, fun _ => 0, fun _ => 0⟩

def init (L : Ledger) : State := initE L (fun _ _ => 0)

end FxVerif.Model.C04
