import FxVerif.Gen.C16Sem
import FxVerif.Model.C16
/-!
# C16 — the raw store update (`MsgUpdateStore`) in full

* state: all stores at once, a finite map from (store space, key) to value (absent = empty value, as
  `bytes.Equal(nil, []byte{})`);
* `runProg`: an interpreter for the regenerated loop program `Gen.C16Sem.updateStoreProg` (the statements of the handler's
  `range req.UpdateStores` loop(s) in source order: look the space up, read the current value, compare with the stated
  old value, write) — so the ORDER of read / compare / write per entry is read off the Go source;
* `casAll`: the specification — sequential compare-and-set, every entry against the value current when it is reached;
* the handler writes into the context it is given (entries before a failing one stay written THERE); `viaCache` is the
  branch-and-write-back-on-success that baseapp (per transaction) and the SDK governance end-blocker (per proposal)
  put around it; `runProposal` runs several messages on one branch.

Core Lean only.
-/
namespace FxVerif.Model.C16
open FxVerif.Gen

abbrev Bytes := List Nat
abbrev SKey := String × Bytes
abbrev Stores := List (SKey × Bytes)

def sGet (S : Stores) (k : SKey) : Bytes :=
  match S.find? (fun p => decide (p.1 = k)) with
  | some p => p.2
  | none => []

def sSet (S : Stores) (k : SKey) (v : Bytes) : Stores := (k, v) :: S.filter (fun p => !decide (p.1 = k))

structure Entry where
  space : String
  key : Bytes
  old : Bytes
  new : Bytes
  deriving DecidableEq, Repr

def Entry.sk (e : Entry) : SKey := (e.space, e.key)

/-- `entry.<field>ToBytes()` -/
def Entry.field (e : Entry) (f : String) : Bytes :=
  if f = "OldValue" then e.old else if f = "Value" then e.new else if f = "Key" then e.key else []

abbrev Locals := List (String × Bytes)

def lget (L : Locals) (v : String) : Bytes :=
  match L.find? (fun p => decide (p.1 = v)) with
  | some p => p.2
  | none => []

/-- one statement of the loop body for entry `e`; `none` = the handler returns an error (or panics: a store space that
is not a known store key gives a nil key) -/
def ustep (known : List String) (e : Entry) : UStep → Stores × Locals → Option (Stores × Locals)
  | .lookupSpace, st => if known.contains e.space then some st else none
  | .get v, (S, L) => if known.contains e.space then some (S, (v, sGet S e.sk) :: L) else none
  | .failUnlessEq v f, (S, L) => if lget L v = e.field f then some (S, L) else none
  | .set f, (S, L) => if known.contains e.space then some (sSet S e.sk (e.field f), L) else none
  | .other _, _ => none

/-- the loop body for one entry: (completed?, stores at that point) -/
def runEntry (known : List String) (e : Entry) : List UStep → Stores → Locals → Bool × Stores
  | [], S, _ => (true, S)
  | u :: us, S, L =>
    match ustep known e u (S, L) with
    | none => (false, S)
    | some (S', L') => runEntry known e us S' L'

def runLoop (known : List String) (steps : List UStep) : List Entry → Stores → Bool × Stores
  | [], S => (true, S)
  | e :: es, S =>
    match runEntry known e steps S [] with
    | (false, S') => (false, S')
    | (true, S') => runLoop known steps es S'

/-- the loops one after the other, each over all entries -/
def runProg (known : List String) : List (List UStep) → List Entry → Stores → Bool × Stores
  | [], _, S => (true, S)
  | l :: ls, es, S =>
    match runLoop known l es S with
    | (false, S') => (false, S')
    | (true, S') => runProg known ls es S'

/-- specification: compare-and-set entry by entry, each against the value current when it is reached -/
def casAll (known : List String) : List Entry → Stores → Bool × Stores
  | [], S => (true, S)
  | e :: es, S =>
    if !known.contains e.space then (false, S)
    else if sGet S e.sk ≠ e.old then (false, S)
    else casAll known es (sSet S e.sk e.new)

/-- the writes of a list of entries, unconditionally -/
def writes (es : List Entry) (S : Stores) : Stores := es.foldl (fun S e => sSet S e.sk e.new) S

/-- the handler on the context it is given -/
def updateStoreHandler (known : List String) (gov auth : Str) (es : List Entry) (S : Stores) : Res × Stores :=
  if auth ≠ gov then (.err, S) else
  match runProg known C16Sem.updateStoreProg es S with
  | (true, S') => (.ok, S')
  | (false, S') => (.err, S')

/-- run on a branch of the stores; write back only on success (baseapp `runMsgs` per transaction, the governance
end-blocker per proposal) -/
def viaCache (f : Stores → Res × Stores) (S : Stores) : Res × Stores :=
  match f S with
  | (.ok, S') => (.ok, S')
  | (.err, _) => (.err, S)

def updateStoreMsg (known : List String) (gov auth : Str) (es : List Entry) : Stores → Res × Stores :=
  viaCache (updateStoreHandler known gov auth es)

/-- several messages in order on ONE branch, stopping at the first error -/
def runMsgs : List (Stores → Res × Stores) → Stores → Res × Stores
  | [], S => (.ok, S)
  | f :: fs, S =>
    match f S with
    | (.ok, S') => runMsgs fs S'
    | (.err, S') => (.err, S')

def runProposal (fs : List (Stores → Res × Stores)) : Stores → Res × Stores := viaCache (runMsgs fs)

/-- the message loop of the end-blocker as written: `err` is the result of the LAST executed message, so without the
`break` a later success would hide an earlier failure -/
def loopMsgs (brk : Bool) : List (Stores → Res × Stores) → Stores → Res → Res × Stores
  | [], X, e => (e, X)
  | f :: fs, X, _ =>
    match f X with
    | (.ok, X') => loopMsgs brk fs X' .ok
    | (.err, X') => if brk then (.err, X') else loopMsgs brk fs X' .err

/-- proposal execution as the regenerated facts describe it -/
def runProposalWith (pe : ProposalExec) (fs : List (Stores → Res × Stores)) (S : Stores) : Res × Stores :=
  match loopMsgs pe.breaksOnError fs S .ok with
  | (e, X) =>
    if pe.runsOnCache then (if e == .ok || !pe.writeGuardedByNoError then (e, X) else (e, S)) else (e, X)

end FxVerif.Model.C16
