import FxVerif.Gen.C17
/-!
# C17 model — sorting with a comparator that may leave ties

`Gen.C17.sortSites` (typed translator, regenerated every run) lists every call of `sort.Slice / SliceStable / Sort / Stable /
Strings / Ints / slices.Sort*` in the scanned packages together with its **comparator program**: the keys of the
lexicographic comparison read from the `less` function literal or the `Less` method (field path, direction, kind), the
fields of the element type, where the sorted slice gets its elements from and the receiver of the enclosing function.

Go's `sort.Slice` / `sort.Sort` are *unstable* and their algorithm is not part of the language (it changed from quicksort
to pdqsort in Go 1.19).  All the specification promises is: the result is a permutation of the input in which no later
element is `less` than an earlier one — a `Sorter` below.  If the comparator separates any two distinct elements the
result is unique: the same for every algorithm and every order in which the input was collected (ranging over a map
included) — `sorter_unique`.  If it leaves a tie between distinct elements the result is algorithm-defined
(`ties_algorithm_dependent`), and schedule-defined as soon as the input order comes from a map.

The comparator program is INTERPRETED here (`cmpKeys`), on records with one natural-number and one text field — enough for
the two state-path comparators of the source (`BridgeValidators.Less`, the missed-blocks order of the staking
precompile's `validatorList`) — and by the generic `cmpRec` on records with any number of fields of kind unsigned / big
number, text, signed number, boolean or byte string.
-/
namespace FxVerif.Model.C17
open FxVerif.Gen.C17

/-- what Go's sort specification guarantees about ANY sorting algorithm for the comparator `less`
(`le a b := !less b a`): a permutation, with no inversion -/
structure Sorter (α : Type) (le : α → α → Bool) where
  sort : List α → List α
  perm : ∀ l, (sort l).Perm l
  sorted : ∀ l, (sort l).Pairwise (fun a b => le a b = true)

/-- a record with one numeric and one text field (names given per site) -/
structure NS where
  num : Nat
  str : String
  deriving DecidableEq, Repr

def cmpNat (a b : Nat) : Ordering := if a < b then .lt else if a = b then .eq else .gt
def cmpStr (a b : String) : Ordering := if a < b then .lt else if a = b then .eq else .gt

/-- one key of the comparator program on a record whose numeric field is called `nf` and whose text field `sf`; a key
naming neither field compares nothing -/
def keyCmp (nf sf : String) (k : SortKey) (a b : NS) : Ordering :=
  let o := if k.field == nf then cmpNat a.num b.num else if k.field == sf then cmpStr a.str b.str else .eq
  if k.desc then o.swap else o

/-- the lexicographic comparison the program describes -/
def cmpKeys (nf sf : String) : List SortKey → NS → NS → Ordering
  | [], _, _ => .eq
  | k :: ks, a, b =>
    match keyCmp nf sf k a b with
    | .eq => cmpKeys nf sf ks a b
    | o => o

/-- Go's `less(i, j)` -/
def lessKeys (nf sf : String) (keys : List SortKey) (a b : NS) : Bool := cmpKeys nf sf keys a b == .lt
/-- "not out of order": what a sorted result satisfies for every earlier `a` and later `b` -/
def leKeys (nf sf : String) (keys : List SortKey) (a b : NS) : Bool := !lessKeys nf sf keys b a

def keysOf (pkg func : String) : List SortKey :=
  match sortSites.find? (fun s => s.pkg == pkg && s.func == func) with
  | some s => s.keys
  | none => []

/-- regenerated: `BridgeValidators.Less` (used by `NewOracleSet`) -/
def oracleSetKeys : List SortKey := keysOf "x/crosschain/types" "NewOracleSet"
/-- regenerated: the `less` literal of `ValidatorListMissedBlock` -/
def missedKeys : List SortKey := keysOf "x/staking/precompile" "ValidatorListMethod.ValidatorListMissedBlock"

def memberLe : NS → NS → Bool := leKeys "Power" "ExternalAddress" oracleSetKeys
def missedLe : NS → NS → Bool := leKeys "MissedBlocks" "ValAddr" missedKeys

/-- insertion sort (structural recursion, so that the kernel can evaluate it): one correct algorithm -/
def insertBy {α : Type} (le : α → α → Bool) (a : α) : List α → List α
  | [] => [a]
  | b :: t => if le a b then a :: b :: t else b :: insertBy le a t

def isort {α : Type} (le : α → α → Bool) : List α → List α
  | [] => []
  | a :: t => insertBy le a (isort le t)

/-- the members of a new oracle set in the order `NewOracleSet` stores them (one correct algorithm; by `sorter_unique`
every other one returns the same list) -/
def sortMembers (l : List NS) : List NS := isort memberLe l

/-! ## checking a result against the contract -/

def pairwiseB {α : Type} (le : α → α → Bool) : List α → Bool
  | [] => true
  | a :: t => t.all (le a) && pairwiseB le t

/-- does `out` meet the contract of a sort of `inp` for the comparator `le`: a permutation without inversions
(the driver's `checksorted` op applies it to what the real staking precompile returned) -/
def meetsSortContract {α : Type} [BEq α] (le : α → α → Bool) (inp out : List α) : Bool :=
  out.isPerm inp && pairwiseB le out

/-! ## the comparator program on arbitrary records -/

def cmpInt (a b : Int) : Ordering := if a < b then .lt else if a = b then .eq else .gt
/-- `!a && b`-style comparators: false before true -/
def cmpBool : Bool → Bool → Ordering
  | false, true => .lt
  | true, false => .gt
  | _, _ => .eq
/-- `bytes.Compare`: lexicographic on the bytes, a proper prefix first -/
def cmpBytes : List Nat → List Nat → Ordering
  | [], [] => .eq
  | [], _ :: _ => .lt
  | _ :: _, [] => .gt
  | a :: as, b :: bs =>
    match cmpNat a b with
    | .eq => cmpBytes as bs
    | o => o

/-- a field value: unsigned / big number, text, signed number, boolean, byte string (the key kinds nat | big, string, int,
bool, bytes of the translator) -/
inductive Val where
  | n (v : Nat)
  | s (v : String)
  | int (v : Int)
  | bool (v : Bool)
  | bytes (v : List Nat)
  deriving DecidableEq, Repr

def Val.tag : Val → Nat
  | .n _ => 0 | .s _ => 1 | .int _ => 2 | .bool _ => 3 | .bytes _ => 4

/-- values of one kind by their own order; values of different kinds (never produced for one field) by kind -/
def Val.cmp : Val → Val → Ordering
  | .n x, .n y => cmpNat x y
  | .s x, .s y => cmpStr x y
  | .int x, .int y => cmpInt x y
  | .bool x, .bool y => cmpBool x y
  | .bytes x, .bytes y => cmpBytes x y
  | x, y => cmpNat x.tag y.tag

/-- an element of a sorted slice: field name ↦ value, in the field order of the element type (`[("", v)]` for a basic type) -/
abbrev Rec := List (String × Val)

def fieldOf (r : Rec) (f : String) : Option Val := (r.find? (fun e => e.1 == f)).map (·.2)

def keyCmpR (k : SortKey) (a b : Rec) : Ordering :=
  match fieldOf a k.field, fieldOf b k.field with
  | some x, some y => if k.desc then (x.cmp y).swap else x.cmp y
  | _, _ => .eq

/-- the comparator program, interpreted on arbitrary records -/
def cmpRec : List SortKey → Rec → Rec → Ordering
  | [], _, _ => .eq
  | k :: ks, a, b =>
    match keyCmpR k a b with
    | .eq => cmpRec ks a b
    | o => o
/-- "not out of order" for the interpreted program: what a sorted result satisfies for every earlier `a` and later `b` -/
def leRec (keys : List SortKey) (a b : Rec) : Bool := cmpRec keys b a != .lt

/-- the keys cover every field of the element type, and the field names are distinct -/
def wholeOk (s : SortSite) : Bool :=
  s.elemFields.all (fun f => s.keys.any (fun k => k.field == f)) && decide s.elemFields.Nodup

/-- a member of an oracle set as a record over the fields of `BridgeValidator` -/
def memberRec (power : Nat) (addr : String) : Rec := [("Power", .n power), ("ExternalAddress", .s addr)]

/-- `NewOracleSet`'s member order computed from the GENERIC interpreter (the driver's `oracleset` op) -/
def sortMemberRecs (l : List Rec) : List Rec := isort (leRec oracleSetKeys) l

/-! ## the reviewed sort sites -/

inductive SClass where
  /-- the keys cover every field of the element: elements the comparator cannot separate are identical
  (`sorter_unique` with `cover_separates`) -/
  | wholeElement
  /-- reviewed: the compared key is unique among the sorted elements (reason recorded): `sorter_unique` -/
  | distinctKey
  /-- a gRPC query-server method: never executed by block processing -/
  | queryOnly
  /-- the comparator leaves ties between distinct elements; admissible only when the input order is not taken from a
  map: then every replica running the same binary passes the same list to the same algorithm
  (`fixed_algorithm_agrees`); the order still depends on the toolchain's algorithm (`ties_algorithm_dependent`) -/
  | tiesFixedAlgorithm
  deriving DecidableEq, Repr

/-- (package, function, sorted slice) ↦ class, the comparator program as reviewed, reason -/
def sortReviewed : List (String × String × String × SClass × List SortKey × String) := [
  ("x/crosschain/keeper", "Keeper.GetAllBatchFees", "batchFees", .distinctKey, [⟨"TokenContract", false, "string"⟩],
    "one entry per key of batchFeesMap, and the key is the entry's TokenContract (createBatchFees / addFeeToMap)"),
  ("x/crosschain/keeper", "Keeper.pruneAttestations", "nonces", .wholeElement, [⟨"", false, "nat"⟩], "plain uint64 values"),
  ("x/crosschain/keeper", "QueryServer.OutgoingTxBatches", "batches", .queryOnly, [⟨"BatchTimeout", false, "nat"⟩],
    "query response only; two batches of one block share their timeout, the response order among them is the algorithm's"),
  ("x/crosschain/types", "GetSupportChains", "chains", .wholeElement, [⟨"", false, "string"⟩], "plain strings (map keys)"),
  ("x/crosschain/types", "NewOracleSet", "members", .wholeElement, [⟨"Power", true, "nat"⟩, ⟨"ExternalAddress", false, "string"⟩],
    "BridgeValidator has exactly these two fields"),
  ("x/staking/precompile", "ValidatorListMethod.ValidatorListMissedBlock", "valList", .tiesFixedAlgorithm, [⟨"MissedBlocks", true, "int"⟩],
    "validators with equal missed-block counters (all zero on a healthy chain) are returned in the order sort.Slice leaves them; " ++
    "the input is the bonded-validator list in store (power-index) order")
]

def sortClassify (s : SortSite) : Option (SClass × List SortKey) :=
  (sortReviewed.find? (fun r => r.1 == s.pkg && r.2.1 == s.func && r.2.2.1 == s.slice)).map (fun r => (r.2.2.2.1, r.2.2.2.2.1))

/-- the input order comes from a range over a map, or from something the translator cannot see through -/
def fedByMap (s : SortSite) : Bool := s.fedBy.any (fun f => f == "map" || f == "call" || f == "expr" || f == "unknown")

/-- admissibility re-decided from what the translator saw: the comparator program is the reviewed one (so any change of a
`less` function needs a new review), readable, and fits the class -/
def sortConsistent (s : SortSite) (c : SClass) (keys : List SortKey) : Bool :=
  s.keys == keys && s.keys.all (fun k => k.kind != "?") && !s.keys.isEmpty &&
  match c with
  | .wholeElement => s.elemFields.all (fun f => s.keys.any (fun k => k.field == f))
  | .distinctKey => true
  | .queryOnly => s.recv == "QueryServer"
  | .tiesFixedAlgorithm => !fedByMap s

def sortCovered (s : SortSite) : Bool :=
  match sortClassify s with
  | some (c, keys) => sortConsistent s c keys
  | none => false

end FxVerif.Model.C17
