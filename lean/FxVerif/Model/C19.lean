import FxVerif.Gen.C19
import FxVerif.Model.Util
/-!
# C19 model — IBC transfer middleware (inbound credit, memo call sender, outbound refund, relation record)

Code modelled (fx-core): `x/ibc/middleware/ibc_middleware.go` (`OnRecvPacket`, `OnAcknowledgementPacket`, `OnTimeoutPacket`),
`x/ibc/middleware/keeper/relay.go`, `ibc_call.go`, `x/ibc/middleware/types/address.go` (`IntermediateSender`),
`x/erc20/keeper/transfer_relation.go` (`IbcRefund`, `SetIBCTransferRelation`, `DeleteIBCTransferRelation`),
`x/crosschain/keeper/many_to_one.go` (`IBCCoinToBaseCoin`, `IBCCoinToEvm`, `IBCCoinRefund`, `AfterIBCAckSuccess`),
`x/crosschain/precompile/keeper.go` (`ibcTransfer`).

Everything whose shape can be read off the AST comes from `FxVerif.Gen.C19` through `genCfg`; the transition function is
`stepWith cfg` and `step := stepWith genCfg`.

Addresses, channels, sequences and amounts are `Nat`.  Tokens: `F` native coin, `B` the IBC voucher of the channel that
is registered as an alias of a base denom having an ERC-20 pair (one per channel), `X` an unregistered foreign voucher.

The state is split in `Bal` (balances + memo-call marker) and `Ctl` (packet commitments, relation store, send sequence,
and three write-only GHOST logs `refundLog`, `ackedOk`, `evmSent` that no transition ever reads).

Simplifications (stated, not hidden):
* a commitment stores the packet data itself (IBC core stores a hash);
* `refund` of an `X` packet (never committed: `send X` fails) re-mints the voucher and does no denomination change;
* `IbcRefund` for `F`: the relation is never present by construction; if it were, the model removes it and logs
  `erc20Form = true` without further balance change;
* receivers that are module accounts (blocked in the real bank keeper) are not special-cased.
-/
namespace FxVerif.Model.C19
open FxVerif

abbrev Addr := Nat
abbrev Ch := Nat
abbrev Seq := Nat

inductive Tok where | F | B | X
  deriving DecidableEq, Repr

inductive RKind where | hex | bech
  deriving DecidableEq, Repr

inductive Memo where | none | junk | callok | callrev
  deriving DecidableEq, Repr

/-! ## tiny association-list stores (absent = 0) -/

abbrev Store (κ : Type) := List (κ × Nat)

def sget {κ : Type} [DecidableEq κ] : Store κ → κ → Nat
  | [], _ => 0
  | (k', v) :: r, k => if k' = k then v else sget r k

def sset {κ : Type} [DecidableEq κ] (s : Store κ) (k : κ) (v : Nat) : Store κ :=
  (k, v) :: s.filter (fun p => p.1 ≠ k)

def sadd {κ : Type} [DecidableEq κ] (s : Store κ) (k : κ) (n : Nat) : Store κ := sset s k (sget s k + n)
def ssub {κ : Type} [DecidableEq κ] (s : Store κ) (k : κ) (n : Nat) : Store κ := sset s k (sget s k - n)

def escrow (ch : Ch) : Addr := 1000 + ch
def transferMod : Addr := 2000
def erc20Mod : Addr := 2001

/-! ## configuration read from the generated facts -/

structure Cfg where
  setPrefix : Nat            -- key prefix written by SetIBCTransferRelation
  refundDelPrefix : Nat      -- key prefix deleted inside IbcRefund
  ackDelPrefix : Nat         -- key prefix deleted by the method AfterIBCAckSuccess calls
  ackOkCallsAfter : Bool     -- success branch calls AfterIBCAckSuccess
  ackErrRefunds : Bool       -- error-ack branch calls refundPacketTokenHook
  timeoutRefunds : Bool      -- OnTimeoutPacket calls refundPacketTokenHook
  refundDeletes : Bool       -- IbcRefund calls DeleteIBCTransferRelation
  refundConverts : Bool      -- IbcRefund calls ConvertCoin
  refundGuarded : Bool       -- `if !Delete(..) { return nil }` in front of ConvertCoin
  recvDiscards : Bool        -- keeper error in OnRecvPacket => error acknowledgement (cache discarded by IBC core)
  recvOrder : Bool           -- middleware OnRecvPacket runs ParseAddress, the transfer app, then the keeper hook
  sendSetsRel : Bool         -- ibcTransfer records the relation for non-origin tokens
  deriving DecidableEq, Repr

def genCfg : Cfg where
  setPrefix := Gen.C19.relationSetPrefix
  refundDelPrefix := Gen.C19.refundDeletePrefix
  ackDelPrefix := Gen.C19.ackSuccessDeletePrefix
  ackOkCallsAfter := Gen.C19.ackDefaultBranchCalls.contains "AfterIBCAckSuccess"
  ackErrRefunds := Gen.C19.ackErrorBranchCalls.contains "refundPacketTokenHook"
  timeoutRefunds := Gen.C19.timeoutCalls.contains "refundPacketTokenHook"
  refundDeletes := Gen.C19.ibcRefundCalls.contains "DeleteIBCTransferRelation"
  refundConverts := Gen.C19.ibcRefundCalls.contains "ConvertCoin"
  refundGuarded := Gen.C19.ibcRefundGuardedByDelete
  recvDiscards := Gen.C19.recvErrorReturnsErrorAck
  recvOrder := Gen.C19.recvCalls == ["ParseAddress", "IBCModule.OnRecvPacket", "Keeper.OnRecvPacket"]
  sendSetsRel := Gen.C19.sendSetsRelationWhenNotOrigin

/-- reference configuration with the success-ack delete prefix as an explicit parameter (tree independent):
`refCfg 7` is the code as it stands, `refCfg 4` the repaired code -/
def refCfg (ackDel : Nat) : Cfg where
  setPrefix := 4
  refundDelPrefix := 4
  ackDelPrefix := ackDel
  ackOkCallsAfter := true
  ackErrRefunds := true
  timeoutRefunds := true
  refundDeletes := true
  refundConverts := true
  refundGuarded := true
  recvDiscards := true
  recvOrder := true
  sendSetsRel := true

/-- success ack removes the relation iff AfterIBCAckSuccess is called and deletes under the prefix the record was written -/
def Cfg.ackOkRemoves (cfg : Cfg) : Bool := cfg.ackOkCallsAfter && cfg.ackDelPrefix == cfg.setPrefix

/-- IbcRefund's delete can see a record written by SetIBCTransferRelation -/
def Cfg.refundSees (cfg : Cfg) : Bool := cfg.refundDeletes && cfg.refundDelPrefix == cfg.setPrefix

/-! ## state -/

structure Pkt where
  sender : Addr
  tok : Tok
  amt : Nat
  deriving DecidableEq, Repr

structure RefundRec where
  ch : Ch
  seq : Seq
  sender : Addr
  tok : Tok
  amt : Nat
  erc20Form : Bool
  deriving DecidableEq, Repr

structure SentRec where
  ch : Ch
  seq : Seq
  sender : Addr
  tok : Tok
  amt : Nat
  deriving DecidableEq, Repr

def RefundRec.key (r : RefundRec) : Ch × Seq := (r.ch, r.seq)
def SentRec.key (e : SentRec) : Ch × Seq := (e.ch, e.seq)

structure Bal where
  fx : Store Addr := []
  vch : Store (Addr × Tok × Ch) := []     -- IBC voucher coins
  base : Store (Addr × Ch) := []          -- base coin of the B token of a channel
  erc : Store (Addr × Ch) := []           -- ERC-20 balance of the B token of a channel
  marker : Nat := 0                       -- number of successful memo contract calls
  deriving DecidableEq, Repr

structure Ctl where
  commits : List ((Ch × Seq) × Pkt) := []   -- IBC core packet commitments
  rel : List (Ch × Seq) := []               -- erc20 IBC-transfer relation store
  next : Store Ch := []                     -- number of sequences used on a channel (next send sequence = this + 1)
  -- GHOST (write-only) -------------------------------------------------------------------------------------------
  refundLog : List RefundRec := []
  ackedOk : List (Ch × Seq) := []
  evmSent : List SentRec := []
  deriving DecidableEq, Repr

structure State where
  bal : Bal := {}
  ctl : Ctl := {}
  deriving DecidableEq, Repr

def init : State := {}

/-! ## operations and observations -/

inductive Mode where | ackOk | ackErr | timeout
  deriving DecidableEq, Repr

inductive Op where
  | reset
  | fund (a : Addr) (t : Tok) (ch : Ch) (amt : Nat)
  | recv (ch : Ch) (t : Tok) (k : RKind) (to : Addr) (amt : Nat) (m : Memo)
  | send (ch : Ch) (sender : Addr) (t : Tok) (amt : Nat)
  | csend (ch : Ch) (sender : Addr) (amt : Nat)
  | settle (ch : Ch) (seq : Seq) (mode : Mode)     -- `ack c s ok`, `ack c s err`, `timeout c s`
  | bad
  deriving DecidableEq, Repr

inductive Out where
  | ok
  | recv (ackOk : Bool) (fx v b e m : Nat)
  | sent (seq e fx : Nat) (rel : List (Ch × Seq))
  | fail
  | noop (rel : List (Ch × Seq))
  | done (e b fx : Nat) (rel : List (Ch × Seq))
  | badOp
  deriving DecidableEq, Repr

def Out.isRecv (o : Out) (ack : Bool) : Prop := ∃ fx v b e m, o = .recv ack fx v b e m
def Out.isDone (o : Out) : Prop := ∃ e b fx rel, o = .done e b fx rel

/-! ## fund -/

def fundBal (b : Bal) (a : Addr) (t : Tok) (ch : Ch) (amt : Nat) : Bal :=
  match t with
  | .F => { b with fx := sadd b.fx a amt }
  | .B => { b with erc := sadd b.erc (a, ch) amt,
                   vch := sadd b.vch (transferMod, Tok.B, ch) amt,
                   base := sadd b.base (erc20Mod, ch) amt }
  | .X => b

/-! ## receive -/

/-- (1) the ICS-20 transfer application: un-escrow the native coin, or mint the voucher -/
def recvApp (b : Bal) (ch : Ch) (t : Tok) (to : Addr) (amt : Nat) : Option Bal :=
  if amt = 0 then none else
  match t with
  | .F => if sget b.fx (escrow ch) < amt then none
          else some { b with fx := sadd (ssub b.fx (escrow ch) amt) to amt }
  | t => some { b with vch := sadd b.vch (to, t, ch) amt }

/-- `IBCCoinToEvm` for the registered voucher: voucher to the transfer module, base coin minted to the holder and
converted (escrowed in the erc20 module, ERC-20 minted to the holder) -/
def coinToEvm (b : Bal) (ch : Ch) (to : Addr) (amt : Nat) : Bal :=
  { b with vch := sadd (ssub b.vch (to, Tok.B, ch) amt) (transferMod, Tok.B, ch) amt,
           base := sadd b.base (erc20Mod, ch) amt,
           erc := sadd b.erc (to, ch) amt }

/-- (2)+(3) the middleware keeper hook; returns the writes made so far and whether it succeeded -/
def recvHook (b : Bal) (ch : Ch) (t : Tok) (k : RKind) (to : Addr) (amt : Nat) (m : Memo) : Bal × Bool :=
  let conv : Bal × Bool :=
    match t with
    | .F => (b, true)
    | .B => if k = .bech then (b, false) else (coinToEvm b ch to amt, true)
    | .X => (b, false)      -- bech: "only support hex address"; hex: alias not found
  if conv.2 then
    match m with
    | .none => (conv.1, true)
    | .junk => (conv.1, true)
    | .callok => ({ conv.1 with marker := conv.1.marker + 1 }, true)
    | .callrev => (conv.1, false)
  else conv

def recvBal (cfg : Cfg) (b : Bal) (ch : Ch) (t : Tok) (k : RKind) (to : Addr) (amt : Nat) (m : Memo) : Bal × Bool :=
  match recvApp b ch t to amt with
  | none => (b, false)
  | some b1 =>
    if !cfg.recvOrder then (b1, true) else     -- hook not wired after the app: nothing else happens
    match recvHook b1 ch t k to amt m with
    | (b2, true) => (b2, true)
    | (b2, false) => if cfg.recvDiscards then (b, false) else (b2, true)

/-! ## send -/

def sendBal (b : Bal) (ch : Ch) (sender : Addr) (t : Tok) (amt : Nat) : Option Bal :=
  if amt = 0 then none else
  match t with
  | .F => if sget b.fx sender < amt then none
          else some { b with fx := sadd (ssub b.fx sender amt) (escrow ch) amt }
  | .B =>
    if sget b.erc (sender, ch) < amt ∨ sget b.vch (transferMod, Tok.B, ch) < amt ∨ sget b.base (erc20Mod, ch) < amt then none
    else some { b with erc := ssub b.erc (sender, ch) amt,
                       base := ssub b.base (erc20Mod, ch) amt,
                       vch := ssub b.vch (transferMod, Tok.B, ch) amt }
  | .X => none

def nextSeq (c : Ctl) (ch : Ch) : Seq := sget c.next ch + 1

def sendCtl (c : Ctl) (ch : Ch) (p : Pkt) (evm setRel : Bool) : Ctl :=
  let seq := nextSeq c ch
  { c with next := sset c.next ch seq,
           commits := ((ch, seq), p) :: c.commits,
           rel := if setRel then (ch, seq) :: c.rel else c.rel,
           evmSent := if evm then ⟨ch, seq, p.sender, p.tok, p.amt⟩ :: c.evmSent else c.evmSent }

/-! ## acknowledgement / timeout -/

def lookup (k : Ch × Seq) : List ((Ch × Seq) × Pkt) → Option Pkt
  | [] => none
  | (k', p) :: r => if k' = k then some p else lookup k r

def dropCommit (cs : List ((Ch × Seq) × Pkt)) (k : Ch × Seq) : List ((Ch × Seq) × Pkt) :=
  cs.filter (fun c => c.1 ≠ k)

def dropRel (rel : List (Ch × Seq)) (k : Ch × Seq) : List (Ch × Seq) := rel.filter (fun x => x ≠ k)

/-- success acknowledgement (commitment already deleted by core) -/
def ackOkCtl (cfg : Cfg) (c : Ctl) (k : Ch × Seq) : Ctl :=
  { c with commits := dropCommit c.commits k,
           rel := if cfg.ackOkRemoves then dropRel c.rel k else c.rel,
           ackedOk := k :: c.ackedOk }

/-- did IbcRefund's delete find the record -/
def refundFound (cfg : Cfg) (c : Ctl) (k : Ch × Seq) : Bool := cfg.refundSees && c.rel.contains k

/-- does IbcRefund reach and perform ConvertCoin -/
def refundForm (cfg : Cfg) (c : Ctl) (k : Ch × Seq) : Bool :=
  (refundFound cfg c k || !cfg.refundGuarded) && cfg.refundConverts

def refundCtl (cfg : Cfg) (c : Ctl) (k : Ch × Seq) (p : Pkt) : Ctl :=
  { c with commits := dropCommit c.commits k,
           rel := if refundFound cfg c k then dropRel c.rel k else c.rel,
           refundLog := ⟨k.1, k.2, p.sender, p.tok, p.amt, refundForm cfg c k⟩ :: c.refundLog }

/-- balances of a refund: transfer app (un-escrow / re-mint), `IBCCoinToBaseCoin`, then `IbcRefund`'s ConvertCoin when
`form` -/
def refundBal (b : Bal) (ch : Ch) (p : Pkt) (form : Bool) : Bal :=
  match p.tok with
  | .F => { b with fx := sadd (ssub b.fx (escrow ch) p.amt) p.sender p.amt }
  | .X => { b with vch := sadd b.vch (p.sender, Tok.X, ch) p.amt }
  | .B =>
    let v1 := sadd b.vch (p.sender, Tok.B, ch) p.amt                                       -- transfer app re-mints
    let v2 := sadd (ssub v1 (p.sender, Tok.B, ch) p.amt) (transferMod, Tok.B, ch) p.amt      -- voucher to the module
    let base1 := sadd b.base (p.sender, ch) p.amt                                           -- base coin minted
    if form then
      { b with vch := v2,
               base := sadd (ssub base1 (p.sender, ch) p.amt) (erc20Mod, ch) p.amt,
               erc := sadd b.erc (p.sender, ch) p.amt }
    else { b with vch := v2, base := base1 }

/-- error acknowledgement / timeout: the refund hook if it is wired, else only the commitment goes away -/
def refundOrDrop (cfg : Cfg) (s : State) (ch : Ch) (seq : Seq) (p : Pkt) (refunds : Bool) : State :=
  if refunds then
    { bal := refundBal s.bal ch p (refundForm cfg s.ctl (ch, seq)), ctl := refundCtl cfg s.ctl (ch, seq) p }
  else { s with ctl := { s.ctl with commits := dropCommit s.ctl.commits (ch, seq) } }

def settleState (cfg : Cfg) (s : State) (ch : Ch) (seq : Seq) (p : Pkt) : Mode → State
  | .ackOk => { s with ctl := ackOkCtl cfg s.ctl (ch, seq) }
  | .ackErr => refundOrDrop cfg s ch seq p cfg.ackErrRefunds
  | .timeout => refundOrDrop cfg s ch seq p cfg.timeoutRefunds

def doneOut (s' : State) (ch : Ch) (p : Pkt) : Out :=
  .done (sget s'.bal.erc (p.sender, ch)) (sget s'.bal.base (p.sender, ch)) (sget s'.bal.fx p.sender) s'.ctl.rel

def settle (cfg : Cfg) (s : State) (ch : Ch) (seq : Seq) (mode : Mode) : State × Out :=
  match lookup (ch, seq) s.ctl.commits with
  | none => (s, .noop s.ctl.rel)
  | some p => (settleState cfg s ch seq p mode, doneOut (settleState cfg s ch seq p mode) ch p)

/-! ## the transition function -/

def stepWith (cfg : Cfg) (s : State) : Op → State × Out
  | .reset => (init, .ok)
  | .fund a t ch amt =>
    if t = .X then (s, .badOp) else ({ s with bal := fundBal s.bal a t ch amt }, .ok)
  | .recv ch t k to amt m =>
    let r := recvBal cfg s.bal ch t k to amt m
    let s' : State := if r.2 then { s with bal := r.1 } else s      -- error ack: IBC core discards the cache
    let b := s'.bal
    (s', .recv r.2 (sget b.fx to) (if t = .F then 0 else sget b.vch (to, t, ch)) (sget b.base (to, ch))
      (sget b.erc (to, ch)) b.marker)
  | .send ch sender t amt =>
    match sendBal s.bal ch sender t amt with
    | none => (s, .fail)
    | some b =>
      let c := sendCtl s.ctl ch ⟨sender, t, amt⟩ true (t != .F && cfg.sendSetsRel)
      ({ bal := b, ctl := c }, .sent (nextSeq s.ctl ch) (sget b.erc (sender, ch)) (sget b.fx sender) c.rel)
  | .csend ch sender amt =>
    match sendBal s.bal ch sender .F amt with
    | none => (s, .fail)
    | some b =>
      let c := sendCtl s.ctl ch ⟨sender, .F, amt⟩ false false
      ({ bal := b, ctl := c }, .sent (nextSeq s.ctl ch) (sget b.erc (sender, ch)) (sget b.fx sender) c.rel)
  | .settle ch seq mode => settle cfg s ch seq mode
  | .bad => (s, .badOp)

def step : State → Op → State × Out := stepWith genCfg

def runWith (cfg : Cfg) (s : State) (ops : List Op) : State := ops.foldl (fun s op => (stepWith cfg s op).1) s
def run (s : State) (ops : List Op) : State := runWith genCfg s ops

/-! ## line protocol -/

def parseTok : String → Option Tok
  | "F" => some .F | "B" => some .B | "X" => some .X | _ => none

def parseMemo : String → Option Memo
  | "none" => some .none | "junk" => some .junk | "callok" => some .callok | "callrev" => some .callrev | _ => none

def parseKind : String → Option RKind
  | "hex" => some .hex | "bech" => some .bech | _ => none

def parseOp (line : String) : Op :=
  match Util.words line with
  | "reset" :: _ => .reset
  | ["fund", a, t, ch, amt] =>
    match a.toNat?, parseTok t, ch.toNat?, amt.toNat? with
    | some a, some t, some ch, some amt => .fund a t ch amt
    | _, _, _, _ => .bad
  | ["recv", ch, t, k, to, amt, m] =>
    match ch.toNat?, parseTok t, parseKind k, to.toNat?, amt.toNat?, parseMemo m with
    | some ch, some t, some k, some to, some amt, some m => .recv ch t k to amt m
    | _, _, _, _, _, _ => .bad
  | ["send", ch, a, t, amt] =>
    match ch.toNat?, a.toNat?, parseTok t, amt.toNat? with
    | some ch, some a, some t, some amt => .send ch a t amt
    | _, _, _, _ => .bad
  | ["csend", ch, a, amt] =>
    match ch.toNat?, a.toNat?, amt.toNat? with
    | some ch, some a, some amt => .csend ch a amt
    | _, _, _ => .bad
  | ["ack", ch, seq, r] =>
    match ch.toNat?, seq.toNat? with
    | some ch, some seq =>
      if r == "ok" then .settle ch seq .ackOk else if r == "err" then .settle ch seq .ackErr else .bad
    | _, _ => .bad
  | ["timeout", ch, seq] =>
    match ch.toNat?, seq.toNat? with
    | some ch, some seq => .settle ch seq .timeout
    | _, _ => .bad
  | _ => .bad

def relLe (a b : Ch × Seq) : Bool := a.1 < b.1 || (a.1 == b.1 && a.2 ≤ b.2)

def showRel (rel : List (Ch × Seq)) : String :=
  if rel.isEmpty then "-" else
  ",".intercalate ((rel.mergeSort relLe).map fun p => toString p.1 ++ "/" ++ toString p.2)

def render : Out → String
  | .ok => "ok"
  | .recv a fx v b e m =>
    "ack=" ++ (if a then "ok" else "err") ++ " fx=" ++ toString fx ++ " v=" ++ toString v ++ " b=" ++ toString b ++
      " e=" ++ toString e ++ " m=" ++ toString m
  | .sent seq e fx rel => "ok seq=" ++ toString seq ++ " e=" ++ toString e ++ " fx=" ++ toString fx ++ " rel=" ++ showRel rel
  | .fail => "fail"
  | .noop rel => "noop rel=" ++ showRel rel
  | .done e b fx rel => "done e=" ++ toString e ++ " b=" ++ toString b ++ " fx=" ++ toString fx ++ " rel=" ++ showRel rel
  | .badOp => "bad-op"

def stepLine (s : State) (line : String) : State × String :=
  let r := step s (parseOp line)
  (r.1, render r.2)

/-! ## the memo-call sender (`IntermediateSender`) -/

/-- `fmt.Sprintf` restricted to the `%s` verb -/
def sprintf : List Char → List (List Char) → List Char
  | [], _ => []
  | '%' :: 's' :: rest, a :: as => a ++ sprintf rest as
  | c :: rest, as => c :: sprintf rest as

/-- value of a Go argument expression of `IntermediateSender` -/
def argVal (port channel pfx sender : List Char) (name : String) : List Char :=
  if name == "sourcePort" then port
  else if name == "sourceChannel" then channel
  else if name == "prefix" then pfx
  else if name == "[]byte(sender)" then sender
  else []

/-- `prefix := fmt.Sprintf(<fmt>, <args>)` with format and argument list as generated -/
def senderPrefix (port channel : List Char) : List Char :=
  sprintf Gen.C19.intermediateSenderFmt.toList (Gen.C19.intermediateSenderFmtArgs.map (argVal port channel [] []))

/-- `common.BytesToAddress(address.Hash(<hash args>))`; `H typ key` stands for the 20-byte truncation of
`sha256(sha256(typ) ++ key)` -/
def intermediateSender {α : Type} (H : List Char → List Char → α) (port channel sender : List Char) : α :=
  match Gen.C19.intermediateSenderHashArgs.map (argVal port channel (senderPrefix port channel) sender) with
  | [typ, key] => H typ key
  | _ => H [] []

end FxVerif.Model.C19
