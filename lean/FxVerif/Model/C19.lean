import FxVerif.Gen.C19
import FxVerif.Model.Util
/-!
# C19 model — IBC transfer middleware (inbound credit, memo call sender, outbound refund, relation record)

Code modelled (fx-core): `x/ibc/middleware/ibc_middleware.go` (`OnRecvPacket`, `OnAcknowledgementPacket`, `OnTimeoutPacket`),
`x/ibc/middleware/keeper/relay.go`, `parse.go`, `ibc_call.go`, `x/ibc/middleware/types/address.go` (`IntermediateSender`),
`x/erc20/keeper/transfer_relation.go` (`IbcRefund`, `SetIBCTransferRelation`, `DeleteIBCTransferRelation`),
`x/erc20/types/keys.go` (`GetIBCTransferKey`), `x/erc20/keeper/msg_server.go` (`ConvertCoin`, native-coin branch),
`x/crosschain/keeper/many_to_one.go` (`IBCCoinToBaseCoin`, `IBCCoinToEvm`, `IBCCoinRefund`, `AfterIBCAckSuccess`, `ManyToOne`),
`x/crosschain/precompile/keeper.go` (`ibcTransfer`, `handlerERC20Token`, `handlerOriginToken`).
Modelled dependency (ibc-go transfer module): un-escrow / mint on receive, un-escrow / re-mint on refund, bank metadata
written for a voucher on receive; IBC core: commitments, receive committed only on a successful acknowledgement,
acknowledgement / timeout only while the commitment exists, a failing callback rolls the relayer's transaction back.

Everything whose shape can be read off the AST comes from `FxVerif.Gen.C19` through `genCfg`; the transition function is
`stepWith cfg` and `step := stepWith genCfg`.

Channels are named by the number `l` of their LOCAL id `channel-<l>`; the counterparty's id of the same channel is a
separate number (`cp`), set by `chan l r`.  An inbound packet has source = counterparty end, destination = local end; an
outbound packet the other way round.

Tokens: `F` FX; `N` a native non-FX coin with an ERC-20 pair; `U` a native non-FX coin without a pair; `A` the aliased
token: a base denom with an ERC-20 pair whose alias on channel `l` is the voucher `vA l`; `V` a foreign voucher with an
ERC-20 pair of its own; `X` an unregistered foreign voucher; `W` a FOREIGN coin whose base denomination is NAMED like the
chain's own coin (packet denomination `FX`), with an ERC-20 pair of its own; `Y` a coin with base denomination `FX` that
arrives over ANOTHER route (multi-hop packet denomination `transfer/channel-<r+1>/FX` from source channel `r`), not
registered; `Z` a multi-hop voucher (`transfer/channel-<r+1>/ubi`) with an ERC-20 pair of its own.

Every inbound packet carries a denomination PATH (`PDenom`: hops + base name).  Two pieces of code turn it into the
denomination of the receiving chain: the ibc-go transfer application (`appDenom`, modelled dependency) when it credits
the receiver, and the middleware's `parseIBCCoinDenom` when it decides what to do with the credit — the latter is the
regenerated decision program `Gen.C19.parseDenomProg`, INTERPRETED by `hookDenom`.

The state is split in `Bal` (bank balances, ERC-20 balances, memo-call marker and last memo-call sender) and `Ctl`
(channel table, voucher metadata, packet commitments, relation store, send sequence, and three write-only GHOST logs
`refundLog`, `ackedOk`, `evmSent` that no transition ever reads).

Simplifications (stated, not hidden):
* a commitment stores the packet data itself (IBC core stores a hash);
* receivers that are module accounts (blocked in the real bank keeper) are not special-cased;
* an expression the translator does not recognise (`ChanSel.other`, `GuardE.unknown`) makes the model skip the step it
  guards — every theorem that depends on the step demands the recognised shape, so such a tree fails the proofs.
-/
namespace FxVerif.Model.C19
open FxVerif
open FxVerif.Gen.C19 (GuardE AckCond PCond PRes)

abbrev Addr := Nat
abbrev Ch := Nat
abbrev Seq := Nat

inductive Tok where | F | N | U | A | V | X | W | Y | Z
  deriving DecidableEq, Repr

inductive RKind where | hex | bech | bad
  deriving DecidableEq, Repr

inductive Memo where | none | junk | callok | callrev | callpay
  deriving DecidableEq, Repr

/-- bank denominations -/
inductive Denom where
  | fx | nat | unreg | base
  | vA (l : Ch) | vV (l : Ch) | vX (l : Ch)
  | vW (l : Ch) | vY (l : Ch) | vZ (l : Ch)
  deriving DecidableEq, Repr

/-- ERC-20 token contracts: of `nat`, of the aliased base denom, of the vouchers `vV l`, `vW l`, `vZ l` -/
inductive ETok where | nat | base | v (l : Ch) | w (l : Ch) | z (l : Ch)
  deriving DecidableEq, Repr

/-! ## tiny association-list stores (absent = 0) -/

abbrev Store (κ : Type) := List (κ × Nat)

def sget {κ : Type} [DecidableEq κ] : Store κ → κ → Nat
  | [], _ => 0
  | (k', v) :: r, k => if k' = k then v else sget r k

def sset {κ : Type} [DecidableEq κ] (s : Store κ) (k : κ) (v : Nat) : Store κ :=
  (k, v) :: s.filter (fun p => p.1 ≠ k)

def sadd {κ : Type} [DecidableEq κ] (s : Store κ) (k : κ) (n : Nat) : Store κ := sset s k (sget s k + n)
def ssub {κ : Type} [DecidableEq κ] (s : Store κ) (k : κ) (n : Nat) : Store κ := sset s k (sget s k - n)

def escrow (ch : Ch) : Addr := 1000 + ch
def transferMod : Addr := 2000
def erc20Mod : Addr := 2001

/-! ## denominations -/

def Denom.isIbc : Denom → Bool
  | .vA _ | .vV _ | .vX _ | .vW _ | .vY _ | .vZ _ => true
  | _ => false

/-- name of a native denomination (a voucher's name is `ibc/<hash>`) -/
def Denom.name? : Denom → Option String
  | .fx => some "FX" | .nat => some "nat" | .unreg => some "uuu" | .base => some "bo"
  | _ => none

/-- the denomination a token arrives / leaves in on local channel `l` -/
def bankDenom : Tok → Ch → Denom
  | .F, _ => .fx | .N, _ => .nat | .U, _ => .unreg
  | .A, l => .vA l | .V, l => .vV l | .X, l => .vX l
  | .W, l => .vW l | .Y, l => .vY l | .Z, l => .vZ l

/-- coins of this chain (escrowed on the way out, un-escrowed on the way home) -/
def returning : Tok → Bool
  | .F | .N | .U => true
  | _ => false

/-- the erc20 module's token pairs -/
def pairOf : Denom → Option ETok
  | .nat => some .nat | .base => some .base | .vV l => some (.v l) | .vW l => some (.w l) | .vZ l => some (.z l)
  | _ => none

/-- the ERC-20 contract in which a token of class `t` (moved on channel `l`) is held -/
def ercTokOf : Tok → Ch → Option ETok
  | .N, _ => some .nat | .A, _ => some .base | .V, l => some (.v l) | .W, l => some (.w l) | .Z, l => some (.z l)
  | _, _ => none

/-- evaluation of a translated guard on a denomination (no string constant of the code is a voucher hash) -/
def evalGuard : GuardE → Denom → Bool
  | .neConst c, d => match d.name? with | some n => n != c | none => true
  | .eqConst c, d => match d.name? with | some n => n == c | none => false
  | .hasPrefix p, d => match d.name? with | some n => p.isPrefixOf n | none => p.isPrefixOf "ibc/"
  | .not g, d => !evalGuard g d
  | .and a b, d => evalGuard a d && evalGuard b d
  | .or a b, d => evalGuard a d || evalGuard b d
  | .tt, _ => true
  | .unknown _, _ => false

/-! ## which end of the channel an expression names -/

inductive ChanSel where | src | dst | other
  deriving DecidableEq, Repr

def chanSelOf (e : String) : ChanSel :=
  if e == "packet.SourceChannel" || e == "packet.GetSourceChannel()" then .src
  else if e == "packet.DestinationChannel" || e == "packet.GetDestChannel()" then .dst
  else .other

/-- substring test -/
def mentions (s sub : String) : Bool := (s.splitOn sub).length > 1

def seqExprOk (e : String) : Bool := e == "packet.Sequence" || e == "packet.GetSequence()"

def ChanSel.pick : ChanSel → Ch → Ch → Option Ch
  | .src, s, _ => some s
  | .dst, _, d => some d
  | .other, _, _ => none

/-- the relation key a callback computes for a packet with the given source / destination channel and sequence -/
def keyOf (sel : ChanSel) (seqOk : Bool) (src dst : Ch) (seq : Seq) : Option (Ch × Seq) :=
  if seqOk then (sel.pick src dst).map (fun c => (c, seq)) else none

/-! ## the denomination an inbound packet is credited in, and the denomination the middleware believes it was -/

/-- a packet denomination `transfer/channel-h₁/…/transfer/channel-hₙ/base` (the port is always `transfer`; the base name
contains no `/`) -/
structure PDenom where
  hops : List Ch
  base : String
  deriving DecidableEq, Repr

/-- a denomination as the receiving chain names it: a bare name, or the voucher `ibc/<hash of hops/base>`; `unknown` = a
string that names no coin (the prefix of the wrong channel cut off, an untranslated expression) -/
inductive RDenom where
  | native (name : String) | voucher (hops : List Ch) (base : String) | unknown
  deriving DecidableEq, Repr

/-- the full path string -/
def PDenom.render (pd : PDenom) : String :=
  pd.hops.foldr (fun h acc => "transfer/channel-" ++ toString h ++ "/" ++ acc) pd.base

/-- the prefix `transfer/channel-c/` cut off a path that starts with it -/
def stripHop (c : Ch) (pd : PDenom) : RDenom :=
  match pd.hops with
  | h :: rest => if h = c then (match rest with | [] => .native pd.base | _ => .voucher rest pd.base) else .unknown
  | [] => .unknown

/-- the ibc-go transfer application's `OnRecvPacket` (MODELLED DEPENDENCY, ibc-go v8 `relay.go`): a path that starts with
the packet's SOURCE port / channel returns home — the prefix is cut off, a bare name is a coin of this chain, a longer
path the voucher it was held as —; every other path gets the DESTINATION port / channel in front and is hashed.
`src` = the counterparty's channel id, `dst` = ours. -/
def appDenom (src dst : Ch) (pd : PDenom) : RDenom :=
  if pd.hops.head? = some src then stripHop src pd else .voucher (dst :: pd.hops) pd.base

def evalPCond (src dst : Ch) : PCond → PDenom → Bool
  | .returnsVia e, pd => match (chanSelOf e).pick src dst with | some c => pd.hops.head? == some c | none => false
  | .baseEq c, pd => pd.base == c
  | .denomEq c, pd => pd.render == c
  | .hasPrefix p, pd => p.isPrefixOf pd.render
  | .not c, pd => !evalPCond src dst c pd
  | .and a b, pd => evalPCond src dst a pd && evalPCond src dst b pd
  | .or a b, pd => evalPCond src dst a pd || evalPCond src dst b pd
  | .tt, _ => true
  | .unknown _, _ => false

def evalPRes (src dst : Ch) : PRes → PDenom → RDenom
  | .strip e, pd => match (chanSelOf e).pick src dst with | some c => stripHop c pd | none => .unknown
  | .prefixed e, pd => match (chanSelOf e).pick src dst with | some c => .voucher (c :: pd.hops) pd.base | none => .unknown
  | .const c, _ => .native c
  | .same, pd => match pd.hops with | [] => .native pd.base | _ => .unknown
  | .unknown _, _ => .unknown

/-- `parseIBCCoinDenom` as the regenerated decision program says: the result of the first path whose condition holds -/
def hookDenom (prog : List (PCond × PRes)) (src dst : Ch) (pd : PDenom) : RDenom :=
  match prog.find? (fun p => evalPCond src dst p.1 pd) with
  | some p => evalPRes src dst p.2 pd
  | none => .unknown

/-- the denomination path an inbound packet of class `t` carries; `src` = the counterparty's channel id -/
def pktDenom : Tok → Ch → PDenom
  | .F, src => ⟨[src], "FX"⟩ | .N, src => ⟨[src], "nat"⟩ | .U, src => ⟨[src], "uuu"⟩
  | .A, _ => ⟨[], "ubo"⟩ | .V, _ => ⟨[], "ubi"⟩ | .X, _ => ⟨[], "ufor"⟩
  | .W, _ => ⟨[], "FX"⟩ | .Y, src => ⟨[src + 1], "FX"⟩ | .Z, src => ⟨[src + 1], "ubi"⟩

/-- the trace of a bank denomination of the model (the multi-hop vouchers came through `src + 1` on the other side) -/
def traceOf (src : Ch) : Denom → RDenom
  | .fx => .native "FX" | .nat => .native "nat" | .unreg => .native "uuu" | .base => .native "bo"
  | .vA l => .voucher [l] "ubo" | .vV l => .voucher [l] "ubi" | .vX l => .voucher [l] "ufor"
  | .vW l => .voucher [l] "FX" | .vY l => .voucher [l, src + 1] "FX" | .vZ l => .voucher [l, src + 1] "ubi"

/-- the bank denomination of the model a receiving-chain denomination is (`none`: a coin nobody holds) -/
def Denom.ofR : RDenom → Option Denom
  | .native n =>
    if n == "FX" then some .fx else if n == "nat" then some .nat else if n == "uuu" then some .unreg
    else if n == "bo" then some .base else none
  | .voucher [l] b =>
    if b == "ubo" then some (.vA l) else if b == "ubi" then some (.vV l) else if b == "ufor" then some (.vX l)
    else if b == "FX" then some (.vW l) else none
  | .voucher [l, _] b => if b == "FX" then some (.vY l) else if b == "ubi" then some (.vZ l) else none
  | _ => none

/-! ## acknowledgements as they are on the wire, and the two decisions made about them -/

/-- wire shapes of an acknowledgement: the protobuf oneof `{ bytes result; string error }` in its JSON form.  `result` /
`error` with non-empty or EMPTY content (`{"error":""}` decodes to the error arm with an empty text), no arm set (`{}`),
or bytes the codec rejects (malformed JSON, unknown field).  A condition of the code can only look at the arm and at the
emptiness of its content, which is what this type keeps. -/
inductive AckWire where
  | result (nonEmpty : Bool) | error (nonEmpty : Bool) | unset | undecodable
  /-- bytes that DECODE but are not the canonical encoding of what they decode to (both arms of the oneof, extra
  whitespace, another key order, escaped characters): `app` = what the transfer application's decoder makes of them,
  `mw` = what the middleware's makes of them — two separate decoder runs, which for both arms resolve in map-iteration
  order and may differ.  `0` result with content, `1` result without, `2` error with a reason, `3` error without, else
  no arm. -/
  | nonCanonical (app mw : Nat)
  deriving DecidableEq, Repr

def AckWire.all : List AckWire := [.result true, .result false, .error true, .error false, .unset, .undecodable]

/-- the canonical acknowledgement a decoder run number stands for -/
def armOf : Nat → AckWire
  | 0 => .result true | 1 => .result false | 2 => .error true | 3 => .error false | _ => .unset

/-- what the transfer application's own decoder run yields -/
def AckWire.appView : AckWire → AckWire
  | .nonCanonical a _ => armOf a
  | w => w

/-- what the middleware's decoder run yields (`none`: the codec rejects the bytes) -/
def AckWire.mwView : AckWire → Option AckWire
  | .nonCanonical _ m => some (armOf m)
  | .undecodable => none
  | w => some w

def AckWire.isCanonical : AckWire → Bool
  | .nonCanonical _ _ => false
  | _ => true

/-- evaluation of a translated condition on a decoded acknowledgement (`Success()` of ibc-go: the arm is `result`) -/
def evalAck : AckCond → AckWire → Bool
  | .isError, w => match w with | .error _ => true | _ => false
  | .isResult, w => match w with | .result _ => true | _ => false
  | .isUnset, w => match w with | .unset => true | _ => false
  | .errNonEmpty, w => match w with | .error ne => ne | _ => false
  | .resNonEmpty, w => match w with | .result ne => ne | _ => false
  | .success, w => match w with | .result _ => true | _ => false
  | .not c, w => !evalAck c w
  | .and a b, w => evalAck a w && evalAck b w
  | .or a b, w => evalAck a w || evalAck b w
  | .tt, _ => true
  | .unknown _, _ => false

/-- the first path of a decision program whose condition holds -/
def firstMatch {α : Type} : List (AckCond × α) → AckWire → Option α
  | [], _ => none
  | (c, a) :: r, w => if evalAck c w then some a else firstMatch r w

/-- what the middleware's keeper hook does with an acknowledgement -/
inductive HookAct where | refund | after | nothing
  deriving DecidableEq, Repr

def hookActOf (calls : List String) : HookAct :=
  if calls.contains "refundPacketTokenHook" then .refund
  else if calls.contains "AfterIBCAckSuccess" then .after else .nothing

/-! ## configuration read from the generated facts -/

structure Cfg where
  setPrefix : Nat            -- key prefix written by SetIBCTransferRelation
  refundDelPrefix : Nat      -- key prefix deleted inside IbcRefund
  ackDelPrefix : Nat         -- key prefix deleted by the method AfterIBCAckSuccess calls
  ackOkCallsAfter : Bool     -- success branch calls AfterIBCAckSuccess
  ackErrRefunds : Bool       -- error-ack branch calls refundPacketTokenHook
  timeoutRefunds : Bool      -- OnTimeoutPacket calls refundPacketTokenHook
  refundDeletes : Bool       -- IbcRefund calls DeleteIBCTransferRelation
  refundConverts : Bool      -- IbcRefund calls ConvertCoin
  refundGuarded : Bool       -- `if !Delete(..) { return nil }` in front of ConvertCoin
  deleteReports : Bool       -- DeleteIBCTransferRelation returns false when there is no record
  recvDiscards : Bool        -- keeper error in OnRecvPacket => error acknowledgement (cache discarded by IBC core)
  recvOrder : Bool           -- middleware OnRecvPacket runs ParseAddress, the transfer app, then the keeper hook
  sendSetsRel : Bool         -- ibcTransfer records the relation for non-origin tokens
  recvGuard : GuardE         -- Keeper.OnRecvPacket: condition of the "move to the EVM" block
  recvRequiresHex : Bool     -- that block starts with `if !isEvmAddr { return error }`
  recvConverts : Bool        -- … and calls IBCCoinToEvm, returning its error
  recvMemoAfter : Bool       -- the memo block (`len(data.Memo) > 0`) follows the conversion block
  recvRetChan : ChanSel      -- parseIBCCoinDenom: channel end compared with the denom prefix ("returns home")
  memoChan : ChanSel         -- channel end that flows into IntermediateSender
  memoSender : Bool          -- `data.Sender` flows into IntermediateSender's sender
  ackOkChan : ChanSel        -- channel end / sequence that flow into the key deleted on a success acknowledgement
  ackOkSeq : Bool
  refundChan : ChanSel       -- … into the key IbcRefund deletes
  refundSeq : Bool
  refundToSender : Bool      -- IbcRefund's ConvertCoin credits the packet's sender
  sendKeyOwn : Bool          -- ibcTransfer records (channel it transfers on, sequence of the transfer response)
  aliasFirst : Bool          -- IBCCoinToBaseCoin resolves a registered alias before asking ManyToOne
  memoHashOnly : Bool        -- IntermediateSender's body: no return in front of the hash, returns BytesToAddress(hash)
  memoPassHex : Bool         -- … an early return hands a hex sender string through as the EVM sender
  memoPassBech : Bool        -- … an early return hands a bech32 sender string through
  refundErrPropagates : Bool -- every caller on the refund path returns its callee's error to IBC core
  refundCached : Bool        -- refundPacketTokenHook runs IBCCoinRefund on a CacheContext
  ackProg : List (AckCond × HookAct)  -- Keeper.OnAcknowledgementPacket as a decision program over the decoded ack
  appAckProg : List (AckCond × Bool)  -- the transfer application's: does it refund (un-escrow / re-mint)
  parseProg : List (PCond × PRes)     -- parseIBCCoinDenom as a decision program over the packet denomination
  ackSteps : List (String × String)   -- IBCMiddleware.OnAcknowledgementPacket: (step, how its error is treated) in order
  timeoutSteps : List (String × String) -- IBCMiddleware.OnTimeoutPacket: the same
  deriving DecidableEq, Repr

/-- the step order of the repaired middleware (fix d4b7c5e): decode once, demand the canonical encoding, application,
packet data, keeper hook — every error returned to IBC core -/
def stdAckSteps : List (String × String) :=
  [("decode-ack", "returned"), ("canonical-ack", "returned"), ("app", "returned"), ("decode-data", "returned"), ("hook", "returned")]

def stdTimeoutSteps : List (String × String) := [("app", "returned"), ("decode-data", "returned"), ("hook", "returned")]

def stdParseProg : List (PCond × PRes) :=
  [(.returnsVia "packet.GetSourceChannel()", .strip "packet.GetSourceChannel()"),
   (.not (.returnsVia "packet.GetSourceChannel()"), .prefixed "packet.GetDestChannel()")]

def genAckProg : List (AckCond × HookAct) := Gen.C19.ackDecision.map fun p => (p.1, hookActOf p.2)
def genAppAckProg : List (AckCond × Bool) := Gen.C19.appAckDecision.map fun p => (p.1, p.2.contains "refundPacketToken")

def genCfg : Cfg where
  setPrefix := Gen.C19.relationSetPrefix
  refundDelPrefix := Gen.C19.refundDeletePrefix
  ackDelPrefix := Gen.C19.ackSuccessDeletePrefix
  -- the two canonical shapes an ibc-go counterparty writes: result with content, error with a reason
  ackOkCallsAfter := (firstMatch genAckProg (.result true)).getD .nothing == .after
  ackErrRefunds := (firstMatch genAckProg (.error true)).getD .nothing == .refund
  timeoutRefunds := Gen.C19.timeoutCalls.contains "refundPacketTokenHook"
  refundDeletes := Gen.C19.ibcRefundCalls.contains "DeleteIBCTransferRelation"
  refundConverts := Gen.C19.ibcRefundCalls.contains "ConvertCoin"
  refundGuarded := Gen.C19.ibcRefundGuardedByDelete
  deleteReports := Gen.C19.deleteReportsMissing
  recvDiscards := Gen.C19.recvErrorReturnsErrorAck
  recvOrder := Gen.C19.recvCalls == ["ParseAddress", "IBCModule.OnRecvPacket", "Keeper.OnRecvPacket"]
  sendSetsRel := Gen.C19.sendSetsRelationWhenNotOrigin
  recvGuard := Gen.C19.recvGuard
  recvRequiresHex := Gen.C19.recvGuardBody.head? == some "requireHex"
  recvConverts := Gen.C19.recvGuardBody.contains "IBCCoinToEvm" &&
    Gen.C19.recvToEvmArgs == ["ctx", "receiveCoin", "receiver"]
  recvMemoAfter := Gen.C19.recvHookOrder == ["convert", "memo:len(data.Memo) > 0"]
  recvRetChan := chanSelOf Gen.C19.recvReturningChanExpr
  memoChan := chanSelOf (Gen.C19.memoSenderArgs.getD 1 "")
  memoSender := Gen.C19.memoSenderArgs.getD 2 "" == "data.Sender" &&
    Gen.C19.intermediateSenderParams == ["sourcePort", "sourceChannel", "sender"]
  ackOkChan := chanSelOf Gen.C19.ackSuccessKeyChanExpr
  ackOkSeq := seqExprOk Gen.C19.ackSuccessKeySeqExpr
  refundChan := chanSelOf Gen.C19.refundKeyChanExpr
  refundSeq := seqExprOk Gen.C19.refundKeySeqExpr
  refundToSender := Gen.C19.refundReceiverExpr == "data.Sender"
  sendKeyOwn := Gen.C19.sendKeyChanExpr == Gen.C19.sendTransferChanExpr &&
    Gen.C19.sendKeySeqExpr == Gen.C19.sendResponseVar ++ ".Sequence" &&
    Gen.C19.relationKeyFmtArgs == ["#0", "#1"]
  aliasFirst := Gen.C19.ibcCoinToBaseCalls.head? == some "GetBaseDenom"
  memoHashOnly := Gen.C19.intermediateSenderEarlyReturns.isEmpty && Gen.C19.intermediateSenderHashVar != "" &&
    Gen.C19.intermediateSenderReturn == "common.BytesToAddress(" ++ Gen.C19.intermediateSenderHashVar ++ ")"
  memoPassHex := Gen.C19.intermediateSenderEarlyReturns.any fun p =>
    mentions p.1 "EthereumAddress" || mentions p.1 "IsHexAddress" || mentions p.2 "HexToAddress"
  memoPassBech := Gen.C19.intermediateSenderEarlyReturns.any fun p => mentions p.1 "Bech32" || mentions p.2 "Bech32"
  refundErrPropagates := Gen.C19.refundErrorChain.all fun p => p.2 == "return" || p.2 == "checked"
  refundCached := Gen.C19.refundHookCtx.startsWith "cache"
  ackProg := genAckProg
  appAckProg := genAppAckProg
  parseProg := Gen.C19.parseDenomProg
  ackSteps := Gen.C19.ackMiddlewareProg
  timeoutSteps := Gen.C19.timeoutMiddlewareProg

/-- reference configuration with the success-ack delete prefix as an explicit parameter (tree independent):
`refCfg 7` is the pinned code, `refCfg 4` the repaired code -/
def refCfg (ackDel : Nat) : Cfg where
  setPrefix := 4
  refundDelPrefix := 4
  ackDelPrefix := ackDel
  ackOkCallsAfter := true
  ackErrRefunds := true
  timeoutRefunds := true
  refundDeletes := true
  refundConverts := true
  refundGuarded := true
  deleteReports := true
  recvDiscards := true
  recvOrder := true
  sendSetsRel := true
  recvGuard := .neConst "FX"
  recvRequiresHex := true
  recvConverts := true
  recvMemoAfter := true
  recvRetChan := .src
  memoChan := .src
  memoSender := true
  ackOkChan := .src
  ackOkSeq := true
  refundChan := .src
  refundSeq := true
  refundToSender := true
  sendKeyOwn := true
  aliasFirst := false
  memoHashOnly := true
  memoPassHex := false
  memoPassBech := false
  refundErrPropagates := true
  refundCached := false
  ackProg := [(.isError, .refund), (.not .isError, .after)]
  appAckProg := [(.isError, true), (.not .isError, false)]
  parseProg := stdParseProg
  ackSteps := stdAckSteps
  timeoutSteps := stdTimeoutSteps

/-- what the keeper hook does with acknowledgement `w` (no path applies: nothing) -/
def Cfg.ackAct (cfg : Cfg) (w : AckWire) : HookAct := (firstMatch cfg.ackProg w).getD .nothing

/-- does the transfer application refund on acknowledgement `w`; `none` = the callback fails (bytes the codec rejects —
the application decodes first —, or no path of the translated program applies) -/
def Cfg.appRefunds (cfg : Cfg) (w : AckWire) : Option Bool :=
  if w = .undecodable then none else firstMatch cfg.appAckProg w

/-- the two decisions agree on every acknowledgement the codec accepts: the hook refunds exactly when the application
does, and otherwise runs the success clean-up -/
def Cfg.ackAgrees (cfg : Cfg) : Bool :=
  AckWire.all.all fun w =>
    match cfg.appRefunds w with
    | none => true
    | some true => cfg.ackAct w == .refund
    | some false => cfg.ackAct w == .after

/-- success ack removes a relation iff AfterIBCAckSuccess is called and deletes under the prefix the record was written -/
def Cfg.ackOkRemoves (cfg : Cfg) : Bool := cfg.ackOkCallsAfter && cfg.ackDelPrefix == cfg.setPrefix

/-- IbcRefund's delete can see a record written by SetIBCTransferRelation -/
def Cfg.refundSees (cfg : Cfg) : Bool := cfg.refundDeletes && cfg.refundDelPrefix == cfg.setPrefix

/-! ## state -/

/-- an outbound packet (its source channel and sequence are the key it is committed under) -/
structure Pkt where
  sender : Addr
  tok : Tok
  amt : Nat
  evm : Bool
  dst : Ch
  deriving DecidableEq, Repr

structure RefundRec where
  ch : Ch
  seq : Seq
  sender : Addr
  tok : Tok
  amt : Nat
  erc20Form : Bool
  deriving DecidableEq, Repr

structure SentRec where
  ch : Ch
  seq : Seq
  sender : Addr
  tok : Tok
  amt : Nat
  deriving DecidableEq, Repr

def RefundRec.key (r : RefundRec) : Ch × Seq := (r.ch, r.seq)
def SentRec.key (e : SentRec) : Ch × Seq := (e.ch, e.seq)

/-- who a memo call runs as: the account derived from (channel end, sender string) — `ch = none` when the channel
expression is not recognised —, or a LOCAL account whose address was handed through -/
inductive CallerId where
  | derived (ch : Option Ch) (snd : Nat)
  | loc (a : Addr)
  deriving DecidableEq, Repr

structure Bal where
  bank : Store (Addr × Denom) := []
  erc : Store (Addr × ETok) := []
  marker : Nat := 0                          -- number of successful memo contract calls
  caller : Option CallerId := none           -- who the last memo contract call ran as
  off : List ETok := []                      -- token pairs whose conversion is toggled off (governance)
  paused : Bool := false                     -- erc20 module disabled (`EnableErc20 = false`)
  deriving DecidableEq, Repr

structure Ctl where
  cp : List (Ch × Ch) := []                 -- local channel -> counterparty's channel id
  vmeta : List Ch := []                     -- channels whose aliased voucher has bank metadata of its own
  commits : List ((Ch × Seq) × Pkt) := []   -- IBC core packet commitments
  rel : List (Ch × Seq) := []               -- erc20 IBC-transfer relation store
  next : Store Ch := []                     -- number of sequences used on a channel (next send sequence = this + 1)
  -- GHOST (write-only) -------------------------------------------------------------------------------------------
  refundLog : List RefundRec := []
  ackedOk : List (Ch × Seq) := []
  evmSent : List SentRec := []
  deriving DecidableEq, Repr

structure State where
  bal : Bal := {}
  ctl : Ctl := {}
  deriving DecidableEq, Repr

def init : State := {}

def cpOf (c : Ctl) (l : Ch) : Ch :=
  match c.cp.find? (fun p => p.1 == l) with
  | some p => p.2
  | none => l

/-! ## operations and observations -/

inductive Mode where | ackOk | ackErr | timeout
  deriving DecidableEq, Repr

inductive Op where
  | reset
  | chan (l r : Ch)
  | vmeta (l : Ch)
  | migrate                                      -- the transfer module's metadata migration: every stored trace
  | toggle (t : Tok) (l : Ch)                    -- governance toggles the conversion of the token's pair
  | pause                                        -- governance flips `EnableErc20`
  | seqset (l : Ch) (n : Nat)                    -- the next send sequence of channel `l` jumps forward to `n`
  | fund (a : Addr) (t : Tok) (l : Ch) (amt : Nat)
  | recv (l : Ch) (t : Tok) (k : RKind) (to : Addr) (amt : Nat) (m : Memo) (snd : Nat)
  | send (l : Ch) (sender : Addr) (t : Tok) (amt : Nat)
  | csend (l : Ch) (sender : Addr) (t : Tok) (amt : Nat)
  | settle (l : Ch) (seq : Seq) (mode : Mode)     -- `timeout l s`; a success / error acknowledgement as classified
  | ackw (l : Ch) (seq : Seq) (w : AckWire)       -- `ack l s <wire shape>`: an acknowledgement as it is on the wire
  | nop                                           -- `core 0|1`: how the harness plays IBC core (mimicked / the real handlers)
  | bad
  deriving DecidableEq, Repr

inductive Out where
  | ok
  | recv (ackOk : Bool) (bk e esc tm sup m : Nat) (cs : Option CallerId)
  | sent (seq e bk esc tm : Nat) (rel : List (Ch × Seq))
  | fail
  | noop (rel : List (Ch × Seq))
  | stuck (rel : List (Ch × Seq))
  | done (e bk v esc tm sup : Nat) (rel : List (Ch × Seq))
  | badOp
  deriving DecidableEq, Repr

def Out.isRecv (o : Out) (ack : Bool) : Prop := ∃ bk e esc tm sup m cs, o = .recv ack bk e esc tm sup m cs
def Out.isDone (o : Out) : Prop := ∃ e bk v esc tm sup rel, o = .done e bk v esc tm sup rel
def Out.isStuck (o : Out) : Prop := ∃ rel, o = .stuck rel

/-! ## sums over stores: the supply of an ERC-20 token -/

/-- sum of the values whose key satisfies `p` -/
def tsum {κ : Type} (p : κ → Bool) (s : Store κ) : Nat := ((s.filter (fun x => p x.1)).map (·.2)).sum

/-- the coin that backs an ERC-20 token -/
def denomOfE : ETok → Denom
  | .nat => .nat | .base => .base | .v l => .vV l | .w l => .vW l | .z l => .vZ l

/-- supply of ERC-20 token `t`: the sum of all its balances -/
def supply (t : ETok) (erc : Store (Addr × ETok)) : Nat := tsum (fun k => decide (k.2 = t)) erc

def supplyOf (erc : Store (Addr × ETok)) : Option ETok → Nat
  | some t => supply t erc
  | none => 0

/-! ## bank primitives -/

def Bal.move (b : Bal) (d : Denom) (src dst : Addr) (amt : Nat) : Bal :=
  { b with bank := sadd (ssub b.bank (src, d) amt) (dst, d) amt }

def Bal.mint (b : Bal) (a : Addr) (d : Denom) (amt : Nat) : Bal :=
  { b with bank := sadd b.bank (a, d) amt }

/-- erc20 `ConvertCoin` (module-owned pair): escrow the coin in the erc20 module account, mint the ERC-20 to `receiver`;
fails when the denomination has no token pair, when the pair is toggled off or when the module is disabled -/
def convertCoin (b : Bal) (d : Denom) (holder receiver : Addr) (amt : Nat) : Option Bal :=
  match pairOf d with
  | none => none
  | some t =>
    if b.paused || b.off.contains t then none
    else if sget b.bank (holder, d) < amt then none
    else some { b with bank := sadd (ssub b.bank (holder, d) amt) (erc20Mod, d) amt,
                       erc := sadd b.erc (receiver, t) amt }

/-- `IBCCoinToBaseCoin`: a voucher goes to the transfer module account and `resolved` (what the alias resolution
returns) is minted to the holder; any other coin is returned as it is -/
def toBaseCoin (b : Bal) (d resolved : Denom) (holder : Addr) (amt : Nat) : Option (Bal × Denom) :=
  if !d.isIbc then some (b, d)
  else if sget b.bank (holder, d) < amt then none
  else some ({ b with bank := sadd (sadd (ssub b.bank (holder, d) amt) (transferMod, d) amt) (holder, resolved) amt },
             resolved)

/-- alias resolution of `IBCCoinToBaseCoin`.  `ManyToOne` answers "a denomination that has bank metadata is a base
denomination"; inside a receive the transfer module has just written metadata for the voucher (`fresh`); otherwise
metadata of the aliased voucher exists iff the channel is in `vmeta`.  With `aliasFirst` the registered alias wins. -/
def resolve (cfg : Cfg) (vmeta : List Ch) (fresh : Bool) : Denom → Denom
  | .vA l => if cfg.aliasFirst then .base else if fresh || vmeta.contains l then .vA l else .base
  | d => d

/-! ## fund -/

def fundBal (b : Bal) (a : Addr) (t : Tok) (l : Ch) (amt : Nat) : Bal :=
  match t with
  | .A => { b with erc := sadd b.erc (a, ETok.base) amt,
                   bank := sadd (sadd b.bank (transferMod, Denom.vA l) amt) (erc20Mod, Denom.base) amt }
  | t => b.mint a (bankDenom t l) amt

/-! ## receive -/

/-- (1) the ICS-20 transfer application: un-escrow a coin of this chain, or mint the voucher -/
def recvApp (b : Bal) (l : Ch) (t : Tok) (to : Addr) (amt : Nat) : Option Bal :=
  if amt = 0 then none
  else if returning t then
    if sget b.bank (escrow l, bankDenom t l) < amt then none
    else some (b.move (bankDenom t l) (escrow l) to amt)
  else some (b.mint to (bankDenom t l) amt)

/-- (2) the conversion block of `Keeper.OnRecvPacket`, for the denomination `d` the hook believes it received -/
def convStepD (cfg : Cfg) (vmeta : List Ch) (b : Bal) (d : Denom) (k : RKind) (to : Addr) (amt : Nat) : Bal × Bool :=
  if evalGuard cfg.recvGuard d then
    if cfg.recvRequiresHex && k != .hex then (b, false)
    else if !cfg.recvConverts then (b, true)
    else
      match toBaseCoin b d (resolve cfg vmeta true d) to amt with
      | none => (b, false)
      | some (b1, d1) =>
        match convertCoin b1 d1 to to amt with
        | none => (b1, false)
        | some b2 => (b2, true)
  else (b, true)

/-- … for the denomination the transfer application credited -/
def convStep (cfg : Cfg) (vmeta : List Ch) (b : Bal) (l : Ch) (t : Tok) (k : RKind) (to : Addr) (amt : Nat) : Bal × Bool :=
  let d := bankDenom t l
  if evalGuard cfg.recvGuard d then
    if cfg.recvRequiresHex && k != .hex then (b, false)
    else if !cfg.recvConverts then (b, true)
    else
      match toBaseCoin b d (resolve cfg vmeta true d) to amt with
      | none => (b, false)
      | some (b1, d1) =>
        match convertCoin b1 d1 to to amt with
        | none => (b1, false)
        | some b2 => (b2, true)
  else (b, true)

/-- the bank denomination `parseIBCCoinDenom` (regenerated program, interpreted) answers for an inbound packet of class `t`
on the channel `src` (theirs) / `l` (ours) -/
def hookSees (cfg : Cfg) (src l : Ch) (t : Tok) : Option Denom := Denom.ofR (hookDenom cfg.parseProg src l (pktDenom t src))

/-- what a packet's `sender` string is: any string that is not an address of this chain (`remote`), or the hex /
bech32 form of the address of the LOCAL account `a`.  Encoding in op lines: `10000 + a` hex, `20000 + a` bech32 -/
inductive Snd where | remote (k : Nat) | hexOf (a : Addr) | bechOf (a : Addr)
  deriving DecidableEq, Repr

def sndOf (n : Nat) : Snd :=
  if 20000 ≤ n then .bechOf (n - 20000) else if 10000 ≤ n then .hexOf (n - 10000) else .remote n

/-- `IntermediateSender` as the generated body says: hashed (derived account) unless an early return hands the address
named by the sender string through -/
def memoCaller (cfg : Cfg) (src dst : Ch) (snd : Nat) : CallerId :=
  let derived := CallerId.derived (cfg.memoChan.pick src dst) (if cfg.memoSender then snd else 0)
  match sndOf snd with
  | .hexOf a => if cfg.memoPassHex then .loc a else derived
  | .bechOf a => if cfg.memoPassBech then .loc a else derived
  | .remote _ => derived

/-- where a paying memo call sends its value, and how much -/
def sink : Addr := 4000
def payAmt : Nat := 5

/-- (3) the memo block: junk is ignored; `callok` calls a contract that records its caller; `callpay` is a plain value
transfer of `payAmt` FX from the caller to `sink` (a derived account holds nothing — nobody funds an address nobody can
predict —, so it fails unless the caller is a funded local account) -/
def memoStep (cfg : Cfg) (b : Bal) (src dst : Ch) (m : Memo) (snd : Nat) : Bal × Bool :=
  match m with
  | .none => (b, true)
  | .junk => (b, true)
  | .callok => ({ b with marker := b.marker + 1, caller := some (memoCaller cfg src dst snd) }, true)
  | .callrev => (b, false)
  | .callpay =>
    match memoCaller cfg src dst snd with
    | .loc a => if sget b.bank (a, Denom.fx) < payAmt then (b, false) else (b.move .fx a sink payAmt, true)
    | .derived _ _ => (b, false)

/-- the middleware keeper hook; returns the writes made so far and whether it succeeded.  `src` = the counterparty's
channel id, `l` = ours -/
def recvHook (cfg : Cfg) (vmeta : List Ch) (b : Bal) (src l : Ch) (t : Tok) (k : RKind) (to : Addr) (amt : Nat) (m : Memo)
    (snd : Nat) : Bal × Bool :=
  -- the hook recomputes the received denomination; a coin of this chain is recognised by the prefix `transfer/<src>/`
  if returning t && !(cfg.recvRetChan.pick src l == some src) then (b, false)
  else
    match hookSees cfg src l t with
    | none => (b, false)            -- a denomination the receiver holds nothing of: the conversion fails
    | some dh =>
      let c := convStepD cfg vmeta b dh k to amt
      if !c.2 then c
      else if cfg.recvMemoAfter then memoStep cfg c.1 src l m snd else c

def recvBal (cfg : Cfg) (vmeta : List Ch) (b : Bal) (src l : Ch) (t : Tok) (k : RKind) (to : Addr) (amt : Nat) (m : Memo)
    (snd : Nat) : Bal × Bool :=
  if k = .bad then (b, false) else
  match recvApp b l t to amt with
  | none => (b, false)
  | some b1 =>
    if !cfg.recvOrder then (b1, true) else     -- hook not wired after the app: nothing else happens
    match recvHook cfg vmeta b1 src l t k to amt m snd with
    | (b2, true) => (b2, true)
    | (b2, false) => if cfg.recvDiscards then (b, false) else (b2, true)

/-! ## send -/

/-- balances of an outbound transfer: `evm = true` through the crosschain precompile, else a plain `MsgTransfer` -/
def sendBal (b : Bal) (l : Ch) (sender : Addr) (t : Tok) (amt : Nat) (evm : Bool) : Option Bal :=
  if amt = 0 then none else
  match t, evm with
  | .F, _ => if sget b.bank (sender, Denom.fx) < amt then none else some (b.move .fx sender (escrow l) amt)
  | .A, true =>
    if sget b.erc (sender, ETok.base) < amt ∨ sget b.bank (transferMod, Denom.vA l) < amt ∨
       sget b.bank (erc20Mod, Denom.base) < amt then none
    else some { b with erc := ssub b.erc (sender, ETok.base) amt,
                       bank := ssub (ssub b.bank (erc20Mod, Denom.base) amt) (transferMod, Denom.vA l) amt }
  | .N, false => if sget b.bank (sender, Denom.nat) < amt then none else some (b.move .nat sender (escrow l) amt)
  | .U, false => if sget b.bank (sender, Denom.unreg) < amt then none else some (b.move .unreg sender (escrow l) amt)
  | _, _ => none

def nextSeq (c : Ctl) (l : Ch) : Seq := sget c.next l + 1

def sendCtl (c : Ctl) (l : Ch) (p : Pkt) (key : Option (Ch × Seq)) : Ctl :=
  let seq := nextSeq c l
  { c with next := sset c.next l seq,
           commits := ((l, seq), p) :: c.commits,
           rel := match key with | some k => k :: c.rel | none => c.rel,
           evmSent := if p.evm then ⟨l, seq, p.sender, p.tok, p.amt⟩ :: c.evmSent else c.evmSent }

/-- the key `ibcTransfer` records for a transfer on `l` with sequence `seq` -/
def sendKey (cfg : Cfg) (l : Ch) (seq : Seq) (t : Tok) (evm : Bool) : Option (Ch × Seq) :=
  if evm && t != .F && cfg.sendSetsRel && cfg.sendKeyOwn then some (l, seq) else none

/-! ## acknowledgement / timeout -/

def lookup (k : Ch × Seq) : List ((Ch × Seq) × Pkt) → Option Pkt
  | [] => none
  | (k', p) :: r => if k' = k then some p else lookup k r

def dropCommit (cs : List ((Ch × Seq) × Pkt)) (k : Ch × Seq) : List ((Ch × Seq) × Pkt) :=
  cs.filter (fun c => c.1 ≠ k)

def dropRel (rel : List (Ch × Seq)) (k : Ch × Seq) : List (Ch × Seq) := rel.filter (fun x => x ≠ k)

def dropRelOpt (rel : List (Ch × Seq)) : Option (Ch × Seq) → List (Ch × Seq)
  | some k => dropRel rel k
  | none => rel

/-- success acknowledgement (commitment already deleted by core) of the packet committed under `k` -/
def ackOkCtl (cfg : Cfg) (c : Ctl) (k : Ch × Seq) (p : Pkt) : Ctl :=
  { c with commits := dropCommit c.commits k,
           rel := if cfg.ackOkRemoves then dropRelOpt c.rel (keyOf cfg.ackOkChan cfg.ackOkSeq k.1 p.dst k.2) else c.rel,
           ackedOk := k :: c.ackedOk }

/-- the key IbcRefund looks for, if its delete reports that it found a record -/
def refundFound (cfg : Cfg) (c : Ctl) (k : Ch × Seq) (p : Pkt) : Option (Ch × Seq) :=
  if cfg.refundSees then
    match keyOf cfg.refundChan cfg.refundSeq k.1 p.dst k.2 with
    | some k' => if c.rel.contains k' || !cfg.deleteReports then some k' else none
    | none => none
  else none

/-- does IbcRefund reach ConvertCoin -/
def refundForm (cfg : Cfg) (c : Ctl) (k : Ch × Seq) (p : Pkt) : Bool :=
  ((refundFound cfg c k p).isSome || !cfg.refundGuarded) && cfg.refundConverts

def refundCtl (cfg : Cfg) (c : Ctl) (k : Ch × Seq) (p : Pkt) : Ctl :=
  { c with commits := dropCommit c.commits k,
           rel := dropRelOpt c.rel (refundFound cfg c k p),
           refundLog := ⟨k.1, k.2, p.sender, p.tok, p.amt, refundForm cfg c k p⟩ :: c.refundLog }

/-- (1) the transfer application's refund: un-escrow a coin of this chain / re-mint the voucher -/
def refundApp (b : Bal) (l : Ch) (p : Pkt) : Option Bal :=
  if returning p.tok then
    if sget b.bank (escrow l, bankDenom p.tok l) < p.amt then none
    else some (b.move (bankDenom p.tok l) (escrow l) p.sender p.amt)
  else some (b.mint p.sender (bankDenom p.tok l) p.amt)

/-- (2) `refundPacketTokenHook` -> `IBCCoinRefund` -> `IbcRefund`; `form` = IbcRefund reaches ConvertCoin -/
def refundHook (cfg : Cfg) (vmeta : List Ch) (b : Bal) (l : Ch) (p : Pkt) (form : Bool) : Option Bal :=
  let d := bankDenom p.tok l
  match toBaseCoin b d (resolve cfg vmeta false d) p.sender p.amt with
  | none => none
  | some (b1, d1) =>
    if form then convertCoin b1 d1 p.sender (if cfg.refundToSender then p.sender else 0) p.amt
    else some b1

/-- error acknowledgement / timeout.  `none` = a callback fails: the relayer's transaction is rolled back -/
def refundState (cfg : Cfg) (s : State) (l : Ch) (seq : Seq) (p : Pkt) (refunds : Bool) : Option State :=
  match refundApp s.bal l p with
  | none => none
  | some b1 =>
    if refunds then
      match refundHook cfg s.ctl.vmeta b1 l p (refundForm cfg s.ctl (l, seq) p) with
      | none =>
        if cfg.refundErrPropagates then none
        else
          -- the hook's error is swallowed (its writes dropped): IBC core sees a success, the packet is finished, the
          -- sender keeps what the transfer application handed back, the record stays
          some { bal := b1, ctl := { s.ctl with commits := dropCommit s.ctl.commits (l, seq),
                                                refundLog := ⟨l, seq, p.sender, p.tok, p.amt, false⟩ :: s.ctl.refundLog } }
      | some b2 => some { bal := b2, ctl := refundCtl cfg s.ctl (l, seq) p }
    else some { bal := b1, ctl := { s.ctl with commits := dropCommit s.ctl.commits (l, seq) } }

/-- ONE settlement by an acknowledgement, the two decisions kept apart: `appRef` = the transfer application refunds
(step 1, un-escrow / re-mint), `act` = what the keeper hook then does (step 2).  When they agree this is `settleState`
at `.ackErr` / `.ackOk`; when they do not, the sender is refunded in bank form with the record dropped as after a
success (`true, .after`), refunded with the record left (`true, .nothing`), or the hook converts coins the application
never handed back (`false, .refund`). -/
def settleBy (cfg : Cfg) (s : State) (l : Ch) (seq : Seq) (p : Pkt) : Bool → HookAct → Option State
  | true, .refund => refundState cfg s l seq p true
  | true, .nothing => refundState cfg s l seq p false
  | true, .after =>
    match refundApp s.bal l p with
    | none => none
    | some b1 =>
      some { bal := b1,
             ctl := { ackOkCtl { cfg with ackOkCallsAfter := true } s.ctl (l, seq) p with
                        ackedOk := s.ctl.ackedOk,
                        refundLog := ⟨l, seq, p.sender, p.tok, p.amt, false⟩ :: s.ctl.refundLog } }
  | false, .after => some { s with ctl := ackOkCtl { cfg with ackOkCallsAfter := true } s.ctl (l, seq) p }
  | false, .nothing => some { s with ctl := ackOkCtl { cfg with ackOkCallsAfter := false } s.ctl (l, seq) p }
  | false, .refund =>
    match refundHook cfg s.ctl.vmeta s.bal l p (refundForm cfg s.ctl (l, seq) p) with
    | none =>
      if cfg.refundErrPropagates then none
      else some { s with ctl := { s.ctl with commits := dropCommit s.ctl.commits (l, seq), ackedOk := (l, seq) :: s.ctl.ackedOk } }
    | some b2 => some { bal := b2, ctl := refundCtl cfg s.ctl (l, seq) p }

/-- an acknowledgement in its canonical encoding, processed in the order "application, then hook" -/
def settleAckStateStd (cfg : Cfg) (s : State) (l : Ch) (seq : Seq) (p : Pkt) (w : AckWire) : Option State :=
  if !w.isCanonical then none else
  match cfg.appRefunds w with
  | none => none
  | some ar => settleBy cfg s l seq p ar (cfg.ackAct w)

/-! ### the callbacks of `IBCMiddleware` as the REGENERATED step lists say

`OnAcknowledgementPacket` / `OnTimeoutPacket` are lists of steps (`decode-ack`, `canonical-ack`, `app`, `decode-data`,
`hook`), each with how its error is treated (`returned` to IBC core, or not).  `runMw` FOLDS over the list: the balances are
threaded through the steps in the order of the list (the hook converts what the application handed back — or, in another
order, looks for coins the sender does not hold yet), a returned error aborts the run (IBC core rolls everything back);
the bookkeeping (`ackCtlOf`) depends only on what ran. -/

/-- what one run of the callback has done so far -/
structure MwRun where
  bal : Bal
  app : Option Bool := none                 -- the wrapped application ran: did it refund
  hook : Option (HookAct × Bool) := none    -- the keeper hook ran: what it did; `false` = its refund failed, error dropped
  deriving DecidableEq, Repr

/-- what the run is about: do the bytes decode, are they the canonical encoding, what the application decides on ITS
decoder run (`none`: it fails), what the hook decides on the MIDDLEWARE's decoder run -/
structure MwIn where
  decodes : Bool
  canonical : Bool
  appDec : Option Bool
  act : HookAct
  deriving DecidableEq, Repr

def mwStep (cfg : Cfg) (c : Ctl) (l : Ch) (seq : Seq) (p : Pkt) (i : MwIn) (r : MwRun) (st : String × String) : Option MwRun :=
  let returned := st.2 == "returned"
  if st.1 == "decode-ack" then (if !i.decodes && returned then none else some r)
  else if st.1 == "canonical-ack" then (if !i.canonical && returned then none else some r)
  else if st.1 == "app" then
    match i.appDec with
    | none => if returned then none else some r
    | some false => some { r with app := some false }
    | some true =>
      match refundApp r.bal l p with
      | none => if returned then none else some r
      | some b1 => some { r with bal := b1, app := some true }
  else if st.1 == "hook" then
    match i.act with
    | .refund =>
      match refundHook cfg c.vmeta r.bal l p (refundForm cfg c (l, seq) p) with
      | none => if cfg.refundErrPropagates && returned then none else some { r with hook := some (.refund, false) }
      | some b2 => some { r with bal := b2, hook := some (.refund, true) }
    | a => some { r with hook := some (a, true) }
  else some r      -- `decode-data` (the packet data is what IBC core committed to) and anything the translator does not name

/-- the bookkeeping of a finished run: `ar` the application refunded, `act` what the hook did, `ok` its refund went through -/
def ackCtlOf (cfg : Cfg) (c : Ctl) (k : Ch × Seq) (p : Pkt) : Bool → HookAct → Bool → Ctl
  | _, .refund, true => refundCtl cfg c k p
  | true, .refund, false =>
    { c with commits := dropCommit c.commits k, refundLog := ⟨k.1, k.2, p.sender, p.tok, p.amt, false⟩ :: c.refundLog }
  | false, .refund, false => { c with commits := dropCommit c.commits k, ackedOk := k :: c.ackedOk }
  | true, .nothing, _ => { c with commits := dropCommit c.commits k }
  | true, .after, _ =>
    { ackOkCtl { cfg with ackOkCallsAfter := true } c k p with
        ackedOk := c.ackedOk, refundLog := ⟨k.1, k.2, p.sender, p.tok, p.amt, false⟩ :: c.refundLog }
  | false, .after, _ => ackOkCtl { cfg with ackOkCallsAfter := true } c k p
  | false, .nothing, _ => ackOkCtl { cfg with ackOkCallsAfter := false } c k p

def mwFinish (cfg : Cfg) (s : State) (l : Ch) (seq : Seq) (p : Pkt) (r : MwRun) : State :=
  let h := r.hook.getD (.nothing, true)
  { bal := r.bal, ctl := ackCtlOf cfg s.ctl (l, seq) p (r.app.getD false) h.1 h.2 }

def mwFold (cfg : Cfg) (c : Ctl) (l : Ch) (seq : Seq) (p : Pkt) (i : MwIn) : List (String × String) → MwRun → Option MwRun
  | [], r => some r
  | st :: rest, r =>
    match mwStep cfg c l seq p i r st with
    | none => none
    | some r' => mwFold cfg c l seq p i rest r'

/-- one run of a middleware callback over the step list `steps`; `none` = an error reaches IBC core, nothing is written -/
def runMw (cfg : Cfg) (s : State) (l : Ch) (seq : Seq) (p : Pkt) (i : MwIn) (steps : List (String × String)) : Option State :=
  (mwFold cfg s.ctl l seq p i steps { bal := s.bal }).map (mwFinish cfg s l seq p)

/-- an acknowledgement as it is on the wire: the middleware's decoder run decides for the hook, the application's own for
the application (of a non-canonical encoding the two may differ) -/
def mwInOfAck (cfg : Cfg) (w : AckWire) : MwIn where
  decodes := w.mwView.isSome
  canonical := w.mwView.isSome && w.isCanonical
  appDec := cfg.appRefunds w.appView
  act := cfg.ackAct (w.mwView.getD .unset)

def mwInOfTimeout (cfg : Cfg) : MwIn where
  decodes := true
  canonical := true
  appDec := some true
  act := if cfg.timeoutRefunds then .refund else .nothing

/-- an acknowledgement as it is on the wire, through `IBCMiddleware.OnAcknowledgementPacket` as regenerated -/
def settleAckState (cfg : Cfg) (s : State) (l : Ch) (seq : Seq) (p : Pkt) (w : AckWire) : Option State :=
  runMw cfg s l seq p (mwInOfAck cfg w) cfg.ackSteps

/-- a settlement as classified (`ackOk` / `ackErr`), and a timeout through `IBCMiddleware.OnTimeoutPacket` as regenerated -/
def settleState (cfg : Cfg) (s : State) (l : Ch) (seq : Seq) (p : Pkt) : Mode → Option State
  | .ackOk => some { s with ctl := ackOkCtl cfg s.ctl (l, seq) p }
  | .ackErr => refundState cfg s l seq p cfg.ackErrRefunds
  | .timeout => runMw cfg s l seq p (mwInOfTimeout cfg) cfg.timeoutSteps

/-- the same with the timeout in the order "application, then hook" -/
def settleStateStd (cfg : Cfg) (s : State) (l : Ch) (seq : Seq) (p : Pkt) : Mode → Option State
  | .ackOk => some { s with ctl := ackOkCtl cfg s.ctl (l, seq) p }
  | .ackErr => refundState cfg s l seq p cfg.ackErrRefunds
  | .timeout => refundState cfg s l seq p cfg.timeoutRefunds

/-- the denomination / contract the sender of a packet is observed in -/
def obsDenom (t : Tok) (l : Ch) : Denom := if t = .A then .base else bankDenom t l

def doneOut (s' : State) (l : Ch) (p : Pkt) : Out :=
  .done (match ercTokOf p.tok l with | some t => sget s'.bal.erc (p.sender, t) | none => 0)
    (sget s'.bal.bank (p.sender, obsDenom p.tok l))
    (if p.tok = .A then sget s'.bal.bank (p.sender, Denom.vA l) else 0)
    (if p.tok = .A then 0 else sget s'.bal.bank (escrow l, bankDenom p.tok l))
    (if p.tok = .A then sget s'.bal.bank (transferMod, Denom.vA l) else 0)
    (supplyOf s'.bal.erc (ercTokOf p.tok l))
    s'.ctl.rel

def settle (cfg : Cfg) (s : State) (l : Ch) (seq : Seq) (mode : Mode) : State × Out :=
  match lookup (l, seq) s.ctl.commits with
  | none => (s, .noop s.ctl.rel)
  | some p =>
    match settleState cfg s l seq p mode with
    | none => (s, .stuck s.ctl.rel)
    | some s' => (s', doneOut s' l p)

def settleW (cfg : Cfg) (s : State) (l : Ch) (seq : Seq) (w : AckWire) : State × Out :=
  match lookup (l, seq) s.ctl.commits with
  | none => (s, .noop s.ctl.rel)
  | some p =>
    match settleAckState cfg s l seq p w with
    | none => (s, .stuck s.ctl.rel)
    | some s' => (s', doneOut s' l p)

/-! ## the transition function -/

def sentOut (b : Bal) (c : Ctl) (l : Ch) (sender : Addr) (t : Tok) (seq : Seq) : Out :=
  .sent seq (match ercTokOf t l with | some et => sget b.erc (sender, et) | none => 0)
    (sget b.bank (sender, obsDenom t l))
    (if t = .A then 0 else sget b.bank (escrow l, bankDenom t l))
    (if t = .A then sget b.bank (transferMod, Denom.vA l) else 0)
    c.rel

def doSend (cfg : Cfg) (s : State) (l : Ch) (sender : Addr) (t : Tok) (amt : Nat) (evm : Bool) : State × Out :=
  match sendBal s.bal l sender t amt evm with
  | none => (s, .fail)
  | some b =>
    let seq := nextSeq s.ctl l
    let c := sendCtl s.ctl l ⟨sender, t, amt, evm, cpOf s.ctl l⟩ (sendKey cfg l seq t evm)
    ({ bal := b, ctl := c }, sentOut b c l sender t seq)

def stepWith (cfg : Cfg) (s : State) : Op → State × Out
  | .reset => (init, .ok)
  | .chan l r => ({ s with ctl := { s.ctl with cp := (l, r) :: s.ctl.cp.filter (fun p => p.1 != l) } }, .ok)
  | .vmeta l => ({ s with ctl := { s.ctl with vmeta := l :: s.ctl.vmeta } }, .ok)
  | .migrate => ({ s with ctl := { s.ctl with vmeta := s.ctl.cp.map (·.1) ++ s.ctl.vmeta } }, .ok)
  | .toggle t l =>
    match ercTokOf t l with
    | none => (s, .badOp)
    | some et =>
      ({ s with bal := { s.bal with off := if s.bal.off.contains et then s.bal.off.filter (· != et) else et :: s.bal.off } }, .ok)
  | .pause => ({ s with bal := { s.bal with paused := !s.bal.paused } }, .ok)
  | .seqset l n =>
    if sget s.ctl.next l + 1 < n then ({ s with ctl := { s.ctl with next := sset s.ctl.next l (n - 1) } }, .ok) else (s, .ok)
  | .fund a t l amt =>
    if t = .V ∨ t = .X ∨ (t = .A ∧ (s.bal.paused || s.bal.off.contains ETok.base) = true) then (s, .badOp)
    else ({ s with bal := fundBal s.bal a t l amt }, .ok)
  | .recv l t k to amt m snd =>
    let r := recvBal cfg s.ctl.vmeta s.bal (cpOf s.ctl l) l t k to amt m snd
    let s' : State := if r.2 then { s with bal := r.1 } else s      -- error ack: IBC core discards the cache
    let b := s'.bal
    let d := bankDenom t l
    (s', .recv r.2 (sget b.bank (to, d)) (match ercTokOf t l with | some et => sget b.erc (to, et) | none => 0)
      (if returning t then sget b.bank (escrow l, d) else 0) (if returning t then 0 else sget b.bank (transferMod, d))
      (supplyOf b.erc (ercTokOf t l)) b.marker b.caller)
  | .send l sender t amt => doSend cfg s l sender t amt true
  | .csend l sender t amt => doSend cfg s l sender t amt false
  | .settle l seq mode => settle cfg s l seq mode
  | .ackw l seq w => settleW cfg s l seq w
  | .nop => (s, .ok)
  | .bad => (s, .badOp)

def step : State → Op → State × Out := stepWith genCfg

def runWith (cfg : Cfg) (s : State) (ops : List Op) : State := ops.foldl (fun s op => (stepWith cfg s op).1) s
def run (s : State) (ops : List Op) : State := runWith genCfg s ops

/-! ## line protocol -/

def parseTok : String → Option Tok
  | "F" => some .F | "N" => some .N | "U" => some .U | "A" => some .A | "V" => some .V | "X" => some .X
  | "W" => some .W | "Y" => some .Y | "Z" => some .Z | _ => none

def parseMemo : String → Option Memo
  | "none" => some .none | "junk" => some .junk | "callok" => some .callok | "callrev" => some .callrev
  | "callpay" => some .callpay | _ => none

def parseKind : String → Option RKind
  | "hex" => some .hex | "bech" => some .bech | "bad" => some .bad | _ => none

/-- `ack l s <shape>`: `ok` / `err` are what an ibc-go counterparty writes (result with content, error with a reason) -/
def parseWire : String → Option AckWire
  | "ok" => some (.result true) | "okempty" => some (.result false)
  | "err" => some (.error true) | "errempty" => some (.error false)
  | "unset" => some .unset | "bad" => some .undecodable
  -- bytes that decode but are not canonical: a re-spelt error / result acknowledgement (both decoder runs agree), and an
  -- acknowledgement with BOTH arms (the two runs may disagree: here the application reads the error, the middleware the result)
  | "ncerr" => some (.nonCanonical 2 2) | "ncok" => some (.nonCanonical 0 0) | "ncboth" => some (.nonCanonical 2 0)
  | _ => none

def parseOp (line : String) : Op :=
  match Util.words line with
  | "reset" :: _ => .reset
  | ["chan", l, r] =>
    match l.toNat?, r.toNat? with
    | some l, some r => .chan l r
    | _, _ => .bad
  | ["migrate"] => .migrate
  | ["core", b] => if b == "0" || b == "1" then .nop else .bad
  | ["pause"] => .pause
  | ["toggle", t, l] =>
    match parseTok t, l.toNat? with
    | some t, some l => .toggle t l
    | _, _ => .bad
  | ["meta", l] =>
    match l.toNat? with
    | some l => .vmeta l
    | _ => .bad
  | ["seq", l, n] =>
    match l.toNat?, n.toNat? with
    | some l, some n => .seqset l n
    | _, _ => .bad
  | ["fund", a, t, l, amt] =>
    match a.toNat?, parseTok t, l.toNat?, amt.toNat? with
    | some a, some t, some l, some amt => .fund a t l amt
    | _, _, _, _ => .bad
  | ["recv", l, t, k, to, amt, m, snd] =>
    match l.toNat?, parseTok t, parseKind k, to.toNat?, amt.toNat?, parseMemo m, snd.toNat? with
    | some l, some t, some k, some to, some amt, some m, some snd => .recv l t k to amt m snd
    | _, _, _, _, _, _, _ => .bad
  | ["send", l, a, t, amt] =>
    match l.toNat?, a.toNat?, parseTok t, amt.toNat? with
    | some l, some a, some t, some amt => .send l a t amt
    | _, _, _, _ => .bad
  | ["csend", l, a, t, amt] =>
    match l.toNat?, a.toNat?, parseTok t, amt.toNat? with
    | some l, some a, some t, some amt => .csend l a t amt
    | _, _, _, _ => .bad
  | ["ack", l, seq, r] =>
    match l.toNat?, seq.toNat?, parseWire r with
    | some l, some seq, some w => .ackw l seq w
    | _, _, _ => .bad
  | ["timeout", l, seq] =>
    match l.toNat?, seq.toNat? with
    | some l, some seq => .settle l seq .timeout
    | _, _ => .bad
  | _ => .bad

def relLe (a b : Ch × Seq) : Bool := a.1 < b.1 || (a.1 == b.1 && a.2 ≤ b.2)

def showRel (rel : List (Ch × Seq)) : String :=
  if rel.isEmpty then "-" else
  ",".intercalate ((rel.mergeSort relLe).map fun p => toString p.1 ++ "/" ++ toString p.2)

def showCaller : Option CallerId → String
  | none => "-"
  | some (.derived (some c) snd) => toString c ++ "/" ++ toString snd
  | some (.derived none _) => "?"
  | some (.loc a) => "L" ++ toString a

def render : Out → String
  | .ok => "ok"
  | .recv a bk e esc tm sup m cs =>
    "ack=" ++ (if a then "ok" else "err") ++ " bk=" ++ toString bk ++ " e=" ++ toString e ++ " esc=" ++ toString esc ++
      " tm=" ++ toString tm ++ " sup=" ++ toString sup ++ " m=" ++ toString m ++ " cs=" ++ showCaller cs
  | .sent seq e bk esc tm rel =>
    "ok seq=" ++ toString seq ++ " e=" ++ toString e ++ " bk=" ++ toString bk ++ " esc=" ++ toString esc ++
      " tm=" ++ toString tm ++ " rel=" ++ showRel rel
  | .fail => "fail"
  | .noop rel => "noop rel=" ++ showRel rel
  | .stuck rel => "stuck rel=" ++ showRel rel
  | .done e bk v esc tm sup rel =>
    "done e=" ++ toString e ++ " bk=" ++ toString bk ++ " v=" ++ toString v ++ " esc=" ++ toString esc ++
      " tm=" ++ toString tm ++ " sup=" ++ toString sup ++ " rel=" ++ showRel rel
  | .badOp => "bad-op"

def stepLine (s : State) (line : String) : State × String :=
  let r := step s (parseOp line)
  (r.1, render r.2)

/-! ## text: `fmt.Sprintf` with the verbs `%s` and `%d` -/

inductive FArg where
  | s (x : List Char)
  | d (n : Nat)

def FArg.text : FArg → List Char
  | .s x => x
  | .d n => Nat.toDigits 10 n

/-- `fmt.Sprintf` restricted to the verbs `%s` and `%d` -/
def sprintfA : List Char → List FArg → List Char
  | [], _ => []
  | '%' :: 's' :: rest, a :: as => a.text ++ sprintfA rest as
  | '%' :: 'd' :: rest, a :: as => a.text ++ sprintfA rest as
  | c :: rest, as => c :: sprintfA rest as

/-- `fmt.Sprintf` restricted to the `%s` verb -/
def sprintf : List Char → List (List Char) → List Char
  | [], _ => []
  | '%' :: 's' :: rest, a :: as => a ++ sprintf rest as
  | c :: rest, as => c :: sprintf rest as

/-- the text of the relation key `GetIBCTransferKey(channel, sequence)` (without the one-byte store prefix), with the
format string and the argument order as generated -/
def relKeyText (channel : List Char) (sequence : Nat) : List Char :=
  sprintfA Gen.C19.relationKeyFmt.toList
    (Gen.C19.relationKeyFmtArgs.map fun a => if a == "#0" then FArg.s channel else if a == "#1" then FArg.d sequence else FArg.s [])

/-! ## the memo-call sender (`IntermediateSender`) -/

/-- value of a Go argument expression of `IntermediateSender` -/
def argVal (port channel pfx sender : List Char) (name : String) : List Char :=
  if name == "sourcePort" then port
  else if name == "sourceChannel" then channel
  else if name == "prefix" then pfx
  else if name == "[]byte(sender)" then sender
  else []

/-- `prefix := fmt.Sprintf(<fmt>, <args>)` with format and argument list as generated -/
def senderPrefix (port channel : List Char) : List Char :=
  sprintf Gen.C19.intermediateSenderFmt.toList (Gen.C19.intermediateSenderFmtArgs.map (argVal port channel [] []))

/-- `common.BytesToAddress(address.Hash(<hash args>))`; `H typ key` stands for the 20-byte truncation of
`sha256(sha256(typ) ++ key)` -/
def intermediateSender {α : Type} (H : List Char → List Char → α) (port channel sender : List Char) : α :=
  match Gen.C19.intermediateSenderHashArgs.map (argVal port channel (senderPrefix port channel) sender) with
  | [typ, key] => H typ key
  | _ => H [] []

/-- `IntermediateSender` with its WHOLE generated body.  `P` parses a sender string that is an address of this chain
(hex or bech32 form) into that address.  When the body is "hash, nothing else" (`memoHashOnly`: no return in front of
the hash and the final return is `BytesToAddress(<hash>)`) the result is the hash; a body with an early return hands the
address named by the sender string through. -/
def intermediateSenderBody {α : Type} (H : List Char → List Char → α) (P : List Char → Option α)
    (port channel sender : List Char) : α :=
  if genCfg.memoHashOnly then intermediateSender H port channel sender
  else
    match P sender with
    | some a => a
    | none => intermediateSender H port channel sender

/-- an inbound packet as far as the memo-call sender depends on it -/
structure InPkt where
  srcPort : List Char
  srcChannel : List Char      -- the COUNTERPARTY's channel id
  dstPort : List Char
  dstChannel : List Char      -- OUR channel id
  sender : List Char

/-- value of an expression of `Keeper.OnRecvPacket`'s scope that flows into `IntermediateSender` -/
def inPktVal (p : InPkt) (e : String) : List Char :=
  if e == "packet.SourcePort" || e == "packet.GetSourcePort()" then p.srcPort
  else if e == "packet.SourceChannel" || e == "packet.GetSourceChannel()" then p.srcChannel
  else if e == "packet.DestinationPort" || e == "packet.GetDestPort()" then p.dstPort
  else if e == "packet.DestinationChannel" || e == "packet.GetDestChannel()" then p.dstChannel
  else if e == "data.Sender" then p.sender
  else []

/-- the sender a memo call of packet `p` runs as: `IntermediateSender` applied to the generated argument flow -/
def memoCallSender {α : Type} (H : List Char → List Char → α) (P : List Char → Option α) (p : InPkt) : α :=
  match Gen.C19.memoSenderArgs.map (inPktVal p) with
  | [port, channel, sender] => intermediateSenderBody H P port channel sender
  | _ => H [] []

/-! ## round 5: the transfer application's credit AS REGENERATED, genesis round trips, and the extended line protocol

`Gen.C19.appRecvProg` is ibc-go's `Keeper.OnRecvPacket` (module cache, version of go.mod) translated path by path:
(condition over the packet denomination, how the receiver is credited, denomination of the credited coin).  `appDenomBy`
INTERPRETS it with the interpreter of `parseIBCCoinDenom`; `Props` proves it equal to the former hand model `appDenom` on
every path, so `appDenom` is no longer trusted.

Genesis: the erc20 module's `ExportGenesis` / `InitGenesis` carry the token pairs and the parameters; whether they carry
the IBC tracking records is the regenerated fact `genesisCarries`.  A restart from an exported genesis keeps IBC core's
packet commitments (ibc-go exports them), all balances and all contracts.  `genesisCtl` is that round trip on the control
part; the EVM-originated transfers of the aliased token that are in flight at that moment lose their record — they leave
the ghost log `evmSent` (the chain no longer tracks them) and are remembered in the ghost list `orphans`. -/

def stdAppRecvProg : List (PCond × String × PRes) :=
  [(.returnsVia "packet.GetSourceChannel()", "unescrow", .strip "packet.GetSourceChannel()"),
   (.not (.returnsVia "packet.GetSourceChannel()"), "mint", .prefixed "packet.GetDestChannel()")]

/-- the denomination the transfer application credits, as the regenerated program says -/
def appDenomBy (prog : List (PCond × String × PRes)) (src dst : Ch) (pd : PDenom) : RDenom :=
  hookDenom (prog.map fun p => (p.1, p.2.2)) src dst pd

/-- how it credits: `unescrow` (a coin that returns home), `mint` (a voucher), `none` (no path applies) -/
def appKindBy (prog : List (PCond × String × PRes)) (src dst : Ch) (pd : PDenom) : String :=
  match prog.find? (fun p => evalPCond src dst p.1 pd) with
  | some p => p.2.1
  | none => "none"

def genesisCarries : Bool := Gen.C19.genesisExportsRelations && Gen.C19.genesisImportsRelations

/-- an EVM-originated transfer of the aliased token that is still committed -/
def inflightA (c : Ctl) (e : SentRec) : Bool := decide (e.tok = Tok.A) && c.commits.any (fun x => decide (x.1 = e.key))

def genesisCtl (carries : Bool) (c : Ctl) : Ctl :=
  if carries then c else { c with rel := [], evmSent := c.evmSent.filter (fun e => !inflightA c e) }

def orphansOf (carries : Bool) (c : Ctl) : List SentRec := if carries then [] else c.evmSent.filter (inflightA c)

inductive XOp where
  | op (o : Op)
  | genesis                                         -- `genesis`: restart from an exported genesis (erc20 state round trip)
  | denom (l : Ch) (hops : List Ch) (base : String) -- `denom l base h₁ … hₙ`: what do application and hook make of this path
  deriving DecidableEq, Repr

inductive XOut where
  | out (o : Out)
  | gen (rel : List (Ch × Seq))
  | denom (app : RDenom) (kind : String) (hook : RDenom)
  deriving DecidableEq, Repr

structure XState where
  st : State := {}
  orphans : List SentRec := []      -- GHOST: transfers whose record a genesis round trip dropped
  deriving DecidableEq, Repr

def xinit : XState := {}

def XOp.op? : XOp → Option Op
  | .op o => some o
  | _ => none

def xstepWith (cfg : Cfg) (carries : Bool) (app : List (PCond × String × PRes)) (x : XState) : XOp → XState × XOut
  | .op o =>
    let r := stepWith cfg x.st o
    ({ st := r.1, orphans := if o = .reset then [] else x.orphans }, .out r.2)
  | .genesis =>
    let c := genesisCtl carries x.st.ctl
    ({ st := { x.st with ctl := c }, orphans := orphansOf carries x.st.ctl ++ x.orphans }, .gen c.rel)
  | .denom l hops base =>
    let src := cpOf x.st.ctl l
    (x, .denom (appDenomBy app src l ⟨hops, base⟩) (appKindBy app src l ⟨hops, base⟩) (hookDenom cfg.parseProg src l ⟨hops, base⟩))

def xstep : XState → XOp → XState × XOut := xstepWith genCfg genesisCarries Gen.C19.appRecvProg

def xrunWith (cfg : Cfg) (carries : Bool) (app : List (PCond × String × PRes)) (x : XState) (xs : List XOp) : XState :=
  xs.foldl (fun x o => (xstepWith cfg carries app x o).1) x

def xrun (x : XState) (xs : List XOp) : XState := xrunWith genCfg genesisCarries Gen.C19.appRecvProg x xs

def parseNats : List String → Option (List Nat)
  | [] => some []
  | w :: r => match w.toNat?, parseNats r with
    | some n, some ns => some (n :: ns)
    | _, _ => none

def parseXOp (line : String) : XOp :=
  match Util.words line with
  | ["genesis"] => .genesis
  | "denom" :: l :: base :: hops =>
    match l.toNat?, parseNats hops with
    | some l, some hs => .denom l hs base
    | _, _ => .op .bad
  | _ => .op (parseOp line)

def showRDenom : RDenom → String
  | .native n => "native:" ++ n
  | .voucher hops b => "ibc:" ++ ".".intercalate (hops.map toString) ++ ":" ++ b
  | .unknown => "unknown"

def xrender : XOut → String
  | .out o => render o
  | .gen rel => "ok rel=" ++ showRel rel
  | .denom a k h => "app=" ++ showRDenom a ++ " how=" ++ k ++ " hook=" ++ showRDenom h

def xstepLine (x : XState) (line : String) : XState × String :=
  let r := xstep x (parseXOp line)
  (r.1, xrender r.2)

end FxVerif.Model.C19
