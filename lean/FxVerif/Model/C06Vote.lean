import FxVerif.Model.C05
import FxVerif.Gen.C01
import FxVerif.Gen.C06
/-!
# Votes of several oracles in front of the C05 / C06 model (`Attest → TryAttestation`)

`Model/C05.lean` observes an event in one step (`observe h ev`).  Here that step is the *outcome* of votes: every oracle
submits its own claim `(event nonce, external height, event)`; `Attest` adds the vote to the attestation stored under
`(event nonce, ClaimHash)`; `TryAttestation` sums the powers of the votes of that attestation in vote order and, once the
sum is no longer below the required power, stores **the current voter's** height as the observed external height, runs the
handler and the two timeout clean-ups — i.e. performs the `observe` step of the base model with the height the
quorum-completing voter reported.

What is read off the source on every run: which message fields each `ClaimHash` covers (`Gen.C06.claimHashFields` — two
votes are summed iff they agree on every covered field), that the stored height is the voter's
(`Gen.C06.observedHeightFromVoter`), the required-power expression, the threshold and the tally comparison
(`Gen.C01.requiredExpr`, `votesThreshold`, `tallyCmp`).

Core-only, total, executable (loaded by `Driver/C05.lean`).  Powers and the recorded total are fixed per run (bonding,
slashing, power changes: C02 / C13); pruning of old attestations is not modelled (only the attestation of the next event
nonce is ever tallied, and that one is never pruned).
-/
namespace FxVerif.Model.C06Vote
open FxVerif.Model.C05

abbrev Fields := List (String × List String)

def evType : Ev → String
  | .batch _ _ => "MsgSendToExternalClaim"
  | .result _ _ => "MsgBridgeCallResultClaim"
  | .other => "MsgBridgeTokenClaim"

def covers (tbl : Fields) (ty f : String) : Bool :=
  match tbl.find? (fun p => p.1 = ty) with
  | some p => p.2.contains f
  | none => false

/-- a field's contribution to the hashed path: its value when the hash covers it, nothing (a constant) otherwise -/
def pick (tbl : Fields) (ty f : String) (v : Nat) : Option Nat := if covers tbl ty f then some v else none

/-- what of a claim its `ClaimHash` determines, for the three claim types driven here (the remaining fields of these
claims — cause, tx origin, name, symbol … — are the same in every vote of a run) -/
def claimKey (tbl : Fields) (h : Nat) (ev : Ev) : String × List (Option Nat) :=
  let ty := evType ev
  (ty, pick tbl ty "BlockHeight" h :: match ev with
    | .batch t b => [pick tbl ty "TokenContract" t, pick tbl ty "BatchNonce" b]
    | .result c ok => [pick tbl ty "Nonce" c, pick tbl ty "Success" (if ok then 1 else 0)]
    | .other => [])

/-- one stored attestation: key `(event nonce, claim hash)`, the votes in the order they arrived -/
structure Att where
  nonce : Nat
  key : String × List (Option Nat)
  votes : List Nat
  observed : Bool
  deriving DecidableEq, Repr

/-- ghost record of one accepted vote -/
structure Vote where
  oracle : Nat
  nonce : Nat
  height : Nat
  ev : Ev
  deriving DecidableEq, Repr

/-- ghost record of one observation: the event nonce, the height stored as observed external height, the event, and the
votes of the attestation at that moment -/
structure Obs where
  nonce : Nat
  height : Nat
  ev : Ev
  voters : List Nat
  deriving DecidableEq, Repr

structure VState where
  base : State := {}
  /-- power of oracle `i` (`oracle.GetPower()`), fixed -/
  powers : List Nat := []
  /-- `GetLastTotalPower` -/
  total : Nat := 0
  atts : List Att := []
  /-- `LastEventNonceByOracle`, index = oracle -/
  last : List Nat := []
  voteLog : List Vote := []
  obsLog : List Obs := []

def power (s : VState) (o : Nat) : Nat := s.powers.getD o 0

def required (total : Nat) : Nat := FxVerif.Gen.C01.requiredExpr.eval FxVerif.Gen.C01.votesThreshold total

/-- `attestationPower.<tallyCmp>(requiredPower)` -/
def below (acc req : Nat) : Bool :=
  match FxVerif.Gen.C01.tallyCmp with
  | .lt => decide (acc < req)
  | .lte => decide (acc ≤ req)
  | .other => true

/-- the loop of `TryAttestation` over `att.Votes`: add the power of one vote after the other, `continue` while the sum is
below the required power, otherwise observe (and `break`) -/
def reached (pw : Nat → Nat) (req : Nat) : List Nat → Nat → Bool
  | [], _ => false
  | o :: r, acc => if below (acc + pw o) req then reached pw req r (acc + pw o) else true

def sumPower (pw : Nat → Nat) (l : List Nat) : Nat := (l.map pw).sum

inductive VOp where
  | base (op : Op)
  /-- `MsgClaim` of oracle `o`: event nonce `n`, reported external height `h`, event `ev` -/
  | vote (o n h : Nat) (ev : Ev)

def setAtt (atts : List Att) (a : Att) : List Att :=
  if atts.any (fun b => b.nonce = a.nonce ∧ b.key = a.key) then
    atts.map (fun b => if b.nonce = a.nonce ∧ b.key = a.key then a else b)
  else atts ++ [a]

/-- `GetAttestation(ctx, claim.GetEventNonce(), claim.ClaimHash())`, or the fresh attestation `Attest` creates -/
def findAtt (tbl : Fields) (s : VState) (n h : Nat) (ev : Ev) : Att :=
  match s.atts.find? (fun a => a.nonce = n ∧ a.key = claimKey tbl h ev) with
  | some a => a
  | none => ⟨n, claimKey tbl h ev, [], false⟩

def addVote (a : Att) (o : Nat) : Att := { a with votes := a.votes ++ [o] }

/-- `!att.Observed && claim.GetEventNonce() == GetLastObservedEventNonce()+1`, then the tally loop of `TryAttestation` -/
def crosses (s : VState) (att : Att) (n : Nat) : Bool :=
  !att.observed && n == s.base.eventNonce + 1 && reached (power s) (required s.total) att.votes 0

/-- the height handed to `SetLastObservedBlockHeight`: the current voter's claim (regenerated); anything else is not modelled -/
def hObsOf (h : Nat) : Nat := if FxVerif.Gen.C06.observedHeightFromVoter then h else 0

/-- the vote is stored: attestation, last event nonce of the oracle (and the ghost log) -/
def recorded (s : VState) (att : Att) (o n h : Nat) (ev : Ev) : VState :=
  { s with atts := setAtt s.atts att, last := s.last.set o n, voteLog := s.voteLog ++ [⟨o, n, h, ev⟩] }

/-- the quorum is complete: the `observe` step of the base model with the stored height; a panic reverts the whole claim
transaction (and the base step leaves the state as it is) -/
def observeBy (s : VState) (att : Att) (o n h : Nat) (ev : Ev) : VState × Res × Option Op :=
  let br := step s.base (.observe (hObsOf h) ev)
  if br.2 = .panic then ({ s with base := br.1 }, .panic, some (.observe (hObsOf h) ev))
  else ({ recorded s { att with observed := true } o n h ev with
            base := br.1, obsLog := s.obsLog ++ [⟨n, hObsOf h, ev, att.votes⟩] }, br.2, some (.observe (hObsOf h) ev))

/-- `MsgServer.Claim → Attest` with the claim-hash coverage table `tbl`; the third component is the step of the base model
the vote performs, if it completes a quorum -/
def voteCore (tbl : Fields) (s : VState) (o n h : Nat) (ev : Ev) : VState × Res × Option Op :=
  if o ≥ s.powers.length then (s, .err, none)                       -- not a registered oracle's bridger
  else if n ≠ s.last.getD o 0 + 1 then (s, .err, none)               -- ErrNonContiguousEventNonce
  else
    let att := addVote (findAtt tbl s n h ev) o
    if crosses s att n then observeBy s att o n h ev
    else (recorded s att o n h ev, .ok n, none)

def voteWith (tbl : Fields) (s : VState) (o n h : Nat) (ev : Ev) : VState × Res :=
  let r := voteCore tbl s o n h ev; (r.1, r.2.1)

def vote := voteWith FxVerif.Gen.C06.claimHashFields

def vstepWith (tbl : Fields) (s : VState) : VOp → VState × Res
  | .base op => let (b, r) := step s.base op; ({ s with base := b }, r)
  | .vote o n h ev => voteWith tbl s o n h ev

def vstep := vstepWith FxVerif.Gen.C06.claimHashFields

def vrunWith (tbl : Fields) (s : VState) (ops : List VOp) : VState := ops.foldl (fun s op => (vstepWith tbl s op).1) s
def vrun := vrunWith FxVerif.Gen.C06.claimHashFields

/-- the base operations a voted run performs: the given ones, and one `observe` per quorum-completing vote -/
def traceWith (tbl : Fields) : VState → List VOp → List Op
  | _, [] => []
  | s, .base b :: r => b :: traceWith tbl (vstepWith tbl s (.base b)).1 r
  | s, .vote o n h ev :: r =>
    (voteCore tbl s o n h ev).2.2.toList ++ traceWith tbl (vstepWith tbl s (.vote o n h ev)).1 r

def trace := traceWith FxVerif.Gen.C06.claimHashFields

/-- every oracle that has not yet voted for the next event nonce votes `(h, ev)`, in index order: the `obs h ev` line of
the harness (all oracles honest) -/
def allVote (s : VState) (h : Nat) (ev : Ev) : List VOp :=
  let n := s.base.eventNonce + 1
  ((List.range s.powers.length).filter (fun o => s.last.getD o 0 + 1 = n)).map (fun o => .vote o n h ev)

def vinit (b : State) (powers : List Nat) (total : Nat) : VState :=
  { base := b, powers := powers, total := total, last := powers.map (fun _ => 0) }

/-- a coverage table in which the bridge-token claim's hash does NOT cover the reported height (used by the `example`
that shows `Props.C06.observed_height_has_quorum` depends on the coverage) -/
def tableWithoutHeight : Fields :=
  [("MsgBridgeTokenClaim", ["EventNonce", "TokenContract", "Name", "Symbol", "Decimals", "ChannelIbc"])]

end FxVerif.Model.C06Vote
