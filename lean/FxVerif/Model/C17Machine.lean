import FxVerif.Model.C17
import FxVerif.Model.C17Float
/-!
# C17 model — a block machine whose map iterations are scheduled by an adversary

Go randomises the order of every `range` over a map.  The machine below models the steps of block execution that consume
a map (the anchored code: `UpdateProposalOracles`, gov `Tally`, `createBatchFees` + `GetAllBatchFees`, `PowerDiff`,
`GetSupportChains`) as functions of the chain state, the operation **and a schedule** `σ` that chooses, for the n-th
executed range-over-map statement, an arbitrary permutation of the entries.  `Props/C17.lean` proves that the final state
and every output of every operation list are the same for all schedules (`run_schedule_independent`) — and that this fails
for the variant of `UpdateProposalOracles` that collects the oracles to unbond by ranging over a map
(`mapFed_unbond_schedule_dependent`).  Which variant the source has is read from the regenerated `Gen.C17.sliceFeeders`.
-/
namespace FxVerif.Model.C17
open FxVerif.Gen.C17

/-- the runtime's choice of iteration order: any permutation, for every range statement executed -/
structure Sched where
  pick : Nat → (α : Type) → List α → List α
  perm : ∀ i α (l : List α), (pick i α l).Perm l

def Sched.id : Sched := ⟨fun _ _ l => l, fun _ _ l => List.Perm.refl l⟩
def Sched.rev : Sched := ⟨fun _ _ l => l.reverse, fun _ _ l => List.reverse_perm l⟩

structure Oracle where
  addr : String
  power : Nat
  online : Bool
  delegate : Nat   -- tokens of the oracle's staking delegation (0 = none: unbonding it fails)
  deriving DecidableEq, Repr

structure St where
  oracles : List Oracle            -- the oracle store, in key (address) order: what `GetAllOracles` returns
  proposal : List String           -- `ProposalOracle.Oracles`
  nextUnbondId : Nat               -- x/staking's unbonding-id counter
  ubd : List (String × Nat)        -- unbonding entries (oracle, unbonding id) in creation order (= UBD queue order)
  events : List String
  ranges : Nat                     -- number of range-over-map statements executed so far (index into the schedule)
  deriving DecidableEq, Repr

/-- `for k, v := range m` over the entries `l` of a map -/
def rangeMap {α : Type} (σ : Sched) (st : St) (l : List α) : List α × St :=
  (σ.pick st.ranges α l, { st with ranges := st.ranges + 1 })

inductive Out where
  | err (e : String)
  | unbonded (l : List (String × Nat))
  | tally (v : Vec5)
  | fees (l : List (String × Nat × Nat × Nat))
  | num (n : Nat)
  | chains (l : List String)
  /-- `isNeedOracleSetRequest`: the rendered power difference (units of 10^-8) and the decision -/
  | decision (rendered : Nat) (need : Bool)
  deriving DecidableEq, Repr

/-! ## `Keeper.UpdateProposalOracles` -/

/-- regenerated: is the slice `unbondedOracleList` appended to inside a range over a map (and not sorted afterwards)? -/
def unbondFedByMap : Bool :=
  sliceFeeders.any (fun f => f.pkg == "x/crosschain/keeper" && f.func == "Keeper.UpdateProposalOracles" &&
    f.slice == "unbondedOracleList" && f.kind != "slice" && f.kind != "array" && !f.sorted)

/-- regenerated: the slice is fed from the range over `allOracles` (the store iteration) -/
def unbondFedByStore : Bool :=
  sliceFeeders.any (fun f => f.pkg == "x/crosschain/keeper" && f.func == "Keeper.UpdateProposalOracles" &&
    f.slice == "unbondedOracleList" && f.kind == "slice" && f.fedBy == "allOracles")

def onlinePower (os : List Oracle) : Nat := ((os.filter (·.online)).map (·.power)).sum

/-- step 1 — which oracles are unbonded, and in which order.  `newOracleMap` / `oldOracleMap` are used for membership
only.  `mapFed = false`: the code as it is (filter of the store iteration); `mapFed = true`: the list is collected by
ranging over the old-proposal map. -/
def unbondList (mapFed : Bool) (σ : Sched) (st : St) (new : List String) : List Oracle × St :=
  if mapFed then
    let r := rangeMap σ st st.proposal.eraseDups
    (r.1.filterMap (fun a => if new.contains a then none else st.oracles.find? (fun o => o.addr == a)), r.2)
  else
    (st.oracles.filter (fun o => !new.contains o.addr && st.proposal.contains o.addr), st)

/-- step 2 — `UnbondedOracleFromProposal`: undelegate (a new unbonding entry with the next unbonding id, appended to the
queue; events) and mark the oracle offline -/
def unbondOne (st : St) (o : Oracle) : Option St :=
  if o.delegate == 0 then none else
  some { st with
    nextUnbondId := st.nextUnbondId + 1
    ubd := st.ubd ++ [(o.addr, st.nextUnbondId)]
    events := st.events ++ ["unbond:" ++ o.addr]
    oracles := st.oracles.map (fun x => if x.addr == o.addr then { x with online := false } else x) }

def unbondAll : St → List Oracle → Option St
  | st, [] => some st
  | st, o :: os =>
    match unbondOne st o with
    | none => none
    | some st' => unbondAll st' os

def updateOracles (mapFed : Bool) (σ : Sched) (st : St) (new : List String) : St × Out :=
  if new.length > maxOracleSize then (st, .err "too-many") else
  let r := unbondList mapFed σ st new
  let total := onlinePower st.oracles
  let del := onlinePower r.1
  let thr := attestationProposalOracleChangePowerThreshold * total / 100
  let failed : St := { st with ranges := r.2.ranges }   -- a failing handler leaves no writes
  if del > 0 && del ≥ thr then (failed, .err "max-change") else
  match unbondAll { r.2 with proposal := new } r.1 with
  | none => (failed, .err "unbond")
  | some st' => (st', .unbonded (st'.ubd.drop st.ubd.length))

/-! ## `createBatchFees` + `GetAllBatchFees` -/

structure PoolTx where
  token : String
  fee : Nat
  amount : Nat
  deriving DecidableEq, Repr

/-- token, total fees, total amount, number of transactions -/
abbrev FeeEntry := String × Nat × Nat × Nat

/-- `addFeeToMap` on the map as an association list -/
def addFeeToMap (m : List FeeEntry) (tx : PoolTx) : List FeeEntry :=
  if m.any (fun e => e.1 == tx.token) then
    m.map (fun e => if e.1 == tx.token then (e.1, e.2.1 + tx.fee, e.2.2.1 + tx.amount, e.2.2.2 + 1) else e)
  else m ++ [(tx.token, tx.fee, tx.amount, 1)]

def txCount (m : List FeeEntry) (t : String) : Nat :=
  match m.find? (fun e => e.1 == t) with
  | some e => e.2.2.2
  | none => 0

/-- `createBatchFees`: the pool in store-iteration order (`IterateUnbatchedTransactions`), at most `maxElements` per token,
transactions below their token's base fee skipped -/
def createBatchFees (pool : List PoolTx) (maxElements : Nat) (baseFees : List (String × Nat)) : List FeeEntry :=
  pool.foldl (fun m tx =>
    let below := match baseFees.find? (fun b => b.1 == tx.token) with
      | some b => decide (tx.fee < b.2)
      | none => false
    if below then m else if txCount m tx.token < maxElements then addFeeToMap m tx else m) []

def feeLe (a b : FeeEntry) : Bool := strLe a.1 b.1

/-- `GetAllBatchFees`: range over the fee map (scheduled), then sort by token -/
def getAllBatchFees (σ : Sched) (st : St) (pool : List PoolTx) (maxElements : Nat) (baseFees : List (String × Nat)) : St × Out :=
  let r := rangeMap σ st (createBatchFees pool maxElements baseFees)
  (r.2, .fees (r.1.mergeSort feeLe))

/-! ## a tally that stops early (the shape the translator classes `accumulate+exit`) -/

/-- accumulate the validators' contributions in iteration order but leave the loop once `yes` exceeds `decided` -/
def tallyUntil (decided : Nat) : Vec5 → List Vec5 → Vec5
  | acc, [] => acc
  | acc, v :: vs => if acc.1 > decided then acc else tallyUntil decided (vadd acc v) vs

/-! ## the machine -/

inductive Op where
  /-- `MsgUpdateChainOracles` (a passed governance proposal) -/
  | updateOracles (new : List String)
  /-- gov `Tally`: the second loop ranges over the map of bonded validators; every validator contributes a vector -/
  | tally (vals : List (String × Vec5))
  | batchFees (pool : List PoolTx) (maxElements : Nat) (baseFees : List (String × Nat))
  /-- `isNeedOracleSetRequest` → `PowerDiff`: ranges over the merged power map -/
  | powerDiff (cur latest : List (String × Nat))
  | supportChains (registered : List String)
  /-- the end blocker's `isNeedOracleSetRequest` (step 3): `PowerDiff` with its FLOAT accumulation in map order, the single
  division, `%.8f`, `LegacyNewDecFromStr`, comparison with the (capped) parameter; a request leaves an event -/
  | needOracleSet (cur latest : List (String × Nat)) (percentRaw : Nat)
  deriving Repr

def execP (mapFed : Bool) (σ : Sched) (st : St) : Op → St × Out
  | .updateOracles new => updateOracles mapFed σ st new
  | .tally vals =>
    let r := rangeMap σ st vals
    ({ r.2 with events := r.2.events ++ ["tally"] }, .tally (tally (r.1.map (·.2))))
  | .batchFees pool mx base => getAllBatchFees σ st pool mx base
  | .powerDiff cur latest =>
    let r := rangeMap σ st (mergePowers cur latest)
    (r.2, .num (absSum (r.1.map (·.2))))
  | .supportChains reg =>
    let r := rangeMap σ st reg
    (r.2, .chains (sortChains r.1))
  | .needOracleSet cur latest pct =>
    let r := rangeMap σ st (mergePowers cur latest)
    match powerDiffStep (r.1.map (·.2)) pct with
    | some (u, need) => ({ r.2 with events := r.2.events ++ (if need then ["oracle-set-request"] else []) }, .decision u need)
    | none => (r.2, .err "out-of-range")

def runP (mapFed : Bool) (σ : Sched) : St → List Op → St × List Out
  | st, [] => (st, [])
  | st, op :: ops =>
    let r := execP mapFed σ st op
    let rest := runP mapFed σ r.1 ops
    (rest.1, r.2 :: rest.2)

/-- the machine for the source as it is now -/
def exec (σ : Sched) (st : St) (op : Op) : St × Out := execP unbondFedByMap σ st op
def run (σ : Sched) (st : St) (ops : List Op) : St × List Out := runP unbondFedByMap σ st ops

end FxVerif.Model.C17
