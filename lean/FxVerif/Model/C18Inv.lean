import FxVerif.Gen.C18
/-!
# C18 model, part 3 — the inventory of tolerated-failure sites and the shape of the boundary programs

`Gen.C18.toleratedSites` (regenerated, `go/extract/c18inv.go`) lists every place in `x/` and `app/` where the code opens a
store branch, recovers from a panic, runs a statedb native action, turns an error into an IBC acknowledgement, goes on
after an error, or discards a result.  `classify` says, for each of them, why it is or is not a tolerated-failure boundary
of C18 and which regenerated program models it.  `Props.C18.inventory_classified` fails as soon as a site appears that
is not classified here; `Props.C18.inventory_matches_programs` ties the classified cache / native-action / recover /
error-acknowledgement sites to the corresponding nodes of the programs (same number of each).
Core Lean only.
-/
namespace FxVerif.Model.C18Inv
open FxVerif.Gen.C18

inductive Cover where
  /-- a tolerated-failure boundary, modelled by the named regenerated program(s) -/
  | progs (names : List String)
  /-- the failed call is a READ (lookup, decode, address check); a default / fallback value is used; nothing was written -/
  | readFallback
  /-- a branch whose error is RETURNED to the caller (not tolerated: the enclosing transaction / upgrade fails) -/
  | propagates
  /-- a branch that is never written back (a read-only computation on a scratch copy) -/
  | neverCommitted
  /-- not executed while processing a block: app construction, state export, gRPC queries, stateless validation -/
  | notBlockProcessing
  /-- a precompile's native action: all-or-nothing across Cosmos and EVM state is property C09 -/
  | frameAtomicity
  /-- the discarded result is not an error of a state-touching call (string builder, printing) -/
  | pureDiscard
deriving DecidableEq, Repr

def classify (s : Site) : Option Cover :=
  match s.kind, s.file, s.fn with
  -- boundary 1: observed event whose handler fails
  | "cache", "x/crosschain/keeper/attestation.go", "Keeper.processAttestation" => some (.progs ["attestationProg"])
  | "swallow", "x/crosschain/keeper/attestation.go", "Keeper.TryAttestation" => some (.progs ["attestationProg"])
  -- boundary 2: inbound bridge call whose contract call fails, and the transaction that executes it
  | "cache", "x/crosschain/keeper/bridge_call_in.go", "Keeper.BridgeCallHandler" => some (.progs ["executeClaimProg"])
  | "swallow", "x/crosschain/keeper/bridge_call_in.go", "Keeper.BridgeCallHandler" => some (.progs ["executeClaimProg"])
  | "nativeAction", "x/crosschain/precompile/execute_claim.go", "ExecuteClaimMethod.Run" => some (.progs ["executeClaimPrecompileProg"])
  -- boundary 3: gov EndBlocker (failed-min-deposit hook, proposal messages, voting-period-ended hook, recovered panic)
  | "cache", "x/gov/abci.go", "EndBlocker" => some (.progs ["govInactiveProg", "govProg"])
  | "swallow", "x/gov/abci.go", "EndBlocker" => some (.progs ["govInactiveProg", "govProg"])
  | "recover", "x/gov/abci.go", "safeExecuteHandler" => some (.progs ["govProg"])
  -- boundary 4: IBC receive (the branch itself is in ibc-go core, regenerated from the module cache)
  | "errorAck", "x/ibc/middleware/ibc_middleware.go", "IBCMiddleware.OnRecvPacket" => some (.progs ["recvPacketProg"])
  -- other precompile native actions
  | "nativeAction", _, _ => some .frameAtomicity
  -- branches that are not tolerated failures
  | "cache", "app/upgrades/v8/upgrade.go", "CreateUpgradeHandler" => some .propagates
  | "cache", "x/staking/precompile/delegation_rewards.go", "DelegationRewardsMethod.Run" => some .neverCommitted
  -- reads with a fallback
  | "swallow", "x/crosschain/keeper/many_to_one.go", "Keeper.IBCCoinToBaseCoin" => some .readFallback
  | "swallow", "x/evm/keeper/keeper.go", "Keeper.CallEVMWithoutGas" => some .readFallback
  | "swallow", "x/staking/precompile/transfer_shares.go", "TransferShare.handlerTransferShares" => some .readFallback
  | "swallow", "x/migrate/keeper/distr_staking.go", "DistrStakingMigrate.Validate" => some .readFallback
  | "swallow", "x/gov/keeper/msg_server.go", "msgServer.SubmitProposal" => some .readFallback
  -- not block processing
  | "swallow", "app/app.go", "New" => some .notBlockProcessing
  | "swallow", "app/export.go", "App.prepForZeroHeightGenesis" => some .notBlockProcessing
  | "swallow", "x/erc20/keeper/grpc_query.go", "Keeper.TokenPair" => some .notBlockProcessing
  | "swallow", "x/gov/keeper/grpc_query.go", "QueryServer.CustomParams" => some .notBlockProcessing
  | "swallow", "x/migrate/keeper/grpc_query.go", "Keeper.MigrateRecord" => some .notBlockProcessing
  | "swallow", "x/erc20/types/msg.go", "MsgToggleTokenConversion.ValidateBasic" => some .notBlockProcessing
  | "swallow", "x/erc20/types/proposal.go", "ToggleTokenConversionProposal.ValidateBasic" => some .notBlockProcessing
  | "discard", "app/app.go", "New" => some .pureDiscard
  | "discard", "x/crosschain/keeper/batch.go", "Keeper.BuildOutgoingTxBatch" => some .pureDiscard
  | _, _, _ => none

def coveredBy (name : String) (s : Site) : Bool :=
  match classify s with
  | some (.progs ns) => ns.contains name
  | _ => false

/-- sites of one syntactic kind covered by (a group containing) the named program -/
def sitesOf (kind name : String) : List Site := toleratedSites.filter (fun s => s.kind == kind && coveredBy name s)

/-! ## shape of a program -/

/-- ids of the store branches a program opens (CacheContext sites and native actions) -/
def openIds : Stmt → List Nat
  | .seq a b => openIds a ++ openIds b
  | .openCache k _ => [k]
  | .ite _ t e => openIds t ++ openIds e
  | .loop _ b => openIds b
  | .inl _ _ _ _ b => openIds b
  | .block b => openIds b
  | _ => []

/-- number of inlined functions with a deferred `recover()` -/
def recovers : Stmt → Nat
  | .seq a b => recovers a + recovers b
  | .ite _ t e => recovers t + recovers e
  | .loop _ b => recovers b
  | .inl _ _ r _ b => (if r.isSome then 1 else 0) + recovers b
  | .block b => recovers b
  | _ => 0

/-- number of `return <ctor>(…)` statements with the given constructor text -/
def failRets (what : String) : Stmt → Nat
  | .seq a b => failRets what a + failRets what b
  | .ite _ t e => failRets what t + failRets what e
  | .loop _ b => failRets what b
  | .inl _ _ _ _ b => failRets what b
  | .block b => failRets what b
  | .ret (.fail w) => if w == what then 1 else 0
  | _ => 0

/-- names of the leaf calls that run on store branch `k` -/
def callsOn (k : Nat) : Stmt → List String
  | .seq a b => callsOn k a ++ callsOn k b
  | .call n (.cache j) _ _ _ => if j == k then [n] else []
  | .ite _ t e => callsOn k t ++ callsOn k e
  | .loop _ b => callsOn k b
  | .inl _ _ _ _ b => callsOn k b
  | .block b => callsOn k b
  | _ => []

/-- the same program in which the leaf calls on branch `k` write NOTHING (their results — error, VM error — are
unchanged): the state it ends in is the designated outcome of a failure on branch `k`, computed from the code instead of
written down by hand -/
def strip (k : Nat) : Stmt → Stmt
  | .seq a b => .seq (strip k a) (strip k b)
  | .call n (.cache j) e r a => if j == k then .call n .none e r a else .call n (.cache j) e r a
  | .ite c t e => .ite c (strip k t) (strip k e)
  | .loop id b => .loop id (strip k b)
  | .inl n a b c body => .inl n a b c (strip k body)
  | .block b => .block (strip k b)
  | s => s

end FxVerif.Model.C18Inv
