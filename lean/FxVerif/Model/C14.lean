import FxVerif.Gen.C14
/-!
# C14 — store-level model of account migration (`x/migrate`) and of exactly the records it touches

Core Lean only, total, executable.  Stores are association lists (`get/put/del`), index stores are key lists
(`ins/rem`).  The staking / distribution / gov operations are small models of the SDK behaviour the migration
interacts with (dependency code: modelled, exercised through the real app by the harness, not verified).
`validate`, `execute`, `record` follow `x/migrate/keeper/{msg_server,bank,distr_staking,gov}.go` key by key.

Facts read from the source on every run (`Gen/C14.lean`) select what the model does where the code may differ:
which index keys `Execute` rewrites, how far the gov scan walks the proposal queues, the order of the signed bytes.
-/
namespace FxVerif.Model.C14

abbrev Addr := Nat
abbrev Val := Nat
abbrev Denom := Nat
abbrev Time := Nat

/-! ## stores -/
abbrev Store (κ ν : Type) := List (κ × ν)

def get {κ ν} [BEq κ] (m : Store κ ν) (k : κ) : Option ν := m.lookup k
def del {κ ν} [BEq κ] (m : Store κ ν) (k : κ) : Store κ ν := m.filter (fun p => !(p.1 == k))
def put {κ ν} [BEq κ] (m : Store κ ν) (k : κ) (v : ν) : Store κ ν := (k, v) :: del m k
/-- what an iterator over the store yields: the entries `get` sees (an association list may carry shadowed entries; a KV
store iterator yields every key once with its current value) -/
def visible {κ ν} [BEq κ] [BEq ν] (m : Store κ ν) : Store κ ν := m.filter (fun p => get m p.1 == some p.2)
/-- `Set` under a key that is present: a KV store has one slot per key, the value is replaced where it stands (used for
the time-queue slices, whose iteration order the end blocker follows) -/
def setAt {κ ν} [BEq κ] (m : Store κ ν) (k : κ) (v : ν) : Store κ ν :=
  if m.any (fun p => p.1 == k) then m.map (fun p => if p.1 == k then (p.1, v) else p) else (k, v) :: m
def ins {κ} [BEq κ] (s : List κ) (k : κ) : List κ := if s.contains k then s else k :: s
def rem {κ} [BEq κ] (s : List κ) (k : κ) : List κ := s.filter (fun x => !(x == k))

/-! ## configuration read from the code -/
structure Cfg where
  /-- `Execute` deletes/sets the delegations-by-validator index key (0x71) -/
  rewriteDelIdx : Bool
  /-- `Execute` re-points the unbonding-id index (0x38) of every moved entry -/
  rewriteUnbId : Bool
  /-- gov `Validate` walks the proposal queues completely (not only up to the block time) -/
  govScanAll : Bool
  /-- handler order is validate-all, (the target account is created when it does not exist), execute-all, record -/
  orderOk : Bool
  /-- `ValidateBasic` compares the address recovered from the signature with the target -/
  sigRequired : Bool
  /-- `Validate` rejects validator operators (source and target) -/
  checkOperator : Bool
  /-- `Validate` rejects a target with delegation / unbonding / redelegation records -/
  checkTarget : Bool
  /-- key family read by the already-migrated guard applied to the source / to the target ("" = no such guard) -/
  recKeyFrom : String
  recKeyTo : String
  /-- `SetMigrateRecord` writes the record under the source, under the target, and the two direction flags -/
  wRecFrom : Bool
  wRecTo : Bool
  wDirFrom : Bool
  wDirTo : Bool
  /-- the bank handler sends `GetAllBalances(from)` from the source to the target -/
  bankAll : Bool
  /-- `DepositPeriodCallback` refuses a proposer that is the source / the target, a depositor that is the source / the target -/
  gProposerFrom : Bool
  gProposerTo : Bool
  gDepositFrom : Bool
  gDepositTo : Bool
  /-- `VotePeriodCallback` first runs the deposit callback, and refuses a voter that is the source / the target -/
  gVoteDeposit : Bool
  gVoteFrom : Bool
  gVoteTo : Bool
  /-- the entry loops of `Execute` reach the queue rewrite for every entry (no branch statement, the rewrite flag is
  declared per entry) -/
  qEveryEntry : Bool
  /-- a queue element is renamed whenever its delegator is the source, whatever record it belongs to -/
  qByDelegator : Bool
  /-- the functions the message's `To` string goes through in `ValidateBasic` (whose result the signature is checked
  against) and in the message server (whose result receives the portfolio) -/
  toParseVB : String
  toParseSrv : String
  /-- genesis export (`IterateMigrateRecords` as called by `ExportGenesis`): the value flag whose records the walk skips,
  and whether the walk can stop before the last record -/
  gExportSkip : String
  gExportStop : Bool
  /-- genesis import: `InitGenesis` calls `SetMigrateRecord(record.From, record.To)` for every exported record -/
  gImportSets : Bool
  deriving Repr, DecidableEq

/-- the far-future bound that makes `NewPrefixUntilPairRange` cover every queue entry -/
def farFuture : String := "time.Date(9999, 12, 31, 23, 59, 59, 0, time.UTC)"

/-- key family read by the already-migrated guard `MigrateAccount` applies to `who` (resolved through the keeper's
`Has…` methods) -/
def guardKey (who : String) : String :=
  match Gen.C14.recordChecks.find? (fun p => p.2 == who) with
  | some p => (Gen.C14.recordPredicates.lookup p.1).getD ""
  | none => ""

def cfg : Cfg :=
  { rewriteDelIdx := Gen.C14.executeDeleteKeys.contains "GetDelegationsByValKey" &&
                     Gen.C14.executeSetKeys.contains "GetDelegationsByValKey"
    rewriteUnbId := Gen.C14.executeSetKeys.contains "GetUnbondingIndexKey" &&
                    Gen.C14.unbondingIndexValues == ["GetUBDKey(to.Bytes(),valAddr)", "GetREDKey(to.Bytes(),valSrcAddr,valDstAddr)"]
    govScanAll := Gen.C14.govInactiveBound == farFuture && Gen.C14.govActiveBound == farFuture
    orderOk := Gen.C14.handlerOrder == ["check-record-from", "check-record-to", "check-from-account",
                                        "validate-all", "ensure-to-account", "execute-all", "set-record"]
    sigRequired := Gen.C14.sigComparedWith == "to"
    checkOperator := Gen.C14.stakingValidateChecks.contains "validator-from" &&
                     Gen.C14.stakingValidateChecks.contains "validator-to"
    checkTarget := Gen.C14.stakingValidateChecks.contains "delegations-to" &&
                   Gen.C14.stakingValidateChecks.contains "unbonding-to" &&
                   Gen.C14.stakingValidateChecks.contains "redelegations-to"
    recKeyFrom := guardKey "from"
    recKeyTo := guardKey "to"
    wRecFrom := Gen.C14.recordWrites.contains ("GetMigratedRecordKey", "from")
    wRecTo := Gen.C14.recordWrites.contains ("GetMigratedRecordKey", "to")
    wDirFrom := Gen.C14.recordWrites.contains ("GetMigratedDirectionFrom", "from")
    wDirTo := Gen.C14.recordWrites.contains ("GetMigratedDirectionTo", "to")
    bankAll := Gen.C14.bankAmountCall == "GetAllBalances(from)" && Gen.C14.bankSendArgs == "from,to.Bytes(),amount"
    gProposerFrom := Gen.C14.govDepositChecks.contains "proposer-from"
    gProposerTo := Gen.C14.govDepositChecks.contains "proposer-to"
    gDepositFrom := Gen.C14.govDepositChecks.contains "deposit-from"
    gDepositTo := Gen.C14.govDepositChecks.contains "deposit-to"
    gVoteDeposit := Gen.C14.govVoteChecks.contains "deposit-callback"
    gVoteFrom := Gen.C14.govVoteChecks.contains "vote-from"
    gVoteTo := Gen.C14.govVoteChecks.contains "vote-to"
    qEveryEntry := Gen.C14.queueLoops.map (fun l => (l.1, l.2.1, l.2.2.2)) ==
                     [("ubd.Entries", "", "inside"), ("red.Entries", "", "inside")]
    qByDelegator := Gen.C14.queueLoops.map (fun l => l.2.2.1) ==
                      ["UBDQueue[i].DelegatorAddress == from.String()", "redQueue[i].DelegatorAddress == from.String()"]
    toParseVB := (Gen.C14.toParseSites.lookup "ValidateBasic").getD ""
    toParseSrv := (Gen.C14.toParseSites.lookup "MigrateAccount").getD ""
    gExportSkip := Gen.C14.genesisExportSkip
    gExportStop := !(Gen.C14.genesisExportShape == ["From=key", "To=value", "append", "return false"])
    gImportSets := Gen.C14.genesisImportCalls == ["SetMigrateRecord(record.From,record.To)"] }

/-! ## state -/
def bondedPool : Addr := 901
def notBondedPool : Addr := 902
def govMod : Addr := 904

/-- 0 = deposit period, 1 = voting period, 2 = closed -/
structure Proposal where
  proposer : Addr
  status : Nat
  depEnd : Time
  voteEnd : Time
  total : Nat
  deriving Repr, DecidableEq, BEq

/-- a vesting schedule (`x/auth/vesting`): 0 = delayed (everything at `stop`), 1 = continuous (linear from `start` to
`stop`), 2 = periodic (`periods`: length, amount), 3 = permanently locked -/
structure Vest where
  kind : Nat
  start : Time
  stop : Time
  orig : List (Denom × Nat)
  periods : List (Nat × List (Denom × Nat))
  deriving Repr, DecidableEq, BEq

structure State where
  now : Time := 0
  unbondTime : Nat := 300
  depPeriod : Nat := 200
  votePeriod : Nat := 400
  minDeposit : Nat := 1000
  maxEntries : Nat := 7
  vals : List Val := []
  hasKey : List Addr := []
  bal : Store (Addr × Denom) Nat := []
  valTok : Store Val Nat := []
  dels : Store (Addr × Val) Nat := []
  delIdx : List (Val × Addr) := []
  startInfo : Store (Val × Addr) (Nat × Nat) := []
  period : Store Val Nat := []
  ubds : Store (Addr × Val) (List (Time × Nat × Nat)) := []      -- entries (completion, balance, unbonding id)
  ubdIdx : List (Val × Addr) := []
  ubdQ : Store Time (List (Addr × Val)) := []
  reds : Store (Addr × Val × Val) (List (Time × Nat × Nat)) := []
  redSrcIdx : List (Val × Addr × Val) := []
  redDstIdx : List (Val × Addr × Val) := []
  redQ : Store Time (List (Addr × Val × Val)) := []
  unbId : Store Nat (Addr × Val × Option Val) := []              -- 0x38: unbonding id ↦ record key
  nextUnbId : Nat := 1
  blockFirstId : Nat := 1                                         -- the unbonding-id counter at the start of this block
  wdAddr : Store Addr Addr := []
  props : Store Nat Proposal := []
  deposits : Store (Nat × Addr) Nat := []
  votes : List (Nat × Addr) := []
  inactiveQ : List (Time × Nat) := []
  activeQ : List (Time × Nat) := []
  nextProp : Nat := 1
  recs : Store Addr (Bool × Addr) := []                           -- addr ↦ (is source?, other side)
  dirFrom : List Addr := []                                       -- direction flag: migrated away
  dirTo : List Addr := []                                         -- direction flag: migrated into
  vest : Store Addr Vest := []                                    -- vesting schedules (accounts that only send / receive)
  deriving Repr

/-! ## bank -/
def balOf (b : Store (Addr × Denom) Nat) (a : Addr) (d : Denom) : Nat := (get b (a, d)).getD 0
def setBal (b : Store (Addr × Denom) Nat) (a : Addr) (d : Denom) (n : Nat) : Store (Addr × Denom) Nat :=
  if n = 0 then del b (a, d) else put b (a, d) n
def credit (b : Store (Addr × Denom) Nat) (a : Addr) (d : Denom) (n : Nat) := setBal b a d (balOf b a d + n)
def sendCoins (b : Store (Addr × Denom) Nat) (x y : Addr) (d : Denom) (n : Nat) : Option (Store (Addr × Denom) Nat) :=
  if balOf b x d < n then none else
  some (credit (setBal b x d (balOf b x d - n)) y d n)

/-! ### vesting: locked coins -/
def amountOf (l : List (Denom × Nat)) (d : Denom) : Nat := ((l.filter (fun p => p.1 == d)).map (·.2)).sum

/-- periodic schedule: amounts of the periods that have fully elapsed at `now`, the first starting at `t` -/
def vestedPeriods (now : Time) (d : Denom) : Time → List (Nat × List (Denom × Nat)) → Nat
  | _, [] => 0
  | t, (len, amt) :: rest => if t + len ≤ now then amountOf amt d + vestedPeriods now d (t + len) rest else 0

def vestedOf (v : Vest) (now : Time) (d : Denom) : Nat :=
  let o := amountOf v.orig d
  match v.kind with
  | 0 => if now ≥ v.stop then o else 0
  | 1 => if now ≤ v.start then 0 else if now ≥ v.stop then o else o * (now - v.start) / (v.stop - v.start)
  | 2 => if now ≤ v.start then 0 else if now ≥ v.stop then o else vestedPeriods now d v.start v.periods
  | _ => 0

/-- `LockedCoins` of an account at a time (0 for an account without schedule) -/
def lockedAt (vs : Store Addr Vest) (now : Time) (a : Addr) (d : Denom) : Nat :=
  match get vs a with
  | none => 0
  | some v => amountOf v.orig d - vestedOf v now d

/-- `SendCoins` of a user account: `subUnlockedCoins` refuses to touch locked coins -/
def sendUnlocked (b : Store (Addr × Denom) Nat) (locked : Nat) (x y : Addr) (d : Denom) (n : Nat) :
    Option (Store (Addr × Denom) Nat) :=
  if balOf b x d < locked + n then none else sendCoins b x y d n

/-- all balances of an address, as (denom, amount) -/
def balancesOf (b : Store (Addr × Denom) Nat) (a : Addr) : List (Denom × Nat) :=
  ((visible b).filter (fun p => p.1.1 == a)).map (fun p => (p.1.2, p.2))

/-! ## distribution hooks (F1 bookkeeping reduced to period counter + starting info; amounts are inputs) -/
def periodOf (s : State) (v : Val) : Nat := (get s.period v).getD 0

/-- `BeforeDelegationCreated` / `BeforeDelegationSharesModified`; `rw` = reward the real keeper paid (input) -/
def touchPre (s : State) (d : Addr) (v : Val) (rw : Nat) : Option State :=
  match get s.dels (d, v) with
  | none => some { s with period := put s.period v (periodOf s v + 1) }
  | some _ =>
    match get s.startInfo (v, d) with
    | none => none      -- withdrawDelegationRewards: no starting info → error
    | some _ =>
      let w := (get s.wdAddr d).getD d
      some { s with period := put s.period v (periodOf s v + 1), startInfo := del s.startInfo (v, d),
                    bal := credit s.bal w 0 rw }

/-- `AfterDelegationModified`: initializeDelegation -/
def touchPost (s : State) (d : Addr) (v : Val) : State :=
  { s with startInfo := put s.startInfo (v, d) (periodOf s v - 1, (get s.dels (d, v)).getD 0) }

/-! ## staking -/
def tokOf (s : State) (v : Val) : Nat := (get s.valTok v).getD 0

def addShares (s : State) (d : Addr) (v : Val) (amt rw : Nat) : Option State :=
  match touchPre s d v rw with
  | none => none
  | some s1 =>
    let sh := (get s1.dels (d, v)).getD 0 + amt
    some (touchPost { s1 with dels := put s1.dels (d, v) sh, delIdx := ins s1.delIdx (v, d),
                              valTok := put s1.valTok v (tokOf s1 v + amt) } d v)

def delegate (s : State) (d : Addr) (v : Val) (amt rw : Nat) : Option State :=
  if !(s.vals.contains v) || amt == 0 then none else
  match touchPre s d v rw with
  | none => none
  | some s1 =>
    match sendCoins s1.bal d bondedPool 0 amt with
    | none => none
    | some b =>
      let sh := (get s1.dels (d, v)).getD 0 + amt
      some (touchPost { s1 with bal := b, dels := put s1.dels (d, v) sh, delIdx := ins s1.delIdx (v, d),
                                valTok := put s1.valTok v (tokOf s1 v + amt) } d v)

def unbond (s : State) (d : Addr) (v : Val) (amt rw : Nat) : Option State :=
  match get s.dels (d, v) with
  | none => none
  | some sh =>
    if amt == 0 || sh < amt then none else
    match touchPre s d v rw with
    | none => none
    | some s1 =>
      let s2 := if sh - amt == 0 then { s1 with dels := del s1.dels (d, v), delIdx := rem s1.delIdx (v, d) }
                else touchPost { s1 with dels := put s1.dels (d, v) (sh - amt), delIdx := ins s1.delIdx (v, d) } d v
      some { s2 with valTok := put s2.valTok v (tokOf s2 v - amt) }

/-- `UnbondingDelegation.AddEntry`: an entry with the same creation height (an id handed out in this block: `lo ≤ id`) and
the same completion time absorbs the amount; otherwise a new entry is appended -/
def addEntry (es : List (Time × Nat × Nat)) (t amt id lo : Nat) : List (Time × Nat × Nat) × Bool :=
  if es.any (fun e => e.1 == t && decide (lo ≤ e.2.2)) then
    (es.map (fun e => if e.1 == t && decide (lo ≤ e.2.2) then (e.1, e.2.1 + amt, e.2.2) else e), false)
  else (es ++ [(t, amt, id)], true)

def undelegate (s : State) (d : Addr) (v : Val) (amt rw : Nat) : Option State :=
  if !(s.vals.contains v) then none else
  let es := (get s.ubds (d, v)).getD []
  if es.length ≥ s.maxEntries then none else
  match unbond s d v amt rw with
  | none => none
  | some s1 =>
    match sendCoins s1.bal bondedPool notBondedPool 0 amt with
    | none => none
    | some b =>
      let t := s.now + s.unbondTime
      let id := s1.nextUnbId
      let (es', isNew) := addEntry es t amt id s.blockFirstId
      some { s1 with bal := b, nextUnbId := id + 1, ubds := put s1.ubds (d, v) es', ubdIdx := ins s1.ubdIdx (v, d),
                     unbId := if isNew then put s1.unbId id (d, v, none) else s1.unbId,
                     ubdQ := put s1.ubdQ t ((get s1.ubdQ t).getD [] ++ [(d, v)]) }

def redelegate (s : State) (d : Addr) (src dst : Val) (amt rwSrc rwDst : Nat) : Option State :=
  if src == dst || !(s.vals.contains src) || !(s.vals.contains dst) then none else
  if s.redDstIdx.any (fun k => k.1 == src && k.2.1 == d) then none else      -- transitive redelegation
  let es := (get s.reds (d, src, dst)).getD []
  if es.length ≥ s.maxEntries then none else
  match unbond s d src amt rwSrc with
  | none => none
  | some s1 =>
    match addShares s1 d dst amt rwDst with
    | none => none
    | some s2 =>
      let t := s.now + s.unbondTime
      let id := s2.nextUnbId
      some { s2 with nextUnbId := id + 1, reds := put s2.reds (d, src, dst) (es ++ [(t, amt, id)]),
                     redSrcIdx := ins s2.redSrcIdx (src, d, dst), redDstIdx := ins s2.redDstIdx (dst, d, src),
                     unbId := put s2.unbId id (d, src, some dst),
                     redQ := put s2.redQ t ((get s2.redQ t).getD [] ++ [(d, src, dst)]) }

def withdraw (s : State) (d : Addr) (v : Val) (rw : Nat) : Option State :=
  match get s.dels (d, v) with
  | none => none
  | some _ =>
    match touchPre s d v rw with
    | none => none
    | some s1 => some (touchPost s1 d v)

def setWithdraw (s : State) (d w : Addr) : State := { s with wdAddr := put s.wdAddr d w }

/-! ### end blocker: maturation -/
def completeUnbonding (s : State) (d : Addr) (v : Val) : State :=
  match get s.ubds (d, v) with
  | none => s
  | some es =>
    let mature := es.filter (fun e => e.1 ≤ s.now)
    let rest := es.filter (fun e => !(e.1 ≤ s.now))
    let paid := (mature.map (fun e => e.2.1)).foldl (· + ·) 0
    let b := match sendCoins s.bal notBondedPool d 0 paid with | some b => b | none => s.bal
    let u := mature.foldl (fun u e => del u e.2.2) s.unbId
    if rest.isEmpty then { s with bal := b, unbId := u, ubds := del s.ubds (d, v), ubdIdx := rem s.ubdIdx (v, d) }
    else { s with bal := b, unbId := u, ubds := put s.ubds (d, v) rest }

def completeRedelegation (s : State) (d : Addr) (src dst : Val) : State :=
  match get s.reds (d, src, dst) with
  | none => s
  | some es =>
    let mature := es.filter (fun e => e.1 ≤ s.now)
    let rest := es.filter (fun e => !(e.1 ≤ s.now))
    let u := mature.foldl (fun u e => del u e.2.2) s.unbId
    if rest.isEmpty then { s with unbId := u, reds := del s.reds (d, src, dst), redSrcIdx := rem s.redSrcIdx (src, d, dst),
                                  redDstIdx := rem s.redDstIdx (dst, d, src) }
    else { s with unbId := u, reds := put s.reds (d, src, dst) rest }

def stakingEnd (s : State) : State :=
  let mu := s.ubdQ.filter (fun p => p.1 ≤ s.now)
  let s1 := { s with ubdQ := s.ubdQ.filter (fun p => !(p.1 ≤ s.now)) }
  let s2 := (mu.flatMap (·.2)).foldl (fun s p => completeUnbonding s p.1 p.2) s1
  let mr := s2.redQ.filter (fun p => p.1 ≤ s2.now)
  let s3 := { s2 with redQ := s2.redQ.filter (fun p => !(p.1 ≤ s2.now)) }
  (mr.flatMap (·.2)).foldl (fun s p => completeRedelegation s p.1 p.2.1 p.2.2) s3

/-! ## gov -/
def refundDeposits (s : State) (id : Nat) : State :=
  let ds := s.deposits.filter (fun p => p.1.1 == id)
  let b := ds.foldl (fun b p => match sendCoins b govMod p.1.2 0 p.2 with | some b' => b' | none => b) s.bal
  { s with bal := b, deposits := s.deposits.filter (fun p => !(p.1.1 == id)) }

def govEnd (s : State) : State :=
  let dead := s.inactiveQ.filter (fun p => p.1 ≤ s.now)
  let s1 := dead.foldl (fun s p => refundDeposits { s with props := del s.props p.2 } p.2)
              { s with inactiveQ := s.inactiveQ.filter (fun p => !(p.1 ≤ s.now)) }
  let ended := s1.activeQ.filter (fun p => p.1 ≤ s1.now)
  ended.foldl (fun s p =>
      let s' := refundDeposits s p.2
      { s' with votes := s'.votes.filter (fun x => !(x.1 == p.2)),
                props := match get s'.props p.2 with
                         | some pr => put s'.props p.2 { pr with status := 2 }
                         | none => s'.props })
    { s1 with activeQ := s1.activeQ.filter (fun p => !(p.1 ≤ s1.now)) }

def submit (s : State) (a : Addr) (dep : Nat) : Option State :=
  match sendCoins s.bal a govMod 0 dep with
  | none => none
  | some b =>
    let id := s.nextProp
    let voting := dep ≥ s.minDeposit
    let pr : Proposal := { proposer := a, status := if voting then 1 else 0, depEnd := s.now + s.depPeriod,
                           voteEnd := if voting then s.now + s.votePeriod else 0, total := dep }
    some { s with bal := b, nextProp := id + 1, props := put s.props id pr,
                  deposits := put s.deposits (id, a) dep,   -- a deposit record is written also for an empty initial deposit
                  inactiveQ := if voting then s.inactiveQ else ins s.inactiveQ (pr.depEnd, id),
                  activeQ := if voting then ins s.activeQ (pr.voteEnd, id) else s.activeQ }

def deposit (s : State) (a : Addr) (id amt : Nat) : Option State :=
  match get s.props id with
  | none => none
  | some pr =>
    if pr.status ≥ 2 || amt == 0 then none else
    match sendCoins s.bal a govMod 0 amt with
    | none => none
    | some b =>
      let total := pr.total + amt
      let activate := pr.status == 0 && total ≥ s.minDeposit
      let pr' : Proposal := if activate then { pr with total := total, status := 1, voteEnd := s.now + s.votePeriod }
                            else { pr with total := total }
      some { s with bal := b, props := put s.props id pr',
                    deposits := put s.deposits (id, a) ((get s.deposits (id, a)).getD 0 + amt),
                    inactiveQ := if activate then rem s.inactiveQ (pr.depEnd, id) else s.inactiveQ,
                    activeQ := if activate then ins s.activeQ (pr'.voteEnd, id) else s.activeQ }

def vote (s : State) (a : Addr) (id : Nat) : Option State :=
  match get s.props id with
  | none => none
  | some pr => if pr.status != 1 then none else some { s with votes := ins s.votes (id, a) }

/-! ## migration: `x/migrate` -/
inductive MErr where
  | same | sig | migrated | account | validator | toStaking | gov | exec | toAddr
  deriving Repr, DecidableEq

/-- `DepositPeriodCallback` for one proposal: the refusals the code contains -/
def depositCb (c : Cfg) (s : State) (frm to : Addr) (id : Nat) : Bool :=
  match get s.props id with
  | none => true   -- `Proposals.Get` error
  | some pr =>
    (c.gProposerFrom && pr.proposer == frm) || (c.gProposerTo && pr.proposer == to) ||
    (c.gDepositFrom && (get s.deposits (id, frm)).isSome) || (c.gDepositTo && (get s.deposits (id, to)).isSome)

/-- `VotePeriodCallback` -/
def voteCb (c : Cfg) (s : State) (frm to : Addr) (id : Nat) : Bool :=
  (c.gVoteDeposit && depositCb c s frm to id) || (get s.props id).isNone ||
  (c.gVoteFrom && s.votes.contains (id, frm)) || (c.gVoteTo && s.votes.contains (id, to))

/-- `GovMigrate.Validate`: walk both queues up to the bound; `true` = refuse -/
def govRefuses (c : Cfg) (s : State) (frm to : Addr) : Bool :=
  let inBound (t : Time) : Bool := c.govScanAll || t ≤ s.now
  (s.inactiveQ.filter (fun p => inBound p.1)).any (fun p => depositCb c s frm to p.2) ||
  (s.activeQ.filter (fun p => inBound p.1)).any (fun p => voteCb c s frm to p.2)

/-! ### the gov callbacks as regenerated check lists

`Gen.C14.govDepositChecks` / `govVoteChecks` list what `DepositPeriodCallback` / `VotePeriodCallback` refuse, in source order
(`deposit-callback`: the vote callback first runs the deposit callback).  `depositCbP` / `voteCbP` / `govRefusesP` INTERPRET the
lists (the driver runs them); `Props.C14.gov_program_as_modelled` proves them equal to `govRefuses`. -/
inductive GChk where
  | proposerFrom | proposerTo | depositFrom | depositTo | voteFrom | voteTo | depositCallback | unknown
  deriving Repr, DecidableEq

def parseG (chk : String) : GChk :=
  ([("proposer-from", GChk.proposerFrom), ("proposer-to", .proposerTo), ("deposit-from", .depositFrom),
    ("deposit-to", .depositTo), ("vote-from", .voteFrom), ("vote-to", .voteTo),
    ("deposit-callback", .depositCallback)].lookup chk).getD .unknown

def govCheck (s : State) (frm to : Addr) (id : Nat) (pr : Proposal) : GChk → Bool
  | .proposerFrom => pr.proposer == frm
  | .proposerTo => pr.proposer == to
  | .depositFrom => (get s.deposits (id, frm)).isSome
  | .depositTo => (get s.deposits (id, to)).isSome
  | .voteFrom => s.votes.contains (id, frm)
  | .voteTo => s.votes.contains (id, to)
  | _ => false

def depositCbP (dep : List GChk) (s : State) (frm to : Addr) (id : Nat) : Bool :=
  match get s.props id with
  | none => true
  | some pr => dep.any (govCheck s frm to id pr)

def voteCbP (dep vote : List GChk) (s : State) (frm to : Addr) (id : Nat) : Bool :=
  match get s.props id with
  | none => true
  | some pr => vote.any (fun chk => if chk = .depositCallback then dep.any (govCheck s frm to id pr) else govCheck s frm to id pr chk)

def govRefusesP (c : Cfg) (dep vote : List GChk) (s : State) (frm to : Addr) : Bool :=
  let inBound (t : Time) : Bool := c.govScanAll || t ≤ s.now
  (s.inactiveQ.filter (fun p => inBound p.1)).any (fun p => depositCbP dep s frm to p.2) ||
  (s.activeQ.filter (fun p => inBound p.1)).any (fun p => voteCbP dep vote s frm to p.2)

/-- `DistrStakingMigrate.Validate` -/
def stakingValidate (c : Cfg) (s : State) (frm to : Addr) : Option MErr :=
  if c.checkOperator && (s.vals.contains frm || s.vals.contains to) then some .validator
  else if c.checkTarget &&
    (s.dels.any (fun p => p.1.1 == to) || s.ubds.any (fun p => p.1.1 == to) || s.reds.any (fun p => p.1.1 == to))
  then some .toStaking else none

def lockedOf (s : State) (a : Addr) (d : Denom) : Nat := lockedAt s.vest s.now a d

/-- the amount `BankMigrate.Execute` sends: every balance (`GetAllBalances`), or — any other call is read as the
spendable part — what is not locked -/
def bankAmounts (c : Cfg) (s : State) (frm : Addr) : List (Denom × Nat) :=
  if c.bankAll then balancesOf s.bal frm
  else (balancesOf s.bal frm).map (fun p => (p.1, p.2 - lockedOf s frm p.1))

/-- the single `SendCoins` of the bank handler fails as a whole when one of its coins is not spendable -/
def bankBlocked (c : Cfg) (s : State) (frm : Addr) : Bool :=
  (bankAmounts c s frm).any (fun p => p.2 > 0 && balOf s.bal frm p.1 < lockedOf s frm p.1 + p.2)

/-- `BankMigrate.Execute`: send the amount, coin by coin -/
def bankExecute (c : Cfg) (s : State) (frm to : Addr) : State :=
  let b := (bankAmounts c s frm).foldl
    (fun b p => match sendCoins b frm to p.1 p.2 with | some b' => b' | none => b) s.bal
  { s with bal := b }

def renPair (frm to : Addr) (p : Addr × Val) : Addr × Val := if p.1 == frm then (to, p.2) else p
def renTriple (frm to : Addr) (p : Addr × Val × Val) : Addr × Val × Val := if p.1 == frm then (to, p.2) else p

/-- one delegation record of `from` (`delegateIterator` loop body) -/
def moveDelegation (c : Cfg) (frm to : Addr) (s : State) (p : (Addr × Val) × Nat) : State :=
  let v := p.1.2
  let si := match get s.startInfo (v, frm) with
            | some x => put (del s.startInfo (v, frm)) (v, to) x
            | none => del s.startInfo (v, frm)
  { s with startInfo := si,
           dels := put (del s.dels (frm, v)) (to, v) p.2,
           delIdx := if c.rewriteDelIdx then ins (rem s.delIdx (v, frm)) (v, to) else s.delIdx }

/-- the entries whose queue slice the entry loop reaches -/
def qEntries (c : Cfg) (es : List (Time × Nat × Nat)) : List (Time × Nat × Nat) := if c.qEveryEntry then es else es.take 1

/-- one unbonding delegation of `from` (`unbondingDelegationIterator` loop body): the record and its by-validator index
entry are re-keyed, the unbonding-id index of every entry is re-pointed, and for every entry (`qEntries`) the queue slice
of its completion time is read and, if it names the source, written back renamed -/
def moveUbd (c : Cfg) (frm to : Addr) (s : State) (p : (Addr × Val) × List (Time × Nat × Nat)) : State :=
  let v := p.1.2
  let s1 := { s with ubds := put (del s.ubds (frm, v)) (to, v) p.2, ubdIdx := ins (rem s.ubdIdx (v, frm)) (v, to) }
  let s2 := p.2.foldl (fun s e =>
      { s with unbId := if c.rewriteUnbId then put s.unbId e.2.2 (to, v, none) else s.unbId }) s1
  (qEntries c p.2).foldl (fun s e =>
      let slice := (get s.ubdQ e.1).getD []
      let ren : Addr × Val → Addr × Val :=
        if c.qByDelegator then renPair frm to else fun x => if x == (frm, v) then (to, v) else x
      { s with ubdQ := if slice.any (fun x => x.1 == frm) then setAt s.ubdQ e.1 (slice.map ren) else s.ubdQ }) s2

/-- one redelegation of `from` (`redelegateIterator` loop body) -/
def moveRed (c : Cfg) (frm to : Addr) (s : State) (p : (Addr × Val × Val) × List (Time × Nat × Nat)) : State :=
  let src := p.1.2.1
  let dst := p.1.2.2
  let s1 := { s with reds := put (del s.reds (frm, src, dst)) (to, src, dst) p.2,
                     redSrcIdx := ins (rem s.redSrcIdx (src, frm, dst)) (src, to, dst),
                     redDstIdx := ins (rem s.redDstIdx (dst, frm, src)) (dst, to, src) }
  let s2 := p.2.foldl (fun s e =>
      { s with unbId := if c.rewriteUnbId then put s.unbId e.2.2 (to, src, some dst) else s.unbId }) s1
  (qEntries c p.2).foldl (fun s e =>
      let slice := (get s.redQ e.1).getD []
      let ren : Addr × Val × Val → Addr × Val × Val :=
        if c.qByDelegator then renTriple frm to else fun x => if x == (frm, src, dst) then (to, src, dst) else x
      { s with redQ := if slice.any (fun x => x.1 == frm) then setAt s.redQ e.1 (slice.map ren) else s.redQ }) s2

/-- `DistrStakingMigrate.Execute` -/
def stakingExecute (c : Cfg) (s : State) (frm to : Addr) : State :=
  let s1 := ((visible s.dels).filter (fun p => p.1.1 == frm)).foldl (moveDelegation c frm to) s
  let s2 := ((visible s1.ubds).filter (fun p => p.1.1 == frm)).foldl (moveUbd c frm to) s1
  ((visible s2.reds).filter (fun p => p.1.1 == frm)).foldl (moveRed c frm to) s2

/-! ### `DistrStakingMigrate.Execute` as a program

`Gen.C14.executeProgram` lists, per iterator loop of `Execute` (`del` / `ubd` / `red`) and per entry loop inside it
(`.entry`), every store statement in source order.  `parseX` recognises a statement by its exact key constructor and
argument list (a statement it does not know is `unknown` and does nothing); `moveDelegationP` / `moveUbdP` / `moveRedP`
INTERPRET the statement lists.  The driver runs this interpretation (`stakingExecuteP`); `moveDelegation` / `moveUbd` /
`moveRed` above are the hand-written reading the theorems are about, and `Props.C14.execute_program_as_modelled` proves
the two equal for the statements as they are in the source now. -/

inductive Who where
  | frm | to
  deriving Repr, DecidableEq

inductive XStmt where
  /-- `startingInfo := distrStore.Get(GetDelegatorStartingInfoKey(validator, w))` / `Delete` of that key / `Set` of that
  key to the value read -/
  | siGet (w : Who) | siDel (w : Who) | siSet (w : Who)
  /-- `Delete` of the record under delegator `w` (for the source: the iterator's key) / `Set` of the record, relabelled to
  `w`, under delegator `w` -/
  | recDel (w : Who) | recSet (w : Who)
  /-- `Delete` / `Set` of a by-validator index element of `w` (0: delegations-by-validator / unbonding-by-validator /
  redelegations-by-source-validator, 1: redelegations-by-destination-validator) -/
  | idxDel (i : Nat) (w : Who) | idxSet (i : Nat) (w : Who)
  /-- per entry: the unbonding-id index is pointed at the record key under `w` -/
  | idSet (w : Who)
  /-- per entry: the time slice of the entry's completion time is read, renamed where the condition holds, written back -/
  | queue
  | unknown
  deriving Repr, DecidableEq

abbrev XRaw := String × String × String × String × String × String

/-- the statements the model knows, by scope, operation, store, key constructor, arguments and value -/
def xTable : List (XRaw × XStmt) := [
  (("del", "Get", "distrStore", "GetDelegatorStartingInfoKey", "validatorAddr,from", "startingInfo"), .siGet .frm),
  (("del", "Get", "distrStore", "GetDelegatorStartingInfoKey", "validatorAddr,to.Bytes()", "startingInfo"), .siGet .to),
  (("del", "Delete", "distrStore", "GetDelegatorStartingInfoKey", "validatorAddr,from", ""), .siDel .frm),
  (("del", "Delete", "distrStore", "GetDelegatorStartingInfoKey", "validatorAddr,to.Bytes()", ""), .siDel .to),
  (("del", "Set", "distrStore", "GetDelegatorStartingInfoKey", "validatorAddr,from", "startingInfo"), .siSet .frm),
  (("del", "Set", "distrStore", "GetDelegatorStartingInfoKey", "validatorAddr,to.Bytes()", "startingInfo"), .siSet .to),
  (("del", "Delete", "stakingStore", "iter", "del", ""), .recDel .frm),
  (("del", "Delete", "stakingStore", "GetDelegationKey", "from,validatorAddr", ""), .recDel .frm),
  (("del", "Delete", "stakingStore", "GetDelegationKey", "to.Bytes(),validatorAddr", ""), .recDel .to),
  (("del", "Set", "stakingStore", "GetDelegationKey", "to.Bytes(),validatorAddr", "record:to"), .recSet .to),
  (("del", "Set", "stakingStore", "GetDelegationKey", "from,validatorAddr", "record:from"), .recSet .frm),
  (("del", "Delete", "stakingStore", "GetDelegationsByValKey", "validatorAddr,from", ""), .idxDel 0 .frm),
  (("del", "Delete", "stakingStore", "GetDelegationsByValKey", "validatorAddr,to.Bytes()", ""), .idxDel 0 .to),
  (("del", "Set", "stakingStore", "GetDelegationsByValKey", "validatorAddr,from", "empty"), .idxSet 0 .frm),
  (("del", "Set", "stakingStore", "GetDelegationsByValKey", "validatorAddr,to.Bytes()", "empty"), .idxSet 0 .to),
  (("ubd", "Delete", "stakingStore", "iter", "ubd", ""), .recDel .frm),
  (("ubd", "Delete", "stakingStore", "GetUBDKey", "from,valAddr", ""), .recDel .frm),
  (("ubd", "Delete", "stakingStore", "GetUBDKey", "to.Bytes(),valAddr", ""), .recDel .to),
  (("ubd", "Set", "stakingStore", "GetUBDKey", "to.Bytes(),valAddr", "record:to"), .recSet .to),
  (("ubd", "Set", "stakingStore", "GetUBDKey", "from,valAddr", "record:from"), .recSet .frm),
  (("ubd", "Delete", "stakingStore", "GetUBDByValIndexKey", "from,valAddr", ""), .idxDel 0 .frm),
  (("ubd", "Delete", "stakingStore", "GetUBDByValIndexKey", "to.Bytes(),valAddr", ""), .idxDel 0 .to),
  (("ubd", "Set", "stakingStore", "GetUBDByValIndexKey", "from,valAddr", "empty"), .idxSet 0 .frm),
  (("ubd", "Set", "stakingStore", "GetUBDByValIndexKey", "to.Bytes(),valAddr", "empty"), .idxSet 0 .to),
  (("ubd.entry", "Set", "stakingStore", "GetUnbondingIndexKey", "entry.UnbondingId", "GetUBDKey(to.Bytes(),valAddr)"), .idSet .to),
  (("ubd.entry", "Set", "stakingStore", "GetUnbondingIndexKey", "entry.UnbondingId", "GetUBDKey(from,valAddr)"), .idSet .frm),
  (("ubd.entry", "Queue", "stakingKeeper", "GetUBDQueueTimeSlice", "entry.CompletionTime",
    "GetUnbondingDelegationTimeKey(entry.CompletionTime)"), .queue),
  (("red", "Delete", "stakingStore", "iter", "red", ""), .recDel .frm),
  (("red", "Delete", "stakingStore", "GetREDKey", "from,valSrcAddr,valDstAddr", ""), .recDel .frm),
  (("red", "Delete", "stakingStore", "GetREDKey", "to.Bytes(),valSrcAddr,valDstAddr", ""), .recDel .to),
  (("red", "Set", "stakingStore", "GetREDKey", "to.Bytes(),valSrcAddr,valDstAddr", "record:to"), .recSet .to),
  (("red", "Set", "stakingStore", "GetREDKey", "from,valSrcAddr,valDstAddr", "record:from"), .recSet .frm),
  (("red", "Delete", "stakingStore", "GetREDByValSrcIndexKey", "from,valSrcAddr,valDstAddr", ""), .idxDel 0 .frm),
  (("red", "Delete", "stakingStore", "GetREDByValSrcIndexKey", "to.Bytes(),valSrcAddr,valDstAddr", ""), .idxDel 0 .to),
  (("red", "Set", "stakingStore", "GetREDByValSrcIndexKey", "from,valSrcAddr,valDstAddr", "empty"), .idxSet 0 .frm),
  (("red", "Set", "stakingStore", "GetREDByValSrcIndexKey", "to.Bytes(),valSrcAddr,valDstAddr", "empty"), .idxSet 0 .to),
  (("red", "Delete", "stakingStore", "GetREDByValDstIndexKey", "from,valSrcAddr,valDstAddr", ""), .idxDel 1 .frm),
  (("red", "Delete", "stakingStore", "GetREDByValDstIndexKey", "to.Bytes(),valSrcAddr,valDstAddr", ""), .idxDel 1 .to),
  (("red", "Set", "stakingStore", "GetREDByValDstIndexKey", "from,valSrcAddr,valDstAddr", "empty"), .idxSet 1 .frm),
  (("red", "Set", "stakingStore", "GetREDByValDstIndexKey", "to.Bytes(),valSrcAddr,valDstAddr", "empty"), .idxSet 1 .to),
  (("red.entry", "Set", "stakingStore", "GetUnbondingIndexKey", "entry.UnbondingId", "GetREDKey(to.Bytes(),valSrcAddr,valDstAddr)"), .idSet .to),
  (("red.entry", "Set", "stakingStore", "GetUnbondingIndexKey", "entry.UnbondingId", "GetREDKey(from,valSrcAddr,valDstAddr)"), .idSet .frm),
  (("red.entry", "Queue", "stakingKeeper", "GetRedelegationQueueTimeSlice", "entry.CompletionTime",
    "GetRedelegationTimeKey(entry.CompletionTime)"), .queue)
]

def parseX (r : XRaw) : XStmt := (xTable.lookup r).getD .unknown

/-- the statements of one scope, in source order -/
def progOf (prog : List XRaw) (scope : String) : List XStmt := (prog.filter (fun r => r.1 == scope)).map parseX

def whoAddr (frm to : Addr) : Who → Addr
  | .frm => frm
  | .to => to

/-- one statement of the delegation loop; the second component is the local variable `startingInfo` -/
def delStmt (frm to : Addr) (v : Val) (sh : Nat) (a : State × Option (Nat × Nat)) : XStmt → State × Option (Nat × Nat)
  | .siGet w => (a.1, get a.1.startInfo (v, whoAddr frm to w))
  | .siDel w => ({ a.1 with startInfo := del a.1.startInfo (v, whoAddr frm to w) }, a.2)
  | .siSet w => (match a.2 with
                 | some x => { a.1 with startInfo := put a.1.startInfo (v, whoAddr frm to w) x }
                 | none => a.1, a.2)
  | .recDel w => ({ a.1 with dels := del a.1.dels (whoAddr frm to w, v) }, a.2)
  | .recSet w => ({ a.1 with dels := put a.1.dels (whoAddr frm to w, v) sh }, a.2)
  | .idxDel 0 w => ({ a.1 with delIdx := rem a.1.delIdx (v, whoAddr frm to w) }, a.2)
  | .idxSet 0 w => ({ a.1 with delIdx := ins a.1.delIdx (v, whoAddr frm to w) }, a.2)
  | _ => a

def moveDelegationP (prog : List XStmt) (frm to : Addr) (s : State) (p : (Addr × Val) × Nat) : State :=
  (prog.foldl (delStmt frm to p.1.2 p.2) (s, none)).1

def ubdStmt (frm to : Addr) (v : Val) (es : List (Time × Nat × Nat)) (s : State) : XStmt → State
  | .recDel w => { s with ubds := del s.ubds (whoAddr frm to w, v) }
  | .recSet w => { s with ubds := put s.ubds (whoAddr frm to w, v) es }
  | .idxDel 0 w => { s with ubdIdx := rem s.ubdIdx (v, whoAddr frm to w) }
  | .idxSet 0 w => { s with ubdIdx := ins s.ubdIdx (v, whoAddr frm to w) }
  | _ => s

/-- the queue statement of the unbonding entry loop for one entry (as in `moveUbd`) -/
def ubdQueue (c : Cfg) (frm to : Addr) (v : Val) (s : State) (e : Time × Nat × Nat) : State :=
  let slice := (get s.ubdQ e.1).getD []
  let ren : Addr × Val → Addr × Val :=
    if c.qByDelegator then renPair frm to else fun x => if x == (frm, v) then (to, v) else x
  { s with ubdQ := if slice.any (fun x => x.1 == frm) then setAt s.ubdQ e.1 (slice.map ren) else s.ubdQ }

def ubdEntryStmt (c : Cfg) (frm to : Addr) (v : Val) (first : Option (Time × Nat × Nat)) (e : Time × Nat × Nat)
    (s : State) : XStmt → State
  | .idSet w => { s with unbId := put s.unbId e.2.2 (whoAddr frm to w, v, none) }
  | .queue => if c.qEveryEntry || first == some e then ubdQueue c frm to v s e else s
  | _ => s

def moveUbdP (c : Cfg) (recProg entryProg : List XStmt) (frm to : Addr) (s : State)
    (p : (Addr × Val) × List (Time × Nat × Nat)) : State :=
  let s1 := recProg.foldl (ubdStmt frm to p.1.2 p.2) s
  p.2.foldl (fun s e => entryProg.foldl (ubdEntryStmt c frm to p.1.2 p.2.head? e) s) s1

def redStmt (frm to : Addr) (src dst : Val) (es : List (Time × Nat × Nat)) (s : State) : XStmt → State
  | .recDel w => { s with reds := del s.reds (whoAddr frm to w, src, dst) }
  | .recSet w => { s with reds := put s.reds (whoAddr frm to w, src, dst) es }
  | .idxDel 0 w => { s with redSrcIdx := rem s.redSrcIdx (src, whoAddr frm to w, dst) }
  | .idxSet 0 w => { s with redSrcIdx := ins s.redSrcIdx (src, whoAddr frm to w, dst) }
  | .idxDel 1 w => { s with redDstIdx := rem s.redDstIdx (dst, whoAddr frm to w, src) }
  | .idxSet 1 w => { s with redDstIdx := ins s.redDstIdx (dst, whoAddr frm to w, src) }
  | _ => s

def redQueue (c : Cfg) (frm to : Addr) (src dst : Val) (s : State) (e : Time × Nat × Nat) : State :=
  let slice := (get s.redQ e.1).getD []
  let ren : Addr × Val × Val → Addr × Val × Val :=
    if c.qByDelegator then renTriple frm to else fun x => if x == (frm, src, dst) then (to, src, dst) else x
  { s with redQ := if slice.any (fun x => x.1 == frm) then setAt s.redQ e.1 (slice.map ren) else s.redQ }

def redEntryStmt (c : Cfg) (frm to : Addr) (src dst : Val) (first : Option (Time × Nat × Nat)) (e : Time × Nat × Nat)
    (s : State) : XStmt → State
  | .idSet w => { s with unbId := put s.unbId e.2.2 (whoAddr frm to w, src, some dst) }
  | .queue => if c.qEveryEntry || first == some e then redQueue c frm to src dst s e else s
  | _ => s

def moveRedP (c : Cfg) (recProg entryProg : List XStmt) (frm to : Addr) (s : State)
    (p : (Addr × Val × Val) × List (Time × Nat × Nat)) : State :=
  let s1 := recProg.foldl (redStmt frm to p.1.2.1 p.1.2.2 p.2) s
  p.2.foldl (fun s e => entryProg.foldl (redEntryStmt c frm to p.1.2.1 p.1.2.2 p.2.head? e) s) s1

/-- `DistrStakingMigrate.Execute` run as the regenerated program -/
def stakingExecuteP (c : Cfg) (prog : List XRaw) (s : State) (frm to : Addr) : State :=
  let s1 := ((visible s.dels).filter (fun p => p.1.1 == frm)).foldl (moveDelegationP (progOf prog "del") frm to) s
  let s2 := ((visible s1.ubds).filter (fun p => p.1.1 == frm)).foldl
              (moveUbdP c (progOf prog "ubd") (progOf prog "ubd.entry") frm to) s1
  ((visible s2.reds).filter (fun p => p.1.1 == frm)).foldl
    (moveRedP c (progOf prog "red") (progOf prog "red.entry") frm to) s2

/-- `Keeper.SetMigrateRecord`: the record under both addresses and the two direction flags, as far as they are written -/
def setRecord (c : Cfg) (s : State) (frm to : Addr) : State :=
  let r1 := if c.wRecFrom then put s.recs frm (true, to) else s.recs
  let r2 := if c.wRecTo then put r1 to (false, frm) else r1
  { s with recs := r2,
           dirFrom := if c.wDirFrom then ins s.dirFrom frm else s.dirFrom,
           dirTo := if c.wDirTo then ins s.dirTo to else s.dirTo }

/-- an already-migrated guard reading the key family `key` -/
def recGuard (key : String) (s : State) (a : Addr) : Bool :=
  if key == "GetMigratedRecordKey" then (get s.recs a).isSome
  else if key == "GetMigratedDirectionFrom" then s.dirFrom.contains a
  else if key == "GetMigratedDirectionTo" then s.dirTo.contains a
  else false

/-- `MsgMigrateAccount.ValidateBasic` (signature check abstracted to `sigOk`) then `Keeper.MigrateAccount` -/
def migrate (c : Cfg) (s : State) (frm to : Addr) (sigOk : Bool) : Except MErr State :=
  if frm == to then .error .same else
  if c.sigRequired && !sigOk then .error .sig else
  if recGuard c.recKeyFrom s frm || recGuard c.recKeyTo s to then .error .migrated else
  if !(s.hasKey.contains frm) then .error .account else
  match stakingValidate c s frm to with
  | some e => .error e
  | none =>
    if govRefuses c s frm to then .error .gov else
    if bankBlocked c s frm then .error .exec else
    .ok (setRecord c (stakingExecute c (bankExecute c s frm to) frm to) frm to)

/-! ### the message server as a program

`Keeper.MigrateAccount` is a list of statements (`Gen.C14.handlerOrder`, regenerated) two of which loop over the handlers
registered with the keeper (`Gen.C14.migrateHandlers`, the arguments of `SetMigrateI` in the app wiring, regenerated):
`migrateProg` INTERPRETS the two lists.  The driver runs this interpretation; `migrate` above is the hand-written reading
the theorems are about, and `Props.C14.handler_program_as_modelled` proves the two equal for the lists as they are in
the source now. -/

/-- the handler type a registered constructor returns -/
def handlerType (ctor : String) : String := (Gen.C14.handlerTypes.lookup ctor).getD ""
/-- the method's body is a bare `return nil` -/
def bodyNil (tm : String) : Bool := Gen.C14.handlerBodies.lookup tm == some "nil"

/-- one rejecting check of `DistrStakingMigrate.Validate` -/
def stakingCheck (s : State) (frm to : Addr) (chk : String) : Option MErr :=
  if chk == "validator-from" then (if s.vals.contains frm then some .validator else none)
  else if chk == "validator-to" then (if s.vals.contains to then some .validator else none)
  else if chk == "delegations-to" then (if s.dels.any (fun p => p.1.1 == to) then some .toStaking else none)
  else if chk == "unbonding-to" then (if s.ubds.any (fun p => p.1.1 == to) then some .toStaking else none)
  else if chk == "redelegations-to" then (if s.reds.any (fun p => p.1.1 == to) then some .toStaking else none)
  else none

/-- `DistrStakingMigrate.Validate` as the regenerated list of its checks, first refusal wins -/
def stakingValidateP (checks : List String) (s : State) (frm to : Addr) : Option MErr :=
  checks.findSome? (stakingCheck s frm to)

/-- `Validate` of one registered handler (`none` = passes) -/
def handlerValidate (c : Cfg) (s : State) (frm to : Addr) (ctor : String) : Option MErr :=
  let t := handlerType ctor
  if bodyNil (t ++ ".Validate") then none
  else if t == "DistrStakingMigrate" then stakingValidateP Gen.C14.stakingValidateProgram s frm to
  else if t == "GovMigrate" then
    (if govRefusesP c (Gen.C14.govDepositChecks.map parseG) (Gen.C14.govVoteChecks.map parseG) s frm to then some .gov else none)
  else none

/-- `Execute` of one registered handler -/
def handlerExecute (c : Cfg) (frm to : Addr) (s : State) (ctor : String) : Except MErr State :=
  let t := handlerType ctor
  if bodyNil (t ++ ".Execute") then .ok s
  else if t == "BankMigrate" then (if bankBlocked c s frm then .error .exec else .ok (bankExecute c s frm to))
  else if t == "DistrStakingMigrate" then .ok (stakingExecuteP c Gen.C14.executeProgram s frm to)
  else .ok s

/-- `for _, m := range k.GetMigrateI() { if err = m.Execute(…); err != nil { return nil, err } }` -/
def execAll (c : Cfg) (frm to : Addr) : State → List String → Except MErr State
  | s, [] => .ok s
  | s, h :: hs =>
    match handlerExecute c frm to s h with
    | .ok s' => execAll c frm to s' hs
    | .error e => .error e

/-- one recognised statement of `MigrateAccount` -/
def handlerStmt (c : Cfg) (hs : List String) (frm to : Addr) (s : State) (stmt : String) : Except MErr State :=
  if stmt == "check-record-from" then (if recGuard c.recKeyFrom s frm then .error .migrated else .ok s)
  else if stmt == "check-record-to" then (if recGuard c.recKeyTo s to then .error .migrated else .ok s)
  else if stmt == "check-from-account" then (if !(s.hasKey.contains frm) then .error .account else .ok s)
  else if stmt == "validate-all" then
    (match hs.findSome? (handlerValidate c s frm to) with
     | some e => .error e
     | none => .ok s)
  else if stmt == "execute-all" then execAll c frm to s hs
  else if stmt == "set-record" then .ok (setRecord c s frm to)
  else .ok s

def runStmts (c : Cfg) (hs : List String) (frm to : Addr) : State → List String → Except MErr State
  | s, [] => .ok s
  | s, st :: rest =>
    match handlerStmt c hs frm to s st with
    | .ok s' => runStmts c hs frm to s' rest
    | .error e => .error e

/-- `ValidateBasic` (same account, signature) then the statements of `MigrateAccount` in source order -/
def migrateProg (c : Cfg) (stmts hs : List String) (s : State) (frm to : Addr) (sigOk : Bool) : Except MErr State :=
  if frm == to then .error .same else
  if c.sigRequired && !sigOk then .error .sig else
  runStmts c hs frm to s stmts

/-! ### genesis export / import of the migrate module (`x/migrate/keeper/genesis.go`)

`ExportGenesis` walks the record keys (`IterateMigrateRecords`), skips the values carrying one flag and emits (key address,
value address) for the others; `InitGenesis` calls `SetMigrateRecord` for each exported record on the empty module store. -/

def exportGenesis (c : Cfg) (s : State) : List (Addr × Addr) :=
  let keep (p : Addr × Bool × Addr) : Bool :=
    if c.gExportSkip == "ValuePrefixMigrateToFlag" then p.2.1
    else if c.gExportSkip == "ValuePrefixMigrateFromFlag" then !p.2.1 else true
  let rs := ((visible s.recs).filter keep).map (fun p => (p.1, p.2.2))
  if c.gExportStop then rs.take 1 else rs

def initGenesis (c : Cfg) (s : State) (rs : List (Addr × Addr)) : State :=
  let s0 := { s with recs := [], dirFrom := [], dirTo := [] }
  if c.gImportSets then rs.foldl (fun s r => setRecord c s r.1 r.2) s0 else s0

/-- a chain restarted from its own exported genesis, as far as the migrate module is concerned -/
def genesisRoundTrip (c : Cfg) (s : State) : State := initGenesis c s (exportGenesis c s)

/-! ### signature (opaque hash / recover) -/
/-- bytes signed, in the order the code hashes them (`Gen.C14.signedFields`) -/
def signedBytes (fields : List String) (pfx : List Nat) (enc : Addr → List Nat) (frm to : Addr) : List Nat :=
  fields.flatMap (fun f => if f == "prefix" then pfx else if f == "from" then enc frm else if f == "to" then enc to else [])

/-- `ValidateBasic`'s signature test with opaque `hash` and `recover` -/
def sigAccepted {H S : Type} (hash : List Nat → H) (recover : H → S → Option Addr) (pfx : List Nat) (enc : Addr → List Nat)
    (frm to : Addr) (sig : S) : Bool :=
  recover (hash (signedBytes Gen.C14.signedFields pfx enc frm to)) sig == some to

/-! ### the target as spelled in the message -/

/-- a spelling of the target string: its class (0 = canonical EIP-55 hex with 0x, 1 = any other hex spelling, 2 = bech32
with the account prefix, 3 = anything else), the 20 bytes it spells (whatever the class; 0 if none) and what go-ethereum's
total `HexToAddress` makes of the string -/
structure Spelling where
  cls : Nat
  bytes : Addr
  hex : Addr
  deriving Repr, DecidableEq

/-- the address a site derives from the string, given the chain of functions it hands the string to (`none` = the site
rejects the string).  `ValidateEthereumAddress` accepts the canonical hex spelling only; `HexToAddress` is total; any
other function is read as the most lenient decoder (every spelling of 20 bytes it could accept: canonical hex, bech32) -/
def parseAt (site : String) (w : Spelling) : Option Addr :=
  if site == "ValidateEthereumAddress+HexToAddress" then (if w.cls == 0 then some w.hex else none)
  else if site == "HexToAddress" then some w.hex
  else if w.cls == 0 then some w.hex else if w.cls == 2 then some w.bytes else none

/-- the message as submitted: `ValidateBasic` derives the address the signature is checked against, the message server
derives (again, from the string) the address that receives -/
def migrateMsg {H S : Type} (hash : List Nat → H) (recover : H → S → Option Addr) (pfx : List Nat) (enc : Addr → List Nat)
    (c : Cfg) (s : State) (frm : Addr) (w : Spelling) (sig : S) : Except MErr State :=
  match parseAt c.toParseVB w, parseAt c.toParseSrv w with
  | some tv, some ts => migrate c s frm ts (sigAccepted hash recover pfx enc frm tv sig)
  | _, _ => .error .toAddr

/-- the message as submitted, with the message server run as the regenerated program -/
def migrateMsgP {H S : Type} (hash : List Nat → H) (recover : H → S → Option Addr) (pfx : List Nat) (enc : Addr → List Nat)
    (c : Cfg) (stmts hs : List String) (s : State) (frm : Addr) (w : Spelling) (sig : S) : Except MErr State :=
  match parseAt c.toParseVB w, parseAt c.toParseSrv w with
  | some tv, some ts => migrateProg c stmts hs s frm ts (sigAccepted hash recover pfx enc frm tv sig)
  | _, _ => .error .toAddr

/-! ## operations -/
inductive Op where
  | send (a b : Addr) (d : Denom) (n : Nat)
  | mint (a : Addr) (d : Denom) (n : Nat)
  | delegate (d : Addr) (v : Val) (amt rw : Nat)
  | undelegate (d : Addr) (v : Val) (amt rw : Nat)
  | redelegate (d : Addr) (src dst : Val) (amt rwSrc rwDst : Nat)
  | withdraw (d : Addr) (v : Val) (rw : Nat)
  | setWithdraw (d w : Addr)
  | submit (a : Addr) (dep : Nat)
  | deposit (a : Addr) (id amt : Nat)
  | vote (a : Addr) (id : Nat)
  | block (dt : Nat)
  | setPeriods (dp vp : Nat)
  | setUnbond (n : Nat)
  | migrate (frm to : Addr) (sigOk : Bool)
  deriving Repr, DecidableEq

def endBlock (s : State) (dt : Nat) : State :=
  let s1 := govEnd (stakingEnd s)
  { s1 with now := s1.now + dt, blockFirstId := s1.nextUnbId }

def ofOpt (s : State) (o : Option State) : State × String :=
  match o with
  | some s' => (s', "ok")
  | none => (s, "err")

def errName : MErr → String
  | .same => "err:same" | .sig => "err:sig" | .migrated => "err:migrated" | .account => "err:account"
  | .validator => "err:validator" | .toStaking => "err:to-staking" | .gov => "err:gov" | .exec => "err:exec"
  | .toAddr => "err:to"

def step (c : Cfg) (s : State) : Op → State × String
  | .send a b d n => ofOpt s ((sendUnlocked s.bal (lockedOf s a d) a b d n).map fun bb => { s with bal := bb })
  | .mint a d n => ({ s with bal := credit s.bal a d n }, "ok")
  | .delegate d v amt rw => ofOpt s (delegate s d v amt rw)
  | .undelegate d v amt rw => ofOpt s (undelegate s d v amt rw)
  | .redelegate d src dst amt r1 r2 => ofOpt s (redelegate s d src dst amt r1 r2)
  | .withdraw d v rw => ofOpt s (withdraw s d v rw)
  | .setWithdraw d w => (setWithdraw s d w, "ok")
  | .submit a dep => ofOpt s (submit s a dep)
  | .deposit a id amt => ofOpt s (deposit s a id amt)
  | .vote a id => ofOpt s (vote s a id)
  | .block dt => (endBlock s dt, "ok")
  | .setPeriods dp vp => ({ s with depPeriod := dp, votePeriod := vp }, "ok")
  | .setUnbond n => ({ s with unbondTime := n }, "ok")
  | .migrate frm to sigOk =>
    match migrate c s frm to sigOk with
    | .ok s' => (s', "ok")
    | .error e => (s, errName e)

/-- `step` with the message server run as the regenerated program (what the driver executes) -/
def stepP (c : Cfg) (stmts hs : List String) (s : State) : Op → State × String
  | .migrate frm to sigOk =>
    match migrateProg c stmts hs s frm to sigOk with
    | .ok s' => (s', "ok")
    | .error e => (s, errName e)
  | op => step c s op

def run (c : Cfg) (s : State) (ops : List Op) : State := ops.foldl (fun s o => (step c s o).1) s

/-! ### a migration delivered as a transaction of a block

`FinalizeBlock` runs, for the transaction, baseapp's `ValidateBasic` (same account, pair signature), then the ante handler
(the transaction must carry the signature of the source's account key — `txSigner = frm` — and the fee is deducted from
the source, locked coins excluded), then the message server; a failure of the message server keeps the fee.  The block's
end blockers follow.  `txOps` is the list of model operations this amounts to. -/
def feeCollector : Addr := 903

def txOps (c : Cfg) (s : State) (dt fee : Nat) (txSigner frm to : Addr) (sigOk : Bool) : List Op × String :=
  if frm == to then ([.block dt], "err:same") else
  if c.sigRequired && !sigOk then ([.block dt], "err:sig") else
  if txSigner != frm || !(s.hasKey.contains frm) || balOf s.bal frm 0 < lockedOf s frm 0 + fee then ([.block dt], "err:ante") else
  let s1 := (step c s (.send frm feeCollector 0 fee)).1
  ([.send frm feeCollector 0 fee, .migrate frm to sigOk, .block dt], (step c s1 (.migrate frm to sigOk)).2)

/-- the block carrying the transaction: state after the block, and the outcome of the transaction -/
def txBlock (c : Cfg) (stmts hs : List String) (s : State) (dt fee : Nat) (txSigner frm to : Addr) (sigOk : Bool) :
    State × String :=
  let (ops, r) := txOps c s dt fee txSigner frm to sigOk
  (ops.foldl (fun s o => (stepP c stmts hs s o).1) s, r)

end FxVerif.Model.C14
