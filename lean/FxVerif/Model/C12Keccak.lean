/-!
# Keccak-256 (the pre-NIST padding used by Ethereum / Solidity `keccak256` / go-ethereum `crypto.Keccak256`)

Core Lean only, executable.  Bytes are `List Nat` (each `< 256`), lanes are `UInt64`.  Nothing is proved about this
function: it is the *opaque* hash of the property (collision resistance is a named assumption); it exists so that the
model driver can print the checkpoint the model computes and the harness can compare it with the real `GetCheckpoint`.
-/
namespace FxVerif.Model.C12

namespace Keccak

def rc : Array UInt64 := #[
  0x0000000000000001, 0x0000000000008082, 0x800000000000808A, 0x8000000080008000,
  0x000000000000808B, 0x0000000080000001, 0x8000000080008081, 0x8000000000008009,
  0x000000000000008A, 0x0000000000000088, 0x0000000080008009, 0x000000008000000A,
  0x000000008000808B, 0x800000000000008B, 0x8000000000008089, 0x8000000000008003,
  0x8000000000008002, 0x8000000000000080, 0x000000000000800A, 0x800000008000000A,
  0x8000000080008081, 0x8000000000008080, 0x0000000080000001, 0x8000000080008008]

def rotc : Array UInt64 := #[1, 3, 6, 10, 15, 21, 28, 36, 45, 55, 2, 14, 27, 41, 56, 8, 25, 43, 62, 18, 39, 61, 20, 44]
def piln : Array Nat := #[10, 7, 11, 17, 18, 3, 5, 16, 8, 21, 24, 4, 15, 23, 19, 13, 12, 2, 20, 14, 22, 9, 6, 1]

@[inline] def rotl (x : UInt64) (n : UInt64) : UInt64 := (x <<< n) ||| (x >>> (64 - n))

def round (st : Array UInt64) (r : Nat) : Array UInt64 := Id.run do
  let mut st := st
  -- theta
  let mut bc : Array UInt64 := Array.replicate 5 0
  for i in [0:5] do
    bc := bc.set! i (st[i]! ^^^ st[i+5]! ^^^ st[i+10]! ^^^ st[i+15]! ^^^ st[i+20]!)
  for i in [0:5] do
    let t := bc[(i+4)%5]! ^^^ rotl bc[(i+1)%5]! 1
    for j in [0:5] do
      st := st.set! (5*j+i) (st[5*j+i]! ^^^ t)
  -- rho, pi
  let mut t := st[1]!
  for i in [0:24] do
    let j := piln[i]!
    let b := st[j]!
    st := st.set! j (rotl t rotc[i]!)
    t := b
  -- chi
  for j in [0:5] do
    for i in [0:5] do
      bc := bc.set! i st[5*j+i]!
    for i in [0:5] do
      st := st.set! (5*j+i) (st[5*j+i]! ^^^ ((~~~ bc[(i+1)%5]!) &&& bc[(i+2)%5]!))
  -- iota
  st := st.set! 0 (st[0]! ^^^ rc[r]!)
  return st

def permute (st : Array UInt64) : Array UInt64 := Id.run do
  let mut st := st
  for r in [0:24] do
    st := round st r
  return st

/-- little-endian lane from 8 bytes -/
def lane (bs : List Nat) : UInt64 :=
  (bs.take 8).reverse.foldl (fun a b => (a <<< 8) ||| UInt64.ofNat b) 0

/-- xor one 136-byte block into the state and permute -/
def absorb (st : Array UInt64) (block : List Nat) : Array UInt64 := Id.run do
  let mut st := st
  let mut b := block
  for i in [0:17] do
    st := st.set! i (st[i]! ^^^ lane b)
    b := b.drop 8
  return permute st

/-- pad10*1 with the Keccak domain byte 0x01; result length is a positive multiple of 136 -/
def pad (msg : List Nat) : List Nat :=
  let r := 136 - msg.length % 136   -- 1..136 bytes of padding
  if r == 1 then msg ++ [0x81] else msg ++ [0x01] ++ List.replicate (r - 2) 0 ++ [0x80]

def absorbN : Nat → Array UInt64 → List Nat → Array UInt64
  | 0, st, _ => st
  | n+1, st, bs => absorbN n (absorb st (bs.take 136)) (bs.drop 136)

def absorbAll (st : Array UInt64) (bs : List Nat) : Array UInt64 := absorbN (bs.length / 136) st bs

def laneBytes (x : UInt64) : List Nat :=
  (List.range 8).map fun i => ((x >>> (UInt64.ofNat (8*i))) &&& 0xff).toNat

end Keccak

/-- Keccak-256 of a byte string -/
def keccak256 (msg : List Nat) : List Nat :=
  let st := Keccak.absorbAll (Array.replicate 25 0) (Keccak.pad msg)
  ((List.range 4).flatMap fun i => Keccak.laneBytes st[i]!)

end FxVerif.Model.C12
