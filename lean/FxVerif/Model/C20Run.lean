import FxVerif.Gen.C20Run
/-!
# C20 — when is a construct inside a precompile method's `Run` safe?

`Gen/C20Run.lean` lists every potentially panicking construct in the `Run` of every precompile method, the in-package
functions it reaches and the fx-core keeper methods it calls directly.  A site is accepted when

* a local dominating guard was recognised by the translator (or the construct cannot panic at all: integer conversions,
  `(*big.Int).Uint64`), or
* it carries a requirement on the decoded arguments, its method decodes first (`unpackFirst`, `parses`,
  `parseMethodArgsValidates`) and the regenerated `Validate` program of the method's args struct ENTAILS the requirement
  (`Model.C20Args.entails`, sound by `Proofs.C20Args.entails_sound`); the entailment may use what ABI decoding guarantees
  (`AbiDecoded`: no nil, `0 ≤ v < 2^256`), but `needsAbiOnlyForBounds` (Props) shows that this is needed only for the size of
  single uint256 inputs and for array elements — every nil / sign / length / sum requirement follows from `Validate` alone, or
* it is on the reviewed list below (keyed by package, receiver, function, kind and expression — never by line).
-/
namespace FxVerif.Model.C20Run
open FxVerif.Model.C20Args FxVerif.Gen.C20Run

structure Reviewed where
  pkg : String
  recv : String := ""      -- "*" = any receiver type of the package
  meth : String
  kind : String
  expr : String
  needs : List String := []   -- early-return conditions the argument relies on: each must dominate the site (`RunSite.doms`)
  why : String

def Reviewed.covers (r : Reviewed) (s : RunSite) : Bool :=
  r.pkg == s.pkg && r.kind == s.kind && r.expr == s.expr && r.meth == s.meth &&
    (r.recv == s.recv || (r.recv == "*" && s.recv != "")) && r.needs.all (s.doms.contains ·)

def reviewedRun : List Reviewed := [
  { pkg := "x/crosschain/precompile", recv := "*", meth := "Run", kind := "assert", expr := "evm.StateDB.(evmtypes.ExtStateDB)",
    why := "the EVM is only constructed by the ethermint keeper with its own *statedb.StateDB, which implements ExtStateDB (dependency wiring; every harness call goes through it)" },
  { pkg := "x/crosschain/precompile", recv := "*", meth := "Run", kind := "assert", expr := "evm.StateDB.(types.ExtStateDB)",
    why := "as above (file-local import name)" },
  { pkg := "x/staking/precompile", recv := "*", meth := "Run", kind := "assert", expr := "evm.StateDB.(types.ExtStateDB)",
    why := "as above, staking precompile" },
  { pkg := "x/crosschain/precompile", recv := "BridgeCoinAmountMethod", meth := "Run", kind := "index", expr := "md.GetDenomUnits()[0]",
    needs := ["!has && pair.GetDenom() != fxtypes.DefaultDenom", "!has"],
    why := "reached only when `!has && denom != FX` is false after `_, has = HasDenomAlias(denom)`: either HasDenomAlias returned true (it checks len(md.DenomUnits) == 0 first) or the denomination is FX, whose metadata is written at genesis / by the erc20 registration with a base unit; GetDenomMetaData returned found; harness: bridgeCoinAmount over every registered token" },
  { pkg := "x/crosschain/types", meth := "ExternalAddrToStr", kind := "panic", expr := "panic(\"unrecognized cross chain name: \" + chainName)",
    needs := ["in: !ok"],
    why := "the panic of an unrecognised chain name; every call site reachable from a precompile Run is listed separately (kind callpanic) and reviewed there" },
  { pkg := "x/crosschain/precompile", recv := "HasOracleMethod", meth := "Run", kind := "callpanic",
    expr := "crosschaintypes.ExternalAddrToStr(args.Chain, args.ExternalAddress.Bytes())", needs := ["!has"],
    why := "dominated by `router, has := GetRoute(args.Chain); if !has { return error }`: a routed chain is a registered cross-chain module, and every cross-chain module registers its external-address codec in the init that names it (RegisterExternalAddress), so the name is recognised; harness: both methods with every registered and many well-formed unregistered chain names" },
  { pkg := "x/crosschain/precompile", recv := "IsOracleOnlineMethod", meth := "Run", kind := "callpanic",
    expr := "crosschaintypes.ExternalAddrToStr(args.Chain, args.ExternalAddress.Bytes())", needs := ["!has"],
    why := "as for hasOracle" },
  { pkg := "x/crosschain/precompile", recv := "IsOracleOnlineMethod", meth := "Run", kind := "callpanic",
    expr := "router.GetOracle(stateDB.Context(), oracleAddr)", needs := ["!has"],
    why := "GetOracle's MustUnmarshal decodes bytes that only SetOracle wrote (store integrity); reached after the route and the oracle address were found" },
  { pkg := "x/crosschain/keeper", recv := "Keeper", meth := "GetOracle", kind := "must", expr := "k.cdc.MustUnmarshal(value, &oracle)",
    needs := ["value == nil"],
    why := "decodes bytes that only SetOracle wrote with cdc.MustMarshal of the same type (store integrity, not input dependent)" },
  { pkg := "x/staking/precompile", meth := "decrementReferenceCount", kind := "panic", expr := "panic(\"cannot set negative reference count\")",
    needs := ["in: historical.ReferenceCount == 0"],
    why := "copy of the SDK distribution keeper's invariant check: a delegator's starting info references a historical-rewards record whose count it incremented; state invariant of x/distribution, not reachable by choosing call data (C11 checks the share-transfer bookkeeping)" },
  { pkg := "x/staking/precompile", recv := "DelegationMethod", meth := "Run", kind := "div",
    expr := "delegation.GetShares().MulInt(validator.GetTokens()).Quo(validator.GetDelegatorShares())", needs := ["err != nil"],
    why := "reached only when GetDelegation found a delegation to that validator; the staking module keeps validator.DelegatorShares = sum of its delegations' (positive) shares, so the divisor is positive (same expression as the SDK's Validator.TokensFromShares)" }
]

def methodOf (s : RunSite) : Option Method := methods.find? fun m => m.pkg == s.pkg && m.recv == s.recv && m.argsType == s.argsType

/-- reviewed sites of the ante package (typed inventory `Gen.C20Run.anteSites`).  "Runs under the deferred Recover of
NewAnteHandler" is NOT an argument: a recovered panic reaches the client as ErrPanic and violates the property. -/
def reviewedAnte : List Reviewed := [
  { pkg := "ante", meth := "getTxPriority", kind := "div", expr := "c.Amount.QuoRaw(gas)",
    why := "gas = int64(feeTx.GetGas()); the SDK's DeductFeeDecorator returns ErrInvalidGasLimit for gas = 0 (height > 0, not simulating) before it calls the fee checker, and SetUpContextDecorator refuses gas > Block.MaxGas (30 000 000) so the int64 conversion cannot wrap to 0; modelled exactly as Outcome.panic in Gen.C20.checkTxFee and excluded by checktx_no_panic_in_range; the raw-transaction stream sends gas 0 / 2^63 / 2^64-1 through the real CheckTx" },
  { pkg := "ante", meth := "ConsumeMultisignatureVerificationGas", kind := "index", expr := "sig.Signatures[sigIndex]",
    needs := ["len(sig.Signatures) != sig.BitArray.NumTrueBitsBefore(size)"],
    why := "sigIndex counts the set bits seen so far (it is incremented once per set bit, after the access), so it is below the number of set bits among the first `size`, which the dominating early return equates with len(sig.Signatures); the raw-transaction stream sends every combination of bit-array size 0..64 and 0..3 signatures for a 2-key multisig account" }
]

def anteSiteOk (s : RunSite) : Bool := s.guarded || reviewedAnte.any (·.covers s)

/-- the requirement of a site is discharged by its method's own argument validation -/
def reqDischarged (s : RunSite) (r : Req) : Bool :=
  match methodOf s, findArgs argsTypes s.argsType with
  | some m, some t =>
    s.meth == "Run" && m.unpackFirst && m.parses && parseMethodArgsValidates &&
      entails true t.prog r
  | _, _ => false

def runSiteOk (s : RunSite) : Bool :=
  s.guarded ||
  (match s.req with
   | some r => reqDischarged s r
   | none => false) ||
  reviewedRun.any (·.covers s)

/-- sites with a requirement, paired with the `Validate` program that must establish it -/
def reqSites : List (RunSite × Req × List Stmt) :=
  runSites.filterMap fun s =>
    match s.req with
    | some r => some (s, r, progOf argsTypes s.argsType)
    | none => none

end FxVerif.Model.C20Run
