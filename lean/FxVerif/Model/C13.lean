import FxVerif.Gen.C13
/-!
# C13 / C07 model — crosschain oracle registry, stake life cycle, slashing end-blocker

One bridged chain.  The functions mirror `x/crosschain/keeper` (`msg_server.go`: BondedOracle, AddDelegate, ReDelegate,
EditBridger, WithdrawReward, UnbondedOracle, confirm handlers; `proposal.go`: UpdateProposalOracles; `abci.go`:
EndBlocker = slashing (three loops) + createOracleSetRequest + pruneOracleSet; `oracle.go`: SlashOracle, SetLastTotalPower)
and the part of SDK staking / bank they use (delegate, undelegate → unbonding entry paid to the *delegate address* of the
oracle at maturity, begin-redelegate, validator slash).  Facts read off the Go AST on every run (`Gen/C13.lean`) are used
*by the model*: the argument each slashing loop passes to `SlashOracle`, the comparison shapes of the loops, the cursor
start offsets, the shape of the unbonding-delegation test of `UnbondedOracle`, which uniqueness checks `BondedOracle` /
`EditBridger` make, the 30 % cap.  So the model follows the code; the theorems say what that code guarantees.

Addresses are small naturals (oracle account, bridger, external address, validator live in separate name spaces).
A message runs atomically (SDK cache context): on error the state is unchanged.
-/
namespace FxVerif.Model.C13
open FxVerif.Gen.C13

/-! ## association-list stores with lookup semantics -/

abbrev Store (κ α : Type) := List (κ × α)

namespace Store
variable {κ α : Type} [DecidableEq κ]
def get (s : Store κ α) (k : κ) : Option α := (s.find? (fun p => p.1 == k)).map (·.2)
def erase (s : Store κ α) (k : κ) : Store κ α := s.filter (fun p => p.1 != k)
def set (s : Store κ α) (k : κ) (v : α) : Store κ α := (k, v) :: erase s k
def has (s : Store κ α) (k : κ) : Bool := (get s k).isSome
def mapVals (f : α → α) (s : Store κ α) : Store κ α := s.map (fun p => (p.1, f p.2))
def vals (s : Store κ α) : List α := s.map (·.2)
end Store

def dec : Nat := 10 ^ 18
def u64 : Nat := 2 ^ 64
def maxU32 : Nat := 2 ^ 32 - 1

/-! ## data -/

structure Oracle where
  addr : Nat
  bridger : Nat
  ext : Nat
  amount : Nat          -- DelegateAmount
  startHeight : Nat
  online : Bool
  val : Nat             -- DelegateValidator
  slashTimes : Nat
  deriving DecidableEq, Repr

structure Params where
  thr : Nat             -- DelegateThreshold.Amount
  mult : Nat            -- DelegateMultiple
  slashNum : Nat        -- SlashFraction × 10^18
  window : Nat          -- SignedWindow
  pr : Nat              -- sdk.DefaultPowerReduction
  unb : Nat             -- staking unbonding time (seconds)
  pct : Nat             -- OracleSetUpdatePowerChangePercent × 10^18
  nval : Nat            -- validators 0..nval-1 exist
  deriving DecidableEq, Repr

structure Ubd where     -- staking unbonding-delegation entry of the delegate address of `oracle`
  oracle : Nat
  val : Nat
  creation : Nat
  completion : Nat
  balance : Nat
  deriving DecidableEq, Repr

structure Red where     -- staking redelegation entry
  oracle : Nat
  src : Nat
  dst : Nat
  completion : Nat
  deriving DecidableEq, Repr

structure OSet where
  nonce : Nat
  height : Nat
  members : List (Nat × Nat)   -- (external address, normalised power)
  deriving DecidableEq, Repr

structure Obj where     -- outgoing tx batch (nonce, block) / outgoing bridge call (nonce, block height)
  nonce : Nat
  height : Nat
  deriving DecidableEq, Repr

structure Conf where    -- stored confirm: key (object nonce, oracle address), value carries the external address
  nonce : Nat
  oracle : Nat
  ext : Nat
  deriving DecidableEq, Repr

structure Ghost where   -- history of a record (never read by the code paths)
  sent : Nat := 0       -- transferred oracle account → delegate address by bond / add-delegate
  undel : Nat := 0      -- undelegated by governance removal (→ unbonding entries)
  reon : Bool := false  -- came back online through AddDelegate after a governance removal (known-finding history class)
  deriving DecidableEq, Repr

inductive Kind where | os | batch | call
  deriving DecidableEq, Repr

structure State where
  p : Params
  height : Nat := 1
  time : Nat := 0
  oracles : Store Nat Oracle := []
  byBridger : Store Nat Nat := []
  byExt : Store Nat Nat := []
  proposal : List Nat := []
  lastTotalPower : Nat := 0
  bal : Store Nat Nat := []              -- oracle account balances
  dbal : Store Nat Nat := []             -- delegate-address balances, keyed by oracle account
  deleg : Store (Nat × Nat) Nat := []    -- (oracle, validator) ↦ staked tokens of the delegate address
  ubds : List Ubd := []
  reds : List Red := []
  osets : List OSet := []
  latestNonce : Nat := 0
  lastObserved : Option Nat := none
  batches : List Obj := []
  calls : List Obj := []
  nextBatch : Nat := 1
  nextCall : Nat := 1
  osConf : List Conf := []
  batchConf : List Conf := []
  callConf : List Conf := []
  curOS : Nat := 0                        -- LastSlashedOracleSetNonce
  curBatch : Nat := 0                     -- LastSlashedBatchBlock
  curCall : Nat := 0                      -- LastSlashedBridgeCallNonce
  lastSlashHeight : Nat := 0
  burned : Nat := 0                       -- ghost
  gh : Store Nat Ghost := []              -- ghost
  deriving Repr

inductive Res where
  | ok
  | err (kind : String)
  | panic (site : String)
  deriving DecidableEq, Repr

inductive Op where
  | gov (list : List Nat)
  | bond (o b e v amt : Nat)
  | add (o amt : Nat)
  | redel (o v : Nat)
  | editb (o b : Nat)
  | withdraw (o : Nat)
  | fund (o amt : Nat)
  | mint (o amt : Nat)
  | unbond (o : Nat)
  | mkbatch
  | mkcall
  | conf (k : Kind) (n e b : Nat) (sigOk : Bool)
  | observe (n : Nat)
  | event (bs bcs cs : List Nat) (obs : Option (Option Nat))
      -- an external-chain event reached its quorum and was executed (claim handlers + `cleanupTimedOutBatches` /
      -- `cleanupTimeOutBridgeCall`, the C01 / C05 alphabets): seen from the slashing state it removes batches (executed,
      -- cancelled, timed out), batch confirms (of the executed batch), bridge calls with their confirms (result / timeout)
      -- and may move the last observed oracle set; WHICH ones is the environment's choice
  | block (dt : Nat)
  | tick (dt : Nat)      -- the pending block's time moves on by dt: the following messages are txs of a block with that time
  | valslash (v num den : Nat)
  deriving DecidableEq, Repr

/-! ## record arithmetic (`types.go`) -/

def power (p : Params) (o : Oracle) : Nat := o.amount / p.pr

/-- `GetSlashAmount`: `min(trunc(amount × fraction × slashTimes), amount)` -/
def slashAmount (p : Params) (o : Oracle) : Nat := min (o.amount * p.slashNum * o.slashTimes / dec) o.amount

def getBal (b : Store Nat Nat) (o : Nat) : Nat := (Store.get b o).getD 0

def onlineOracles (s : State) : List Oracle := (Store.vals s.oracles).filter (·.online)

def totalOnlinePower (s : State) : Nat := ((onlineOracles s).map (power s.p)).sum

/-- `SetLastTotalPower` -/
def refreshPower (s : State) : State := { s with lastTotalPower := totalOnlinePower s }

def evalCmp : Cmp → Nat → Nat → Bool
  | .gt, a, b => a > b
  | .ge, a, b => a ≥ b
  | .lt, a, b => a < b
  | .le, a, b => a ≤ b
  | .other, _, _ => false

/-! ## staking (dependency: only the behaviour used) -/

def maxEntries : Nat := 7

/-- `MsgDelegate` from the delegate address of `o` to validator `v` (coins were sent to the delegate address first) -/
def stakeDelegate (s : State) (o v amt : Nat) : Option State :=
  if v < s.p.nval then
    some { s with deleg := Store.set s.deleg (o, v) ((Store.get s.deleg (o, v)).getD 0 + amt) }
  else none

/-- `MsgUndelegate` of the whole delegation (`GetOracleDelegateToken`) -/
def stakeUndelegateAll (s : State) (o v : Nat) : Option State :=
  match Store.get s.deleg (o, v) with
  | none => none
  | some t =>
    let same := s.ubds.filter (fun u => u.oracle == o && u.val == v)
    let merged := same.any (fun u => u.creation == s.height)
    if !merged && same.length ≥ maxEntries then none else
    let ubds' :=
      if merged then s.ubds.map (fun u => if u.oracle == o && u.val == v && u.creation == s.height
        then { u with balance := u.balance + t } else u)
      else s.ubds ++ [⟨o, v, s.height, s.time + s.p.unb, t⟩]
    let g := (Store.get s.gh o).getD {}
    some { s with deleg := Store.erase s.deleg (o, v), ubds := ubds',
                  gh := Store.set s.gh o { g with undel := g.undel + t } }

/-- `MsgBeginRedelegate` of the whole delegation -/
def stakeRedelegateAll (s : State) (o src dst : Nat) : Option State :=
  match Store.get s.deleg (o, src) with
  | none => none
  | some t =>
    if src == dst || !(dst < s.p.nval) then none
    else if s.reds.any (fun r => r.oracle == o && r.dst == src) then none
    else if (s.reds.filter (fun r => r.oracle == o && r.src == src && r.dst == dst)).length ≥ maxEntries then none
    else
      some { s with deleg := Store.set (Store.erase s.deleg (o, src)) (o, dst) ((Store.get s.deleg (o, dst)).getD 0 + t),
                    reds := s.reds ++ [⟨o, src, dst, s.time + s.p.unb⟩] }

/-- staking end-blocker at block time `t`: mature unbonding entries pay the delegate address; mature redelegations vanish -/
def stakeMature (s : State) (t : Nat) : State :=
  let (done, rest) := s.ubds.partition (fun u => u.completion ≤ t)
  { s with ubds := rest,
           dbal := done.foldl (fun b u => Store.set b u.oracle (getBal b u.oracle + u.balance)) s.dbal,
           reds := s.reds.filter (fun r => !(r.completion ≤ t)) }

/-! ## messages -/

/-- which records enter a power sum of the cap (`if oracle.Online { … }` around the accumulation, REGENERATED) -/
def capCounted (onlyOnline : Bool) (o : Oracle) : Bool := !onlyOnline || o.online

/-- what the cap is measured against: the power of the (online) records summed by the loop of `UpdateProposalOracles` itself
— not the stored `LastTotalPower` — when the code says so (`capAgainstLoopTotal`) -/
def capTotal (s : State) : Nat :=
  if capAgainstLoopTotal then (((Store.vals s.oracles).filter (capCounted capTotalOnlineOnly)).map (power s.p)).sum
  else s.lastTotalPower

/-- the power the update takes away: (online) records on the old list that the new list drops -/
def capRemoved (s : State) (list : List Nat) : Nat :=
  let all := Store.vals s.oracles
  let dl := if capDeleteOldListOnly then all.filter (fun o => !list.contains o.addr && s.proposal.contains o.addr)
            else all.filter (fun o => !list.contains o.addr)
  ((dl.filter (capCounted capDeleteOnlineOnly)).map (power s.p)).sum

/-- `maxChangePowerThreshold` -/
def capThreshold (s : State) : Nat := powerChangeCap * capTotal s / capDenominator

/-- the refusing `if` of `UpdateProposalOracles`, every part of it REGENERATED (`cap…` of `Gen/C13.lean`) -/
def capRefuses (s : State) (list : List Nat) : Bool :=
  capBeforeWrites && ((!capZeroGuard || decide (capRemoved s list > 0)) && evalCmp capCmp (capRemoved s list) (capThreshold s))

/-- `UpdateProposalOracles` -/
def govUpdate (s : State) (list : List Nat) : State × Res :=
  if list.length > maxOracleSize then (s, .err "size") else
  let all := Store.vals s.oracles
  let unbondList := all.filter (fun o => !list.contains o.addr && s.proposal.contains o.addr)
  if capRefuses s list then (s, .err "cap") else
  let s1 := { s with proposal := list }
  -- `UnbondedOracleFromProposal` for each: undelegate everything (staking state only) …
  let r := unbondList.foldl (fun (acc : Option State) o =>
      match acc with
      | none => none
      | some st => stakeUndelegateAll st o.addr o.val) (some s1)
  match r with
  | none => (s, .err "staking")
  | some s2 =>
    -- … and write the record back with `Online = false` (records are keyed by their own address)
    ({ s2 with oracles := Store.mapVals (fun o => if !list.contains o.addr && s.proposal.contains o.addr
                            then { o with online := false } else o) s2.oracles }, .ok)

/-- `BondedOracle` -/
def bond (s : State) (o b e v amt : Nat) : State × Res :=
  if bondChecksProposal && !s.proposal.contains o then (s, .err "no-oracle")
  else if bondChecksOracle && Store.has s.oracles o then (s, .err "exists")
  else if bondChecksBridger && Store.has s.byBridger b then (s, .err "bridger-bound")
  else if bondChecksExt && Store.has s.byExt e then (s, .err "ext-bound")
  else if bondChecksBelow && amt < s.p.thr then (s, .err "below")
  else if bondChecksAbove && amt > s.p.thr * s.p.mult then (s, .err "above")
  else if getBal s.bal o < amt then (s, .err "funds")
  else
    let s1 := { s with bal := Store.set s.bal o (getBal s.bal o - amt) }
    match stakeDelegate s1 o v amt with
    | none => (s, .err "staking")
    | some s2 =>
      let rec_ : Oracle := ⟨o, b, e, amt, s.height, true, v, 0⟩
      (refreshPower { s2 with oracles := Store.set s2.oracles o rec_,
                               byBridger := Store.set s2.byBridger b o,
                               byExt := Store.set s2.byExt e o,
                               gh := Store.set s2.gh o { sent := amt, undel := 0 } }, .ok)

/-- the tail of `AddDelegate` (with the keeper helpers it hands the record to): an offline oracle comes back online with a
fresh start height — so it is not liable for anything created before it re-joined — and a cleared penalty counter; each of
the three field updates happens only if the code has it -/
def reactivate (h : Nat) (r : Oracle) : Oracle :=
  { r with online := if addSetsOnline then true else r.online,
           startHeight := if addSetsStartHeight then (if addStartHeightOnlyWhenOffline && r.online then r.startHeight else h)
                          else r.startHeight,
           slashTimes := if addResetsSlashTimes then 0 else r.slashTimes }

/-- `AddDelegate` (the guards it makes before its first write are regenerated: `addChecks…`) -/
def addDelegate (s : State) (o amt : Nat) : State × Res :=
  if addChecksProposal && !s.proposal.contains o then (s, .err "no-oracle") else
  match Store.get s.oracles o with
  | none => (s, .err "no-oracle")
  | some r =>
    let slash := slashAmount s.p r
    if addChecksSlashPaid && (slash > 0 && amt < slash) then (s, .err "slash-short") else
    let dcoin := amt - slash
    let newAmt := r.amount + dcoin
    if addChecksBelow && newAmt < s.p.thr then (s, .err "below")
    else if addChecksAbove && newAmt > s.p.thr * s.p.mult then (s, .err "above")
    else if getBal s.bal o < amt then (s, .err "funds")
    else
      let s1 := { s with bal := Store.set s.bal o (getBal s.bal o - amt), burned := s.burned + slash }
      let s2? := if dcoin > 0 then stakeDelegate s1 o r.val dcoin else some s1
      match s2? with
      | none => (s, .err "staking")
      | some s2 =>
        -- which fields the re-activation path sets is REGENERATED (`addSets…`, `addResets…`)
        let r' : Oracle := reactivate s.height { r with amount := newAmt }
        let g := (Store.get s2.gh o).getD {}
        (refreshPower { s2 with oracles := Store.set s2.oracles o r',
                                 gh := Store.set s2.gh o { g with sent := g.sent + dcoin, reon := g.reon || decide (g.undel > 0) } }, .ok)

/-- `ReDelegate` -/
def reDelegate (s : State) (o v : Nat) : State × Res :=
  match Store.get s.oracles o with
  | none => (s, .err "no-oracle")
  | some r =>
    if !r.online then (s, .err "offline")
    else if r.val == v then (s, .err "same")
    else match stakeRedelegateAll s o r.val v with
      | none => (s, .err "staking")
      | some s1 => ({ s1 with oracles := Store.set s1.oracles o { r with val := v } }, .ok)

/-- `EditBridger` -/
def editBridger (s : State) (o b : Nat) : State × Res :=
  match Store.get s.oracles o with
  | none => (s, .err "no-oracle")
  | some r =>
    if !r.online then (s, .err "offline")
    else if r.bridger == b then (s, .err "same")
    else if editChecksBridger && Store.has s.byBridger b then (s, .err "bridger-bound")
    else
      ({ s with byBridger := Store.set (Store.erase s.byBridger r.bridger) b o,
                oracles := Store.set s.oracles o { r with bridger := b } }, .ok)

/-- `WithdrawReward`: distribution rewards are an external input (`fund`); every balance of the delegate address is swept -/
def withdrawReward (s : State) (o : Nat) : State × Res :=
  match Store.get s.oracles o with
  | none => (s, .err "no-oracle")
  | some r =>
    if !r.online then (s, .err "offline")
    else if !(Store.has s.deleg (o, r.val)) then (s, .err "staking")
    else if getBal s.dbal o == 0 then (s, .err "empty")
    else ({ s with bal := Store.set s.bal o (getBal s.bal o + getBal s.dbal o), dbal := Store.set s.dbal o 0 }, .ok)

/-- the unbonding-delegation test of `UnbondedOracle` as coded: `pending` = an unbonding delegation of the delegate
address with the oracle's validator exists; `immature` = it has an entry whose completion time is after the block time -/
def unbondBlocked (pending immature : Bool) : Bool :=
  match unbondUbdTest with
  | .rejectIfExists => pending
  | .rejectIfImmature => immature
  | .rejectIfMissing => !pending
  | .none => false
  | .other => false

/-- `UnbondedOracle` -/
def unbond (s : State) (o : Nat) : State × Res :=
  if s.proposal.contains o then (s, .err "in-proposal") else
  match Store.get s.oracles o with
  | none => (s, .err "no-oracle")
  | some r =>
    if r.online then (s, .err "online") else
    let pending := s.ubds.any (fun u => u.oracle == o && u.val == r.val)
    let immature := s.ubds.any (fun u => u.oracle == o && u.val == r.val && decide (u.completion > s.time))
    if unbondBlocked pending immature then (s, .err "ubd") else
    let slash := slashAmount s.p r
    if getBal s.dbal o < slash then (s, .err "slash-short") else
    let pay := getBal s.dbal o - slash
    ({ s with burned := s.burned + slash,
              dbal := Store.set s.dbal o 0,
              bal := Store.set s.bal o (getBal s.bal o + pay),
              byExt := Store.erase s.byExt r.ext,
              byBridger := Store.erase s.byBridger r.bridger,
              oracles := Store.erase s.oracles o,
              gh := Store.erase s.gh o }, .ok)

def mkBatch (s : State) : State × Res :=
  if s.batches.any (fun b => b.height == s.height) then (s, .err "dup-block")
  else ({ s with batches := s.batches ++ [⟨s.nextBatch, s.height⟩], nextBatch := s.nextBatch + 1 }, .ok)

def mkCall (s : State) : State × Res :=
  ({ s with calls := s.calls ++ [⟨s.nextCall, s.height⟩], nextCall := s.nextCall + 1 }, .ok)

def objExists (s : State) : Kind → Nat → Bool
  | .os, n => s.osets.any (·.nonce == n)
  | .batch, n => s.batches.any (·.nonce == n)
  | .call, n => s.calls.any (·.nonce == n)

def confs (s : State) : Kind → List Conf
  | .os => s.osConf
  | .batch => s.batchConf
  | .call => s.callConf

def setConfs (s : State) (k : Kind) (c : List Conf) : State :=
  match k with
  | .os => { s with osConf := c }
  | .batch => { s with batchConf := c }
  | .call => { s with callConf := c }

/-- the three confirm handlers + `ValidateConfirmSign` (signature check result is an input) -/
def confirm (s : State) (k : Kind) (n e b : Nat) (sigOk : Bool) : State × Res :=
  if !objExists s k n then (s, .err "no-object") else
  match Store.get s.byExt e with
  | none => (s, .err "no-oracle")
  | some a =>
    match Store.get s.oracles a with
    | none => (s, .err "no-oracle")
    | some r =>
      if r.ext != e then (s, .err "mismatch")
      else if r.bridger != b then (s, .err "mismatch")
      else if !sigOk then (s, .err "sig")
      else if (confs s k).any (fun c => c.nonce == n && c.oracle == a) then (s, .err "dup")
      else (setConfs s k (confs s k ++ [⟨n, a, e⟩]), .ok)

/-- effect of an executed `MsgOracleSetUpdatedClaim` for a stored oracle set (`UpdateOracleSetExecuted`) -/
def observe (s : State) (n : Nat) : State × Res :=
  -- nonce 0 is not checked against the store; the claim of the harness carries no members, the stored record is the empty
  -- byte string, which `GetLastObservedOracleSet` reads back as "none"
  if n == 0 then ({ s with lastObserved := none }, .ok) else
  if s.osets.any (·.nonce == n) then ({ s with lastObserved := some n }, .ok) else (s, .err "no-object")

/-- effect of an executed external event on the slashing-relevant state (`OutgoingTxBatchExecuted`: `DeleteBatch` of the
executed batch and of every earlier batch of the token, `DeleteBatchConfirm` of the executed one only; `CancelOutgoingTxBatch`
on timeout: `DeleteBatch` only; `DeleteOutgoingBridgeCallRecord`: the call and its confirms) -/
def extEvent (s : State) (bs bcs cs : List Nat) (obs : Option (Option Nat)) : State × Res :=
  ({ s with batches := s.batches.filter (fun b => !bs.contains b.nonce),
            batchConf := s.batchConf.filter (fun c => !bcs.contains c.nonce),
            calls := s.calls.filter (fun c => !cs.contains c.nonce),
            callConf := s.callConf.filter (fun c => !cs.contains c.nonce),
            lastObserved := match obs with | none => s.lastObserved | some o => o }, .ok)

/-- validator slashed by fraction `num/den` at the current height (floor arithmetic; exactness is not claimed) -/
def valSlash (s : State) (v num den : Nat) : State × Res :=
  if den == 0 || num > den then (s, .err "bad") else
  ({ s with deleg := s.deleg.map (fun p => if p.1.2 == v then (p.1, p.2 * (den - num) / den) else p),
            ubds := s.ubds.map (fun u => if u.val == v && u.creation ≥ s.height
              then { u with balance := u.balance * (den - num) / den } else u) }, .ok)

/-! ## end-blocker (`abci.go`) -/

def confExts (cs : List Conf) (n : Nat) : List Nat := (cs.filter (·.nonce == n)).map (·.ext)

/-- loop-body condition for one oracle and one object: not skipped by start height, and (no) stored confirm -/
def shouldSlash (skip : Cmp) (o : Oracle) (objHeight : Nat) (conf : List Nat) : Bool :=
  !(evalCmp skip o.startHeight objHeight) &&
  (if slashWhenConfirmMissing then !conf.contains o.ext else conf.contains o.ext)

/-- `SlashOracle` for every stored-online oracle the loop body selects -/
def slashPass (s : State) (h : Nat) (skip : Cmp) (objHeight : Nat) (conf : List Nat) : State :=
  let hit := (Store.vals s.oracles).any (fun o => o.online && shouldSlash skip o objHeight conf)
  { s with oracles := Store.mapVals (fun o => if o.online && shouldSlash skip o objHeight conf
                        then { o with online := false, slashTimes := o.slashTimes + 1 } else o) s.oracles,
           lastSlashHeight := if hit then h else s.lastSlashHeight }

/-- `hasSlash` of a loop: `SlashOracle` was *called* (snapshot taken at the start of `slashing`) -/
def called (snap : List Oracle) (skip : Cmp) (objHeight : Nat) (conf : List Nat) : Bool :=
  snap.any (fun o => shouldSlash skip o objHeight conf)

/-- `GetUnSlashedOracleSets`: from cursor + offset in nonce order, stop at the first one not older than the window -/
def unslashedSets (s : State) (maxH : Nat) : List OSet :=
  ((s.osets.filter (fun x => x.nonce ≥ s.curOS + oracleSetCursorOffset)).takeWhile
    (fun x => evalCmp oracleSetWindowCmp maxH x.height))

/-- `GetUnSlashedBatches`: block-index range `[cursor + offset, maxH)` -/
def unslashedBatches (s : State) (maxH : Nat) : List Obj :=
  s.batches.filter (fun x => x.height ≥ s.curBatch + batchCursorOffset && x.height < maxH)

/-- `GetUnSlashedBridgeCalls` -/
def unslashedCalls (s : State) (maxH : Nat) : List Obj :=
  ((s.calls.filter (fun x => x.nonce ≥ s.curCall + bridgeCallCursorOffset)).takeWhile
    (fun x => evalCmp bridgeCallWindowCmp x.height maxH))

/-- one slashing loop: for every selected object, call `SlashOracle` for the oracles the body selects (panic if the
argument is not the oracle address and some oracle of the snapshot is selected), then move the cursor -/
def slashLoop {β : Type} (xs : List β) (height nonce : β → Nat) (confOf : State → List Conf) (skip : Cmp) (arg : SlashArg)
    (site : String) (setCur : State → β → State) (h : Nat) (snap : List Oracle) (s : State) : Except String (State × Bool) :=
  xs.foldl (fun acc x =>
    match acc with
    | .error e => .error e
    | .ok (st, hs) =>
      let c := called snap skip (height x) (confExts (confOf st) (nonce x))
      if c && arg != .oracleAddress then .error site else
      .ok (setCur (slashPass st h skip (height x) (confExts (confOf st) (nonce x))) x, hs || c))
    (.ok (s, false))

def oracleSetSlashing (s : State) (h : Nat) (snap : List Oracle) (maxH : Nat) : Except String (State × Bool) :=
  slashLoop (unslashedSets s maxH) (·.height) (·.nonce) (·.osConf) oracleSetStartSkip oracleSetSlashArg
    "SlashOracle:MustAccAddressFromBech32(oracleSetSlashing)" (fun st x => { st with curOS := x.nonce }) h snap s

def batchSlashing (s : State) (h : Nat) (snap : List Oracle) (maxH : Nat) : Except String (State × Bool) :=
  slashLoop (unslashedBatches s maxH) (·.height) (·.nonce) (·.batchConf) batchStartSkip batchSlashArg
    "SlashOracle:MustAccAddressFromBech32(batchSlashing)" (fun st x => { st with curBatch := x.height }) h snap s

def bridgeCallSlashing (s : State) (h : Nat) (snap : List Oracle) (maxH : Nat) : Except String (State × Bool) :=
  slashLoop (unslashedCalls s maxH) (·.height) (·.nonce) (·.callConf) bridgeCallStartSkip bridgeCallSlashArg
    "SlashOracle:MustAccAddressFromBech32(bridgeCallSlashing)" (fun st x => { st with curCall := x.nonce }) h snap s

/-- `SlashOracle(ctx, addr.String())` where `addr, _ := GetOracleAddrByExternalAddr(ctx, member.ExternalAddress)`: an index
miss gives the empty string (`MustAccAddressFromBech32("")` panics), a missing record panics, an offline record returns -/
def memberSlash (h : Nat) (site : String) (st : State) (e : Nat) : Except String State :=
  match Store.get st.byExt e with
  | none => .error site
  | some a =>
    match Store.get st.oracles a with
    | none => .error "SlashOracle:ErrNoFoundOracle"
    | some r =>
      if r.online then
        .ok { st with oracles := Store.set st.oracles a { r with online := false, slashTimes := r.slashTimes + 1 },
                      lastSlashHeight := h }
      else .ok st

def foldSlash (f : State → Nat → Except String State) : State → List Nat → Except String State
  | st, [] => .ok st
  | st, e :: es => match f st e with
    | .error m => .error m
    | .ok st' => foldSlash f st' es

/-- the oracle-set loop when it walks `oracleSet.Members` (regenerated `oracleSetLoopDomain = .setMembers`): every member
whose external address is not (resp. is) among the stored confirms is resolved through the external-address index and
handed to `SlashOracle`; no start-height skip -/
def membersSlashing (s : State) (h : Nat) (maxH : Nat) (site : String) : Except String (State × Bool) :=
  (unslashedSets s maxH).foldl (fun acc x =>
    match acc with
    | .error e => .error e
    | .ok (st, hs) =>
      let conf := confExts st.osConf x.nonce
      let sel := (x.members.map (·.1)).filter (fun e => if slashWhenConfirmMissing then !conf.contains e else conf.contains e)
      match foldSlash (memberSlash h site) st sel with
      | .error e => .error e
      | .ok st' => .ok ({ st' with curOS := x.nonce }, hs || !sel.isEmpty))
    (.ok (s, false))

/-- the three loops as `slashing` calls them: the iteration domain of each is REGENERATED (`…LoopDomain`) -/
def oracleSetSlashingBy (s : State) (h : Nat) (snap : List Oracle) (maxH : Nat) : Except String (State × Bool) :=
  match oracleSetLoopDomain with
  | .onlineSnapshot => oracleSetSlashing s h snap maxH
  | .setMembers =>
    if oracleSetSlashArg == .indexLookupUnchecked then
      membersSlashing s h maxH "SlashOracle:MustAccAddressFromBech32(oracleSetSlashing)"
    else .error "oracleSetSlashing:untranslated"
  | .other => .error "oracleSetSlashing:untranslated"

def batchSlashingBy (s : State) (h : Nat) (snap : List Oracle) (maxH : Nat) : Except String (State × Bool) :=
  match batchLoopDomain with
  | .onlineSnapshot => batchSlashing s h snap maxH
  | _ => .error "batchSlashing:untranslated"

def bridgeCallSlashingBy (s : State) (h : Nat) (snap : List Oracle) (maxH : Nat) : Except String (State × Bool) :=
  match bridgeCallLoopDomain with
  | .onlineSnapshot => bridgeCallSlashing s h snap maxH
  | _ => .error "bridgeCallSlashing:untranslated"

/-- `slashing` -/
def slashing (s : State) (h : Nat) : Except String State :=
  if h ≤ s.p.window then .ok s else
  let snap := onlineOracles s
  let maxH := h - s.p.window
  match oracleSetSlashingBy s h snap maxH with
  | .error e => .error e
  | .ok (s1, a) =>
    match batchSlashingBy s1 h snap maxH with
    | .error e => .error e
    | .ok (s2, b) =>
      match bridgeCallSlashingBy s2 h snap maxH with
      | .error e => .error e
      | .ok (s3, c) => .ok (if a || b || c then refreshPower s3 else s3)

/-- which online oracles `GetCurrentOracleSet` keeps (regenerated skip condition; powers are naturals here, so "negative"
never applies and `.negative` / `.none` keep zero-power oracles in) -/
def keptMember (m : Nat × Nat) : Bool :=
  match currentSetSkip with
  | .nonPositive => m.2 > 0
  | .negative => true
  | .none => true
  | .other => true

/-- `GetCurrentOracleSet`: `power.Uint64()` and the `uint64` total are the arithmetic sites of the end-blocker -/
def currentMembers (s : State) : Except String (List (Nat × Nat)) :=
  let ps := ((onlineOracles s).map (fun o => (o.ext, power s.p o))).filter keptMember
  if ps.any (fun m => m.2 ≥ u64) then .error "GetCurrentOracleSet:power.Uint64()" else
  let total := (ps.map (·.2)).sum % u64
  if !ps.isEmpty && total == 0 then .error "GetCurrentOracleSet:QuoUint64(totalPower)" else
  .ok (ps.map (fun m => (m.1, m.2 * maxU32 / total)))

def memberPower (ms : List (Nat × Nat)) (e : Nat) : Nat := ((ms.find? (fun m => m.1 == e)).map (·.2)).getD 0

def absDiff (a b : Nat) : Nat := if a ≥ b then a - b else b - a

/-- `BridgeValidators.PowerDiff` numerator (sum of absolute power changes) -/
def powerDelta (cur latest : List (Nat × Nat)) : Nat :=
  (cur.map (fun m => absDiff m.2 (memberPower latest m.1))).sum +
  ((latest.filter (fun m => !(cur.any (fun c => c.1 == m.1)))).map (·.2)).sum

/-- number of decimals `LegacyNewDecFromStr` accepts -/
def decPrecision : Nat := 18

/-- the power difference `delta / MaxUint32` rendered as text with the REGENERATED format (`powerDiffFormat`, e.g. `%.8f`)
and read back by `LegacyNewDecFromStr`: the value × 10^18, or `none` when the parser can reject the text (more than 18
decimals).  `.fixed n`: rounded to `n` decimals.  `.shortest` prints every digit the float needs, which is more than 18
decimals for small non-zero quotients; the model does not track float64 digit counts and answers `none` for every
quotient that is not an integer (conservative: "can be rejected"). -/
def powerDiffParsed (delta : Nat) : Option Nat :=
  match powerDiffFormat with
  | .fixed n =>
    if n ≤ decPrecision then some ((delta * 10 ^ n * 2 + maxU32) / (2 * maxU32) * 10 ^ (decPrecision - n)) else none
  | .shortest => if delta % maxU32 == 0 then some (delta / maxU32 * dec) else none
  | .other => none

/-- the threshold the parsed difference is compared with (capped at 1 when the code caps it) -/
def refreshThreshold (p : Params) : Nat := if powerDiffCapAtOne then min p.pct dec else p.pct

def latestSet (s : State) : Option OSet := s.osets.find? (fun x => x.nonce == s.latestNonce)

/-- `isNeedOracleSetRequest`: the checks run in the order they are WRITTEN (`needChecks`, regenerated); `.error` = panic.
The power-difference step dereferences the latest oracle set, formats, parses (panic on a parse error) and compares. -/
def needGo (s : State) (h : Nat) (cur : List (Nat × Nat)) : List NeedCheck → Except String Bool
  | [] => .ok false
  | .latestNil :: rest => match latestSet s with
    | none => .ok true
    | some _ => needGo s h cur rest
  | .slashThisBlock :: rest => if s.lastSlashHeight == h then .ok true else needGo s h cur rest
  | .powerDiff :: rest => match latestSet s with
    | none => .error "isNeedOracleSetRequest:nil-latestOracleSet"
    | some latest => match powerDiffParsed (powerDelta cur latest.members) with
      | none => .error "isNeedOracleSetRequest:LegacyNewDecFromStr"
      | some v => if powerDiffGeRefreshes && v ≥ refreshThreshold s.p then .ok true else needGo s h cur rest
  | .other :: rest => needGo s h cur rest

def needOracleSet (s : State) (h : Nat) (cur : List (Nat × Nat)) : Except String Bool := needGo s h cur needChecks

/-- `createOracleSetRequest` -/
def createOracleSetRequest (s : State) (h : Nat) : Except String State :=
  match currentMembers s with
  | .error e => .error e
  | .ok cur =>
    match needOracleSet s h cur with
    | .error e => .error e
    | .ok need =>
      if need && !cur.isEmpty then
        .ok (refreshPower { s with osets := s.osets ++ [⟨s.latestNonce + 1, h, cur⟩], latestNonce := s.latestNonce + 1 })
      else .ok s

/-- `pruneOracleSet` (comparisons regenerated; `currentBlock - window` is `uint64` arithmetic and wraps) -/
def pruneOracleSet (s : State) (h : Nat) : State :=
  match s.lastObserved with
  | none => s
  | some n =>
    if pruneGuarded && evalCmp pruneTooEarlyCmp h s.p.window then s else
    let earliest := if h ≥ s.p.window then h - s.p.window else h + u64 - s.p.window
    let gone := fun (x : OSet) => evalCmp pruneHeightCmp earliest x.height && evalCmp pruneNonceCmp n x.nonce
    { s with osets := s.osets.filter (fun x => !gone x),
             osConf := s.osConf.filter (fun c => !(s.osets.any (fun x => gone x && x.nonce == c.nonce))) }

/-- crosschain `EndBlocker` at height `h`: `.error site` = panic -/
def endBlock (s : State) (h : Nat) : Except String State :=
  match slashing s h with
  | .error e => .error e
  | .ok s1 =>
    match createOracleSetRequest s1 h with
    | .error e => .error e
    | .ok s2 => .ok (pruneOracleSet s2 h)

/-- one block: FinalizeBlock at the current height with block time advanced by `dt` -/
def block (s : State) (dt : Nat) : State × Res :=
  match endBlock s s.height with
  | .error site => (s, .panic site)
  | .ok s1 =>
    let s2 := stakeMature s1 (s.time + dt)
    ({ s2 with height := s.height + 1, time := s.time + dt }, .ok)

def step (s : State) : Op → State × Res
  | .gov l => govUpdate s l
  | .bond o b e v amt => bond s o b e v amt
  | .add o amt => addDelegate s o amt
  | .redel o v => reDelegate s o v
  | .editb o b => editBridger s o b
  | .withdraw o => withdrawReward s o
  | .fund o amt => ({ s with dbal := Store.set s.dbal o (getBal s.dbal o + amt) }, .ok)
  | .mint o amt => ({ s with bal := Store.set s.bal o (getBal s.bal o + amt) }, .ok)
  | .unbond o => unbond s o
  | .mkbatch => mkBatch s
  | .mkcall => mkCall s
  | .conf k n e b sg => confirm s k n e b sg
  | .observe n => observe s n
  | .event bs bcs cs obs => extEvent s bs bcs cs obs
  | .block dt => block s dt
  | .tick dt => ({ s with time := s.time + dt }, .ok)
  | .valslash v num den => valSlash s v num den

def init (p : Params) (bals : Store Nat Nat) : State := { p := p, bal := bals }

def run (s : State) : List Op → State
  | [] => s
  | op :: ops => run (step s op).1 ops

end FxVerif.Model.C13
