import FxVerif.Model.C09
/-!
# C09, round 5 — one delivered `MsgEthereumTx` inside a block

`Model/C09.lean runTx` is the EVM message server: what a delivered `MsgEthereumTx` reaches in the end.  Since round 5 a
share of the harness programs travels the whole way (`FinalizeBlock` + `Commit`, go/harness/c09/block_test.go); this file
is the hand-written model of what baseapp's `runTx` (mode finalize) adds around the message server — NOT regenerated
(cosmos-sdk dependency), tied by the block-path monitors and by the compared line of the block programs:

* the ante handler runs on a cache branch that is written back when it accepts: the sender's nonce moves by one and the
  fee for the whole gas limit is deducted; when it refuses (intrinsic gas, fee, signature, nonce) nothing is written;
* the message runs on a second cache branch that is written back only if the handler returns no error, nothing panics
  (`Outcome.abort`: baseapp recovers the panic and discards the branch) AND the post-processing of the result succeeds —
  `createEvents` asks the codec for the signers of the executed message (`signersOk`; on the pinned tree it is `false` for
  every `MsgEthereumTx`: bytes field `from`, no custom `GetSigners` registered — fixes/C09-ethtx-signers.md);
* an EVM execution that fails (revert, invalid opcode, out of gas, a failing precompile) is NOT a handler error: the
  message's branch is written back — it holds the refund of the unused gas and nothing else (`atomicity`).
-/
namespace FxVerif.Model.C09

variable {N : Type}

/-- committed chain state as far as one sender is concerned -/
structure Chain (N : Type) where
  view : View N
  nonce : Nat
  paid : Nat      -- fees the sender has paid so far

inductive Delivery
  | refused                 -- the ante handler returned an error: transaction code ≠ 0, nothing written
  | executed (o : Outcome)  -- code 0; `o` is the EVM outcome in the MsgEthereumTxResponse
  | dropped                 -- the message ran and its branch was discarded (panic, or result post-processing failed)
  deriving DecidableEq, Repr

def deliver (anteOk signersOk : Bool) (fuel gas price : Nat) (p : List (Prog N)) (c : Chain N) : Delivery × Chain N :=
  if !anteOk then (.refused, c) else
  let c1 : Chain N := { c with nonce := c.nonce + 1, paid := c.paid + gas * price }
  let r := runTx fuel gas p c.view
  if r.1 = .abort || !signersOk then (.dropped, c1)
  else (.executed r.1, { c1 with view := r.2.1, paid := c1.paid - r.2.2 * price })

/-- a block's worth of deliveries by one sender -/
def deliverAll (signersOk : Bool) (fuel price : Nat) : List (Bool × Nat × List (Prog N)) → Chain N → Chain N
  | [], c => c
  | (anteOk, gas, p) :: rest, c => deliverAll signersOk fuel price rest (deliver anteOk signersOk fuel gas price p c).2

end FxVerif.Model.C09
