import FxVerif.Model.Ledger
/-!
# Money flows of the Go functions anchored by C04 / C08, one Lean function per Go function

Each function returns the ordered list of ledger primitives the Go code performs on its success path, per ownership kind
(read from `/repo`; `Gen/C04.lean` re-extracts the bank-keeper call sequences on every run and `Props/C04.lean`
obliges them to equal `calls` of these flows).

`M c` = crosschain module account of chain `c`, `E` = erc20 module account (owner of module-owned ERC-20s),
`wfx` = the WFX contract (keeps the FX that backs WFX).
-/
namespace FxVerif.Model.Flows
open FxVerif.Model.Ledger

inductive Kind where
  | fx             -- the native coin; pair FX ↔ WFX, module-owned
  | moduleOwned    -- `IsNativeCoin`, base ≠ FX
  | externalOwned  -- `IsNativeERC20`
  deriving DecidableEq, Repr

abbrev M (c : Nat) : Addr := .chainMod c
abbrev E : Addr := .erc20Mod

/-! ### x/crosschain/keeper/many_to_one.go -/

/-- `DepositBridgeToken(bridgeToken, holder)` -/
def depositBridgeToken (k : Kind) (g c : Nat) (h : Addr) (n : Nat) : List Prim :=
  match k with
  | .fx => [.send (.base g) (M c) h n]
  | .moduleOwned => [.mint (.bridge g c) (M c) (M c) n, .send (.bridge g c) (M c) h n]
  | .externalOwned => [.send (.bridge g c) (M c) h n]

/-- `WithdrawBridgeToken(bridgeToken, holder)` -/
def withdrawBridgeToken (k : Kind) (g c : Nat) (h : Addr) (n : Nat) : List Prim :=
  match k with
  | .fx => [.send (.base g) h (M c) n]
  | .moduleOwned => [.send (.bridge g c) h (M c) n, .burn (.bridge g c) (M c) (M c) n]
  | .externalOwned => [.send (.bridge g c) h (M c) n]

/-- `ConversionCoin(holder, coin, base, target)`; `toBase = true`: bridge denomination → base coin -/
def conversionCoin (k : Kind) (g c : Nat) (h : Addr) (n : Nat) (toBase : Bool) : List Prim :=
  let coin : Asset := if toBase then .bridge g c else .base g
  let target : Asset := if toBase then .base g else .bridge g c
  match k with
  | .fx => []
  | .externalOwned =>
    [.send coin h (M c) n, .burn coin (M c) (M c) n, .mint target (M c) (M c) n, .send target (M c) h n]
  | .moduleOwned =>
    if toBase then [.send coin h (M c) n, .mint target (M c) (M c) n, .send target (M c) h n]
    else [.send coin h (M c) n, .burn coin (M c) (M c) n, .send target (M c) h n]

/-- `BridgeTokenToBaseCoin` = DepositBridgeToken ; ConversionCoin(bridge → base) -/
def bridgeTokenToBaseCoin (k : Kind) (g c : Nat) (h : Addr) (n : Nat) : List Prim :=
  depositBridgeToken k g c h n ++ conversionCoin k g c h n true

/-- `BaseCoinToBridgeToken` = ConversionCoin(base → bridge) ; WithdrawBridgeToken -/
def baseCoinToBridgeToken (k : Kind) (g c : Nat) (h : Addr) (n : Nat) : List Prim :=
  conversionCoin k g c h n false ++ withdrawBridgeToken k g c h n

/-! ### x/erc20/keeper/msg_server.go -/

/-- `ConvertCoin` (`ConvertCoinNativeCoin` / `ConvertCoinNativeERC20`): Cosmos sender `s`, EVM receiver `r` -/
def convertCoin (k : Kind) (g : Nat) (s r : Addr) (n : Nat) : List Prim :=
  match k with
  | .moduleOwned => [.send (.base g) s E n, .mint (.erc g) E r n]
  | .fx => [.send (.base g) s E n, .mint (.erc g) E r n, .send (.base g) E .wfx n]
  | .externalOwned => [.send (.base g) s E n, .send (.erc g) E r n, .burn (.base g) E E n]

/-- `ConvertERC20` (`ConvertERC20NativeCoin` / `ConvertERC20NativeToken`): EVM sender `s`, Cosmos receiver `r` -/
def convertERC20 (k : Kind) (g : Nat) (s r : Addr) (n : Nat) : List Prim :=
  match k with
  | .moduleOwned => [.burn (.erc g) E s n, .send (.base g) E r n]
  | .fx => [.burn (.erc g) E s n, .send (.base g) .wfx E n, .send (.base g) E r n]
  | .externalOwned => [.send (.erc g) s E n, .mint (.base g) E E n, .send (.base g) E r n]

/-- a denomination of a group: the base coin or the bridge denomination of chain `c` -/
inductive Den where
  | base
  | chain (c : Nat)
  deriving DecidableEq, Repr

def Den.asset (g : Nat) : Den → Asset
  | .base => .base g
  | .chain c => .bridge g c

/-- `ConvertDenomToTarget` (the erc20 module's older many-to-one conversion; escrow lives in `E`), `src ≠ dst`.
`convertNativeCoin` / `convertNativeERC20`; FX has no aliases in the bank metadata, so it is never converted. -/
def convertDenom (k : Kind) (g : Nat) (h : Addr) (n : Nat) (src dst : Den) : List Prim :=
  let mid : List Prim :=
    match k, src, dst with
    | .moduleOwned, .base, _ => [.burn (.base g) E E n]
    | .moduleOwned, _, .base => [.mint (.base g) E E n]
    | .externalOwned, .base, _ => [.mint (dst.asset g) E E n]
    | .externalOwned, _, .base => [.burn (src.asset g) E E n]
    | _, _, _ => []
  [.send (src.asset g) h E n] ++ mid ++ [.send (dst.asset g) E h n]

/-! ### x/crosschain/precompile/keeper.go -/

/-- `handlerERC20Token` + `convertERC20` of the precompile: `transferFrom(sender → E)` through the running EVM, then
burn / mint and pay the base coin out to the sender -/
def precompileTokenIn (k : Kind) (g : Nat) (s : Addr) (n : Nat) : List Prim :=
  [.send (.erc g) s E n] ++
  (match k with
   | .moduleOwned => [.burn (.erc g) E E n]
   | .fx => [.burn (.erc g) E E n, .send (.base g) .wfx E n]
   | .externalOwned => [.mint (.base g) E E n]) ++
  [.send (.base g) E s n]

/-! ### x/crosschain/keeper: fee increase, bridge-call refund -/

/-- `AddUnbatchedTxBridgeFee`: the fee is taken in the bridge denomination and locked or burned by
`IsOriginOrConvertedDenom` -/
def addBridgeFee (k : Kind) (g c : Nat) (h : Addr) (n : Nat) : List Prim :=
  match k with
  | .fx => [.send (.base g) h (M c) n]
  | .externalOwned => [.send (.bridge g c) h (M c) n]
  | .moduleOwned => [.send (.bridge g c) h (M c) n, .burn (.bridge g c) (M c) (M c) n]

/-- `bridgeCallTransferCoins` for one token: mint unless origin, unlock to the refund address, then the *older*
`ConvertDenomToTarget(bridge → base)` whose escrow is the erc20 module account -/
def bridgeCallRefundCoin (k : Kind) (g c : Nat) (r : Addr) (n : Nat) : List Prim :=
  match k with
  | .fx => [.send (.base g) (M c) r n]
  | .moduleOwned =>
    [.mint (.bridge g c) (M c) (M c) n, .send (.bridge g c) (M c) r n] ++ convertDenom k g r n (.chain c) .base
  | .externalOwned =>
    [.send (.bridge g c) (M c) r n] ++ convertDenom k g r n (.chain c) .base

/-- `bridgeCallTransferTokens` for one refunded coin when the call came from the precompile: back to ERC-20
(FX stays a coin: sender = receiver is skipped) -/
def bridgeCallRefundToEvm (k : Kind) (g : Nat) (r : Addr) (n : Nat) : List Prim :=
  match k with
  | .fx => []
  | _ => convertCoin k g r r n

/-! ### names of the bank / ERC-20 keeper calls, for the comparison with the regenerated call sequences -/

inductive Call where
  | sendAccToMod | sendModToAcc | mintCoins | burnCoins | erc20Mint | erc20Burn | erc20Transfer
  deriving DecidableEq, Repr

def isModule : Addr → Bool
  | .chainMod _ => true
  | .erc20Mod => true
  | _ => false

def Prim.call : Prim → Call
  | .send (.erc _) _ _ _ => .erc20Transfer
  | .send _ s _ _ => if isModule s then .sendModToAcc else .sendAccToMod
  | .mint (.erc _) _ _ _ => .erc20Mint
  | .mint _ _ _ _ => .mintCoins
  | .burn (.erc _) _ _ _ => .erc20Burn
  | .burn _ _ _ _ => .burnCoins

def calls (fl : List Prim) : List Call := fl.map Prim.call

end FxVerif.Model.Flows
