/-!
Shared, core-only utilities for the model drivers: line protocol loop, hex, parsing, canonical printing.
-/
namespace FxVerif.Util

def hexVal (c : Char) : Option Nat :=
  if '0' ≤ c ∧ c ≤ '9' then some (c.toNat - '0'.toNat)
  else if 'a' ≤ c ∧ c ≤ 'f' then some (c.toNat - 'a'.toNat + 10)
  else if 'A' ≤ c ∧ c ≤ 'F' then some (c.toNat - 'A'.toNat + 10)
  else none

/-- decode a hex string to bytes; "-" is the empty string; `none` on malformed input -/
def unhex (s : String) : Option (List Nat) :=
  if s == "-" then some [] else
  let rec go : List Char → List Nat → Option (List Nat)
    | [], acc => some acc.reverse
    | [_], _ => none
    | a :: b :: rest, acc =>
      match hexVal a, hexVal b with
      | some x, some y => go rest ((x * 16 + y) :: acc)
      | _, _ => none
  go s.toList []

def hexDigit (n : Nat) : Char := if n < 10 then Char.ofNat (48 + n) else Char.ofNat (87 + n)

def hex (bs : List Nat) : String :=
  if bs.isEmpty then "-" else
  String.ofList (bs.flatMap fun b => [hexDigit (b / 16 % 16), hexDigit (b % 16)])

/-- UTF-8 decode of bytes into characters (inputs are produced by Go from valid strings) -/
def bytesToString (bs : List Nat) : String :=
  match String.fromUTF8? (ByteArray.mk (bs.map (fun b => UInt8.ofNat b)).toArray) with
  | some s => s
  | none => String.ofList (bs.map Char.ofNat)

def unhexStr (s : String) : Option String := (unhex s).map bytesToString

def words (line : String) : List String :=
  (line.splitOn " ").filter (fun w => w != "")

/-- lexicographic order on byte lists -/
def bytesLt : List Nat → List Nat → Bool
  | [], [] => false
  | [], _ :: _ => true
  | _ :: _, [] => false
  | a :: as, b :: bs => if a < b then true else if b < a then false else bytesLt as bs

def bytesLe (a b : List Nat) : Bool := !bytesLt b a

/-- generic line loop: `step` maps (state, line) to (state, output line) -/
partial def loop {σ : Type} (h : IO.FS.Stream) (out : IO.FS.Stream) (step : σ → String → σ × String) (s : σ) : IO Unit := do
  let line ← h.getLine
  if line.isEmpty then
    out.flush
    return ()
  let l := String.ofList (line.toList.reverse.dropWhile (fun c => c == '\n' || c == '\r')).reverse
  let (s', o) := step s l
  out.putStrLn o
  loop h out step s'

def runDriver {σ : Type} (step : σ → String → σ × String) (init : σ) : IO Unit := do
  loop (← IO.getStdin) (← IO.getStdout) step init

end FxVerif.Util
