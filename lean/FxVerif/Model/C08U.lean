import FxVerif.Model.C08
/-!
# C08 unified model — the erc20 message server at the level of *denominations and contracts*

`Model/C08.lean` has two slices (a ledger keyed by token groups, an index keyed by denominations).  This file joins them
the way the Go code does: every conversion message first resolves its token through the erc20 store indexes
(`GetTokenPair` = denom / contract index → pair record, `GetAliasDenom`, `HasDenomAlias` on the bank metadata,
`ToTargetDenom`), then moves money between *the denominations and the contract it found*.  Nothing is assumed about
which alias belongs to which token: a coin denomination is a number (base denominations `< 100`, bridge / alias
denominations `≥ 100`, chain of an alias = `a % 10 % 3`), an ERC-20 is its contract number.

Anchors: `x/erc20/keeper/msg_server.go` (`ConvertCoin`, `ConvertERC20`, `ConvertDenom`, `ConvertCoinNativeCoin`,
`ConvertCoinNativeERC20`, `ConvertERC20NativeCoin`, `ConvertERC20NativeToken`, `GetTargetCoin`, `ConvertDenomToTarget`,
`convertDenomToContractOwner`, `convertNativeAlias`, `convertNativeCoin`, `convertNativeERC20`, `ToTargetDenom`,
`UpdateParams`), `mint.go` (`MintingEnabled`), `token_pairs.go` (`GetTokenPair`, `RemoveTokenPair`), `keeper.go`
(`HasDenomAlias`), `proposals.go` (through `stepIdx`).  Core Lean only.
-/
namespace FxVerif.Model.C08
open FxVerif.Model.Ledger FxVerif.Model.Flows

/-- ledger asset of a coin denomination -/
def coinAsset (n : Nat) : Asset := if n < 100 then .base n else .bridge ((n - 100) / 10) ((n - 100) % 10)

/-- the chain whose name a denomination starts with (`strings.HasPrefix(alias, target)` in `ToTargetDenom`) -/
def chainOf (a : Nat) : Option Nat := if a < 100 then none else some (a % 10 % 3)

/-- `pair.Denom == fxtypes.DefaultDenom` / `IsNativeCoin` / `IsNativeERC20` -/
def Pair.kind (p : Pair) : Kind := if p.external then .externalOwned else if p.denom = 0 then .fx else .moduleOwned

/-- `GetTokenPair(denom)`: denom index, then the pair record -/
def pairByDenom (i : Idx) (d : Nat) : Option Pair := (lookup d i.byDenom).bind (fun id => lookup id i.pairs)

/-- `GetTokenPair(0x…)` / `GetTokenPairByAddress`: contract index, then the pair record -/
def pairByErc (i : Idx) (ct : Nat) : Option Pair := (lookup ct i.byErc).bind (fun id => lookup id i.pairs)

/-- `HasDenomAlias`: the bank metadata of `d`, if it lists at least one alias -/
def hasDenomAlias (i : Idx) (d : Nat) : Option (List Nat) :=
  match lookup d i.md with
  | some (a :: as) => some (a :: as)
  | _ => none

/-- `RemoveTokenPair`: the three pair keys, then every alias the bank metadata lists (the metadata itself stays) -/
def removePair (i : Idx) (p : Pair) : Idx :=
  let id : PairId := (p.denom, p.contract)
  let i1 : Idx := { i with pairs := delKV id i.pairs, byDenom := delKV p.denom i.byDenom, byErc := delKV p.contract i.byErc }
  match hasDenomAlias i p.denom with
  | some as => { i1 with aliasIdx := as.foldl (fun acc a => delKV a acc) i1.aliasIdx }
  | none => i1

/-- the erc20 store at genesis: the native coin is registered with the WFX contract (contract 0), no aliases -/
def genesisIdx : Idx := addPair { md := [(0, [])] } ⟨0, 0, true, false⟩

structure UState where
  idx : Idx
  L : Ledger
  /-- `Params.EnableErc20` -/
  enable : Bool := true
  /-- contracts whose account no longer holds code (self-destructed) -/
  dead : List Nat := []

/-! ### flows over denominations and contracts -/

/-- `ConvertCoinNativeCoin` / `ConvertCoinNativeERC20` with the message's coin denomination `d` and the pair's contract -/
def convertCoinU (k : Kind) (d ct : Nat) (s r : Addr) (n : Nat) : List Prim :=
  match k with
  | .moduleOwned => [.send (coinAsset d) s E n, .mint (.erc ct) E r n]
  | .fx => [.send (coinAsset d) s E n, .mint (.erc ct) E r n, .send (coinAsset d) E .wfx n]
  | .externalOwned => [.send (coinAsset d) s E n, .send (.erc ct) E r n, .burn (coinAsset d) E E n]

/-- `ConvertERC20NativeCoin` / `ConvertERC20NativeToken` with the pair's denomination and contract -/
def convertERC20U (k : Kind) (d ct : Nat) (s r : Addr) (n : Nat) : List Prim :=
  match k with
  | .moduleOwned => [.burn (.erc ct) E s n, .send (coinAsset d) E r n]
  | .fx => [.burn (.erc ct) E s n, .send (coinAsset d) .wfx E n, .send (coinAsset d) E r n]
  | .externalOwned => [.send (.erc ct) s E n, .mint (coinAsset d) E E n, .send (coinAsset d) E r n]

/-- `convertDenomToContractOwner`: what the module account mints / burns between taking `src` and paying `dst`.
`k = .fx` stands for `IsConvertedMetadata` (`convertNativeAlias`), the other two for `convertNativeCoin` /
`convertNativeERC20`. -/
def convertDenomMid (k : Kind) (base : Nat) (aliases : List Nat) (src dst n : Nat) : List Prim :=
  match k with
  | .fx =>
    if src = base ∧ aliases.contains dst then [.mint (coinAsset dst) E E n]
    else if dst = base ∧ aliases.contains src then [.burn (coinAsset src) E E n]
    else [.burn (coinAsset src) E E n, .mint (coinAsset dst) E E n]
  | .moduleOwned =>
    if src = base then [.burn (coinAsset src) E E n]
    else if dst = base then [.mint (coinAsset dst) E E n]
    else []
  | .externalOwned =>
    if src = base then [.mint (coinAsset dst) E E n]
    else if dst = base then [.burn (coinAsset src) E E n]
    else []

/-- `ConvertDenomToTarget` (`src ≠ dst`) followed by the receiver leg of `ConvertDenom` -/
def convertDenomU (k : Kind) (base : Nat) (aliases : List Nat) (src dst : Nat) (u r : Nat) (n : Nat) : List Prim :=
  [.send (coinAsset src) (.user u) E n] ++ convertDenomMid k base aliases src dst n ++ [.send (coinAsset dst) E (.user u) n] ++
  (if u = r then [] else [.send (coinAsset dst) (.user u) E n, .send (coinAsset dst) E (.user r) n])

/-- `ToTargetDenom(denom, base, aliases, target)`; `none` = the erc20 module / empty target -/
def toTargetDenom (d base : Nat) (aliases : List Nat) : Option Nat → Nat
  | none => base
  | some c =>
    if aliases.isEmpty then d else
    match aliases.find? (fun a => chainOf a == some c) with
    | some a => a
    | none => base

/-- `GetTargetCoin`: the family (base denomination, aliases) the coin belongs to, if a conversion is possible -/
def familyOf (i : Idx) (d : Nat) : Option (Nat × List Nat) :=
  if (lookup d i.byDenom).isSome then (hasDenomAlias i d).map (fun as => (d, as))
  else match lookup d i.aliasIdx with
    | none => none
    | some b => (hasDenomAlias i b).map (fun as => (b, as))

/-- `convertDenomToContractOwner`'s choice of branch -/
def denomMode (base : Nat) (p : Pair) : Kind :=
  if base = 0 then .fx else if p.external then .externalOwned else .moduleOwned

/-! ### the message server -/

inductive UOp where
  /-- sender: user `u`; receiver: party `r` (`partyAddr`) -/
  | convertCoin (d u r n : Nat)
  | convertERC20 (ct u r n : Nat)
  /-- `target = none`: the erc20 module (base denomination); `some c`: chain `c` -/
  | convertDenom (d u r n : Nat) (target : Option Nat)
  | idx (op : IOp)
  /-- `MsgUpdateParams` setting `EnableErc20` -/
  | setEnable (b : Bool)
  deriving Repr

/-! ### parties: who a message may name as receiver

`0 … 2` users; `3` the erc20 module account; `4` the crosschain module account of chain 0; `5` the fee collector; `6`
the gov module account; `7` a precompile address; `8` the zero address; `1000 + ct` the account of contract `ct`
(`1000` = the WFX contract).  Bech32 and EVM form of an account are the same 20 bytes: one `Addr`. -/

def zeroAddr : Addr := .ext 8

def partyAddr (p : Nat) : Addr :=
  if p < 3 then .user p else if p = 3 then .erc20Mod else if p = 4 then .chainMod 0 else
  if p = 1000 then .wfx else .ext p

/-- `bankKeeper.BlockedAddr` (`app.BlockedAccountAddrs`): every module account except gov -/
def blocked : Addr → Bool
  | .erc20Mod => true
  | .chainMod _ => true
  | .ext 5 => true
  | _ => false

/-- the guards of `MintingEnabled`, one constructor per `if … return err` of the Go function -/
inductive MGuard where
  | globalSwitch | pairFound | pairEnabled | receiverNotBlocked | sendEnabled
  deriving DecidableEq, Repr

/-- the guards in the order of the source (`Gen/C08b.lean mintingEnabled_guards`, tied by `handlers_match_code`) -/
def codeGuards : List MGuard := [.globalSwitch, .pairFound, .pairEnabled, .receiverNotBlocked, .sendEnabled]

def guardFails (s : UState) (recv : Addr) (p : Option Pair) : MGuard → Option Err
  | .globalSwitch => if s.enable then none else some .disabled
  | .pairFound => if p.isSome then none else some .notFound
  | .pairEnabled => match p with
    | some p => if p.enabled then none else some .disabled
    | none => none
  | .receiverNotBlocked => if blocked recv then some .invalid else none
  | .sendEnabled => none      -- bank `SendEnabled` of the coin: on by default, not modelled

/-- `MintingEnabled` for an arbitrary list of guards, evaluated in order -/
def mintingEnabledG (gs : List MGuard) (s : UState) (recv : Addr) (p : Option Pair) : Except Err Pair :=
  match gs.findSome? (guardFails s recv p) with
  | some e => .error e
  | none => match p with
    | some p => .ok p
    | none => .error .notFound

/-- `MintingEnabled(ctx, receiver, token)` -/
def mintingEnabled (s : UState) (recv : Addr) (p : Option Pair) : Except Err Pair :=
  mintingEnabledG codeGuards s recv p

def UState.withLedger (s : UState) (r : Except Err Ledger) : Except Err UState :=
  match r with
  | .ok L => .ok { s with L := L }
  | .error e => .error e

/-- what the registrations check before anything else: `GetEnableErc20`, and (`QueryERC20`) that the contract answers -/
def idxGuard (s : UState) : IOp → Option Err
  | .registerCoin _ _ _ => if s.enable then none else some .disabled
  | .registerERC20 _ ct _ => if !s.enable then some .disabled else if s.dead.contains ct then some .invalid else none
  | _ => none

def stepU (s : UState) : UOp → Except Err UState
  | .convertCoin d u r n =>
    match mintingEnabled s (partyAddr r) (pairByDenom s.idx d) with
    | .error e => .error e
    | .ok p =>
      if s.dead.contains p.contract then .ok { s with idx := removePair s.idx p } else
      -- FIP20 `_mint` / `_transfer` revert on the zero address
      if partyAddr r = zeroAddr then .error .insufficient else
      s.withLedger (runFlow (convertCoinU p.kind d p.contract (.user u) (partyAddr r) n) s.L)
  | .convertERC20 ct u r n =>
    match mintingEnabled s (partyAddr r) (pairByErc s.idx ct) with
    | .error e => .error e
    | .ok p =>
      if s.dead.contains p.contract then .ok { s with idx := removePair s.idx p } else
      s.withLedger (runFlow (convertERC20U p.kind p.denom p.contract (.user u) (partyAddr r) n) s.L)
  | .convertDenom d u r n tgt =>
    match familyOf s.idx d with
    | none => .error .invalid
    | some (base, aliases) =>
      let dst := toTargetDenom d base aliases tgt
      if dst = d then .error .invalid else
      -- the coin is taken before the pair is looked up; a failure afterwards reverts the message
      match pairByDenom s.idx base with
      | none => if s.L.bal (coinAsset d) (.user u) < n then .error .insufficient else .error .notFound
      | some p => s.withLedger (runFlow (convertDenomU (denomMode base p) base aliases d dst u r n) s.L)
  | .idx op =>
    match idxGuard s op with
    | some e => .error e
    | none =>
      match stepIdx s.idx op with
      | .ok i => .ok { s with idx := i }
      | .error e => .error e
  | .setEnable b => .ok { s with enable := b }

/-! ### keeper-level transfers on externally-owned tokens: how the token signals the outcome, how the keeper reads it

`evmErc20Keeper.ERC20Transfer` = `ApplyContract(transfer)` followed by checks on the returned data.  EIP-20 lets a token
signal a failed transfer by reverting OR by returning `false`; widely deployed tokens return nothing at all on success.
`Accepts` is the keeper's reading of the four facts about the call (regenerated: `Gen/C08c.lean erc20Transfer_accepts`). -/

inductive OkStyle where
  | retTrue | retNothing
  deriving DecidableEq, Repr

inductive FailStyle where
  | revert | retFalse | retNothing
  deriving DecidableEq, Repr

structure Style where
  ok : OkStyle := .retTrue
  fail : FailStyle := .revert
  deriving DecidableEq, Repr

/-- `accepts vmOk retEmpty unpackErr value` -/
abbrev Accepts := Bool → Bool → Bool → Bool → Bool

def Accepts.onOk (acc : Accepts) : OkStyle → Bool
  | .retTrue => acc true false false true
  | .retNothing => acc true true true false

def Accepts.onFail (acc : Accepts) : FailStyle → Bool
  | .revert => acc false true true false
  | .retFalse => acc true false false false
  | .retNothing => acc true true true false

/-- the wrapper is sound for standard tokens: a reverted call is a failure whatever it returned, and a `false` return is
a failure -/
def Accepts.Sound (acc : Accepts) : Prop :=
  (∀ e u v, acc false e u v = false) ∧ acc true false false false = false

/-- one keeper-level `transfer(src → dst, n)` on the token `a` of style `st`: the token moves the amount and signals
success, or (insufficient balance / zero address) moves nothing and signals failure in its own style; the keeper goes on
iff it reads the signal as success.  Rejections: a failed EVM execution is reported as such (`insufficient`), anything
else as an invalid result. -/
def keeperTransfer (acc : Accepts) (st : Style) (L : Ledger) (a : Asset) (src dst : Addr) (n : Nat) : Except Err Ledger :=
  if L.bal a src < n ∨ dst = zeroAddr then
    if acc.onFail st.fail then .ok L else .error (if st.fail = .revert then .insufficient else .invalid)
  else
    if acc.onOk st.ok then applyPrim (.send a src dst n) L else .error .invalid

/-- the message server with the keeper-level transfers of externally-owned tokens read through `acc`; everything else is
`stepU` -/
def stepUA (acc : Accepts) (styleOf : Nat → Style) (s : UState) : UOp → Except Err UState
  | .convertCoin d u r n =>
    match mintingEnabled s (partyAddr r) (pairByDenom s.idx d) with
    | .error e => .error e
    | .ok p =>
      if s.dead.contains p.contract ∨ p.kind ≠ .externalOwned then stepU s (.convertCoin d u r n) else
      -- ConvertCoinNativeERC20: escrow the coins, release the tokens, burn the coins
      match applyPrim (.send (coinAsset d) (.user u) E n) s.L with
      | .error e => .error e
      | .ok L1 =>
        match keeperTransfer acc (styleOf p.contract) L1 (.erc p.contract) E (partyAddr r) n with
        | .error e => .error e
        | .ok L2 => s.withLedger (applyPrim (.burn (coinAsset d) E E n) L2)
  | .convertERC20 ct u r n =>
    match mintingEnabled s (partyAddr r) (pairByErc s.idx ct) with
    | .error e => .error e
    | .ok p =>
      if s.dead.contains p.contract ∨ p.kind ≠ .externalOwned then stepU s (.convertERC20 ct u r n) else
      -- ConvertERC20NativeToken: escrow the tokens, mint the coins, pay them out
      match keeperTransfer acc (styleOf p.contract) s.L (.erc p.contract) (.user u) E n with
      | .error e => .error e
      | .ok L1 =>
        s.withLedger (runFlow [.mint (coinAsset p.denom) E E n, .send (coinAsset p.denom) E (partyAddr r) n] L1)
  | op => stepU s op

def stepUT (s : UState) (op : UOp) : UState :=
  match stepU s op with
  | .ok s' => s'
  | .error _ => s

def runU (s : UState) (ops : List UOp) : UState := ops.foldl stepUT s

end FxVerif.Model.C08
