import FxVerif.Gen.C18E
import FxVerif.Model.C18P
/-!
# C18 model, part 5 — the response of the interpreter on its way to the three EVM-failure boundaries

The inbound bridge call (`BridgeCallEvm`), the IBC follow-up call (`HandlerIbcCallEvm`) and a gov `MsgCallContract`
decide whether the contract call failed from what `x/evm/keeper.Keeper.CallEVM` / `CallEVMWithoutGas` hand back:
`txResp.Failed()` (`len(VmError) > 0`) resp. the returned error.  `Model/C18P` takes that decision as an input
(`Env.evm`, `Env.ok` of the leaf `k.evmKeeper.CallEVM`).  This file models what lies between the interpreter and that
input: the OUTCOME of the interpreter (success, a revert with ANY return data, any other VM error), the response
`ApplyMessage` builds from it, and the regenerated statements of the two helpers that write the response or leave
(`Gen.C18E.callEVMPost`, `callEVMWithoutGasPost`), which are INTERPRETED here.  Core Lean only.
-/
namespace FxVerif.Model.C18E
open FxVerif.Gen.C18E
open FxVerif.Model.C18P (EvmKind)

/-- return data of a reverting frame, by what `abi.UnpackRevert` can make of it -/
inductive Payload where
  | none                       -- REVERT(0,0): fewer than four bytes
  | errorString (s : String)   -- well-formed Error(string); `s` may be EMPTY (revert("") / require(c, ""))
  | panicCode (n : Nat)        -- Panic(uint256)
  | custom (sel : Nat)         -- a custom error: another selector
  | malformed                  -- the Error(string) selector followed by bytes that do not decode
deriving DecidableEq, Repr

/-- what the interpreter did with the message call -/
inductive Outcome where
  | success
  | reverted (p : Payload)
  | vmConst (name text : String)      -- one of the interpreter's constant errors (`ErrOutOfGas`, …)
  | vmFmt (name pre tail : String)    -- a struct error: the literal prefix of its format, then anything
deriving DecidableEq, Repr

/-- the part of `MsgEthereumTxResponse` that matters: `VmError` and the return data -/
structure Resp where
  vmError : String
  ret : Payload
deriving DecidableEq, Repr

/-- `ApplyMessage`: `VmError = vmErr.Error()` when the interpreter returned an error, `""` otherwise -/
def respOf : Outcome → Resp
  | .success => ⟨"", .none⟩
  | .reverted p => ⟨revertText, p⟩
  | .vmConst _ t => ⟨t, .none⟩
  | .vmFmt _ p tl => ⟨p ++ tl, .none⟩

/-- the texts an interpreter error can have: one of the REGENERATED constants (other than the revert, which is
`reverted`), or a struct error whose REGENERATED format starts with the given literal prefix -/
def Outcome.wf : Outcome → Bool
  | .vmConst n t => vmErrorTexts.contains (n, t) && n != "ErrExecutionReverted"
  | .vmFmt n p _ => vmErrorFormats.contains (n, p)
  | _ => true

/-- `abi.UnpackRevert`: decodes exactly the regenerated selectors -/
def unpack : Payload → Option String
  | .errorString s => if unpackRevertSelectors.contains "Error(string)" then some s else none
  | .panicCode n => if unpackRevertSelectors.contains "Panic(uint256)" then some ("panic " ++ toString n) else none
  | _ => none

structure PSt where
  resp : Resp
  /-- result of the last `abi.UnpackRevert(res.Ret)` -/
  cause : Option String := none
  /-- an unrecognised write of the response happened -/
  tainted : Bool := false
deriving DecidableEq, Repr

/-- `MsgEthereumTxResponse.Failed()` as regenerated -/
def failedOf (cond : String → Bool) (r : Resp) : Bool :=
  match failedDef with
  | .vmErrorNonEmpty => r.vmError != ""
  | .opaque s => cond s

def evalC (cond : String → Bool) (st : PSt) : RCond → Bool
  | .vmErrorIs t => st.resp.vmError == t
  | .failed => failedOf cond st.resp
  | .unpackOk => st.cause.isSome
  | .opaque s => cond s
  | .not c => !evalC cond st c
  | .and a b => evalC cond st a && evalC cond st b
  | .or a b => evalC cond st a || evalC cond st b

def evalV (cond : String → Bool) (st : PSt) : RVal → String
  | .lit s => s
  | .cause => st.cause.getD ""
  | .vmError => st.resp.vmError
  | .opaque s => if cond s then "" else "?"

/-- how a helper ends: it hands back the response with a nil error, or an error -/
inductive Fin where
  | resp | err
deriving DecidableEq, Repr

def execR (cond : String → Bool) : RStmt → PSt → PSt × Option Fin
  | .skip, st => (st, none)
  | .seq a b, st =>
    match execR cond a st with
    | (st', none) => execR cond b st'
    | r => r
  | .unpack, st => ({ st with cause := unpack st.resp.ret }, none)
  | .setVmError v, st => ({ st with resp := { st.resp with vmError := evalV cond st v } }, none)
  | .opaqueWrite _, st => ({ st with tainted := true }, none)
  | .ite c t e, st => if evalC cond st c then execR cond t st else execR cond e st
  | .retResp, st => (st, some .resp)
  | .retErr, st => (st, some .err)

/-- what the caller of a helper gets for an outcome of the interpreter: `none` = an error, `some r` = response `r`
with a nil error (falling off the end is not possible in Go: treated as a tainted response) -/
def handBack (cond : String → Bool) (post : RStmt) (o : Outcome) : Option Resp × Bool :=
  match execR cond post ⟨respOf o, none, false⟩ with
  | (st, some .resp) => (some st.resp, st.tainted)
  | (st, some .err) => (none, st.tainted)
  | (st, none) => (some st.resp, true)

def callEVM (cond : String → Bool) (o : Outcome) : Option Resp × Bool := handBack cond callEVMPost o
def callEVMWithoutGas (cond : String → Bool) (o : Outcome) : Option Resp × Bool := handBack cond callEVMWithoutGasPost o

/-- the VM error kind the boundary programs of `Model/C18P` see (`Env.evm`): read off the text of `VmError` -/
def kindOfText (t : String) : EvmKind :=
  if t == "" then .ok
  else if t == revertText then .revert
  else if vmErrorTexts.any (fun p => p.1 == "ErrOutOfGas" && p.2 == t) then .outOfGas
  else if vmErrorTexts.any (fun p => p.1 == "ErrInsufficientBalance" && p.2 == t) then .insufficientBalance
  else if vmErrorFormats.any (fun p => p.1 == "ErrInvalidOpCode" && p.2.isPrefixOf t) then .invalidOpcode
  else .other

/-- the inputs `Model/C18P.Env` takes for the leaf `k.evmKeeper.CallEVM`, computed from the outcome of the interpreter
through the regenerated helper: `ok` (nil error) and the VM error kind of the response -/
def envOk (cond : String → Bool) (o : Outcome) : Bool := (callEVM cond o).1.isSome
def envKind (cond : String → Bool) (o : Outcome) : EvmKind :=
  match (callEVM cond o).1 with
  | some r => if failedOf cond r then (if kindOfText r.vmError == .ok then .other else kindOfText r.vmError) else .ok
  | none => .ok

/-- one line of the driver: payload shape → what the caller sees -/
def shapeOutcome : String → Option Outcome
  | "success" => some .success
  | "nodata" => some (.reverted .none)
  | "error-empty" => some (.reverted (.errorString ""))
  | "error-text" => some (.reverted (.errorString "x"))
  | "error-long" => some (.reverted (.errorString "a reason longer than thirty-two bytes, two words"))
  | "error-revtext" => some (.reverted (.errorString revertText))
  | "panic" => some (.reverted (.panicCode 1))
  | "custom" => some (.reverted (.custom 1))
  | "malformed" => some (.reverted .malformed)
  | "invalid" => some (.vmFmt "ErrInvalidOpCode" "invalid opcode: " "INVALID")
  | "oog" => some (.vmConst "ErrOutOfGas" "out of gas")
  | "underflow" => some (.vmFmt "ErrStackUnderflow" "stack underflow (" "0 <=> 2)")
  | "badjump" => some (.vmConst "ErrInvalidJump" "invalid jump destination")
  | _ => none

def kindName : EvmKind → String
  | .ok => "ok" | .revert => "revert" | .outOfGas => "oog" | .invalidOpcode => "invalid"
  | .insufficientBalance => "insufficient" | .other => "other"

def b01 (b : Bool) : String := if b then "1" else "0"

/-- `evmres <shape>`: CallEVM (error? Failed()? kind of VmError) and CallEVMWithoutGas (error?) -/
def evmresLine (shape : String) : String :=
  match shapeOutcome shape with
  | none => "bad-op"
  | some o =>
    let c := callEVM (fun _ => false) o
    let w := callEVMWithoutGas (fun _ => false) o
    let f := match c.1 with | some r => b01 (failedOf (fun _ => false) r) | none => "-"
    let k := match c.1 with | some r => kindName (kindOfText r.vmError) | none => "-"
    s!"call err={b01 c.1.isNone} failed={f} kind={k} nogas err={b01 w.1.isNone}"

end FxVerif.Model.C18E
