import FxVerif.Gen.C07
/-!
# C07 (crosschain half) — how the model accounts for every panic site of the crosschain end-blocker

`Gen.C07.endBlockerSites` is regenerated from the Go source (name-based call graph from `Keeper.EndBlocker`).  Each site
must appear here with the way the model treats it; a new `panic` / `Must*` / partial-arithmetic call reachable from the
end-blocker makes `sites_covered` (Props/C07) fail until it is classified — and, if it can fire, modelled.
-/
namespace FxVerif.Model.C07
open FxVerif.Gen.C07

inductive Treatment where
  | modelled        -- explicit `.error site` outcome in `Model.C13.endBlock`; `endBlock_total` proves it cannot fire
  | snapshot        -- cannot fire: the looked-up key was read from the same store earlier in the same end-blocker
  | ownCodec        -- (un)marshal of a value this module marshalled itself with the same codec (trusted)
  | ownAddress      -- bech32 of an address string this module produced itself with `AccAddress.String()` (trusted)
  | finiteFloat     -- `%.8f` of a finite float64 always parses as a decimal (trusted; `PowerDiff` divides by a constant)
  | constDivisor    -- division by the non-zero constant `sdk.DefaultPowerReduction`
  deriving DecidableEq, Repr

def accounted : List (Site × Treatment) := [
  (⟨"keeper.Keeper.SlashOracle", "must", "sdk.MustAccAddressFromBech32"⟩, .modelled),
  (⟨"keeper.Keeper.GetCurrentOracleSet", "arith", "Uint64"⟩, .modelled),
  (⟨"keeper.Keeper.GetCurrentOracleSet", "arith", "QuoUint64"⟩, .modelled),
  (⟨"keeper.Keeper.SlashOracle", "panic", "panic(types.ErrNoFoundOracle)"⟩, .snapshot),
  (⟨"keeper.Keeper.isNeedOracleSetRequest", "panic", "panic(fmt.Errorf(\"covert power diff to dec err, powerDiff: %"⟩, .finiteFloat),
  (⟨"types.Oracle.GetOracle", "must", "sdk.MustAccAddressFromBech32"⟩, .ownAddress),
  (⟨"types.Oracle.GetPower", "arith", "Quo"⟩, .constDivisor),
  (⟨"keeper.Keeper.GetAllOracles", "must", "k.cdc.MustUnmarshal"⟩, .ownCodec),
  (⟨"keeper.Keeper.GetLastObservedOracleSet", "must", "k.cdc.MustUnmarshal"⟩, .ownCodec),
  (⟨"keeper.Keeper.GetOracle", "must", "k.cdc.MustUnmarshal"⟩, .ownCodec),
  (⟨"keeper.Keeper.GetOracleSet", "must", "k.cdc.MustUnmarshal"⟩, .ownCodec),
  (⟨"keeper.Keeper.GetParams", "must", "k.cdc.MustUnmarshal"⟩, .ownCodec),
  (⟨"keeper.Keeper.IterBridgeCallConfirmByNonce", "must", "k.cdc.MustUnmarshal"⟩, .ownCodec),
  (⟨"keeper.Keeper.IterateBatchByBlockHeight", "must", "k.cdc.MustUnmarshal"⟩, .ownCodec),
  (⟨"keeper.Keeper.IterateBatchConfirmByNonceAndTokenContract", "must", "k.cdc.MustUnmarshal"⟩, .ownCodec),
  (⟨"keeper.Keeper.IterateOracleSetByNonce", "must", "k.cdc.MustUnmarshal"⟩, .ownCodec),
  (⟨"keeper.Keeper.IterateOracleSetConfirmByNonce", "must", "k.cdc.MustUnmarshal"⟩, .ownCodec),
  (⟨"keeper.Keeper.IterateOracleSets", "must", "k.cdc.MustUnmarshal"⟩, .ownCodec),
  (⟨"keeper.Keeper.IterateOutgoingBridgeCallByNonce", "must", "k.cdc.MustUnmarshal"⟩, .ownCodec),
  (⟨"keeper.Keeper.SetLastTotalPower", "must", "k.cdc.MustMarshal"⟩, .ownCodec),
  (⟨"keeper.Keeper.SetOracle", "must", "k.cdc.MustMarshal"⟩, .ownCodec),
  (⟨"keeper.Keeper.StoreOracleSet", "must", "k.cdc.MustMarshal"⟩, .ownCodec)
]

def isAccounted (s : Site) : Bool := accounted.any (fun a => a.1 == s)

end FxVerif.Model.C07
