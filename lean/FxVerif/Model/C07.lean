import FxVerif.Gen.C07
import FxVerif.Model.C07Escrow
/-!
# C07 (crosschain half) — how the model accounts for every panic site of the crosschain end-blocker

`Gen.C07.endBlockerSites` is regenerated from the Go source (name-based call graph from `Keeper.EndBlocker`).  Each site
must appear here with the way the model treats it; a new `panic` / `Must*` / partial-arithmetic call reachable from the
end-blocker makes `sites_covered` (Props/C07) fail until it is classified — and, if it can fire, modelled.
-/
namespace FxVerif.Model.C07
open FxVerif.Gen.C07

inductive Treatment where
  | modelled        -- explicit `.error site` outcome in `Model.C13.endBlock`; `endBlock_total` proves it cannot fire
  | snapshot        -- cannot fire: the looked-up key was read from the same store earlier in the same end-blocker
  | ownCodec        -- (un)marshal of a value this module marshalled itself with the same codec (trusted)
  | ownAddress      -- bech32 of an address string this module produced itself with `AccAddress.String()` (trusted)
  | constDivisor    -- division by the non-zero constant `sdk.DefaultPowerReduction`
  deriving DecidableEq, Repr

def accounted : List (Site × Treatment) := [
  (⟨"keeper.Keeper.SlashOracle", "must", "sdk.MustAccAddressFromBech32"⟩, .modelled),
  (⟨"keeper.Keeper.GetCurrentOracleSet", "arith", "Uint64"⟩, .modelled),
  (⟨"keeper.Keeper.GetCurrentOracleSet", "arith", "QuoUint64"⟩, .modelled),
  (⟨"keeper.Keeper.SlashOracle", "panic", "panic(types.ErrNoFoundOracle)"⟩, .snapshot),
  (⟨"keeper.Keeper.isNeedOracleSetRequest", "panic", "panic(fmt.Errorf(\"covert power diff to dec err, powerDiff: %"⟩, .modelled),
  (⟨"types.Oracle.GetOracle", "must", "sdk.MustAccAddressFromBech32"⟩, .ownAddress),
  (⟨"types.Oracle.GetPower", "arith", "Quo"⟩, .constDivisor),
  (⟨"keeper.Keeper.GetAllOracles", "must", "k.cdc.MustUnmarshal"⟩, .ownCodec),
  (⟨"keeper.Keeper.GetLastObservedOracleSet", "must", "k.cdc.MustUnmarshal"⟩, .ownCodec),
  (⟨"keeper.Keeper.GetOracle", "must", "k.cdc.MustUnmarshal"⟩, .ownCodec),
  (⟨"keeper.Keeper.GetOracleSet", "must", "k.cdc.MustUnmarshal"⟩, .ownCodec),
  (⟨"keeper.Keeper.GetParams", "must", "k.cdc.MustUnmarshal"⟩, .ownCodec),
  (⟨"keeper.Keeper.IterBridgeCallConfirmByNonce", "must", "k.cdc.MustUnmarshal"⟩, .ownCodec),
  (⟨"keeper.Keeper.IterateBatchByBlockHeight", "must", "k.cdc.MustUnmarshal"⟩, .ownCodec),
  (⟨"keeper.Keeper.IterateBatchConfirmByNonceAndTokenContract", "must", "k.cdc.MustUnmarshal"⟩, .ownCodec),
  (⟨"keeper.Keeper.IterateOracleSetByNonce", "must", "k.cdc.MustUnmarshal"⟩, .ownCodec),
  (⟨"keeper.Keeper.IterateOracleSetConfirmByNonce", "must", "k.cdc.MustUnmarshal"⟩, .ownCodec),
  (⟨"keeper.Keeper.IterateOracleSets", "must", "k.cdc.MustUnmarshal"⟩, .ownCodec),
  (⟨"keeper.Keeper.IterateOutgoingBridgeCallByNonce", "must", "k.cdc.MustUnmarshal"⟩, .ownCodec),
  (⟨"keeper.Keeper.SetLastTotalPower", "must", "k.cdc.MustMarshal"⟩, .ownCodec),
  (⟨"keeper.Keeper.SetOracle", "must", "k.cdc.MustMarshal"⟩, .ownCodec),
  (⟨"keeper.Keeper.StoreOracleSet", "must", "k.cdc.MustMarshal"⟩, .ownCodec)
]

def isAccounted (s : Site) : Bool := accounted.any (fun a => a.1 == s)

/-! ## gov half: every error-return / panic site of `gov.EndBlocker`, `failUnsupportedProposal` and `Keeper.Tally`

`Gen.C07.govSites` is regenerated (each `if err != nil { return … err }` with the call that produced `err`, each `return …, f(…)`,
each `panic` / `Must*`).  An error returned by the gov end-blocker aborts `FinalizeBlock`, so every site must be accounted. -/

inductive GovTreatment where
  | tally            -- `Keeper.Tally` itself: its arithmetic is modelled in `Model/C07Gov` and proved total (`gov_tally_total`)
  | deposits         -- refund / burn of a proposal's deposits: total by the C15 deposit invariant (`gov_endblock_*` in Props/C15)
  | ownQueue         -- walk / remove / set of queue and vote entries the module wrote itself (collections, key codec only)
  | ownRecord        -- get / set / delete of a proposal or the params the module stored itself; a proposal that no longer
                     -- decodes is failed by `failUnsupportedProposal` instead of returning the error
  | addressCodec     -- bech32 text ↔ bytes of an address the SDK stored itself
  | stakingIter      -- staking keeper iterators: they return an error only from their own store decoding
  deriving DecidableEq, Repr

def govAccounted : List (Site × GovTreatment) := [
  (⟨"gov.EndBlocker", "err", "keeper.InactiveProposalsQueue.Walk"⟩, .ownQueue),
  (⟨"gov.EndBlocker", "err", "keeper.ActiveProposalsQueue.Walk"⟩, .ownQueue),
  (⟨"gov.EndBlocker", "err", "keeper.Proposals.Get"⟩, .ownRecord),
  (⟨"gov.EndBlocker", "err", "keeper.DeleteProposal"⟩, .ownRecord),
  (⟨"gov.EndBlocker", "err", "keeper.Params.Get"⟩, .ownRecord),
  (⟨"gov.EndBlocker", "err", "keeper.RefundAndDeleteDeposits|keeper.DeleteAndBurnDeposits"⟩, .deposits),
  (⟨"gov.EndBlocker", "err", "keeper.DeleteAndBurnDeposits|keeper.RefundAndDeleteDeposits"⟩, .deposits),
  (⟨"gov.EndBlocker", "err", "failUnsupportedProposal"⟩, .ownRecord),
  (⟨"gov.EndBlocker", "err", "keeper.Tally"⟩, .tally),
  (⟨"gov.EndBlocker", "err", "keeper.ActiveProposalsQueue.Remove"⟩, .ownQueue),
  (⟨"gov.EndBlocker", "err", "keeper.ActiveProposalsQueue.Set"⟩, .ownQueue),
  (⟨"gov.EndBlocker", "err", "keeper.SetProposal"⟩, .ownRecord),
  (⟨"gov.failUnsupportedProposal", "err", "keeper.SetProposal"⟩, .ownRecord),
  (⟨"gov.failUnsupportedProposal", "err", "keeper.RefundAndDeleteDeposits"⟩, .deposits),
  (⟨"keeper.Keeper.Tally", "err", "keeper.sk.IterateBondedValidatorsByPower"⟩, .stakingIter),
  (⟨"keeper.Keeper.Tally", "err", "keeper.sk.IterateDelegations"⟩, .stakingIter),
  (⟨"keeper.Keeper.Tally", "err", "keeper.sk.TotalBondedTokens"⟩, .stakingIter),
  (⟨"keeper.Keeper.Tally", "err", "keeper.Votes.Walk"⟩, .ownQueue),
  (⟨"keeper.Keeper.Tally", "err", "keeper.Votes.Remove"⟩, .ownQueue),
  (⟨"keeper.Keeper.Tally", "err", "keeper.Params.Get"⟩, .ownRecord),
  (⟨"keeper.Keeper.Tally", "err", "keeper.sk.ValidatorAddressCodec().StringToBytes"⟩, .addressCodec),
  (⟨"keeper.Keeper.Tally", "err", "keeper.authKeeper.AddressCodec().StringToBytes"⟩, .addressCodec),
  (⟨"keeper.Keeper.Tally", "err", "keeper.sk.ValidatorAddressCodec().BytesToString"⟩, .addressCodec)
]

def isGovAccounted (s : Site) : Bool := govAccounted.any (fun a => a.1 == s)

/-- the divisions of `Keeper.Tally` the model has (same order as the source) -/
def modelledQuoDivisors : List String := [
  "Quo val.DelegatorShares",                                  -- delegationStep
  "Quo val.DelegatorShares",                                  -- validatorStep
  "Quo math.LegacyNewDecFromInt(totalBonded)",                -- tail: turnout
  "Quo totalVotingPower",                                     -- tail: veto share
  "Quo totalVotingPower.Sub(results[v1.OptionAbstain])"       -- tail: yes share of the non-abstaining power
]

/-! ## app level: every PreBlock / BeginBlock / EndBlock of an fx-core AppModule (`Gen.C07.fxAppBlockers`, regenerated from
`app/modules.go` and `x/<module>/module.go`) must be one of the shapes below; a new blocker, or one whose body changed, makes
`app_blockers_covered` (Props/C07) fail until it is classified — and modelled if it can fail. -/

inductive BlockerTreatment where
  | crosschainEndBlocker  -- `am.keeper.EndBlocker(sdk.UnwrapSDKContext(ctx)); return nil` on a `crosschainkeeper.Keeper`: the ONE keeper
                          -- end-blocker `Model.C13.endBlock` models (`endBlock_total…`); the method itself never returns an error
  | govEndBlocker         -- `return EndBlocker(sdk.UnwrapSDKContext(ctx), am.keeper)`: the gov half (`gov_sites_covered`, `gov_tally_total`,
                          -- Props/C15 `gov_endblock_*`)
  | evmBeginBlock         -- `return am.keeper.BeginBlock(…)`: caches `EVMBlockConfig` (reads the module's own params / chain config; the
                          -- only error site is that read: `evm_begin_block_sites`); ethermint code behind it is dependency code
  | promoted              -- not declared by the fx-core package: whatever the embedded dependency AppModule (SDK staking, ethermint evm)
                          -- has is promoted — dependency code, exercised by the real FinalizeBlock runs, not modelled
  deriving DecidableEq, Repr

def crosschainEndBlockBody : List String := ["am.keeper.EndBlocker", "sdk.UnwrapSDKContext"]

def blockerTreatment (b : AppBlocker) : Option BlockerTreatment :=
  if !b.declared then (if b.embeds != "" then some .promoted else none)
  else if b.phase == "end" && b.keeper == "crosschainkeeper.Keeper" && b.calls == crosschainEndBlockBody && b.ret == "nil" then
    some .crosschainEndBlocker
  else if b.phase == "end" && b.module == "gov" && b.ret == "EndBlocker(sdk.UnwrapSDKContext(ctx), am.keeper)" then some .govEndBlocker
  else if b.phase == "begin" && b.module == "evm" && b.ret == "am.keeper.BeginBlock(sdk.UnwrapSDKContext(ctx))" then some .evmBeginBlock
  else none

/-- the fx-core modules whose EndBlock is the shared crosschain keeper end-blocker -/
def crosschainEndBlockModules : List String :=
  (fxAppBlockers.filter (fun b => blockerTreatment b == some .crosschainEndBlocker)).map (·.module)

/-- the order list of a phase -/
def orderOf (phase : String) : List String :=
  if phase == "pre" then orderPreBlockers else if phase == "begin" then orderBeginBlockers else orderEndBlockers

/-- the sites of x/evm `Keeper.BeginBlock` the classification above accounts for -/
def evmBeginAccounted : List String := ["k.EVMBlockConfig"]

/-! ## gov deposit escrow: the switches of `Model.C07Escrow.Code`, computed from the regenerated statement lists -/

def posOf (x : String) : List String → Option Nat
  | [] => none
  | y :: r => if x == y then some 0 else (posOf x r).map (· + 1)

/-- `a` and `b` both occur and `a` comes first -/
def comesBefore (a b : String) (l : List String) : Bool :=
  match posOf a l, posOf b l with
  | some i, some j => i < j
  | _, _ => false

/-- what the body of an escrow check has to do: sum the amount of EVERY deposit record (`Walk` with a nil range over
`keeper.Deposits`), read the balances of the gov module account, answer `balances.IsAllGTE(total)` -/
def escrowCheckBody : List String :=
  ["walk:keeper.Deposits:nil", "sum:total+=deposit.Amount", "ret:false", "addr:govtypes.ModuleName",
   "ret:keeper.bankKeeper.GetAllBalances(ctx, govAddr).IsAllGTE(total)"]

/-- the code as it is: `AddDeposit` refuses the gov account before it transfers or records anything; the pass branch runs a
check with the body above on the cache context after the message loop and before the `if err == nil { writeCache() } else { FAILED }`;
the deposits of a tallied proposal are settled (unless an expedited one is converted) before the outcome switch -/
def govEscrowCode : FxVerif.Model.C07Escrow.Code :=
  { addDepositRefusesGov :=
      comesBefore "refuse:govDepositor" "transfer" addDepositSteps && comesBefore "refuse:govDepositor" "record" addDepositSteps,
    passChecksEscrow :=
      govEscrowChecks.any fun (name, body) =>
        body == escrowCheckBody && comesBefore "msgLoop" ("check:" ++ name) govPassBranch &&
          comesBefore ("check:" ++ name) "commitIfOk" govPassBranch,
    settleBeforeMsgs := comesBefore "settle:!(proposal.Expedited && !passes)" "outcomeSwitch" govActiveSteps }

end FxVerif.Model.C07
