/-!
# Shared ledger model for C04 / C08

One uniform ledger for every *asset* of a token group: the Cosmos base coin, the per-chain bridge denominations and the
ERC-20 contract.  Bank coins and ERC-20 tokens have the same three primitives (`send` = `SendCoins*` / `transfer` /
`transferFrom` with a sufficient allowance, `mint` = `MintCoins` / owner-only `mint`, `burn` = `BurnCoins` / owner-only
`burn`), each returning `Except`; a failed primitive leaves the ledger unchanged.  `supply` is the bank supply /
ERC-20 `totalSupply` and is only touched by `mint` / `burn`.

A Go function that moves money is modelled as the *list of primitives it performs, in order* (`List Prim`, a "flow");
`runFlow` executes it.  The flows themselves are regenerated from the Go source (`Gen/C04.lean`, `Gen/C08.lean`).
Core Lean only.
-/
namespace FxVerif.Model.Ledger

/-- accounts: users (externally-owned, same key for the Cosmos and the EVM address), the per-chain crosschain module
accounts, the erc20 module account (also owner of the module-owned ERC-20 contracts), the WFX wrapper contract
(holds the FX backing WFX), contracts/other -/
inductive Addr where
  | user (n : Nat)
  | chainMod (c : Nat)
  | erc20Mod
  | wfx
  | ext (n : Nat)      -- any other address (an external token owner, a contract …)
  deriving DecidableEq, Repr

/-- assets of token group `g`: base coin, bridge denomination of chain `c`, ERC-20 contract -/
inductive Asset where
  | base (g : Nat)
  | bridge (g c : Nat)
  | erc (g : Nat)
  deriving DecidableEq, Repr

def Asset.group : Asset → Nat
  | .base g => g
  | .bridge g _ => g
  | .erc g => g

inductive Err where
  | insufficient | notOwner | notFound | invalid | disabled
  deriving DecidableEq, Repr

structure Ledger where
  bal : Asset → Addr → Nat
  supply : Asset → Nat
  /-- ERC-20 owner (`none` for bank coins: minting is a module-account permission, trusted) -/
  owner : Asset → Option Addr

inductive Prim where
  | send (a : Asset) (src dst : Addr) (amt : Nat)
  | mint (a : Asset) (by_ : Addr) (dst : Addr) (amt : Nat)
  | burn (a : Asset) (by_ : Addr) (src : Addr) (amt : Nat)
  deriving DecidableEq, Repr

def upd (f : Addr → Nat) (a : Addr) (v : Nat) (x : Addr) : Nat := if x = a then v else f x

def Ledger.setBal (L : Ledger) (as : Asset) (a : Addr) (v : Nat) : Ledger :=
  { L with bal := fun as' => if as' = as then upd (L.bal as) a v else L.bal as' }

def Ledger.setSupply (L : Ledger) (as : Asset) (v : Nat) : Ledger :=
  { L with supply := fun as' => if as' = as then v else L.supply as' }

def ownerOk (L : Ledger) (a : Asset) (by_ : Addr) : Bool :=
  match L.owner a with
  | none => true
  | some o => o == by_

/-- SDK `SendCoins` subtracts first and then adds (so `src = dst` needs the balance and nets to zero); ERC-20
`_transfer` does the same. -/
def applyPrim : Prim → Ledger → Except Err Ledger
  | .send a s d n, L =>
    if L.bal a s < n then .error .insufficient else
    let L1 := L.setBal a s (L.bal a s - n)
    .ok (L1.setBal a d (L1.bal a d + n))
  | .mint a by_ d n, L =>
    if !ownerOk L a by_ then .error .notOwner else
    .ok ((L.setBal a d (L.bal a d + n)).setSupply a (L.supply a + n))
  | .burn a by_ s n, L =>
    if !ownerOk L a by_ then .error .notOwner else
    if L.bal a s < n ∨ L.supply a < n then .error .insufficient else
    .ok ((L.setBal a s (L.bal a s - n)).setSupply a (L.supply a - n))

def runFlow : List Prim → Ledger → Except Err Ledger
  | [], L => .ok L
  | p :: ps, L =>
    match applyPrim p L with
    | .ok L' => runFlow ps L'
    | .error e => .error e

def sumL (f : Addr → Nat) : List Addr → Nat
  | [] => 0
  | a :: as => f a + sumL f as

/-- "supply = Σ balances" over a finite universe of accounts that contains every account with a balance -/
def Ledger.WF (L : Ledger) (univ : List Addr) (a : Asset) : Prop :=
  (∀ x, x ∉ univ → L.bal a x = 0) ∧ L.supply a = sumL (L.bal a) univ

def Prim.addrsIn (univ : List Addr) : Prim → Prop
  | .send _ s d _ => s ∈ univ ∧ d ∈ univ
  | .mint _ _ d _ => d ∈ univ
  | .burn _ _ s _ => s ∈ univ

/-- a linear observable of the ledger together with the change each primitive makes to it -/
structure Obs where
  val : Ledger → Int
  delta : Prim → Int

def Obs.Sound (o : Obs) : Prop := ∀ p L L', applyPrim p L = .ok L' → o.val L' = o.val L + o.delta p

def Obs.flowDelta (o : Obs) : List Prim → Int
  | [] => 0
  | p :: ps => o.delta p + o.flowDelta ps

def Obs.add (o1 o2 : Obs) : Obs := ⟨fun L => o1.val L + o2.val L, fun p => o1.delta p + o2.delta p⟩

/-- balance of one account in one asset -/
def balObs (a : Asset) (x : Addr) : Obs where
  val L := (L.bal a x : Int)
  delta
    | .send a' s d n => if a' = a then (if d = x then (n : Int) else 0) - (if s = x then (n : Int) else 0) else 0
    | .mint a' _ d n => if a' = a ∧ d = x then (n : Int) else 0
    | .burn a' _ s n => if a' = a ∧ s = x then -(n : Int) else 0

/-- supply of one asset -/
def supplyObs (a : Asset) : Obs where
  val L := (L.supply a : Int)
  delta
    | .send _ _ _ _ => 0
    | .mint a' _ _ n => if a' = a then (n : Int) else 0
    | .burn a' _ _ n => if a' = a then -(n : Int) else 0

def Obs.neg (o : Obs) : Obs := ⟨fun L => - o.val L, fun p => - o.delta p⟩
def Obs.zero : Obs := ⟨fun _ => 0, fun _ => 0⟩
def Obs.sum : List Obs → Obs
  | [] => Obs.zero
  | o :: os => o.add (Obs.sum os)

end FxVerif.Model.Ledger
