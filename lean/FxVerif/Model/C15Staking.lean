import FxVerif.Model.C15
/-!
# C15 — a small staking model that PRODUCES the numbers the gov tallies read

Round 2 took the staking numbers of a block (bonded tokens and delegator shares of the bonded validators, the voters'
delegations, total bonded) as an op input.  Here they are state: a genesis set of validators with their self-delegations,
`MsgDelegate` (shares issued = `DelegatorShares.MulInt(amount).QuoInt(Tokens)`, or the amount itself for a validator without
shares) and `Keeper.Slash` at the current height (tokens burnt = `trunc(power·reduction · factor)`, shares untouched).  The
combined machine `wstep` runs the gov model and hands the end-blocker the numbers of THIS state (`viewOf`); the harness
still prints the numbers of the real staking keeper on every `endblock` line and the driver compares the two.

Core Lean only.
-/
namespace FxVerif.Model.C15

structure StakingSt where
  /-- the bonded validators: operator account, tokens, delegator shares (·10^18) -/
  vals : List Val := []
  /-- one record per (delegator, validator) -/
  dels : List Del := []
  /-- operators of the validators that are NOT in the bonded set (consensus power 0 at the end of a block) -/
  out : List Nat := []
  /-- `PowerReduction`: tokens per unit of consensus power -/
  reduction : Nat := 1
  deriving Repr, DecidableEq

def sumBonded : List Val → Nat
  | [] => 0
  | v :: r => v.bonded + sumBonded r

def bondedVals (st : StakingSt) : List Val := st.vals.filter (fun v => !st.out.contains v.op)

/-- the numbers `Tally` reads: the BONDED validators, all recorded delegations, the bonded pool -/
def viewOf (st : StakingSt) : Staking := { vals := bondedVals st, dels := st.dels, totalBonded := sumBonded (bondedVals st) }

/-- consensus power of a validator: `tokens / reduction` when bonded, 0 otherwise -/
def power (st : StakingSt) (v : Val) : Nat :=
  if st.out.contains v.op || st.reduction == 0 then 0 else v.bonded / st.reduction

/-- the staking end-blocker (`ApplyAndReturnValidatorSetUpdates`, below the validator cap): exactly the validators with
potential consensus power > 0 are bonded afterwards -/
def endOfBlock (st : StakingSt) : StakingSt :=
  { st with out := (st.vals.filter (fun v => st.reduction == 0 || v.bonded / st.reduction == 0)).map (·.op) }

/-- `Validator.AddTokensFromDel`: the shares issued for `amt` tokens (`none`: a validator with shares but no tokens) -/
def issue (v : Val) (amt : Nat) : Option Nat :=
  if v.shares == 0 then some (amt * DEC) else if v.bonded == 0 then none else some (v.shares * amt / v.bonded)

def addDel (ds : List Del) (who val shares : Nat) : List Del :=
  match ds with
  | [] => [⟨who, val, shares⟩]
  | d :: r => if d.who == who && d.val == val then { d with shares := d.shares + shares } :: r else d :: addDel r who val shares

def updVal (vs : List Val) (v : Val) : List Val :=
  match vs with
  | [] => []
  | x :: r => if x.op == v.op then v :: r else x :: updVal r v

/-- `MsgDelegate` of `amt` tokens to the bonded validator `val` -/
def sDelegate (st : StakingSt) (who val amt : Nat) : Option StakingSt :=
  match findVal st.vals val with
  | none => none
  | some v =>
    match issue v amt with
    | none => none
    | some sh =>
      some { st with vals := updVal st.vals { v with bonded := v.bonded + amt, shares := v.shares + sh },
                     dels := addDel st.dels who val sh }

/-- `Keeper.Slash(consAddr, currentHeight, power, factor)` with `power` = the validator's consensus power: burns
`min(trunc((power · reduction) · factor), tokens)` tokens, the shares stay -/
def sSlash (st : StakingSt) (val factor : Nat) : StakingSt :=
  match findVal st.vals val with
  | none => st
  | some v =>
    let amount := power st v * st.reduction
    let burn := min (decMul (amount * DEC) factor / DEC) v.bonded
    { st with vals := updVal st.vals { v with bonded := v.bonded - burn } }

/-- the shares of the recorded delegations to validator `a` -/
def delSum (ds : List Del) (a : Nat) : Nat := sumShares (ds.filter (fun d => d.val == a))

def distinctNat : List Nat → Bool
  | [] => true
  | a :: r => !r.contains a && distinctNat r

/-- a genesis staking state is admitted when every validator has delegator shares, no operator occurs twice and the recorded
delegations to a validator do not exceed its shares -/
def genesisOk (st : StakingSt) : Bool :=
  st.out.isEmpty && 0 < st.reduction && st.vals.all (fun v => decide (0 < v.shares)) && distinctNat (st.vals.map (·.op)) &&
  st.vals.all (fun v => decide (delSum st.dels v.op ≤ v.shares))

structure World where
  gov : State := {}
  stk : StakingSt := {}
  deriving Repr

def winit : World := {}

inductive WOp where
  /-- a gov operation; the staking numbers written on an `endBlock` are NOT used: the end-blocker gets `viewOf` -/
  | gov (op : Op)
  | genesis (st : StakingSt)
  | delegate (who val amt : Nat)
  | slash (val factor : Nat)
  deriving Repr

def wstep (w : World) : WOp → World × String
  | .gov (.endBlock dt _) =>
    -- gov's end-blocker runs before staking's: the tallies see the validator set as the block's transactions left it
    let r := step w.gov (.endBlock dt (viewOf w.stk))
    ({ gov := r.1, stk := endOfBlock w.stk }, r.2)
  | .gov op => let r := step w.gov op; ({ w with gov := r.1 }, r.2)
  | .genesis st => if genesisOk st then ({ w with stk := st }, "ok") else (w, "err:genesis")
  | .delegate who val amt =>
    -- the coins leave the delegator's account first (bank), then the validator issues shares
    match sDelegate w.stk who val amt with
    | none => (w, "err:validator")
    | some st' =>
      let r := step w.gov (.spend who amt)
      if r.2 == "ok" then ({ gov := r.1, stk := st' }, "ok") else ({ w with gov := r.1 }, r.2)
  | .slash val factor => ({ w with stk := sSlash w.stk val factor }, "ok")

def wrun (w : World) : List WOp → World
  | [] => w
  | o :: r => wrun (wstep w o).1 r

/-- the operation submits no proposal carrying a message that spends from the gov module account -/
def wopNoGovSpend : WOp → Bool
  | .gov op => opNoGovSpend op
  | _ => true

/-- `NoGovSpend` for histories of the combined machine -/
def WNoGovSpend (ops : List WOp) : Bool := ops.all wopNoGovSpend

end FxVerif.Model.C15
