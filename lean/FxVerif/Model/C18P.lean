import FxVerif.Gen.C18
/-!
# C18 model, part 2 — semantics of the regenerated boundary programs

`Gen/C18.lean` contains, for each of the four tolerated-failure boundaries, ONE structured program (`Stmt`) regenerated
from the Go AST with the helper functions on its spine inlined (`go/extract/c18prog.go`): where every `CacheContext()` is
opened, on which context every call runs, which variable OBJECT receives every error (a shadowing `err :=` is another
variable), which variable every condition tests and every `return` hands back, the condition that decides whether an
EVM result counts as failed, loops, `break`/`continue`/`return`, deferred `recover()`.

This file gives these programs a semantics:

* the behaviour of every leaf call (a keeper call that is not inlined) is a parameter: `Env.ok name i` — does the
  `i`-th execution (loop iteration) return without error, `Env.panics`, `Env.evm` — the VM error kind of an EVM call's
  response, `Env.cond` — every condition the translator does not interpret, `Env.iters` — number of iterations of
  every loop;
* the state is SYMBOLIC: the list of write tokens `⟨leaf, iteration⟩` applied to the outer context, and for every open
  cache the tokens pending on it.  `denote` turns a token list into a state transformer for ANY state type and ANY
  writes of the leaves (`Eff`): a token stands for the writes the leaf performed before it returned (all of them, or
  the prefix before its failure position), so every theorem about token lists holds for all effects of the leaves;
* `St.failed` is a ghost field: the cache VARIABLES through which some call failed (returned an error, panicked, or —
  EVM calls — produced a response with a VM error), whether or not the cache was open at that moment.
Core Lean only.
-/
namespace FxVerif.Model.C18P
open FxVerif.Gen.C18

/-- VM error kinds of a completed EVM message call (`MsgEthereumTxResponse.VmError`) -/
inductive EvmKind where
  | ok | revert | outOfGas | invalidOpcode | insufficientBalance | other
deriving DecidableEq, Repr

/-- the writes of one execution of a leaf call; `args`: for every error / acknowledgement variable passed to the call,
whether it held a success at that moment (`WriteAcknowledgement(…, ack)`) -/
structure Tok where
  name : String
  iter : Nat
  args : List Bool := []
deriving DecidableEq, Repr

structure Env where
  ok : String → Nat → Bool
  panics : String → Nat → Bool
  evm : String → Nat → EvmKind
  cond : String → Nat → Bool
  /-- number of iterations of loop `id` when it is entered at iteration `i` of the enclosing loop (0 at top level) -/
  iters : Nat → Nat → Nat
  /-- the `j`-th iteration of a loop entered at iteration `i` of the enclosing loop has index `i * stride + j`
  (any finite block of proposals × messages is representable with a stride above the longest message list) -/
  stride : Nat

inductive Flow where
  | norm | brk | cont | ret (ok : Bool) | panic
deriving DecidableEq, Repr

structure St where
  outer : List Tok := []
  /-- open caches: id, parent context, pending tokens -/
  caches : List (Nat × Ctx × List Tok) := []
  /-- ids of the variables that hold an error / an unsuccessful acknowledgement -/
  bad : List Nat := []
  /-- EVM responses by variable id -/
  evm : List (Nat × EvmKind) := []
  /-- ghost: caches on which a call failed -/
  failed : List Nat := []
deriving Repr

def St.isOk (st : St) (v : Var) : Bool := !st.bad.contains v.id

def St.evmOf (st : St) (v : Var) : EvmKind :=
  match st.evm.find? (fun p => p.1 == v.id) with
  | some p => p.2
  | none => .ok

def setVar (st : St) (v : Option Var) (ok : Bool) : St :=
  match v with
  | none => st
  | some v => { st with bad := if ok then st.bad.filter (fun x => x != v.id) else v.id :: st.bad.filter (fun x => x != v.id) }

def setEvm (st : St) (v : Option Var) (k : EvmKind) : St :=
  match v with
  | none => st
  | some v => { st with evm := (v.id, k) :: st.evm.filter (fun p => p.1 != v.id) }

def isOpen (st : St) (k : Nat) : Bool := st.caches.any (fun c => c.1 == k)

/-- append tokens to a context; a cache variable whose cache is not open denotes the context it was initialised with
(`xCtx := ctx`): the outer one -/
def writeMany (st : St) (c : Ctx) (ts : List Tok) : St :=
  match c with
  | .none => st
  | .outer => { st with outer := st.outer ++ ts }
  | .cache k =>
    if isOpen st k then
      { st with caches := st.caches.map (fun c => if c.1 == k then (c.1, c.2.1, c.2.2 ++ ts) else c) }
    else { st with outer := st.outer ++ ts }

def markFailed (st : St) (c : Ctx) (failed : Bool) : St :=
  match c with
  | .cache k => if failed then { st with failed := k :: st.failed } else st
  | _ => st

def commitCache (st : St) (k : Nat) : St :=
  match st.caches.find? (fun c => c.1 == k) with
  | none => st
  | some c =>
    -- cachekv Write(): the pending writes go to the parent; the branch stays usable (now empty)
    writeMany { st with caches := st.caches.map (fun d => if d.1 == k then (d.1, d.2.1, []) else d) } c.2.1 c.2.2

def evalCond (env : Env) (it : Nat) (st : St) : Cond → Bool
  | .ok v => st.isOk v
  | .evmFailed v => st.evmOf v != .ok
  | .evmReverted v => st.evmOf v == .revert
  | .other t => env.cond t it
  | .cacheUnset k => !isOpen st k
  | .not c => !evalCond env it st c
  | .and a b => evalCond env it st a && evalCond env it st b
  | .or a b => evalCond env it st a || evalCond env it st b

/-- run `f i` for `i = i0, i0+1, …` (`n` times): `break` ends the loop normally, `return` / panic leave it -/
def iterate (f : Nat → St → Flow × St) : Nat → Nat → St → Flow × St
  | 0, _, st => (.norm, st)
  | n + 1, i, st =>
    match f i st with
    | (.norm, st') => iterate f n (i + 1) st'
    | (.cont, st') => iterate f n (i + 1) st'
    | (.brk, st') => (.norm, st')
    | r => r

def retOk (env : Env) (it : Nat) (st : St) : Ret → Bool
  | .nil => true
  | .var v => st.isOk v
  | .fail _ => false
  | .opaque t => env.cond ("return " ++ t) it

def exec (env : Env) : Stmt → Nat → St → Flow × St
  | .skip, _, st => (.norm, st)
  | .seq a b, it, st =>
    match exec env a it st with
    | (.norm, st') => exec env b it st'
    | r => r
  | .openCache k parent, _, st => (.norm, { st with caches := (k, parent, []) :: st.caches.filter (fun c => c.1 != k) })
  | .commit k, _, st => (.norm, commitCache st k)
  | .call name c err resp args, it, st =>
    let st1 := writeMany st c [⟨name, it, args.map st.isOk⟩]
    if env.panics name it then (.panic, markFailed st1 c true)
    else
      let ok := env.ok name it
      let k := env.evm name it
      let st2 := setEvm (setVar st1 err ok) resp k
      (.norm, markFailed st2 c (!ok || (resp.isSome && k != .ok)))
  | .panic, _, st => (.panic, st)
  | .setErr v ok, _, st => (.norm, setVar st (some v) ok)
  | .ite c t e, it, st => if evalCond env it st c then exec env t it st else exec env e it st
  | .loop id body, it, st => iterate (fun i s => exec env body i s) (env.iters id it) (it * env.stride) st
  | .brk, _, st => (.brk, st)
  | .cont, _, st => (.cont, st)
  | .ret r, it, st => (.ret (retOk env it st r), st)
  | .inl _ named recov err body, it, st =>
    match exec env body it st with
    | (.ret ok, st') => (.norm, setVar st' err ok)
    | (.norm, st') => (.norm, setVar st' err true)
    | (.panic, st') =>
      match recov with
      | none => (.panic, st')
      | some v =>
        -- deferred recover(): the handler assigns `v`; the function returns its NAMED result
        let st'' := if v.id == 0 then st' else setVar st' (some v) false
        let ok := match named with
          | some n => st''.isOk n
          | none => true
        (.norm, setVar st'' err ok)
    | r => r
  | .block body, it, st =>
    match exec env body it st with
    | (.brk, st') => (.norm, st')
    | r => r

def St.init : St := {}

/-- run a boundary program from the empty trace -/
def run (env : Env) (p : Stmt) (it : Nat := 0) : Flow × St := exec env p it St.init

/-! ## from token lists to arbitrary states and effects -/

/-- one execution of a leaf call on an arbitrary state type: its writes and the position at which it fails -/
structure Leaf (S : Type) where
  ws : List (S → S)
  failAt : Option Nat := none
  panics : Bool := false
  evm : EvmKind := .ok

def Leaf.after {S : Type} (l : Leaf S) (s : S) : S :=
  match l.failAt with
  | none => l.ws.foldl (fun a w => w a) s
  | some n => (l.ws.take n).foldl (fun a w => w a) s

abbrev Eff (S : Type) := String → Nat → Leaf S

/-- the finite information the control flow depends on -/
def Eff.env {S : Type} (eff : Eff S) (cond : String → Nat → Bool) (iters : Nat → Nat → Nat) (stride : Nat := 0) : Env :=
  { ok := fun n i => (eff n i).failAt.isNone, panics := fun n i => (eff n i).panics, evm := fun n i => (eff n i).evm,
    cond := cond, iters := iters, stride := stride }

def denote {S : Type} (eff : Eff S) (ts : List Tok) (s : S) : S := ts.foldl (fun a t => (eff t.name t.iter).after a) s

/-- tokens of one leaf for iterations `i, i+1, …` (`n` of them) -/
def toks (name : String) : Nat → Nat → List Tok
  | 0, _ => []
  | n + 1, i => ⟨name, i, []⟩ :: toks name n (i + 1)

end FxVerif.Model.C18P
