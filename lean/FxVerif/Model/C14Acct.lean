import FxVerif.Model.C14
/-!
# C14 — which addresses exist as accounts (`x/auth`), and what a matured unbonding entry does when its delegator does not

`x/staking`'s `CompleteUnbonding` pays a matured entry with `bankKeeper.UndelegateCoinsFromModuleToAccount`, which debits the
not-bonded pool (`subUnlockedCoins`) and THEN looks the delegator account up (`trackUndelegation`): for an address without
account it returns an error after the debit, the record is not saved, and the staking end blocker ignores the error — the coins
are destroyed and the entry is stuck.  Every other credit of the modelled operations goes through `x/bank`'s `SendCoins`, which
creates the recipient account.  `MsgMigrateAccount` re-keys unbonding records to the target WITHOUT any bank operation when the
source has no liquid coin (`BankMigrate.Execute` returns early), so whether the target exists afterwards depends on the
statement `ensure-to-account` of the message server (`Gen.C14.handlerOrder`, regenerated).

`AState` = the store-level state + the set of existing accounts + the coins destroyed so far (ghost).  `stepA` runs the same
operations as `stepP` (the driver executes `stepA`); the account set is what the statement list of the message server and the
bank credits produce; maturation uses the account lookup.  `Props.C14` proves: along every history the account lookup never
fails (`no_payout_fails`), so `stepA` is `step` and nothing is ever destroyed — given the `ensure-to-account` statement.
-/
namespace FxVerif.Model.C14

structure AState where
  s : State := {}
  /-- addresses that exist as accounts -/
  accts : List Addr := []
  /-- coins debited from the not-bonded pool by pay-outs that then failed (destroyed) -/
  burnt : Nat := 0
  deriving Repr

/-- addresses with a balance that is larger in `s'` than in `s`: `SendCoins` (also behind `SendCoinsFromModuleToAccount`)
creates the recipient account when it does not exist -/
def credited (s s' : State) : List Addr :=
  (s'.bal.filter (fun p => decide (balOf s.bal p.1.1 p.1.2 < balOf s'.bal p.1.1 p.1.2))).map (·.1.1)

/-- the accounts the statements of `MigrateAccount` create themselves (bank credits are counted by `credited`) -/
def stmtAccounts (stmts : List String) (to : Addr) : List Addr :=
  stmts.filterMap (fun st => if st == "ensure-to-account" then some to else none)

/-- `CompleteUnbonding` with the account lookup of `UndelegateCoins`: for a delegator without account the first mature entry's
unbonding id is deleted and its balance debited from the pool, then the call fails: nothing else is written -/
def completeUnbondingA (accts : List Addr) (x : State × Nat) (p : Addr × Val) : State × Nat :=
  if accts.contains p.1 then (completeUnbonding x.1 p.1 p.2, x.2) else
  match get x.1.ubds (p.1, p.2) with
  | none => x
  | some es =>
    match es.find? (fun e => decide (e.1 ≤ x.1.now)) with
    | none => (completeUnbonding x.1 p.1 p.2, x.2)
    | some e =>
      let n := min e.2.1 (balOf x.1.bal notBondedPool 0)
      ({ x.1 with bal := setBal x.1.bal notBondedPool 0 (balOf x.1.bal notBondedPool 0 - n),
                  unbId := del x.1.unbId e.2.2 }, x.2 + n)

/-- `stakingEnd` with the account lookup -/
def stakingEndA (accts : List Addr) (s : State) (burnt : Nat) : State × Nat :=
  let mu := s.ubdQ.filter (fun p => p.1 ≤ s.now)
  let s1 := { s with ubdQ := s.ubdQ.filter (fun p => !(p.1 ≤ s.now)) }
  let x2 := (mu.flatMap (·.2)).foldl (completeUnbondingA accts) (s1, burnt)
  let mr := x2.1.redQ.filter (fun p => p.1 ≤ x2.1.now)
  let s3 := { x2.1 with redQ := x2.1.redQ.filter (fun p => !(p.1 ≤ x2.1.now)) }
  ((mr.flatMap (·.2)).foldl (fun s p => completeRedelegation s p.1 p.2.1 p.2.2) s3, x2.2)

def endBlockA (accts : List Addr) (s : State) (burnt : Nat) (dt : Nat) : State × Nat :=
  let x := stakingEndA accts s burnt
  let s1 := govEnd x.1
  ({ s1 with now := s1.now + dt, blockFirstId := s1.nextUnbId }, x.2)

/-- an accepted migration to `to` with post-state `s'` (also used for the spelled message `migratew`) -/
def acceptA (stmts : List String) (a : AState) (s' : State) (to : Addr) : AState :=
  { a with s := s', accts := a.accts ++ stmtAccounts stmts to ++ credited a.s s' }

/-- one operation on the state with accounts: the store-level state as `stepP` computes it (the block with the account
lookup), the account set extended by what the statement list creates (accepted migration) and by every bank credit -/
def stepA (c : Cfg) (stmts hs : List String) (a : AState) : Op → AState × String
  | .block dt =>
    let x := endBlockA a.accts a.s a.burnt dt
    ({ s := x.1, accts := a.accts ++ credited a.s x.1, burnt := x.2 }, "ok")
  | .migrate frm to sigOk =>
    match migrateProg c stmts hs a.s frm to sigOk with
    | .ok s' => (acceptA stmts a s' to, "ok")
    | .error e => (a, errName e)
  | op =>
    let r := step c a.s op
    ({ a with s := r.1, accts := a.accts ++ credited a.s r.1 }, r.2)

def runA (c : Cfg) (stmts hs : List String) (a : AState) (ops : List Op) : AState :=
  ops.foldl (fun a o => (stepA c stmts hs a o).1) a

/-- the block carrying a migration as a transaction, on the state with accounts -/
def txBlockA (c : Cfg) (stmts hs : List String) (a : AState) (dt fee : Nat) (txSigner frm to : Addr) (sigOk : Bool) :
    AState × String :=
  let (ops, r) := txOps c a.s dt fee txSigner frm to sigOk
  (runA c stmts hs a ops, r)

end FxVerif.Model.C14
