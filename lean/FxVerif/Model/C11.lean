import FxVerif.Gen.C11
/-!
# C11 — share transfer through the staking precompile: model

Core Lean only, total, executable.  One record `VS` per validator holds the staking side (`tokens`, `shares`,
`del : delegator → shares`) and the F1 fee-distribution bookkeeping at the level the Go code edits by hand
(`period`, historical records `refs`/`ratio` per period, `sinfo : delegator → starting info`, slash events, current /
outstanding rewards).  Amounts that are `LegacyDec` in Go are `Nat` raw values scaled by 10^18 (`ONE`); the SDK's
rounding points (`Mul` banker's rounding, `MulTruncate`, `Quo`, `QuoTruncate`, `QuoRoundUp`, `TruncateInt`) are the
explicit `d…` functions below, so reward amounts are compared *exactly* with the real app.

A historical record exists iff its reference count is positive (the Go code deletes a record exactly when its count
reaches zero and only ever writes positive counts), so `refs p = 0` encodes "no record" and a read of such a record
is the error `missingRecord` (the `collections.ErrNotFound` / panic of the real keeper).

SDK functions are modelled from the SDK source (x/distribution/keeper/{delegation,validator,hooks}.go,
x/staking/keeper/{delegation,slash}.go, x/staking/types/validator.go); `transfer` is the same sequence of steps as
`handlerTransferShares` in x/staking/precompile/transfer_shares.go and is parametrised by the facts (`Cfg`) that
`go/extract/c11.go` reads off that function's AST.
-/
namespace FxVerif.Model.C11
open FxVerif.Gen.C11 (Cfg Party SE PE Simple Cond Stmt Wrapper Who RCond RStmt)

/-- 10^18: one unit of `LegacyDec` -/
def ONE : Nat := 1000000000000000000

/-- fx-core `sdk.DefaultPowerReduction` = 10^20 -/
def POWER_REDUCTION : Nat := 100000000000000000000

/-- `chopPrecisionAndRound`: divide by 10^18 with banker's rounding -/
def chopRound (x : Nat) : Nat :=
  let q := x / ONE
  let r := x % ONE
  if r * 2 < ONE then q else if ONE < r * 2 then q + 1 else if q % 2 = 0 then q else q + 1

def dMul (a b : Nat) : Nat := chopRound (a * b)
def dMulTrunc (a b : Nat) : Nat := a * b / ONE
def dQuo (a b : Nat) : Nat := chopRound (a * ONE * ONE / b)
def dQuoTrunc (a b : Nat) : Nat := a * ONE * ONE / b / ONE
def dQuoRoundUp (a b : Nat) : Nat :=
  let q := a * ONE * ONE / b
  if q % ONE = 0 then q / ONE else q / ONE + 1

/-- the state-changing part of `handlerTransferShares` the theorems are proved for: the instruction list
`go/extract/c11prog.go` produces from the body as it stood when the proofs were written (withdraw the sender's
rewards; look the recipient up — new: end the period, existing: withdraw its rewards; subtract from the sender's
copy, remove it with its starting info and reference when it is empty, else store it with a re-derived stake; add to
the recipient's copy and store it; new recipient: reference the period just ended and start there, existing: store a
re-derived stake) -/
def refProg : List Stmt :=
  [ .s (.withdraw .from_),
    .s (.getDel .to),
    .s (.setFlag false),
    .ite .lookupErr [.setShares .to .zero, .incPeriod] [.setFlag true, .withdraw .to],
    .s (.readInfo .from_),
    .s (.setShares .from_ (.sub (.shares .from_) .x)),
    .ite (.isZero (.shares .from_))
      [.removeDel .from_, .decRef (.infoPeriod .from_), .deleteInfo .from_]
      [.setDel .from_, .setStake .from_ (.tfsTrunc (.shares .from_)), .writeInfo .from_ .from_],
    .s (.setShares .to (.add (.shares .to) .x)),
    .s (.setDel .to),
    .ite .notFlag
      [.readCur, .setPrev (.curMinus 1), .incRef .prev, .setStakeTok (.tfsTrunc .x), .newInfo .to .prev .stakeTok true,
       .writeInfo .to .to]
      [.readInfo .to, .setStake .to (.tfsTrunc (.shares .to)), .writeInfo .to .to] ]

/-- how the model reads the five thin wrappers (`State.exec`: `.delegate d v amt` is staking `Delegate` for the
caller `d` at `args.Validator` with `args.Amount`, …, `.approve owner spender v shares` sets the allowance of the
caller); a failing SDK call fails the transaction (`step` reverts) -/
def wrappersRef : List Wrapper :=
  [ ⟨"DelegateV2Method", "stakingMsgServer.Delegate", "caller", "args.Validator", "", "args.Amount", true, true⟩,
    ⟨"UndelegateV2Method", "stakingMsgServer.Undelegate", "caller", "args.Validator", "", "args.Amount", true, true⟩,
    ⟨"RedelegateMethodV2", "stakingMsgServer.BeginRedelegate", "caller", "args.ValidatorSrc", "args.ValidatorDst", "args.Amount",
      true, true⟩,
    ⟨"WithdrawMethod", "distrMsgServer.WithdrawDelegatorReward", "caller", "args.Validator", "", "", true, true⟩,
    ⟨"ApproveSharesMethod", "stakingKeeper.SetAllowance", "caller", "args.Validator", "args.Spender", "args.Shares", true, true⟩ ]

/-- the native action of `TransferShares.Run` the theorems are proved for (`go/extract/c11run.go`): the handler runs for
`contract.Caller()` towards `args.To` at `args.GetValidator()` with `args.Shares`, its error fails the action -/
def refRunTransfer : List RStmt := [.handler true .caller .argTo true true]

/-- the native action of `TransferFromShares.Run`: FIRST, UNCONDITIONALLY, the allowance of `(args.GetValidator(),
args.From, contract.Caller())` is decremented by `args.Shares` (a failure fails the action), THEN the handler runs for
`args.From` towards `args.To` -/
def refRunFrom : List RStmt :=
  [.decAllowance true .argFrom .caller true true, .handler true .argFrom .argTo true true]

/-- what the property needs of the code facts -/
def good (c : Cfg) : Bool :=
  c.selfGuard && c.refuseRecvRedel && c.sharesCmp == "LT" && c.withdrawFrom && c.toLookupBeforeFromWrite &&
  c.withdrawTo && c.incPeriodForNewTo && c.decRefOnRemoval && c.delInfoOnRemoval && c.incRefForNewTo &&
  c.newToPeriodOffset == 1 && c.allowanceCheck && c.allowanceSubDecrease && c.transferFromArgs && c.sharesPositive &&
  c.prog == refProg && c.wrappers == wrappersRef && c.runTransfer == refRunTransfer && c.runFrom == refRunFrom

inductive Err
  | noValidator | noDelegation | recvRedel | insufficient | allowance | badArgs
  | refUnderflow       -- "cannot set negative reference count" (decrement of an absent record)
  | refOver            -- "reference count should never exceed 2"
  | negRewards         -- "negative rewards should not be possible"
  | periodOrder        -- "startingPeriod cannot be greater than endingPeriod"
  | stakeSanity        -- "calculated final stake … greater than current stake"
  | noStartInfo        -- delegation without starting info
  | negShares          -- shares would go negative
  | sdk                -- an ordinary, documented SDK refusal (max entries, bad amount, transitive redelegation, …)
  | unsupported        -- the translator met a statement / expression of handlerTransferShares it does not know
deriving Repr, DecidableEq, Inhabited

/-- failures of the hand-edited / F1 bookkeeping (never acceptable) as opposed to ordinary refusals -/
def Err.bookkeeping : Err → Bool
  | .refUnderflow | .refOver | .negRewards | .periodOrder | .noStartInfo | .negShares => true
  | _ => false

structure SInfo where
  period : Nat
  stake : Nat
  height : Nat
deriving Repr, DecidableEq, Inhabited

structure SlashEv where
  height : Nat
  period : Nat
  fraction : Nat
deriving Repr, DecidableEq, Inhabited

/-- one validator with its delegations and distribution records -/
structure VS where
  tokens : Nat := 0
  shares : Nat := 0            -- DelegatorShares (Dec)
  rate : Nat := 0              -- commission rate (Dec)
  period : Nat := 1            -- ValidatorCurrentRewards.Period
  cur : Nat := 0               -- ValidatorCurrentRewards.Rewards (Dec)
  outstanding : Nat := 0       -- ValidatorOutstandingRewards (Dec)
  commission : Nat := 0        -- accumulated commission (Dec)
  refs : Nat → Nat := fun _ => 0     -- historical record reference count (0 = no record)
  ratio : Nat → Nat := fun _ => 0    -- cumulative reward ratio (Dec)
  del : Nat → Option Nat := fun _ => none        -- delegator ↦ shares (Dec)
  sinfo : Nat → Option SInfo := fun _ => none    -- delegator ↦ starting info
  slashes : List SlashEv := []
  bonded : Bool := true        -- validator status Bonded (false: Unbonding or Unbonded, it left the active set)
  unbonded : Bool := false     -- status Unbonded: the unbonding period of a validator that left the active set is over
  ubHeight : Nat := 0          -- UnbondingHeight (set when the validator leaves the active set)
  jailed : Bool := false
  -- ghost totals (never read by the code paths)
  allocated : Nat := 0         -- Σ tokens ever allocated to this validator (Dec)
  paid : Nat := 0              -- Σ whole coins paid to delegators
  dust : Nat := 0              -- Σ remainders handed to the community pool (Dec)

def setAt {α} (f : Nat → α) (k : Nat) (x : α) : Nat → α := fun i => if i = k then x else f i

def VS.tokensFromShares (v : VS) (sh : Nat) : Nat := dQuo (sh * v.tokens) v.shares
def VS.tokensFromSharesTrunc (v : VS) (sh : Nat) : Nat := dQuoTrunc (sh * v.tokens) v.shares
def VS.sharesFromTokens (v : VS) (amt : Nat) : Nat := v.shares * amt / v.tokens
def VS.sharesFromTokensTrunc (v : VS) (amt : Nat) : Nat := dQuoTrunc (v.shares * amt) (v.tokens * ONE)

/-- `GetValidatorHistoricalRewards(…).CumulativeRewardRatio`: in this SDK version reading an absent record gives
the zero record, not an error -/
def VS.ratioAt (v : VS) (p : Nat) : Nat := if v.refs p = 0 then 0 else v.ratio p

/-- distribution `decrementReferenceCount` (delete when zero = count 0); an absent record reads as count 0 and
panics -/
def VS.decRef (v : VS) (p : Nat) : Except Err VS :=
  if v.refs p = 0 then .error .refUnderflow
  else .ok { v with refs := setAt v.refs p (v.refs p - 1) }

/-- distribution `incrementReferenceCount`; on an absent record it silently creates one with a zero ratio -/
def VS.incRef (v : VS) (p : Nat) : Except Err VS :=
  if 2 < v.refs p then .error .refOver
  else .ok { v with refs := setAt v.refs p (v.refs p + 1), ratio := setAt v.ratio p (v.ratioAt p) }

/-- `IncrementValidatorPeriod(ctx, val)`; `tokens` are those of the validator object handed in; returns the
period just ended -/
def VS.incPeriod (v : VS) (tokens : Nat) : Except Err (VS × Nat) :=
  let (v0, current) :=
    if tokens = 0 then ({ v with dust := v.dust + v.cur, outstanding := v.outstanding - v.cur }, 0)
    else (v, dQuoTrunc v.cur (tokens * ONE))
  let cum := v0.ratioAt (v0.period - 1)
  match v0.decRef (v0.period - 1) with
  | .error e => .error e
  | .ok v1 =>
    .ok ({ v1 with refs := setAt v1.refs v1.period 1, ratio := setAt v1.ratio v1.period (cum + current),
                   cur := 0, period := v1.period + 1 }, v1.period)

/-- `calculateDelegationRewardsBetween` -/
def VS.between (v : VS) (sp ep stake : Nat) : Except Err Nat :=
  if ep < sp then .error .periodOrder
  else if v.ratioAt ep < v.ratioAt sp then .error .negRewards
  else .ok (dMulTrunc (v.ratioAt ep - v.ratioAt sp) stake)

/-- the slash-event loop of `CalculateDelegationRewards`: (rewards, startingPeriod, stake) -/
def VS.slashLoop (v : VS) : List SlashEv → Nat → Nat → Nat → Except Err (Nat × Nat × Nat)
  | [], rew, sp, stake => .ok (rew, sp, stake)
  | e :: es, rew, sp, stake =>
    if sp < e.period then
      match v.between sp e.period stake with
      | .error x => .error x
      | .ok r => v.slashLoop es (rew + r) e.period (dMulTrunc stake (ONE - e.fraction))
    else v.slashLoop es rew sp stake

/-- `CalculateDelegationRewards(ctx, val, del, endingPeriod)` at block height `h` -/
def VS.calcRewards (v : VS) (h d sh ending : Nat) : Except Err Nat :=
  match v.sinfo d with
  | none => .error .noStartInfo
  | some si =>
    if si.height = h then .ok 0 else
    let evs := if si.height < h then v.slashes.filter (fun e => si.height ≤ e.height && e.height ≤ h) else []
    match v.slashLoop evs 0 si.period si.stake with
    | .error x => .error x
    | .ok (rew, sp, stake) =>
      let curStake := v.tokensFromShares sh
      if curStake + 3 < stake then .error .stakeSanity else
      let stake' := if curStake < stake then curStake else stake
      match v.between sp ending stake' with
      | .error x => .error x
      | .ok r => .ok (rew + r)

/-- `withdrawDelegationRewards`: returns the whole coins paid -/
def VS.withdrawRewards (v : VS) (h d : Nat) : Except Err (VS × Nat) :=
  match v.del d with
  | none => .error .noDelegation
  | some sh =>
    match v.sinfo d with
    | none => .error .noStartInfo
    | some si =>
      match v.incPeriod v.tokens with
      | .error x => .error x
      | .ok (v1, ending) =>
        match v1.calcRewards h d sh ending with
        | .error x => .error x
        | .ok raw =>
          let rewards := min raw v1.outstanding
          let v2 := { v1 with outstanding := v1.outstanding - rewards, paid := v1.paid + rewards / ONE,
                              dust := v1.dust + rewards % ONE }
          match v2.decRef si.period with
          | .error x => .error x
          | .ok v3 => .ok ({ v3 with sinfo := setAt v3.sinfo d none }, rewards / ONE)

/-- `initializeDelegation` -/
def VS.initDelegation (v : VS) (h d : Nat) : Except Err VS :=
  match v.incRef (v.period - 1) with
  | .error x => .error x
  | .ok v1 =>
    match v1.del d with
    | none => .error .noDelegation
    | some sh => .ok { v1 with sinfo := setAt v1.sinfo d (some ⟨v1.period - 1, v1.tokensFromSharesTrunc sh, h⟩) }

/-- the read-only precompile method `delegationRewards(val, del)`: on a branch of the store, end the period and
calculate the delegator's rewards, truncated to whole coins; no delegation: 0 -/
def VS.pendingRewards (v : VS) (h d : Nat) : Except Err Nat :=
  match v.del d with
  | none => .ok 0
  | some sh =>
    match v.incPeriod v.tokens with
    | .error e => .error e
    | .ok (v1, ending) =>
      match v1.calcRewards h d sh ending with
      | .ok raw => .ok (raw / ONE)
      | .error e => .error e

/-- the read-only precompile method `delegation(val, del)`: whole shares and their token worth -/
def VS.delegationView (v : VS) (d : Nat) : Nat × Nat :=
  match v.del d with
  | none => (0, 0)
  | some sh => (sh / ONE, v.tokensFromShares sh / ONE)

/-- keeper `WithdrawDelegationRewards` = withdraw + re-initialise (what the `withdraw` precompile method and
`handlerTransferShares` call through the distribution message server) -/
def VS.withdrawMsg (v : VS) (h d : Nat) : Except Err (VS × Nat) :=
  match v.withdrawRewards h d with
  | .error x => .error x
  | .ok (v1, c) =>
    match v1.initDelegation h d with
    | .error x => .error x
    | .ok v2 => .ok (v2, c)

/-- hooks before a delegation changes: `BeforeDelegationSharesModified` (existing: withdraw rewards) or
`BeforeDelegationCreated` (new: end the period) -/
def VS.delegatePre (v : VS) (h d : Nat) : Except Err (VS × Nat) :=
  match v.del d with
  | some _ => v.withdrawRewards h d
  | none =>
    match v.incPeriod v.tokens with
    | .error e => .error e
    | .ok (v1, _) => .ok (v1, 0)

/-- `AddValidatorTokensAndShares` + `delegation.Shares += newShares` + `SetDelegation` -/
def VS.issue (v1 : VS) (d amt : Nat) : VS :=
  let issued := if v1.shares = 0 then amt * ONE else v1.sharesFromTokens amt
  { v1 with tokens := v1.tokens + amt, shares := v1.shares + issued,
            del := setAt v1.del d (some ((v1.del d).getD 0 + issued)) }

/-- staking `Delegate` (hooks included); returns coins of rewards paid by the hook -/
def VS.delegate (v : VS) (h d amt : Nat) : Except Err (VS × Nat) :=
  if v.tokens = 0 ∧ 0 < v.shares then .error .sdk else
  v.delegatePre h d >>= fun r =>
  (r.1.issue d amt).initDelegation h d >>= fun v3 =>   -- AfterDelegationModified
  pure (v3, r.2)

/-- staking `ValidateUnbondAmount` -/
def VS.validateUnbond (v : VS) (d amt : Nat) : Except Err Nat :=
  match v.del d with
  | none => .error .sdk
  | some sh =>
    if v.tokens = 0 then .error .sdk else
    if sh < v.sharesFromTokensTrunc amt then .error .sdk else
    .ok (min (v.sharesFromTokens amt) sh)

/-- the delegation after `rest` shares remain: removed when zero -/
def VS.setShares (v1 : VS) (d rest : Nat) : VS :=
  { v1 with del := setAt v1.del d (if rest = 0 then none else some rest) }

/-- `RemoveDelegation`, or `SetDelegation` + `AfterDelegationModified` -/
def VS.unbondPost (v1 : VS) (h d rest : Nat) : Except Err VS :=
  if rest = 0 then .ok (v1.setShares d rest) else (v1.setShares d rest).initDelegation h d

/-- `RemoveValidatorTokensAndShares`: returns the tokens issued -/
def VS.removeTokens (v2 : VS) (shares : Nat) : Except Err (VS × Nat) :=
  let remaining := v2.shares - shares
  let issued := if remaining = 0 then v2.tokens else v2.tokensFromShares shares / ONE
  if v2.tokens < issued then .error .negShares else
  .ok ({ v2 with tokens := v2.tokens - issued, shares := remaining }, issued)

/-- staking `Unbond` (hooks included): returns (state, tokens returned, reward coins paid) -/
def VS.unbond (v : VS) (h d shares : Nat) : Except Err (VS × Nat × Nat) :=
  match v.del d with
  | none => .error .sdk
  | some sh =>
    v.withdrawRewards h d >>= fun r =>                       -- BeforeDelegationSharesModified
    if sh < shares then .error .sdk else
    r.1.unbondPost h d (sh - shares) >>= fun v2 =>
    v2.removeTokens shares >>= fun q =>
    pure (q.1, q.2, r.2)

/-- distribution `AllocateTokensToValidator(ctx, val, amt coins)` -/
def VS.alloc (v : VS) (amt : Nat) : VS :=
  let t := amt * ONE
  let com := dMul t v.rate
  { v with commission := v.commission + com, cur := v.cur + (t - com), outstanding := v.outstanding + t,
           allocated := v.allocated + t }

/-- distribution hook `BeforeValidatorSlashed` (`updateValidatorSlashFraction`); errors of the hook are only
logged by staking `Slash` -/
def VS.slashHook (v : VS) (h eff : Nat) : VS :=
  match v.incPeriod v.tokens with
  | .error _ => v
  | .ok (v1, newPeriod) =>
    match v1.incRef newPeriod with
    | .ok v2 => { v2 with slashes := v2.slashes ++ [⟨h, newPeriod, eff⟩] }
    | .error _ => { v1 with slashes := v1.slashes ++ [⟨h, newPeriod, eff⟩] }

/-- staking `Slash` at the current height (`infractionHeight = ctx.BlockHeight()`: unbonding delegations and
redelegations are not scanned) with the distribution hook `BeforeValidatorSlashed` -/
def VS.slash (v : VS) (h power factor : Nat) : VS :=
  let slashAmount := dMul (power * POWER_REDUCTION * ONE) factor / ONE
  let burn := min slashAmount v.tokens
  if burn = 0 then v else
  let eff := min ONE (dQuoRoundUp (burn * ONE) (v.tokens * ONE))
  let hooked := v.slashHook h eff
  { hooked with tokens := hooked.tokens - burn }

/-- `ApplyAndReturnValidatorSetUpdates` for one validator at height `h` (fewer validators than MaxValidators): it is
in the active set iff it is not jailed and has consensus power ≥ 1 (tokens ≥ PowerReduction); leaving the set starts
the unbonding period (status Unbonding, UnbondingHeight = h), re-entering makes it Bonded again.  A status change
touches neither delegations nor distribution records (the distribution hooks of AfterValidatorBeginUnbonding /
AfterValidatorBonded are empty) -/
def VS.endBlock (v : VS) (h : Nat) : VS :=
  let active := !v.jailed && decide (POWER_REDUCTION ≤ v.tokens)
  if v.bonded && !active then { v with bonded := false, ubHeight := h }
  else if !v.bonded && active then { v with bonded := true, unbonded := false }
  else v

/-- `UnbondAllMatureValidators` once the unbonding period is over: a validator that is still out of the active set
becomes Unbonded (its delegations and distribution records stay; it has delegator shares, so it is not removed) -/
def VS.matureVal (v : VS) : VS := if v.bonded then v else { v with unbonded := true }

/-- the same when only the unbonding periods that began at a height ≤ `H` are over (`UnbondAllMatureValidators` walks
the validator queue up to the block time: a validator whose `UnbondingHeight` is later stays Unbonding) -/
def VS.matureValTo (v : VS) (H : Nat) : VS := if v.ubHeight ≤ H then v.matureVal else v

def cmpShares (name : String) (a b : Nat) : Bool :=
  if name == "LT" then decide (a < b)
  else if name == "LTE" then decide (a ≤ b)
  else if name == "GT" then decide (b < a)
  else if name == "GTE" then decide (b ≤ a)
  else false

/-! ### the body of `handlerTransferShares` after the guards: an interpreter for the regenerated instruction list -/

/-- the inputs that stay fixed while the body runs: the validator object read at the start (stale afterwards), block
height, the two parties, `X` = `LegacyNewDecFromBigInt(sharesInt)` -/
structure Env where
  v0 : VS
  h : Nat
  from_ : Nat
  to : Nat
  X : Nat

/-- the stores plus the Go function's local variables -/
structure Loc where
  vs : VS
  fromDel : Nat                 -- fromDel.Shares (local copy)
  toDel : Nat := 0              -- toDel.Shares (local copy)
  lookupErr : Bool := false     -- `err != nil` of the last GetDelegation
  flag : Bool := false          -- toDelFound
  fromInfo : SInfo := ⟨0, 0, 0⟩
  toInfo : SInfo := ⟨0, 0, 0⟩
  curPeriod : Nat := 0          -- validatorCurrentRewards.Period
  prev : Nat := 0               -- previousPeriod
  stakeTok : Nat := 0           -- stakeToken
  rf : Nat := 0                 -- reward coins paid to `from`
  rt : Nat := 0                 -- reward coins paid to `to`

def Env.addr (e : Env) : Party → Nat
  | .from_ => e.from_
  | .to => e.to

def Loc.del (l : Loc) : Party → Nat
  | .from_ => l.fromDel
  | .to => l.toDel

def Loc.info (l : Loc) : Party → SInfo
  | .from_ => l.fromInfo
  | .to => l.toInfo

def Loc.setDel (l : Loc) : Party → Nat → Loc
  | .from_, x => { l with fromDel := x }
  | .to, x => { l with toDel := x }

def Loc.setInfo (l : Loc) : Party → SInfo → Loc
  | .from_, x => { l with fromInfo := x }
  | .to, x => { l with toInfo := x }

def evalSE (e : Env) (l : Loc) : SE → Except Err Nat
  | .x => .ok e.X
  | .zero => .ok 0
  | .stakeTok => .ok l.stakeTok
  | .shares p => .ok (l.del p)
  | .stake p => .ok (l.info p).stake
  | .add a b =>
    match evalSE e l a, evalSE e l b with
    | .ok x, .ok y => .ok (x + y)
    | .error x, _ => .error x
    | _, .error y => .error y
  | .sub a b =>
    match evalSE e l a, evalSE e l b with
    | .ok x, .ok y => if x < y then .error .negShares else .ok (x - y)
    | .error x, _ => .error x
    | _, .error y => .error y
  | .tfs a => match evalSE e l a with | .ok x => .ok (e.v0.tokensFromShares x) | .error x => .error x
  | .tfsTrunc a => match evalSE e l a with | .ok x => .ok (e.v0.tokensFromSharesTrunc x) | .error x => .error x
  | .truncInt a => match evalSE e l a with | .ok x => .ok (x / ONE * ONE) | .error x => .error x
  | .unknown _ => .error .unsupported

def evalPE (l : Loc) : PE → Except Err Nat
  | .infoPeriod p => .ok (l.info p).period
  | .prev => .ok l.prev
  | .curMinus k => .ok (l.curPeriod - k)
  | .unknown _ => .error .unsupported

def evalCond (e : Env) (l : Loc) : Cond → Except Err Bool
  | .lookupErr => .ok l.lookupErr
  | .flag => .ok l.flag
  | .notFlag => .ok (!l.flag)
  | .isBonded => .ok e.v0.bonded
  | .notBonded => .ok (!e.v0.bonded)
  | .isZero ex => match evalSE e l ex with | .ok n => .ok (n == 0) | .error z => .error z
  | .unknown _ => .error .unsupported

def execSimple (e : Env) (l : Loc) : Simple → Except Err Loc
  | .withdraw p =>
    match l.vs.withdrawMsg e.h (e.addr p) with
    | .error x => .error x
    | .ok (v, c) =>
      match p with
      | .from_ => .ok { l with vs := v, rf := l.rf + c }
      | .to => .ok { l with vs := v, rt := l.rt + c }
  | .getDel p =>
    match l.vs.del (e.addr p) with
    | some sh => .ok { l.setDel p sh with lookupErr := false }
    | none => .ok { l.setDel p 0 with lookupErr := true }
  | .incPeriod =>
    match l.vs.incPeriod e.v0.tokens with
    | .error x => .error x
    | .ok (v, _) => .ok { l with vs := v }
  -- `GetDelegatorStartingInfo` of an absent key yields the zero value, not an error
  | .readInfo p => .ok (l.setInfo p ((l.vs.sinfo (e.addr p)).getD ⟨0, 0, 0⟩))
  | .readCur => .ok { l with curPeriod := l.vs.period }
  | .setShares p ex => match evalSE e l ex with | .ok n => .ok (l.setDel p n) | .error z => .error z
  | .setStake p ex => match evalSE e l ex with | .ok n => .ok (l.setInfo p { l.info p with stake := n }) | .error z => .error z
  | .setInfoPeriod p ex => match evalPE l ex with | .ok n => .ok (l.setInfo p { l.info p with period := n }) | .error z => .error z
  | .setFlag b => .ok { l with flag := b }
  | .setPrev ex => match evalPE l ex with | .ok n => .ok { l with prev := n } | .error z => .error z
  | .setStakeTok ex => match evalSE e l ex with | .ok n => .ok { l with stakeTok := n } | .error z => .error z
  | .newInfo p pe se hb =>
    match evalPE l pe, evalSE e l se with
    | .ok a, .ok b => .ok (l.setInfo p ⟨a, b, if hb then e.h else 0⟩)
    | .error z, _ => .error z
    | _, .error z => .error z
  | .removeDel p => .ok { l with vs := { l.vs with del := setAt l.vs.del (e.addr p) none } }
  | .setDel p => .ok { l with vs := { l.vs with del := setAt l.vs.del (e.addr p) (some (l.del p)) } }
  | .decRef ex =>
    match evalPE l ex with
    | .error z => .error z
    | .ok n => match l.vs.decRef n with | .ok v => .ok { l with vs := v } | .error z => .error z
  | .incRef ex =>
    match evalPE l ex with
    | .error z => .error z
    | .ok n => match l.vs.incRef n with | .ok v => .ok { l with vs := v } | .error z => .error z
  | .deleteInfo p => .ok { l with vs := { l.vs with sinfo := setAt l.vs.sinfo (e.addr p) none } }
  | .writeInfo p src => .ok { l with vs := { l.vs with sinfo := setAt l.vs.sinfo (e.addr p) (some (l.info src)) } }
  | .guarded c x =>
    match evalCond e l c with
    | .ok true => execSimple e l x
    | .ok false => .ok l
    | .error z => .error z
  | .unknown _ => .error .unsupported

def execSimples (e : Env) : List Simple → Loc → Except Err Loc
  | [], l => .ok l
  | x :: xs, l => match execSimple e l x with | .ok l' => execSimples e xs l' | .error z => .error z

def execStmt (e : Env) (l : Loc) : Stmt → Except Err Loc
  | .s x => execSimple e l x
  | .ite c a b =>
    match evalCond e l c with
    | .ok true => execSimples e a l
    | .ok false => execSimples e b l
    | .error z => .error z

def interp (e : Env) : List Stmt → Loc → Except Err Loc
  | [], l => .ok l
  | x :: xs, l => match execStmt e l x with | .ok l' => interp e xs l' | .error z => .error z

/-- the state-changing part of `handlerTransferShares` (after the guards): the regenerated instruction list run on
the stores with `fromDel` = the copy of the sender's delegation read by the guards -/
def VS.xferCore (c : Cfg) (v : VS) (h from_ to fsh X : Nat) : Except Err (VS × Nat × Nat) :=
  match interp ⟨v, h, from_, to, X⟩ c.prog { vs := v, fromDel := fsh } with
  | .ok l => .ok (l.vs, l.rf, l.rt)
  | .error z => .error z

/-- `handlerTransferShares(ctx, evm, valAddr, from, to, shares)`; `recv` = the sender has an incoming redelegation
at this validator; `X` = `LegacyNewDecFromBigInt(shares)` (whole shares × 10^18); result: new state, reward coins
paid to `from`, reward coins paid to `to` -/
def VS.transfer (c : Cfg) (v : VS) (h from_ to X : Nat) (recv : Bool) : Except Err (VS × Nat × Nat) :=
  match v.del from_ with
  | none => .error .noDelegation
  | some fsh =>
    if c.refuseRecvRedel && recv then .error .recvRedel else
    if cmpShares c.sharesCmp fsh X then .error .insufficient else
    if c.selfGuard && from_ == to then .ok (v, 0, 0) else
    VS.xferCore c v h from_ to fsh X

-- ---------------------------------------------------------------------------------------------------------------
-- the chain: several validators, allowances, redelegation / unbonding entries, balances

structure State where
  nAcc : Nat := 0
  nVal : Nat := 0
  height : Nat := 1
  vs : Nat → VS := fun _ => {}
  allow : Nat → Nat → Nat → Nat := fun _ _ _ => 0      -- validator, owner, spender ↦ shares
  redel : List (Nat × Nat × Nat × Nat × Nat × Nat) := []  -- (delegator, src, dst, creation height of the entry,
                                                         --  InitialBalance = tokens moved, SharesDst = shares issued
                                                         --  at the destination)
  ubd : List (Nat × Nat × Nat × Nat) := []               -- (delegator, validator, creation height, balance); the
                                                         -- entries one delegator creates at one validator within one
                                                         -- block are ONE entry of the SDK record (balances added up)
  gain : Nat → Nat := fun _ => 0                         -- reward coins received per account
  spent : Nat → Nat := fun _ => 0                        -- coins bonded per account
  returned : Nat → Nat := fun _ => 0                     -- coins of completed unbonding entries paid back per account
  -- bank side: the module accounts the staking / distribution keepers move coins between
  bondedPool : Nat := 0                                  -- balance of the `bonded_tokens_pool` module account
  notBondedPool : Nat := 0                               -- balance of the `not_bonded_tokens_pool` module account
  distrIn : Nat := 0                                     -- coins sent to the distribution module account (allocations)
  distrOut : Nat := 0                                    -- coins the distribution module account paid out as rewards
  burned : Nat := 0                                      -- coins burned by slashing (taken out of the supply)

def MAX_ENTRIES : Nat := 7

/-- Σ_{d < n} f d -/
def sumTo : Nat → (Nat → Nat) → Nat
  | 0, _ => 0
  | n + 1, f => sumTo n f + f n

inductive Op
  | delegate (d v amt : Nat)
  | undelegate (d v amt : Nat)
  | redelegate (d src dst amt : Nat)
  | withdraw (d v : Nat)
  | approve (owner spender v shares : Nat)
  | transfer (from_ to v shares : Nat)
  | transferFrom (spender from_ to v shares : Nat)
  | alloc (v amt : Nat)
  | slash (v power factor : Nat)
  | block
  | mature (H : Nat)    -- the unbonding period of everything that began at a height ≤ `H` passes (entries created
                        -- later are NOT mature yet), then the staking EndBlocker (`BlockValidatorUpdates`) runs;
                        -- `H` ≥ the current height: everything matures
  | jail (v : Nat)      -- staking `Jail`: out of the power index; the status changes at the next validator-set update
  | unjail (v : Nat)    -- staking `Unjail`
deriving Repr, DecidableEq

/-- genesis of one validator with self-delegation by account `op` (staking + distribution `InitGenesis` hooks):
validator created (period 1, record 0), delegation created (period 2, record 1 referenced twice) -/
def genesisVS (op tokens rate : Nat) : VS :=
  { tokens := tokens, shares := tokens * ONE, rate := rate, period := 2,
    refs := setAt (fun _ => 0) 1 2,
    del := setAt (fun _ => none) op (some (tokens * ONE)),
    sinfo := setAt (fun _ => none) op (some ⟨1, tokens * ONE, 0⟩) }

/-- accounts `0 … nVal-1` are the validator operators (self-delegators), the rest are users -/
def init (nAcc h0 : Nat) (vals : List (Nat × Nat)) : State :=
  { nAcc := nAcc, nVal := vals.length, height := h0,
    vs := fun i => match vals[i]? with | some (t, r) => genesisVS i t r | none => {},
    -- every genesis validator is Bonded: its tokens are in the bonded pool
    bondedPool := sumTo vals.length (fun i => match vals[i]? with | some (t, _) => t | none => 0) }

def State.setVS (s : State) (v : Nat) (x : VS) : State := { s with vs := setAt s.vs v x }
/-- `c` reward coins leave the distribution module account for account `d` -/
def State.addGain (s : State) (d c : Nat) : State :=
  { s with gain := setAt s.gain d (s.gain d + c), distrOut := s.distrOut + c }

/-- `amt` coins arrive from a delegator's account in the pool of a validator whose status is Bonded / not Bonded
(`Delegate` with `subtractAccount`: `DelegateCoinsFromAccountToModule` to the bonded or the not-bonded pool) -/
def State.poolAdd (s : State) (bonded : Bool) (amt : Nat) : State :=
  { s with bondedPool := if bonded then s.bondedPool + amt else s.bondedPool,
           notBondedPool := if bonded then s.notBondedPool else s.notBondedPool + amt }

/-- `amt` tokens change holder from a validator / entry of status `src` to one of status `dst` (true = Bonded):
`bondedTokensToNotBonded` / `notBondedTokensToBonded` / nothing (`Undelegate`, and `Delegate` without `subtractAccount`) -/
def State.poolMove (s : State) (src dst : Bool) (amt : Nat) : State :=
  { s with bondedPool := if src && !dst then s.bondedPool - amt else if !src && dst then s.bondedPool + amt else s.bondedPool,
           notBondedPool := if src && !dst then s.notBondedPool + amt else if !src && dst then s.notBondedPool - amt
                            else s.notBondedPool }

/-- `burnBondedTokens` / `burnNotBondedTokens` of staking `Slash` -/
def State.poolBurn (s : State) (bonded : Bool) (amt : Nat) : State :=
  { s with bondedPool := if bonded then s.bondedPool - amt else s.bondedPool,
           notBondedPool := if bonded then s.notBondedPool else s.notBondedPool - amt, burned := s.burned + amt }

/-- Σ balances of unbonding-delegation entries -/
def ubdTotal : List (Nat × Nat × Nat × Nat) → Nat
  | [] => 0
  | e :: es => e.2.2.2 + ubdTotal es

/-- number of entries of the SDK's unbonding-delegation record of `(d, v)`: `UnbondingDelegation.AddEntry` merges the
entries created at one height (and completion time) -/
def State.ubdEntries (s : State) (d v : Nat) : Nat :=
  (((s.ubd.filter (fun u => u.1 == d && u.2.1 == v)).map (fun u => u.2.2.1)).eraseDups).length

/-- the tokens the validator-set update at the end of a block moves out of / into the bonded pool: those of the
validators that leave / re-enter the active set (`bondedToUnbonding` → `bondedTokensToNotBonded(validator.Tokens)`,
`unbondingToBonded` → `notBondedTokensToBonded`) -/
def State.leaving (s : State) : Nat :=
  sumTo s.nVal (fun i => if (s.vs i).bonded && !((s.vs i).endBlock s.height).bonded then (s.vs i).tokens else 0)
def State.entering (s : State) : Nat :=
  sumTo s.nVal (fun i => if !(s.vs i).bonded && ((s.vs i).endBlock s.height).bonded then (s.vs i).tokens else 0)

def State.hasRecvRedel (s : State) (d v : Nat) : Bool := s.redel.any (fun r => r.1 == d && r.2.2.1 == v)

def State.okAcc (s : State) (d : Nat) : Bool := decide (d < s.nAcc)
def State.okVal (s : State) (v : Nat) : Bool := decide (v < s.nVal)

def State.transferOp (c : Cfg) (s : State) (from_ to v x : Nat) : Except Err State :=
  if !(s.okAcc from_ && s.okAcc to && s.okVal v) then .error .badArgs else
  if c.sharesPositive && x == 0 then .error .badArgs else
  match (s.vs v).transfer c s.height from_ to (x * ONE) (s.hasRecvRedel from_ v) with
  | .error e => .error e
  | .ok (v', rf, rt) => .ok (((s.setVS v v').addGain from_ rf).addGain to rt)

/-- `decrementAllowance(ctx, valAddr, owner, spender, decrease)` -/
def State.decAllowance (c : Cfg) (s : State) (v owner spender x : Nat) : Except Err State :=
  let a := s.allow v owner spender
  if c.allowanceCheck && decide (a < x) then .error .allowance else
  if a < x then .error .negShares else
  let a' := if c.allowanceSubDecrease then a - x else a
  .ok { s with allow := fun p q r => if p = v ∧ q = owner ∧ r = spender then a' else s.allow p q r }

/-- `transferFromShares` as the theorems were first proved for it (hand-written): allowance check and decrement, then the
handler for `from_`; `State.exec` INTERPRETS the regenerated `cfg.runFrom` instead and `transferFromTx_eq` (Proofs/C11)
shows the two agree for a good `cfg` -/
def State.transferFromRef (c : Cfg) (s : State) (spender from_ to v x : Nat) : Except Err State :=
  if !(s.okAcc spender && s.okAcc from_ && s.okAcc to && s.okVal v) then .error .badArgs else
  if c.sharesPositive && x == 0 then .error .badArgs else
  let a := s.allow v from_ spender
  if c.allowanceCheck && decide (a < x) then .error .allowance else
  if a < x then .error .negShares else
  let a' := if c.allowanceSubDecrease then a - x else a
  let s1 : State := { s with allow := fun p q r => if p = v ∧ q = from_ ∧ r = spender then a' else s.allow p q r }
  s1.transferOp c from_ to v x

/-! ### the native actions of the two Run methods: an interpreter for the regenerated statement lists -/

/-- the arguments of one call: `contract.Caller()`, `args.From` (= the caller for `transferShares`, whose arguments have no
such field), `args.To`, the validator index, whole shares -/
structure RunEnv where
  caller : Nat
  from_ : Nat
  to : Nat
  v : Nat
  x : Nat

def RunEnv.who (e : RunEnv) : Who → Option Nat
  | .caller => some e.caller
  | .argFrom => some e.from_
  | .argTo => some e.to
  | .unknown _ => none

def evalRCond (e : RunEnv) : RCond → Option Bool
  | .eq a b => match e.who a, e.who b with | some x, some y => some (x == y) | _, _ => none
  | .ne a b => match e.who a, e.who b with | some x, some y => some (x != y) | _, _ => none
  | .unknown _ => none

/-- one statement; the flag says that the action returned (successfully) here -/
def State.execR (c : Cfg) (e : RunEnv) (s : State) : RStmt → Except Err (State × Bool)
  | .decAllowance val o sp sh er =>
    if !(val && sh) then .error .unsupported else
    match e.who o, e.who sp with
    | some o', some sp' =>
      match s.decAllowance c e.v o' sp' e.x with
      | .ok s' => .ok (s', false)
      | .error z => if er then .error z else .ok (s, false)
    | _, _ => .error .unsupported
  | .handler val f t sh er =>
    if !(val && sh) then .error .unsupported else
    match e.who f, e.who t with
    | some f', some t' =>
      match s.transferOp c f' t' e.v e.x with
      | .ok s' => .ok (s', false)
      | .error z => if er then .error z else .ok (s, false)
    | _, _ => .error .unsupported
  | .guarded cnd x =>
    match evalRCond e cnd with
    | some true => s.execR c e x
    | some false => .ok (s, false)
    | none => .error .unsupported
  | .retNil => .ok (s, true)
  | .unknown _ => .error .unsupported

def State.runR (c : Cfg) (e : RunEnv) : List RStmt → State → Except Err State
  | [], s => .ok s
  | r :: rs, s =>
    match s.execR c e r with
    | .ok (s', true) => .ok s'
    | .ok (s', false) => State.runR c e rs s'
    | .error z => .error z

/-- the precompile method `transferShares(val, to, shares)` called by `from_`: argument validation, then the regenerated
native action of `TransferShares.Run` -/
def State.transferTx (c : Cfg) (s : State) (from_ to v x : Nat) : Except Err State :=
  if !(s.okAcc from_ && s.okAcc to && s.okVal v) then .error .badArgs else
  if c.sharesPositive && x == 0 then .error .badArgs else
  State.runR c ⟨from_, from_, to, v, x⟩ c.runTransfer s

/-- the precompile method `transferFromShares(val, from, to, shares)` called by `spender`: argument validation, then the
regenerated native action of `TransferFromShares.Run` -/
def State.transferFromTx (c : Cfg) (s : State) (spender from_ to v x : Nat) : Except Err State :=
  if !(s.okAcc spender && s.okAcc from_ && s.okAcc to && s.okVal v) then .error .badArgs else
  if c.sharesPositive && x == 0 then .error .badArgs else
  State.runR c ⟨spender, from_, to, v, x⟩ c.runFrom s

def State.exec (c : Cfg) (s : State) : Op → Except Err State
  | .delegate d v amt =>
    if !(s.okAcc d && s.okVal v) || amt == 0 then .error .badArgs else
    match (s.vs v).delegate s.height d amt with
    | .error e => .error e
    | .ok (v', r) =>
      .ok { ((s.setVS v v').addGain d r).poolAdd (s.vs v).bonded amt with spent := setAt s.spent d (s.spent d + amt) }
  | .undelegate d v amt =>
    if !(s.okAcc d && s.okVal v) || amt == 0 then .error .badArgs else
    match (s.vs v).validateUnbond d amt with
    | .error e => .error e
    | .ok shares =>
      if MAX_ENTRIES ≤ s.ubdEntries d v then .error .sdk else
      match (s.vs v).unbond s.height d shares with
      | .error e => .error e
      | .ok (v', ret, r) =>
        -- the returned tokens wait in the not-bonded pool (`bondedTokensToNotBonded` when the validator is Bonded; the
        -- tokens of any other validator are there already)
        let s1 := ((s.setVS v v').addGain d r).poolMove (s.vs v).bonded false ret
        -- `Undelegate` stamps the entry with the current height and time whatever the validator's status (only a
        -- redelegation takes the source validator's UnbondingHeight, and redelegation entries never merge)
        .ok { s1 with ubd := s1.ubd ++ [(d, v, s.height, ret)] }
  | .redelegate d src dst amt =>
    if !(s.okAcc d && s.okVal src && s.okVal dst) || amt == 0 then .error .badArgs else
    match (s.vs src).validateUnbond d amt with
    | .error e => .error e
    | .ok shares =>
      if src == dst then .error .sdk else
      if s.hasRecvRedel d src then .error .sdk else
      let entries := (s.redel.filter (fun r => r.1 == d && r.2.1 == src && r.2.2.1 == dst)).length
      if MAX_ENTRIES ≤ entries then .error .sdk else
      match (s.vs src).unbond s.height d shares with
      | .error e => .error e
      | .ok (vsrc, ret, r1) =>
        if ret = 0 then .error .sdk else
        match (s.vs dst).delegate s.height d ret with
        | .error e => .error e
        | .ok (vdst, r2) =>
          -- `Delegate(…, tokenSrc = srcValidator.GetStatus(), dstValidator, subtractAccount = false)`
          let s1 := ((((s.setVS src vsrc).setVS dst vdst).addGain d r1).addGain d r2).poolMove
            (s.vs src).bonded (s.vs dst).bonded ret
          -- `Redelegation.AddEntry` always appends (only `UnbondingDelegation.AddEntry` merges entries of one block);
          -- `getBeginInfo`: the entry of a Bonded source is stamped with the current height, that of an Unbonding source
          -- with the height at which the source validator left the active set
          -- … and a redelegation away from an Unbonded source completes at once: no entry
          -- the entry records `InitialBalance` = the tokens moved and `SharesDst` = the shares issued at the destination
          .ok { s1 with redel := if (s.vs src).unbonded then s1.redel
                                 else s1.redel ++ [(d, src, dst, if (s.vs src).bonded then s.height else (s.vs src).ubHeight,
                                                    ret, ((vdst.del d).getD 0) - (((s.vs dst).del d).getD 0))] }
  | .withdraw d v =>
    if !(s.okAcc d && s.okVal v) then .error .badArgs else
    match (s.vs v).withdrawMsg s.height d with
    | .error e => .error e
    | .ok (v', r) => .ok ((s.setVS v v').addGain d r)
  | .approve owner spender v shares =>
    if !(s.okAcc owner && s.okAcc spender && s.okVal v) then .error .badArgs else
    .ok { s with allow := fun a b c' => if a = v ∧ b = owner ∧ c' = spender then shares else s.allow a b c' }
  | .transfer from_ to v x => s.transferTx c from_ to v x
  | .transferFrom spender from_ to v x => s.transferFromTx c spender from_ to v x
  | .alloc v amt =>
    if !(s.okVal v) then .error .badArgs else .ok { s.setVS v ((s.vs v).alloc amt) with distrIn := s.distrIn + amt }
  | .slash v power factor =>
    -- ("should not be slashing unbonded validator")
    if !(s.okVal v) || decide (ONE < factor) || (s.vs v).unbonded then .error .badArgs else
    -- the burnt tokens are taken out of the pool that holds the validator's tokens
    .ok ((s.setVS v ((s.vs v).slash s.height power factor)).poolBurn (s.vs v).bonded
      ((s.vs v).tokens - ((s.vs v).slash s.height power factor).tokens))
  -- end of block: the staking EndBlocker's validator-set update, then the next height
  | .block => .ok { s with height := s.height + 1, vs := fun i => (s.vs i).endBlock s.height,
                           bondedPool := s.bondedPool - s.leaving + s.entering,
                           notBondedPool := s.notBondedPool + s.leaving - s.entering }
  -- the unbonding period (21 days) of everything that began at a height ≤ `H` passes and the staking EndBlocker runs:
  -- validator-set update as in `block`; the validators that are still out of the active set and left it at a height ≤ `H`
  -- become Unbonded; every unbonding-delegation entry created at a height ≤ `H` is mature and is paid back from the
  -- not-bonded pool, the later ones stay; every redelegation entry stamped with a height ≤ `H` is mature and is dropped,
  -- the later ones stay (and keep refusing share transfers of the receiving delegator); next height
  | .mature H =>
    .ok { s with height := s.height + 1,
                 -- a validator that leaves the active set in this very update has its unbonding period ahead of it
                 vs := fun i => if (s.vs i).bonded then (s.vs i).endBlock s.height else ((s.vs i).endBlock s.height).matureValTo H,
                 bondedPool := s.bondedPool - s.leaving + s.entering,
                 notBondedPool := s.notBondedPool + s.leaving - s.entering - ubdTotal (s.ubd.filter (fun u => decide (u.2.2.1 ≤ H))),
                 returned := fun d => s.returned d + ubdTotal ((s.ubd.filter (fun u => decide (u.2.2.1 ≤ H))).filter (fun u => u.1 == d)),
                 ubd := s.ubd.filter (fun u => !decide (u.2.2.1 ≤ H)),
                 redel := s.redel.filter (fun r => !decide (r.2.2.2.1 ≤ H)) }
  | .jail v =>
    if !(s.okVal v) || (s.vs v).jailed then .error .badArgs
    else .ok (s.setVS v { s.vs v with jailed := true })
  | .unjail v =>
    if !(s.okVal v) || !(s.vs v).jailed then .error .badArgs
    else .ok (s.setVS v { s.vs v with jailed := false })

/-- a failed transaction is reverted as a whole -/
def State.step (c : Cfg) (s : State) (o : Op) : State :=
  match s.exec c o with
  | .ok s' => s'
  | .error _ => s

def State.run (c : Cfg) (s : State) (ops : List Op) : State := ops.foldl (State.step c) s

/-- several precompile calls made by ONE transaction (a contract that loops over validators and calls
`transferFromShares` for each): the calls run in order on the running state; the first failure fails the whole group
(the contract lets the failure bubble up, the EVM reverts the transaction: property C09) -/
def State.execAll (c : Cfg) : State → List Op → Except Err State
  | s, [] => .ok s
  | s, o :: os => match s.exec c o with | .ok s' => State.execAll c s' os | .error e => .error e

/-- one transaction of the chain: a single precompile call, an all-or-nothing group of calls (`atomic`), or a group whose
caller swallows the failure of each call (`each`: a failed call is reverted on its own, the others stand) -/
inductive Tx
  | one (o : Op)
  | atomic (os : List Op)
  | each (os : List Op)

def State.stepTx (c : Cfg) (s : State) : Tx → State
  | .one o => s.step c o
  | .atomic os => match s.execAll c os with | .ok s' => s' | .error _ => s
  | .each os => s.run c os

def State.runTx (c : Cfg) (s : State) (txs : List Tx) : State := txs.foldl (State.stepTx c) s

def VS.delSum (v : VS) (n : Nat) : Nat := sumTo n (fun d => (v.del d).getD 0)

end FxVerif.Model.C11
