import FxVerif.Model.C17Proc
/-!
# C17 model — a keeper-level cache of STATE-DERIVED data

`process_history_irrelevant` speaks about an invariant of process memory alone.  A cache of decoded store records (token
pairs by id, bridge denominations by alias, the last observed nonce, …) is different: its contents are meant to mirror
the chain state, so the invariant one would like — "every cached entry is what the store holds" — relates memory AND
state.  `Props/C17.lean` proves the general statement for such invariants (`coherent_cache_process_history_irrelevant`):
the observations of a node depend on the block history only, provided the invariant (1) holds for freshly constructed
memory with EVERY state, (2) is kept by a delivered transaction together with the state it leaves, (3) is kept by an
execution whose state effect is DISCARDED (CheckTx, simulation, query — `Ev.serve`) together with the state it started
from, and (4) state effect and output of a handler do not depend on the memory among memories that satisfy it.

Hypothesis (3) is exactly what a write-through cache breaks: `AddTokenPair` inside a simulation, a failing multi-message
proposal or a reverted transaction updates the process-local map, the store write is rolled back, and the map keeps the
entry (`writeThrough_cache_breaks_determinism`).  The handler below models that shape with the three message kinds that
matter: a registration whose enclosing transaction may fail AFTER the write, a removal, and a use of the pair.
-/
namespace FxVerif.Model.C17

/-- a table of token pairs: pair id ↦ decoded pair -/
abbrev Pairs := List (String × Nat)

def pget (t : Pairs) (k : String) : Option Nat := (t.find? (fun e => e.1 == k)).map (·.2)
def pset (t : Pairs) (k : String) (v : Nat) : Pairs := (k, v) :: t.filter (fun e => e.1 != k)
def pdel (t : Pairs) (k : String) : Pairs := t.filter (fun e => e.1 != k)

inductive PairMsg where
  /-- `AddTokenPair` / `SetTokenPair` inside a message; `ok = false`: a later step of the same transaction / proposal fails,
  so its store writes are discarded -/
  | register (k : String) (v : Nat) (ok : Bool)
  | remove (k : String) (ok : Bool)
  /-- a conversion / send-to-external / IBC refund resolving the pair: succeeds (with the pair) or is rejected -/
  | use (k : String)
  deriving DecidableEq, Repr

/-- the seeded shape: a process-local map written through by the setters and consulted before the store by the getter -/
def writeThroughHandler : Handler Pairs Pairs PairMsg (Option Nat) := fun cache store m =>
  match m with
  | .register k v ok => (pset cache k v, if ok then pset store k v else store, none)
  | .remove k ok => (pdel cache k, if ok then pdel store k else store, none)
  | .use k =>
    match pget cache k with
    | some v => (cache, store, some v)
    | none =>
      match pget store k with
      | some v => (pset cache k v, store, some v)
      | none => (cache, store, none)

/-- the code as it is: every lookup reads the store -/
def noCacheHandler : Handler Unit Pairs PairMsg (Option Nat) := fun _ store m =>
  match m with
  | .register k v ok => ((), if ok then pset store k v else store, none)
  | .remove k ok => ((), if ok then pdel store k else store, none)
  | .use k => ((), store, pget store k)

/-- a cache that is CHECKED against the store on every use: the raw record is read anyway and the cached decoding is
used only when it belongs to exactly that record (a content-addressed memo of the pure decoder `dec`) -/
def validatedHandler (dec : Nat → Nat) : Handler (List (Nat × Nat)) Pairs PairMsg (Option Nat) := fun memo store m =>
  match m with
  | .register k v ok => (memo, if ok then pset store k v else store, none)
  | .remove k ok => (memo, if ok then pdel store k else store, none)
  | .use k =>
    match pget store k with
    | none => (memo, store, none)
    | some raw =>
      match memo.find? (fun e => e.1 == raw) with
      | some e => (memo, store, some e.2)
      | none => ((raw, dec raw) :: memo, store, some (dec raw))

/-- what `validatedHandler` computes, without any memory: state effect and output as functions of the store alone -/
def noCacheDec (dec : Nat → Nat) (store : Pairs) : PairMsg → Pairs × Option Nat
  | .register k v ok => (if ok then pset store k v else store, none)
  | .remove k ok => (if ok then pdel store k else store, none)
  | .use k => (store, (pget store k).map dec)

/-- events that commit every write they execute: delivered transactions that succeed, lookups (delivered or served — a
served lookup only fills the cache from the store), restarts.  Not: a served or failing registration / removal. -/
def committing : Ev PairMsg → Bool
  | .deliver (.register _ _ ok) => ok
  | .deliver (.remove _ ok) => ok
  | .deliver (.use _) => true
  | .serve (.use _) => true
  | .serve _ => false
  | .restart => true

/-- every cached entry is what the store holds -/
def coherent (cache store : Pairs) : Prop := ∀ k v, pget cache k = some v → pget store k = some v

end FxVerif.Model.C17
