import FxVerif.Gen.C15
/-!
# C15 model — fx-core `x/gov` wrapper: deposits, activation, per-type period/quorum, end-blocker

Core Lean only, total, executable.  One deposit denom (the staking coin; `validateDepositDenom` admits only the
denoms of `params.MinDeposit`), amounts are `Nat`; decimals (`LegacyDec`) are `Nat` scaled by 10^18; times and periods
are whole seconds.  Community-pool-spend requests carry an amount in the deposit denom (`fx`) and one in some other
denom (`other`), because `GetMinDepositAmountFromProposalMsgs` works on `sdk.Coins`.

What the code does is read from `/repo` where a fact can be seen in the AST (`FxVerif.Gen.C15`): the model's choice points
are driven by those generated definitions.

The tally is modelled down to its arithmetic: votes (weighted options) are state; the staking numbers (bonded tokens and
delegator shares of the bonded validators, the voters' delegations, total bonded) are the environment input of a block;
`LegacyDec` `Mul` / `Quo` with their roundings, the per-option sums and the decision sequence — regenerated from the AST
of `Tally`, in source order, a `Quo` by zero being a panic — are computed here.

Ghost components (never read by the transition function): `paid`, `settled`, `minted`, `burned`, `charged`, `credited`.
-/
namespace FxVerif.Model.C15
open FxVerif.Gen.C15

abbrev Addr := Nat
abbrev Ty := List Char

def DEC : Nat := 1000000000000000000

/-- `n / d` rounded half to even (`LegacyDec.RoundInt`, banker's rounding) -/
def roundHalfEven (n d : Nat) : Nat :=
  let q := n / d
  let r := n % d
  if 2 * r < d then q else if d < 2 * r then q + 1 else if q % 2 == 0 then q else q + 1

/-- `LegacyNewDecFromInt(a).Mul(r).RoundInt()` -/
def mulRound (a r : Nat) : Nat := roundHalfEven (a * r) DEC
/-- `a.ToLegacyDec().Mul(r).TruncateInt()` -/
def mulTrunc (a r : Nat) : Nat := a * r / DEC

/-- the rounding read from the source -/
def egfShare (a r : Nat) : Nat :=
  if egfRounding == "RoundInt" then mulRound a r else if egfRounding == "TruncateInt" then mulTrunc a r else 0

structure Params where
  minDeposit : Nat := 1000
  expMinDeposit : Nat := 5000
  maxDepositPeriod : Nat := 100
  votingPeriod : Nat := 100
  expVotingPeriod : Nat := 50
  quorum : Nat := 400000000000000000
  minInitialDepositRatio : Nat := 0
  minDepositRatio : Nat := 0
  cancelRatio : Nat := 500000000000000000
  /-- 0: burn (`""`), 1: community pool, `a+2`: account `a` -/
  cancelDest : Nat := 0
  burnPrevote : Bool := false
  burnVoteQuorum : Bool := false
  burnVoteVeto : Bool := true
  threshold : Nat := 500000000000000000
  expThreshold : Nat := 667000000000000000
  vetoThreshold : Nat := 334000000000000000
  deriving Repr, DecidableEq

/-- `v1.Params.ValidateBasic`, the part over the modelled fields -/
def Params.valid (p : Params) : Bool :=
  0 < p.minDeposit && p.minDeposit < p.expMinDeposit && 0 < p.maxDepositPeriod && 0 < p.votingPeriod &&
  0 < p.expVotingPeriod && p.expVotingPeriod < p.votingPeriod && p.quorum ≤ DEC && p.minInitialDepositRatio ≤ DEC &&
  p.minDepositRatio ≤ DEC && p.cancelRatio ≤ DEC &&
  0 < p.threshold && p.threshold ≤ DEC && 0 < p.expThreshold && p.expThreshold ≤ DEC && p.threshold < p.expThreshold &&
  0 < p.vetoThreshold && p.vetoThreshold ≤ DEC

structure Custom where
  depositRatio : Nat
  votingPeriod : Nat
  quorum : Nat
  deriving Repr, DecidableEq

/-- `CustomParams.ValidateBasic` -/
def Custom.valid (c : Custom) : Bool := 0 < c.votingPeriod && c.quorum ≤ DEC && c.depositRatio ≤ DEC

/-- what a proposal message does when it runs (the handlers are dependency code; these are the effects the harness can
observe): nothing, a compare-and-set on a raw store cell (`MsgUpdateStore`), a credit from the community pool
(`MsgCommunityPoolSpend`), a change of the custom gov parameters (`MsgUpdateCustomParams`) -/
inductive Act where
  | noop
  | cas (k old new : Nat)
  | credit (fx other : Nat) (to : Addr)
  | setCustom (url : Ty) (c : Option Custom)
  /-- `MsgDeposit{depositor: the gov module account}` on proposal `pid` — only a message of a passed proposal can carry it
  (its signer is the gov account) -/
  | govDeposit (pid amt : Nat)
  /-- `MsgSubmitProposal{proposer: the gov module account}` with an initial deposit, no messages of its own -/
  | govSubmit (initial : Nat) (expedited : Bool)
  /-- ABSTRACT (round 5): any other message whose signer is the gov module account and whose handler moves `amt` of the
  deposit denomination OUT of that account to `to` — bank `MsgSend` / `MsgMultiSend` from the gov account,
  `MsgFundCommunityPool{depositor: gov}`, `MsgDelegate{delegator: gov}` … — all of them legal proposal messages (the only
  signer is the gov account, a handler is routed).  The gov module account holds nothing but the escrowed deposits, so the
  coins such a message moves ARE deposits of open proposals. -/
  | govSpend (amt : Nat) (to : Addr)
  deriving Repr, DecidableEq

structure Msg where
  ty : Ty
  /-- `ValidateBasic` passes, the only signer is the gov account, a handler is routed -/
  wellFormed : Bool
  /-- environment: the handler succeeds when it runs (a `cas` additionally needs the cell to hold `old`) -/
  ok : Bool
  act : Act
  /-- for a `MsgExecLegacyContent`: the type url of the v1beta1 content it wraps -/
  inner : Ty := []
  deriving Repr, DecidableEq

inductive Status where
  | deposit | voting | passed | rejected | failed
  deriving Repr, DecidableEq

structure Proposal where
  id : Nat
  msgs : List Msg
  proposer : Addr
  status : Status
  total : Nat
  depositEnd : Nat
  votingStart : Nat
  votingEnd : Nat
  expedited : Bool
  /-- `FinalTallyResult` (yes, abstain, no, no-with-veto), whole tokens (`TruncateInt`) -/
  tallyRes : Nat × Nat × Nat × Nat := (0, 0, 0, 0)
  deriving Repr, DecidableEq

inductive Opt where
  | yes | abstain | no | veto
  deriving Repr, DecidableEq

/-- a stored vote: weighted options, weights ·10^18 -/
structure Vote where
  pid : Nat
  voter : Addr
  opts : List (Opt × Nat)
  deriving Repr, DecidableEq

/-- the per-option sums of `Tally` (`LegacyDec`s, ·10^18) together with total bonded tokens (an `Int`) -/
structure Nums where
  bonded : Nat := 0
  total : Nat := 0
  yes : Nat := 0
  abstain : Nat := 0
  no : Nat := 0
  veto : Nat := 0
  deriving Repr, DecidableEq

structure Dep where
  pid : Nat
  who : Addr
  amt : Nat
  deriving Repr, DecidableEq

inductive Kind where
  | refund | burn | cancel (charge : Nat)
  deriving Repr, DecidableEq

structure Settle where
  pid : Nat
  who : Addr
  amt : Nat
  kind : Kind
  deriving Repr, DecidableEq

structure State where
  time : Nat := 0
  nextId : Nat := 1
  params : Params := {}
  custom : List (Ty × Custom) := []
  props : List Proposal := []
  deps : List Dep := []
  /-- `InactiveProposalsQueue`: (deposit end, id), kept in key order -/
  inactive : List (Nat × Nat) := []
  /-- `ActiveProposalsQueue`: (voting end, id), kept in key order -/
  active : List (Nat × Nat) := []
  /-- balance of the gov module account -/
  gov : Nat := 0
  bal : List (Addr × Nat) := []
  kv : List (Nat × Nat) := []
  /-- `Votes`: at most one per (proposal, voter) -/
  votes : List Vote := []
  -- ghosts
  paid : List Dep := []
  settled : List Settle := []
  minted : Nat := 0
  burned : Nat := 0
  charged : Nat := 0
  credited : Nat := 0
  /-- ghost: what messages of passed proposals moved out of the gov module account (`Act.govSpend`) -/
  spent : Nat := 0
  deriving Repr

def init : State := {}

/-! ## small stores -/

def getBal (b : List (Addr × Nat)) (a : Addr) : Nat :=
  match b with
  | [] => 0
  | (x, v) :: r => if x == a then v else getBal r a

def setBal (b : List (Addr × Nat)) (a : Addr) (v : Nat) : List (Addr × Nat) :=
  match b with
  | [] => [(a, v)]
  | (x, w) :: r => if x == a then (x, v) :: r else (x, w) :: setBal r a v

def credit (b : List (Addr × Nat)) (a : Addr) (v : Nat) : List (Addr × Nat) := setBal b a (getBal b a + v)

def totalBal : List (Addr × Nat) → Nat
  | [] => 0
  | (_, v) :: r => v + totalBal r

def getCustom (cs : List (Ty × Custom)) (t : Ty) : Option Custom :=
  match cs with
  | [] => none
  | (u, c) :: r => if u == t then some c else getCustom r t

def eraseCustom (cs : List (Ty × Custom)) (t : Ty) : List (Ty × Custom) := cs.filter (fun p => !(p.1 == t))

def setCustom (cs : List (Ty × Custom)) (t : Ty) (c : Custom) : List (Ty × Custom) := (t, c) :: eraseCustom cs t

def findProp : List Proposal → Nat → Option Proposal
  | [], _ => none
  | p :: r, id => if p.id == id then some p else findProp r id

def putProp : List Proposal → Proposal → List Proposal
  | [], _ => []
  | p :: r, q => (if p.id == q.id then q else p) :: putProp r q

def dropProp : List Proposal → Nat → List Proposal
  | [], _ => []
  | p :: r, id => if p.id == id then dropProp r id else p :: dropProp r id

def sumAmt : List Dep → Nat
  | [] => 0
  | d :: r => d.amt + sumAmt r

def depsOf (ds : List Dep) (pid : Nat) : List Dep := ds.filter (fun d => d.pid == pid)
def depsNot (ds : List Dep) (pid : Nat) : List Dep := ds.filter (fun d => !(d.pid == pid))

/-- add to (or create) the deposit record of `(pid, who)` -/
def addDep (ds : List Dep) (pid : Nat) (who : Addr) (amt : Nat) : List Dep :=
  match ds with
  | [] => [⟨pid, who, amt⟩]
  | d :: r => if d.pid == pid && d.who == who then { d with amt := d.amt + amt } :: r else d :: addDep r pid who amt

def insertQ (e : Nat × Nat) : List (Nat × Nat) → List (Nat × Nat)
  | [] => [e]
  | x :: r => if e.1 < x.1 || (e.1 == x.1 && e.2 ≤ x.2) then (if e == x then x :: r else e :: x :: r) else x :: insertQ e r

def removeQ (e : Nat × Nat) (q : List (Nat × Nat)) : List (Nat × Nat) := q.filter (fun x => !(x == e))

/-- ids of the queue entries with time ≤ `t`, in key order (`NewPrefixUntilPairRange(blockTime)`) -/
def dueIds (q : List (Nat × Nat)) (t : Nat) : List Nat := (q.filter (fun x => x.1 ≤ t)).map (·.2)

/-! ## message type rules -/

def lowerAscii (t : Ty) : Ty := t.map Char.toLower

/-- the comparison read from `checkProposalMsgs` -/
def sameType (a b : Ty) : Bool :=
  if msgTypeCmp == "strings.EqualFold" then lowerAscii a == lowerAscii b else a == b

/-- `checkProposalMsgs`: every message is compared with its predecessor -/
def checkMsgs : List Msg → Bool
  | [] => true
  | [_] => true
  | a :: b :: r => sameType a.ty b.ty && checkMsgs (b :: r)

/-- `sdk.MsgTypeURL` applied to a `*codectypes.Any` wrapper -/
def anyUrl : Ty := "/google.protobuf.Any".toList

/-- the type url a custom-parameter lookup uses, by the kind read from the source (`getProposalMsgType` /
`types.ExtractMsgTypeURL`), for the first message -/
def typeUrlBy (kind : String) (msgs : List Msg) : Ty :=
  match msgs with
  | [] => []
  | m :: _ =>
    if kind == "first-message-url" then m.ty
    else if kind == "unwrap-legacy-content" then (if lowerAscii m.ty == lowerAscii legacyUrl.toList then m.inner else m.ty)
    else if kind == "any-wrapper-url" then anyUrl
    else []

/-- … in `GetCustomMsgVotingPeriod` -/
def propTypeP (msgs : List Msg) : Ty := typeUrlBy periodLookupType msgs
/-- … in `GetCustomMsgQuorum` -/
def propTypeQ (msgs : List Msg) : Ty := typeUrlBy quorumLookupType msgs

/-- the url that `GetMinDepositAmountFromProposalMsgs` compares with the EGF url, for one message -/
def egfSeenUrl (m : Msg) : Ty := if egfUrlIsMessageUrl then m.ty else anyUrl

def isEgf (t : Ty) : Bool :=
  if egfTypeCmp == "strings.EqualFold" then lowerAscii t == lowerAscii egfUrl.toList else t == egfUrl.toList

/-- total requested amounts (deposit denom, other denom) when *every* message is a community-pool spend -/
def egfRequest : List Msg → Option (Nat × Nat)
  | [] => some (0, 0)
  | m :: r =>
    if isEgf (egfSeenUrl m) then
      match egfRequest r with
      | some (a, b) =>
        match m.act with
        | .credit fx other _ => some (a + fx, b + other)
        | _ => some (a, b)
      | none => none
    else none

/-- a minimum deposit as `sdk.Coins` restricted to two denoms: `none` = denom absent -/
structure MinCoins where
  fx : Option Nat
  other : Option Nat
  deriving Repr, DecidableEq

/-- `GetMinDepositAmountFromProposalMsgs(defaultMin, proposal)` -/
def minForMsgs (custom : List (Ty × Custom)) (dflt : Nat) (msgs : List Msg) : MinCoins :=
  let d : MinCoins := ⟨some dflt, none⟩
  if !activationUsesMsgMin then d else
  match egfRequest msgs with
  | none => d
  | some (reqFx, reqOther) =>
    match getCustom custom egfUrl.toList with
    | none => d
    | some c =>
      if egfZeroRatioIsDefault && c.depositRatio == 0 then d else
      -- `Coins.Add` drops zero amounts; the multiplication keeps the entries
      let sFx := if reqFx == 0 then none else some (egfShare reqFx c.depositRatio)
      let sOther := if reqOther == 0 then none else some (egfShare reqOther c.depositRatio)
      if egfCombine == "share-unless-IsAllLT-default" then
        -- `minDepositCoins.IsAllLT(default)` = `default.IsAllGT(minDepositCoins)`
        let allLT := match sFx, sOther with
          | none, none => true
          | some x, none => x < dflt
          | _, some _ => false
        if allLT then d else ⟨sFx, sOther⟩
      else if egfCombine == "max" then
        -- `Coins.Max`: per-denom maximum, zero amounts dropped
        ⟨some (max dflt (sFx.getD 0)), match sOther with | some (y + 1) => some (y + 1) | _ => none⟩
      else ⟨sFx, sOther⟩

/-- `sdk.NewCoins(total).IsAllGTE(min)` / `IsAllGT` for a deposit total in the deposit denom only -/
def reaches (total : Nat) (m : MinCoins) : Bool :=
  if activationCmp == "IsAllGTE" then
    match m.fx, m.other with
    | none, none => true
    | _, _ => total != 0 && (match m.fx with | some x => x ≤ total | none => true) &&
                (match m.other with | some y => y == 0 | none => true)
  else if activationCmp == "IsAllGT" then
    match m.fx, m.other with
    | none, none => total != 0
    | some x, none => x < total
    | _, some _ => false
  else false

/-! ### the custom-parameter look-ups, statement by statement (round 5)

`GetCustomMsgVotingPeriod` and `GetCustomMsgQuorum` are no longer two flags ("has the expected shape"): their top-level
statements are regenerated as (kind, argument) pairs (`customPeriodSteps`, `customQuorumSteps`) and INTERPRETED here in source
order — which type url the look-up uses, under which condition which expression is returned. -/

/-- the value of a returned expression: a field of the entry in scope (the zero value when none is), or the default argument -/
def lookupValue (c : Option Custom) (dflt : Nat) (what : String) : Nat :=
  if what == "customParams.VotingPeriod" then (c.map (·.votingPeriod)).getD 0
  else if what == "customParams.Quorum" then (c.map (·.quorum)).getD 0
  else if what == "customParams.DepositRatio" then (c.map (·.depositRatio)).getD 0
  else if what == "defaultVotingPeriod" || what == "defaultQuorum" then dflt
  else 0

/-- locals of a look-up: `msgType`, the value returned so far -/
structure LookupLocals where
  ty : Ty := []
  ret : Option Nat := none

/-- one top-level statement of a look-up -/
def lookupStep (custom : List (Ty × Custom)) (msgs : List Msg) (dflt : Nat) (l : LookupLocals) (st : String × String) : LookupLocals :=
  if l.ret.isSome then l else
  if st.1 == "msgType" then { l with ty := typeUrlBy st.2 msgs }
  else if st.1 == "ifFound" then
    (match getCustom custom l.ty with
     | some c => { l with ret := some (lookupValue (some c) dflt st.2) }
     | none => l)
  else if st.1 == "ifNotFound" then
    (match getCustom custom l.ty with
     | some _ => l
     | none => { l with ret := some (lookupValue none dflt st.2) })
  else if st.1 == "return" then { l with ret := some (lookupValue none dflt st.2) }
  else l

/-- a look-up, statement by statement in SOURCE ORDER -/
def lookupRun (prog : List (String × String)) (custom : List (Ty × Custom)) (msgs : List Msg) (dflt : Nat) : Nat :=
  ((prog.foldl (lookupStep custom msgs dflt) {}).ret).getD dflt

/-- `GetCustomMsgVotingPeriod(ctx, dflt, proposal)` -/
def customPeriodOf (custom : List (Ty × Custom)) (msgs : List Msg) (dflt : Nat) : Nat := lookupRun customPeriodSteps custom msgs dflt
/-- `GetCustomMsgQuorum(ctx, dflt, proposal)` -/
def customQuorumOf (custom : List (Ty × Custom)) (msgs : List Msg) (dflt : Nat) : Nat := lookupRun customQuorumSteps custom msgs dflt

/-- the period used when voting starts (`ActivateVotingPeriod`) -/
def activationPeriod (s : State) (p : Proposal) : Nat :=
  let dflt := if activationDefaultByExpedited && p.expedited then s.params.expVotingPeriod else s.params.votingPeriod
  if activationUsesCustomPeriod then customPeriodOf s.custom p.msgs dflt else dflt

/-- the period used when a failed expedited proposal becomes a regular one (`EndBlocker`) -/
def conversionPeriod (s : State) (p : Proposal) : Nat :=
  if conversionUsesCustomPeriod then customPeriodOf s.custom p.msgs s.params.votingPeriod else s.params.votingPeriod

/-- the quorum used by `Tally` -/
def quorumFor (s : State) (p : Proposal) : Nat :=
  if tallyQuorumByType then customQuorumOf s.custom p.msgs s.params.quorum else s.params.quorum

/-! ## tally arithmetic (`x/gov/keeper/tally.go`) -/

inductive Err where
  | halt (why : String)
  deriving Repr, DecidableEq

/-- `LegacyDec.Mul`: the product, then `chopPrecisionAndRound` (half to even) -/
def decMul (a b : Nat) : Nat := roundHalfEven (a * b) DEC

/-- `LegacyDec.Quo`: `a·10^36 / b` truncated, then `chopPrecisionAndRound`; a zero divisor panics (`none`).
(the literal factor is written first: `Nat.mul` recurses on its second argument) -/
def decQuo (a b : Nat) : Option Nat := if b == 0 then none else some (roundHalfEven (DEC * DEC * a / b) DEC)

/-- `a.<op>(b)` on decimals -/
def cmpDec (op : String) (a b : Nat) : Bool :=
  if op == "LT" then decide (a < b) else if op == "LTE" then decide (a ≤ b)
  else if op == "GT" then decide (b < a) else if op == "GTE" then decide (b ≤ a) else false

/-- a bonded validator as `Tally` sees it: operator account, `GetBondedTokens()` (an `Int`), `GetDelegatorShares()` -/
structure Val where
  op : Addr
  bonded : Nat
  shares : Nat
  deriving Repr, DecidableEq

/-- a delegation of a (possible) voter -/
structure Del where
  who : Addr
  val : Addr
  shares : Nat
  deriving Repr, DecidableEq

/-- environment input of a block: the staking numbers the tallies of its end-blocker read -/
structure Staking where
  vals : List Val := []
  dels : List Del := []
  totalBonded : Nat := 0
  deriving Repr, DecidableEq

def findVal : List Val → Addr → Option Val
  | [], _ => none
  | v :: r, a => if v.op == a then some v else findVal r a

def addOpt (n : Nums) (o : Opt) (x : Nat) : Nums :=
  match o with
  | .yes => { n with yes := n.yes + x }
  | .abstain => { n with abstain := n.abstain + x }
  | .no => { n with no := n.no + x }
  | .veto => { n with veto := n.veto + x }

/-- `results[option.Option] = results[option.Option].Add(votingPower.Mul(weight))` for every option of a vote -/
def addOpts (mulOk : Bool) (pw : Nat) : List (Opt × Nat) → Nums → Nums
  | [], n => n
  | (o, w) :: r, n => addOpts mulOk pw r (addOpt n o (if mulOk then decMul pw w else 0))

/-- … and `totalVotingPower = totalVotingPower.Add(votingPower)` -/
def addPower (mulOk : Bool) (pw : Nat) (opts : List (Opt × Nat)) (n : Nums) : Nums :=
  if tallyAccumulatesBoth then { addOpts mulOk pw opts n with total := n.total + pw } else n

/-- voting power of one delegation of a voter: shares · bonded tokens / validator shares -/
def delPower (v : Val) (shares : Nat) : Option Nat :=
  if tallyDelegatorPower == "delegation.GetShares().MulInt(val.BondedTokens).Quo(val.DelegatorShares)" then
    decQuo (shares * v.bonded) v.shares
  else some 0

/-- voting power of a validator that voted: what is left of its shares after the voting delegators' deductions -/
def valPower (v : Val) (ded : Nat) : Option Nat :=
  if tallyValidatorPower == "sharesAfterDeductions.MulInt(val.BondedTokens).Quo(val.DelegatorShares)" &&
      tallySharesAfterDeductions == "val.DelegatorShares.Sub(val.DelegatorDeductions)" then
    decQuo ((v.shares - ded) * v.bonded) v.shares
  else some 0

/-- `IterateDelegations(voter)`: only delegations to bonded validators count -/
def delLoop (vals : List Val) (opts : List (Opt × Nat)) : List Del → Nums → Option Nums
  | [], n => some n
  | d :: r, n =>
    match findVal vals d.val with
    | none => if tallyDelegationNeedsBondedValidator then delLoop vals opts r n else none
    | some v =>
      match delPower v d.shares with
      | none => none
      | some pw => delLoop vals opts r (addPower (tallySubPowerDelegator == "votingPower.Mul(weight)") pw opts n)

/-- `Votes.Walk` over the votes of the proposal -/
def voteLoop (stk : Staking) : List Vote → Nums → Option Nums
  | [], n => some n
  | v :: r, n =>
    match delLoop stk.vals v.opts (stk.dels.filter (fun d => d.who == v.voter)) n with
    | none => none
    | some n' => voteLoop stk r n'

def sumShares : List Del → Nat
  | [] => 0
  | d :: r => d.shares + sumShares r

/-- `val.DelegatorDeductions`: the shares of all delegations to `a` held by accounts that voted -/
def deductions (votes : List Vote) (dels : List Del) (a : Addr) : Nat :=
  if tallyDeductsDelegatorShares then
    sumShares (dels.filter (fun d => d.val == a && votes.any (fun v => v.voter == d.who)))
  else 0

def voteOf : List Vote → Addr → Option Vote
  | [], _ => none
  | v :: r, a => if v.voter == a then some v else voteOf r a

/-- the second loop: every bonded validator whose operator voted -/
def valLoop (votes : List Vote) (dels : List Del) : List Val → Nums → Option Nums
  | [], n => some n
  | v :: r, n =>
    match (if tallyRecordsValidatorVote then voteOf votes v.op else none) with
    | none =>
      if tallySkipsSilentValidators then valLoop votes dels r n else
      match valPower v (deductions votes dels v.op) with
      | none => none
      | some pw => valLoop votes dels r (addPower true pw [] n)
    | some vt =>
      match valPower v (deductions votes dels v.op) with
      | none => none
      | some pw => valLoop votes dels r (addPower (tallySubPowerValidator == "votingPower.Mul(weight)") pw vt.opts n)

/-- per-option sums and total of the votes of one proposal (`none`: a `Quo` by zero) -/
def tallyNums (votes : List Vote) (stk : Staking) : Option Nums :=
  match voteLoop stk votes { bonded := stk.totalBonded } with
  | none => none
  | some n => valLoop votes stk.dels stk.vals n

/-- a decimal parameter named in the source -/
def paramDec (p : Params) (src : String) : Nat :=
  if src == "params.VetoThreshold" then p.vetoThreshold
  else if src == "params.GetThreshold()" || src == "params.Threshold" then p.threshold
  else if src == "params.GetExpeditedThreshold()" || src == "params.ExpeditedThreshold" then p.expThreshold
  else if src == "params.Quorum" then p.quorum
  else 0

/-- a boolean named in the source -/
def paramBool (p : Params) (src : String) : Bool :=
  if src == "true" then true
  else if src == "params.BurnVoteQuorum" then p.burnVoteQuorum
  else if src == "params.BurnVoteVeto" then p.burnVoteVeto
  else if src == "params.BurnProposalDepositPrevote" then p.burnPrevote
  else false

/-- the yes threshold: by `proposal.Expedited` -/
def yesThreshold (s : State) (p : Proposal) : Nat :=
  paramDec s.params (if p.expedited then tallyThresholdExpedited else tallyThresholdRegular)

/-- does a test of the decision sequence fire?  `none` = `Quo` by zero -/
def condFires (s : State) (p : Proposal) (n : Nums) (pct : Option Nat) : TallyCond → Option Bool
  | .bondedZero => some (n.bonded == 0)
  | .turnout cmp =>
    match pct with
    | some x => some (cmpDec cmp x (quorumFor s p))
    | none => some false
  | .nonAbstainZero => some (n.total == n.abstain)
  | .veto cmp thr => (decQuo n.veto n.total).map (fun x => cmpDec cmp x (paramDec s.params thr))
  | .yes cmp => (decQuo n.yes (n.total - n.abstain)).map (fun x => cmpDec cmp x (yesThreshold s p))
  | .unknown _ => some false

/-- one statement of the decision sequence: `.ok (some r, _)` = it returns `r`; otherwise the (possibly updated)
`percentVoting` is passed on; `.error` = a `Quo` by zero -/
def stepDecide (s : State) (p : Proposal) (n : Nums) (st : TallyStep) (pct : Option Nat) :
    Except Err (Option (Bool × Bool) × Option Nat) :=
  match st with
  | .percent ok _ =>
    if ok then
      match decQuo n.total (DEC * n.bonded) with
      | none => .error (.halt "tally: division by zero")
      | some x => .ok (none, some x)
    else .ok (none, pct)
  | .ret c passes burn =>
    match condFires s p n pct c with
    | none => .error (.halt "tally: division by zero")
    | some true => .ok (some (passes, paramBool s.params burn), pct)
    | some false => .ok (none, pct)
  | .other _ => .ok (none, pct)

/-- the decision sequence, statement by statement in source order -/
def decideFrom (s : State) (p : Proposal) (n : Nums) : List TallyStep → Option Nat → Except Err (Bool × Bool)
  | [], _ => .ok (tallyFinalPasses, paramBool s.params tallyFinalBurn)
  | st :: r, pct =>
    match stepDecide s p n st pct with
    | .error e => .error e
    | .ok (some res, _) => .ok res
    | .ok (none, pct') => decideFrom s p n r pct'

/-- `Tally`, after the sums: (passes, burnDeposits) -/
def tally (s : State) (p : Proposal) (n : Nums) : Except Err (Bool × Bool) := decideFrom s p n tallySteps none

def votesOf (vs : List Vote) (pid : Nat) : List Vote := vs.filter (fun v => v.pid == pid)
def votesNot (vs : List Vote) (pid : Nat) : List Vote := vs.filter (fun v => !(v.pid == pid))

/-- `Votes.Set`: one vote per (proposal, voter) -/
def setVote (vs : List Vote) (v : Vote) : List Vote :=
  vs.filter (fun x => !(x.pid == v.pid && x.voter == v.voter)) ++ [v]

def sumW : List (Opt × Nat) → Nat
  | [] => 0
  | (_, w) :: r => w + sumW r

def distinctOpts : List (Opt × Nat) → Bool
  | [] => true
  | (o, _) :: r => r.all (fun x => !(x.1 == o)) && distinctOpts r

/-- `MsgVoteWeighted` validation: every weight in (0, 1], no option twice, the weights add up to 1 -/
def optsValid (opts : List (Opt × Nat)) : Bool :=
  !opts.isEmpty && opts.all (fun o => decide (0 < o.2) && decide (o.2 ≤ DEC)) && distinctOpts opts && sumW opts == DEC

/-! ## deposits in and out -/

/-- `RefundAndDeleteDeposits`: one bank transfer per stored deposit; a failing transfer is returned as an error -/
def refundLoop : List Dep → Nat → List (Addr × Nat) → Except Err (Nat × List (Addr × Nat))
  | [], g, b => .ok (g, b)
  | d :: r, g, b => if g < d.amt then .error (.halt "refund: insufficient module balance") else refundLoop r (g - d.amt) (credit b d.who d.amt)

def refundDeposits (pid : Nat) (s : State) : Except Err State :=
  match refundLoop (depsOf s.deps pid) s.gov s.bal with
  | .error e => .error e
  | .ok (g, b) =>
    .ok { s with gov := g, bal := b, deps := depsNot s.deps pid,
                 settled := s.settled ++ (depsOf s.deps pid).map (fun d => ⟨d.pid, d.who, d.amt, .refund⟩) }

/-- `DeleteAndBurnDeposits`: delete all, then one `BurnCoins` of the sum -/
def burnDeposits (pid : Nat) (s : State) : Except Err State :=
  let sum := sumAmt (depsOf s.deps pid)
  if s.gov < sum then .error (.halt "burn: insufficient module balance") else
  .ok { s with gov := s.gov - sum, burned := s.burned + sum, deps := depsNot s.deps pid,
               settled := s.settled ++ (depsOf s.deps pid).map (fun d => ⟨d.pid, d.who, d.amt, .burn⟩) }

/-- `ChargeDeposit` loop: refund `amt - trunc(amt·rate)` of every deposit, return the charges -/
def chargeLoop (rate : Nat) : List Dep → Nat → List (Addr × Nat) → Option (Nat × List (Addr × Nat) × Nat)
  | [], g, b => some (g, b, 0)
  | d :: r, g, b =>
    let keep := d.amt - mulTrunc d.amt rate
    if g < keep then none else
    match chargeLoop rate r (g - keep) (credit b d.who keep) with
    | some (g', b', c) => some (g', b', c + (d.amt - keep))
    | none => none

/-! ## message server -/

/-- the time under which `ActivateVotingPeriod` enters the proposal into the active queue: the voting end it stores
(regenerated: the queue key is `*proposal.VotingEndTime`); otherwise the end computed from the default period of the kind -/
def activationQueueTime (s : State) (p : Proposal) : Nat :=
  if activationQueueKeyIsVotingEnd then s.time + activationPeriod s p
  else s.time + (if p.expedited then s.params.expVotingPeriod else s.params.votingPeriod)

/-- `ActivateVotingPeriod` -/
def activate (s : State) (p : Proposal) : State :=
  let vp := activationPeriod s p
  let p' := { p with status := .voting, votingStart := s.time, votingEnd := s.time + vp }
  { s with props := putProp s.props p',
           inactive := removeQ (p.depositEnd, p.id) s.inactive,
           active := insertQ (activationQueueTime s p, p.id) s.active }

/-- the locals of `ActivateVotingPeriod`: the store, the proposal it received BY VALUE, `startTime`, `votingPeriod`, `endTime` -/
structure ActLocals where
  s : State
  p : Proposal
  start : Nat := 0
  period : Nat := 0
  endT : Nat := 0

/-- one top-level statement of `ActivateVotingPeriod`, by its regenerated tag -/
def activateStep (l : ActLocals) (tag : String) : ActLocals :=
  if tag == "startTime=blockTime" then { l with start := l.s.time }
  else if tag == "setVotingStart" then { l with p := { l.p with votingStart := l.start } }
  else if tag == "periodByExpedited" then
    { l with period := if l.p.expedited then l.s.params.expVotingPeriod else l.s.params.votingPeriod }
  else if tag == "customPeriod" then
    -- `votingPeriod = GetCustomMsgVotingPeriod(ctx, votingPeriod, proposal)`: its body is interpreted (`customPeriodSteps`)
    { l with period := customPeriodOf l.s.custom l.p.msgs l.period }
  else if tag == "endTime=start+period" then { l with endT := l.p.votingStart + l.period }
  else if tag == "setVotingEnd" then { l with p := { l.p with votingEnd := l.endT } }
  else if tag == "setStatusVoting" then { l with p := { l.p with status := .voting } }
  else if tag == "setProposal" then { l with s := { l.s with props := putProp l.s.props l.p } }
  else if tag == "removeInactive" then { l with s := { l.s with inactive := removeQ (l.p.depositEnd, l.p.id) l.s.inactive } }
  else if tag == "setActive:votingEnd" then { l with s := { l.s with active := insertQ (l.p.votingEnd, l.p.id) l.s.active } }
  else l

/-- `ActivateVotingPeriod`, statement by statement in SOURCE ORDER (`activateSteps` is regenerated from the AST on every run) -/
def activateRun (s : State) (p : Proposal) : State := (activateSteps.foldl activateStep { s := s, p := p }).s

/-- `proposal.GetMinDepositFromParams(params)` -/
def defaultMin (s : State) (expedited : Bool) : Nat :=
  if expedited then s.params.expMinDeposit else s.params.minDeposit

/-- the `MinDepositRatio` test of `AddDeposit` -/
def tooSmall (s : State) (p : Proposal) (amt : Nat) : Bool :=
  s.params.minDepositRatio != 0 && (amt == 0 || amt < mulTrunc (defaultMin s p.expedited) s.params.minDepositRatio)

/-- the writes of a successful `AddDeposit` in one piece — bank transfer, total, activation test on the NEW total against
the minimum of the message type, deposit record; `depositRun` (below) interprets the regenerated statement list and is
proved equal to this (`Proofs/C15.lean depositRun_eq`) for the order the source has -/
def depositEffect (s : State) (p : Proposal) (who : Addr) (amt : Nat) : State :=
  let p1 := { p with total := p.total + amt }
  let s1 := { s with bal := setBal s.bal who (getBal s.bal who - amt), gov := s.gov + amt, props := putProp s.props p1 }
  let s2 := if p1.status == .deposit && reaches p1.total (minForMsgs s.custom (defaultMin s p.expedited) p1.msgs)
            then activate s1 p1 else s1
  { s2 with deps := addDep s2.deps p.id who amt, paid := s2.paid ++ [⟨p.id, who, amt⟩] }

/-- the local variables of `AddDeposit` that its statements read and write: the store, the local copy of the proposal
(`ActivateVotingPeriod` receives it BY VALUE), `minDepositAmount` -/
structure DepLocals where
  s : State
  p : Proposal
  min : MinCoins

/-- one top-level statement of `AddDeposit`, by its regenerated tag; statements that neither read nor write what the
property speaks about (look-ups, hooks, events, the merged deposit record before it is stored) change nothing here -/
def depStep (who : Addr) (amt : Nat) (l : DepLocals) (tag : String) : DepLocals :=
  if tag == "defaultMin" then { l with min := ⟨some (defaultMin l.s l.p.expedited), none⟩ }
  else if tag == "sendCoins" then
    { l with s := { l.s with bal := setBal l.s.bal who (getBal l.s.bal who - amt), gov := l.s.gov + amt } }
  else if tag == "addTotal" then { l with p := { l.p with total := l.p.total + amt } }
  else if tag == "setProposal" then { l with s := { l.s with props := putProp l.s.props l.p } }
  else if tag == "msgMin" then { l with min := minForMsgs l.s.custom (l.min.fx.getD 0) l.p.msgs }
  else if tag == "activate" then
    (if l.p.status == .deposit && reaches l.p.total l.min then { l with s := activateRun l.s l.p } else l)
  else if tag == "setDeposit" then
    { l with s := { l.s with deps := addDep l.s.deps l.p.id who amt, paid := l.s.paid ++ [⟨l.p.id, who, amt⟩] } }
  else l

/-- the writes of a successful `AddDeposit`, statement by statement in SOURCE ORDER (`addDepositSteps` is regenerated from
the AST on every run): whether the activation test sees the new total, the minimum of the message type and the coins in
the module account is decided by where those statements stand -/
def depositRun (s : State) (p : Proposal) (who : Addr) (amt : Nat) : State :=
  (addDepositSteps.foldl (depStep who amt) ⟨s, p, ⟨none, none⟩⟩).s

/-- `AddDeposit` (fx wrapper).  `.error` = the message fails and nothing is written. -/
def addDeposit (s : State) (pid : Nat) (who : Addr) (amt : Nat) : Except String State :=
  match findProp s.props pid with
  | none => .error "err:notfound"
  | some p =>
    if !(p.status == .deposit || p.status == .voting) then .error "err:inactive" else
    if tooSmall s p amt then .error "err:small" else
    if getBal s.bal who < amt then .error "err:funds" else
    .ok (depositRun s p who amt)

/-- locals of the SDK's `SubmitProposal`: the store, `proposalID`, `submitTime`, `depositPeriod`, the new proposal, the error
returned so far -/
structure SubmitLocals where
  s : State
  id : Nat := 0
  submitTime : Nat := 0
  depositPeriod : Nat := 0
  p : Option Proposal := none
  err : Option String := none

/-- the checks of the SDK's loop over the proposal messages that the model keeps in the one bit `Msg.wellFormed`
(`ValidateBasic`, exactly one signer, that signer is the gov account, a handler is routed, the dry run of a legacy content):
all of them are in the regenerated loop body -/
def submitLoopChecks : Bool :=
  sdkSubmitLoop.contains "validateBasic" && sdkSubmitLoop.contains "oneSigner" && sdkSubmitLoop.contains "signerIsGov" &&
  sdkSubmitLoop.contains "routable" && sdkSubmitLoop.contains "legacyDryRun"

/-- one top-level statement of the SDK's `SubmitProposal`, by its regenerated tag -/
def submitStepI (proposer : Addr) (msgs : List Msg) (expedited : Bool) (l : SubmitLocals) (tag : String) : SubmitLocals :=
  if l.err.isSome then l else
  if tag == "msgLoop" then
    (if submitLoopChecks && !msgs.all (·.wellFormed) then { l with err := some "err:msg" } else l)
  else if tag == "nextId" then { l with id := l.s.nextId, s := { l.s with nextId := l.s.nextId + 1 } }
  else if tag == "submitTime=blockTime" then { l with submitTime := l.s.time }
  else if tag == "depositPeriod=maxDepositPeriod" then { l with depositPeriod := l.s.params.maxDepositPeriod }
  else if tag == "newProposal(depositEnd=submitTime+depositPeriod)" then
    { l with p := some { id := l.id, msgs := msgs, proposer := proposer, status := .deposit, total := 0,
                         depositEnd := l.submitTime + l.depositPeriod, votingStart := 0, votingEnd := 0,
                         expedited := expedited } }
  else if tag == "setProposal" then
    (match l.p with
     | some p => { l with s := { l.s with props := l.s.props ++ [p] } }
     | none => l)
  else if tag == "inactiveQueueSet:depositEnd" then
    (match l.p with
     | some p => { l with s := { l.s with inactive := insertQ (p.depositEnd, p.id) l.s.inactive } }
     | none => l)
  else l

/-- `Keeper.SubmitProposal` of the SDK, statement by statement in SOURCE ORDER (`sdkSubmitSteps` is regenerated from the module
cache on every run): the new store and the id of the stored proposal -/
def sdkSubmitRun (s : State) (proposer : Addr) (msgs : List Msg) (expedited : Bool) : Except String (State × Nat) :=
  let l := sdkSubmitSteps.foldl (submitStepI proposer msgs expedited) { s := s }
  match l.err with
  | some e => .error e
  | none => .ok (l.s, l.id)

/-- `MsgSubmitProposal` (fx message server): one type, the initial deposit against the scaled minimum, then the SDK's
`SubmitProposal`, then `AddDeposit` of the initial deposit -/
def submit (s : State) (proposer : Addr) (msgs : List Msg) (initial : Nat) (expedited : Bool) : Except String State :=
  if !checkMsgs msgs then .error "err:type" else
  if s.params.minInitialDepositRatio != 0 &&
      (initial == 0 || initial < mulRound (defaultMin s expedited) s.params.minInitialDepositRatio) then
    .error "err:small" else
  match sdkSubmitRun s proposer msgs expedited with
  | .error e => .error e
  | .ok (s1, id) => addDeposit s1 id proposer initial

/-- `MsgDeposit` -/
def deposit (s : State) (pid : Nat) (who : Addr) (amt : Nat) : Except String State :=
  if amt == 0 then .error "err:coins" else addDeposit s pid who amt

/-- `MsgDeposit` whose coins contain `other` units of a denomination that is not listed in `params.MinDeposit`: after the
look-up and the status test `validateDepositDenom` rejects it, nothing is written -/
def depositX (s : State) (pid : Nat) (who : Addr) (fx other : Nat) : Except String State :=
  if other == 0 then deposit s pid who fx else
  match findProp s.props pid with
  | none => .error "err:notfound"
  | some p => if !(p.status == .deposit || p.status == .voting) then .error "err:inactive" else .error "err:denom"

/-! ## the gov module account as depositor (round 4, fix 45d0bc2)

The gov module account holds the deposits in escrow.  A message of a passed proposal can name it as depositor
(`MsgDeposit`) or proposer (`MsgSubmitProposal`): `SendCoinsFromAccountToModule(gov account → gov module)` moves nothing,
but the total grows and a deposit record is written.  `AddDeposit` refuses it with a guard — regenerated as the tag
`depositorNotModule:gov`; what matters is that it stands BEFORE the first write (`sendCoins`). -/

/-- the model address of the gov module account (no tracked account has it) -/
def govAcct : Addr := 1000000

/-- `AddDeposit` refuses the gov module account before anything is written (read off the regenerated statement list) -/
def depositGuardsModule : Bool :=
  (addDepositSteps.takeWhile (fun t => t != "sendCoins")).contains "depositorNotModule:gov"

/-- what `AddDeposit(pid, gov module account, amt)` writes when NO guard refuses it: no coins move (the transfer is gov → gov
and only needs the balance to cover it), the total grows, the activation test runs, a deposit record is written -/
def addDepositGovUnguarded (s : State) (pid amt : Nat) : Option State :=
  match findProp s.props pid with
  | none => none
  | some p =>
    if !(p.status == .deposit || p.status == .voting) then none else
    if tooSmall s p amt then none else
    if s.gov < amt then none else
    let p1 := { p with total := p.total + amt }
    let s1 := { s with props := putProp s.props p1 }
    let s2 := if p1.status == .deposit && reaches p1.total (minForMsgs s.custom (defaultMin s p.expedited) p1.msgs)
              then activateRun s1 p1 else s1
    some { s2 with deps := addDep s2.deps pid govAcct amt, paid := s2.paid ++ [⟨pid, govAcct, amt⟩] }

/-- `AddDeposit` with the gov module account as depositor: `none` = the message fails -/
def addDepositGov (s : State) (pid amt : Nat) : Option State :=
  if depositGuardsModule then none else
  if amt == 0 then none else addDepositGovUnguarded s pid amt

/-- `MsgSubmitProposal` with the gov module account as proposer (no messages, metadata only): the SDK's `SubmitProposal`,
then `AddDeposit` of the initial deposit from the gov account -/
def submitGov (s : State) (initial : Nat) (expedited : Bool) : Option State :=
  if depositGuardsModule then none else
  if s.params.minInitialDepositRatio != 0 &&
      (initial == 0 || initial < mulRound (defaultMin s expedited) s.params.minInitialDepositRatio) then none else
  match sdkSubmitRun s govAcct [] expedited with
  | .error _ => none
  | .ok (s1, id) => addDepositGovUnguarded s1 id initial

/-! ## proposal messages -/

def getKv (kv : List (Nat × Nat)) (k : Nat) : Nat :=
  match kv with
  | [] => 0
  | (x, v) :: r => if x == k then v else getKv r k

def setKv (kv : List (Nat × Nat)) (k v : Nat) : List (Nat × Nat) :=
  match kv with
  | [] => [(k, v)]
  | (x, w) :: r => if x == k then (x, v) :: r else (x, w) :: setKv r k v

/-- one handler call on the (cached) state; `none` = the handler returned an error or panicked -/
def execMsg (m : Msg) (s : State) : Option State :=
  if !m.ok then none else
  match m.act with
  | .noop => some s
  | .cas k old new => if getKv s.kv k == old then some { s with kv := setKv s.kv k new } else none
  | .credit fx _ to => some { s with bal := credit s.bal to fx, credited := s.credited + fx }
  | .setCustom url c =>
    match c with
    | none => some { s with custom := eraseCustom s.custom url }
    | some c => if c.valid then some { s with custom := setCustom s.custom url c } else none
  | .govDeposit pid amt => addDepositGov s pid amt
  | .govSubmit initial expedited => submitGov s initial expedited
  -- the bank transfer out of the gov module account: succeeds whenever the balance covers it — nothing tells escrow from funds
  | .govSpend amt to =>
    if s.gov < amt then none else some { s with gov := s.gov - amt, bal := credit s.bal to amt, spent := s.spent + amt }

/-- does this message move coins out of the gov module account when it runs? -/
def spendsEscrow (m : Msg) : Bool := match m.act with | .govSpend _ _ => true | _ => false

/-- no message of the list spends from the gov module account -/
def noGovSpend (ms : List Msg) : Bool := ms.all (fun m => !spendsEscrow m)

/-- the message loop on `cacheCtx`: stops at the first failure -/
def execMsgs : List Msg → State → Option State
  | [], s => some s
  | m :: r, s =>
    match execMsg m s with
    | some s' => execMsgs r s'
    | none => none

/-- the loop as far as it gets: the state after the messages that succeeded before the first failure -/
def execPrefix : List Msg → State → State
  | [], s => s
  | m :: r, s =>
    match execMsg m s with
    | some s' => execPrefix r s'
    | none => s

/-- the `passes` case of the end-blocker: `writeCache()` only when every handler succeeded -/
def runProposalMsgs (msgs : List Msg) (s : State) : State × Bool :=
  if execInCacheCtx then
    if execErrVisible then
      match execMsgs msgs s with
      | some s' => (s', true)
      | none => (s, false)
    else
      -- the test after the loop does not see the handler's error: whatever ran is written, the proposal "passed"
      (execPrefix msgs s, true)
  else
    -- no cache: the writes of the messages before the failing one stay
    let rec go : List Msg → State → State × Bool
      | [], s => (s, true)
      | m :: r, s =>
        match execMsg m s with
        | some s' => go r s'
        | none => (s, false)
    go msgs s

/-- `MsgCancelProposal` (SDK): charge, refund the rest, delete the proposal -/
def cancel (s : State) (pid : Nat) (who : Addr) : Except String State :=
  match findProp s.props pid with
  | none => .error "err:notfound"
  | some p =>
    if p.proposer != who then .error "err:proposer" else
    if !(p.status == .deposit || p.status == .voting) then .error "err:inactive" else
    if p.status == .voting && p.votingEnd < s.time then .error "err:ended" else
    match chargeLoop s.params.cancelRatio (depsOf s.deps pid) s.gov s.bal with
    | none => .error "err:funds"
    | some (g, b, c) =>
      if g < c then .error "err:funds" else
      let b' := if s.params.cancelDest ≥ 2 then credit b (s.params.cancelDest - 2) c else b
      .ok { s with gov := g - c, bal := b', deps := depsNot s.deps pid,
                   burned := if s.params.cancelDest == 0 then s.burned + c else s.burned,
                   charged := if s.params.cancelDest == 1 then s.charged + c else s.charged,
                   props := dropProp s.props pid,
                   inactive := removeQ (p.depositEnd, pid) s.inactive,
                   active := removeQ (p.votingEnd, pid) s.active,
                   votes := if p.status == .voting then votesNot s.votes pid else s.votes,
                   settled := s.settled ++ (depsOf s.deps pid).map
                     (fun d => ⟨d.pid, d.who, d.amt, .cancel (d.amt - (d.amt - mulTrunc d.amt s.params.cancelRatio))⟩) }

/-! ## the SDK keeper functions, statement by statement (round 4)

`CancelProposal`, `DeleteProposal`, `deleteVotes`, `ChargeDeposit`, `RefundAndDeleteDeposits` and `DeleteAndBurnDeposits` are
code of the Cosmos SDK version that `/repo/go.mod` selects; their statement lists are regenerated from the module cache
(`sdkCancelSteps`, `sdkDeleteProposalSteps`, `sdkDeleteVotesSteps`, `sdkChargeSteps`, `sdkChargeBody`, `sdkChargeCoin`,
`sdkChargeDest`, `sdkRefundCallback`, `sdkBurnSteps`, `sdkBurnCallback`) and interpreted here, tag by tag in source order.
`Proofs/C15Sdk.lean` proves the interpreted runs equal to the one-piece functions above (`cancel`, `refundDeposits`,
`burnDeposits`) for the lists the source has now; `step` runs `cancelRun`, the end-blocker (`dropInactive`, `finishTally`) runs
`refundRun` / `burnRun`, `AddDeposit`'s activation step runs `activateRun`. -/

/-- locals of `DeleteProposal` / `CancelProposal`: the store, the local `proposal`, the error returned so far -/
structure SdkLocals where
  s : State
  p : Option Proposal := none
  err : Option String := none

/-- one top-level statement of `DeleteProposal` -/
def deleteProposalStep (pid : Nat) (l : SdkLocals) (tag : String) : SdkLocals :=
  if l.err.isSome then l else
  if tag == "getProposal" then
    match findProp l.s.props pid with
    | none => { l with err := some "err:notfound" }
    | some p => { l with p := some p }
  else
    match l.p with
    | none => l
    | some p =>
      -- `DepositEndTime` is set at submission; `VotingEndTime` is nil before activation and no entry `(0, pid)` exists then
      if tag == "removeInactive" then { l with s := { l.s with inactive := removeQ (p.depositEnd, pid) l.s.inactive } }
      else if tag == "removeActive" then { l with s := { l.s with active := removeQ (p.votingEnd, pid) l.s.active } }
      else if tag == "removeProposal" then { l with s := { l.s with props := dropProp l.s.props pid } }
      else l

/-- `DeleteProposal`, statement by statement -/
def deleteProposalRun (pid : Nat) (s : State) : State :=
  (sdkDeleteProposalSteps.foldl (deleteProposalStep pid) { s := s }).s

/-- `deleteVotes` -/
def deleteVotesRun (pid : Nat) (s : State) : State :=
  if sdkDeleteVotesSteps.contains "rangeOfProposal" && sdkDeleteVotesSteps.contains "clearVotes" then
    { s with votes := votesNot s.votes pid } else s

/-- the coin loop of `ChargeDeposit` is the expected one: `burnAmount := trunc(amount·rate)`, `remaining += amount −
burnAmount`, `charges += burnAmount` -/
def chargeCoinOk : Bool :=
  sdkChargeCoin == ["burnAmount=trunc(amount*rate)", "remaining+=amount-burnAmount", "charges+=burnAmount"]

/-- one statement of the loop over the coins of one deposit, on (`burnAmount`, `remainingAmount`, `cancellationCharges`) — the
faithful reading of the regenerated tags (round 5); `chargeBodyStep` below still uses the closed form under the flag
`chargeCoinOk`, `Props.charge_coin_loop_statements` proves the two equal for every rate ≤ 1 (which `Params.valid` enforces) -/
def chargeCoinStep (rate amt : Nat) (acc : Nat × Nat × Nat) (tag : String) : Nat × Nat × Nat :=
  if tag == "burnAmount=trunc(amount*rate)" then (mulTrunc amt rate, acc.2.1, acc.2.2)
  else if tag == "remaining+=amount-burnAmount" then (acc.1, acc.2.1 + (amt - acc.1), acc.2.2)
  else if tag == "charges+=burnAmount" then (acc.1, acc.2.1, acc.2.2 + acc.1)
  else acc

/-- the coin loop for the one coin of a deposit, statement by statement: the new (`remainingAmount`, `cancellationCharges`) -/
def chargeCoinRun (rate amt keep chg : Nat) : Nat × Nat :=
  let r := sdkChargeCoin.foldl (chargeCoinStep rate amt) (0, keep, chg)
  (r.2.1, r.2.2)

/-- locals of `ChargeDeposit`: module balance, account balances, `remainingAmount` of the current deposit,
`cancellationCharges`, a failed bank transfer -/
structure ChargeLocals where
  g : Nat
  b : List (Addr × Nat)
  keep : Nat := 0
  chg : Nat := 0
  failed : Bool := false

/-- one statement of the body of the loop over the deposits -/
def chargeBodyStep (rate : Nat) (d : Dep) (l : ChargeLocals) (tag : String) : ChargeLocals :=
  if l.failed then l else
  if tag == "remaining0" then { l with keep := 0 }
  else if tag == "coinLoop" then
    -- one coin per deposit (one deposit denom); for a rate ≤ 1 the charge `amount − (amount − burnAmount)` is `burnAmount`
    if chargeCoinOk then
      { l with keep := l.keep + (d.amt - mulTrunc d.amt rate), chg := l.chg + (d.amt - (d.amt - mulTrunc d.amt rate)) }
    else l
  else if tag == "refundRemaining" then
    if l.g < l.keep then { l with failed := true } else { l with g := l.g - l.keep, b := credit l.b d.who l.keep }
  else l

/-- the loop over the deposits of the proposal -/
def chargeRunLoop (rate : Nat) : List Dep → ChargeLocals → ChargeLocals
  | [], l => l
  | d :: r, l => chargeRunLoop rate r (sdkChargeBody.foldl (chargeBodyStep rate d) l)

/-- what the switch over the destination does with the charges: the first case whose condition holds -/
def chargeDestAct (dest : Nat) : List String → String
  | [] => "none"
  | c :: r =>
    if c == "destAddress == \"\" => burn" then (if dest == 0 then "burn" else chargeDestAct dest r)
    else if c == "distributionAddress.String() == destAddress => fundCommunityPool" then
      (if dest == 1 then "fundCommunityPool" else chargeDestAct dest r)
    else if c == "default => sendToDest" then "sendToDest"
    else chargeDestAct dest r

/-- one top-level statement of `ChargeDeposit(proposalID, params.ProposalCancelDest, params.ProposalCancelRatio)`;
`none` = a bank transfer failed -/
def chargeTopStep (pid : Nat) (acc : Option (State × ChargeLocals)) (tag : String) : Option (State × ChargeLocals) :=
  match acc with
  | none => none
  | some (s, l) =>
    if tag == "depositLoop" then
      let l' := chargeRunLoop s.params.cancelRatio (depsOf s.deps pid) l
      if l'.failed then none else
      some ({ s with gov := l'.g, bal := l'.b,
                     deps := if sdkChargeBody.contains "removeDeposit" then depsNot s.deps pid else s.deps,
                     settled := s.settled ++ (depsOf s.deps pid).map
                       (fun d => ⟨d.pid, d.who, d.amt, .cancel (d.amt - (d.amt - mulTrunc d.amt s.params.cancelRatio))⟩) }, l')
    else if tag == "payCharges" then
      if s.gov < l.chg then none else
      let act := chargeDestAct s.params.cancelDest sdkChargeDest
      some ({ s with gov := s.gov - l.chg,
                     bal := if act == "sendToDest" && s.params.cancelDest ≥ 2 then credit s.bal (s.params.cancelDest - 2) l.chg else s.bal,
                     burned := if act == "burn" then s.burned + l.chg else s.burned,
                     charged := if act == "fundCommunityPool" then s.charged + l.chg else s.charged }, l)
    else some (s, l)

/-- `ChargeDeposit`, top-level statements in source order -/
def chargeDepositRun (pid : Nat) (s : State) : Option State :=
  (sdkChargeSteps.foldl (chargeTopStep pid) (some (s, { g := s.gov, b := s.bal }))).map (·.1)

/-- one top-level statement of `CancelProposal` -/
def cancelStepI (pid : Nat) (who : Addr) (l : SdkLocals) (tag : String) : SdkLocals :=
  if l.err.isSome then l else
  if tag == "getProposal" then
    match findProp l.s.props pid with
    | none => { l with err := some "err:notfound" }
    | some p => { l with p := some p }
  else
    match l.p with
    | none => l
    | some p =>
      if tag == "checkProposer" then (if p.proposer != who then { l with err := some "err:proposer" } else l)
      else if tag == "checkOpen" then
        (if !(p.status == .deposit || p.status == .voting) then { l with err := some "err:inactive" } else l)
      else if tag == "checkNotEnded" then
        (if p.status == .voting && p.votingEnd < l.s.time then { l with err := some "err:ended" } else l)
      else if tag == "chargeDeposit" then
        match chargeDepositRun pid l.s with
        | none => { l with err := some "err:funds" }
        | some s' => { l with s := s' }
      else if tag == "deleteVotesIfStarted" then (if p.status == .voting then { l with s := deleteVotesRun pid l.s } else l)
      else if tag == "deleteProposal" then { l with s := deleteProposalRun pid l.s }
      else l

/-- `MsgCancelProposal` → `CancelProposal`, statement by statement in the order the SDK source has -/
def cancelRun (s : State) (pid : Nat) (who : Addr) : Except String State :=
  let l := sdkCancelSteps.foldl (cancelStepI pid who) { s := s }
  match l.err with
  | some e => .error e
  | none => .ok l.s

/-- the callback of the `IterateDeposits` walk of `RefundAndDeleteDeposits` for one deposit: (module balance, balances,
record removed, failed) -/
def refundCallback (d : Dep) (acc : Nat × List (Addr × Nat) × Bool × Bool) (tag : String) : Nat × List (Addr × Nat) × Bool × Bool :=
  let (g, b, removed, failed) := acc
  if failed then acc else
  if tag == "send" then (if g < d.amt then (g, b, removed, true) else (g - d.amt, credit b d.who d.amt, removed, false))
  else if tag == "remove" then (g, b, true, failed)
  else acc

/-- the walk: every deposit of the proposal in key order; `none` = a transfer fails; the flag says whether every visited
record was removed -/
def refundWalk : List Dep → Nat → List (Addr × Nat) → Option (Nat × List (Addr × Nat) × Bool)
  | [], g, b => some (g, b, true)
  | d :: r, g, b =>
    match sdkRefundCallback.foldl (refundCallback d) (g, b, false, false) with
    | (g', b', removed, failed) =>
      if failed then none else
      match refundWalk r g' b' with
      | none => none
      | some (g'', b'', rm) => some (g'', b'', removed && rm)

/-- `RefundAndDeleteDeposits`, interpreted -/
def refundRun (pid : Nat) (s : State) : Except Err State :=
  match refundWalk (depsOf s.deps pid) s.gov s.bal with
  | none => .error (.halt "refund: insufficient module balance")
  | some (g, b, rm) =>
    .ok { s with gov := g, bal := b, deps := if rm then depsNot s.deps pid else s.deps,
                 settled := s.settled ++ (depsOf s.deps pid).map (fun d => ⟨d.pid, d.who, d.amt, .refund⟩) }

/-- the walk of `DeleteAndBurnDeposits`: (`coinsToBurn`, every visited record removed) -/
def burnWalk : List Dep → Nat × Bool
  | [] => (0, true)
  | d :: r =>
    let (sum, rm) := burnWalk r
    ((if sdkBurnCallback.contains "accumulate" then d.amt else 0) + sum, sdkBurnCallback.contains "remove" && rm)

/-- `DeleteAndBurnDeposits`, interpreted: `coinsToBurn := 0`, the walk, one `BurnCoins` of the sum -/
def burnRun (pid : Nat) (s : State) : Except Err State :=
  let step (acc : Except Err (State × Nat)) (tag : String) : Except Err (State × Nat) :=
    match acc with
    | .error e => .error e
    | .ok (s, sum) =>
      if tag == "sum0" then .ok (s, 0)
      else if tag == "walk" then
        let (w, rm) := burnWalk (depsOf s.deps pid)
        .ok ({ s with deps := if rm then depsNot s.deps pid else s.deps,
                      settled := s.settled ++ (depsOf s.deps pid).map (fun d => ⟨d.pid, d.who, d.amt, .burn⟩) }, sum + w)
      else if tag == "burnSum" then
        if s.gov < sum then .error (.halt "burn: insufficient module balance")
        else .ok ({ s with gov := s.gov - sum, burned := s.burned + sum }, sum)
      else .ok (s, sum)
  match sdkBurnSteps.foldl step (.ok (s, 0)) with
  | .error e => .error e
  | .ok (s', _) => .ok s'

/-! ## end-blocker -/

/-- inactive queue entry: delete the proposal, refund or burn its deposits -/
def dropInactive (pid : Nat) (s : State) : Except Err State :=
  match findProp s.props pid with
  | none => .error (.halt "inactive queue: proposal not found")
  | some _ =>
    -- `keeper.DeleteProposal(ctx, proposal.Id)`: the SDK function, statement by statement
    let s1 := deleteProposalRun pid s
    if inactiveSettleShapeOk then
      if !s.params.burnPrevote then refundRun pid s1 else burnRun pid s1
    else .ok s1

/-- the variant in which the settlement stands AFTER the outcome switch: the outcome first (queue entry removed, messages
run or proposal converted or rejected), then the guard `!(proposal.Expedited && !passes)` is evaluated on the proposal as
the switch left it — a converted proposal is no longer expedited, so its deposits are paid out although it stays open -/
def finishTallyLate (passes burn : Bool) (res : Nat × Nat × Nat × Nat) (p : Proposal) (pid : Nat) (s : State) : Except Err State :=
  let s2 := { s with active := removeQ (p.votingEnd, pid) s.active }
  let (s3, p') : State × Proposal :=
    if passes then
      let (s3, ok) := runProposalMsgs p.msgs s2
      (s3, { p with status := if ok then .passed else .failed, tallyRes := res })
    else if p.expedited then
      let p' := { p with expedited := false, votingEnd := p.votingStart + conversionPeriod s2 p, tallyRes := res }
      ({ s2 with active := insertQ (p'.votingEnd, pid) s2.active }, p')
    else (s2, { p with status := .rejected, tallyRes := res })
  let settle : Except Err State :=
    if !(p'.expedited && !passes) then (if burn then burnRun pid s3 else refundRun pid s3) else .ok s3
  match settle with
  | .error err => .error err
  | .ok s4 => .ok { s4 with props := putProp s4.props p' }

/-- active queue entry, after `Tally`: settle, run the messages or convert or reject, store the proposal with its
final tally result -/
def finishTally (passes burn : Bool) (res : Nat × Nat × Nat × Nat) (p : Proposal) (pid : Nat) (s : State) : Except Err State :=
  if !settleShapeOk && settleAfterOutcome then finishTallyLate passes burn res p pid s else
  let settle : Except Err State :=
    if settleShapeOk then
      if !(p.expedited && !passes) then (if burn then burnRun pid s else refundRun pid s) else .ok s
    else .ok s
  match settle with
  | .error err => .error err
  | .ok s1 =>
    let s2 := { s1 with active := removeQ (p.votingEnd, pid) s1.active }
    if passes then
      let (s3, ok) := runProposalMsgs p.msgs s2
      .ok { s3 with props := putProp s3.props { p with status := if ok then .passed else .failed, tallyRes := res } }
    else if p.expedited then
      let p' := { p with expedited := false, votingEnd := p.votingStart + conversionPeriod s2 p, tallyRes := res }
      .ok { s2 with props := putProp s2.props p', active := insertQ (p'.votingEnd, pid) s2.active }
    else
      .ok { s2 with props := putProp s2.props { p with status := .rejected, tallyRes := res } }

/-- active queue entry: `Tally` (sums over the stored votes with the block's staking numbers, decision, the counted
votes are removed), then `finishTally` -/
def tallyOne (stk : Staking) (pid : Nat) (s : State) : Except Err State :=
  match findProp s.props pid with
  | none => .error (.halt "active queue: proposal not found")
  | some p =>
    match tallyNums (votesOf s.votes pid) stk with
    | none => .error (.halt "tally: division by zero")
    | some n =>
      match tally s p n with
      | .error e => .error e
      | .ok (passes, burn) =>
        let s0 := { s with votes := if tallyRemovesVotes then votesNot s.votes pid else s.votes }
        finishTally passes burn (n.yes / DEC, n.abstain / DEC, n.no / DEC, n.veto / DEC) p pid s0

def runAll (f : Nat → State → Except Err State) : List Nat → State → Except Err State
  | [], s => .ok s
  | id :: r, s =>
    match f id s with
    | .ok s' => runAll f r s'
    | .error e => .error e

/-- `EndBlocker` at block time `s.time`; both walks iterate over the entries that were due when they started -/
def endBlock (stk : Staking) (s : State) : Except Err State :=
  match runAll dropInactive (dueIds s.inactive s.time) s with
  | .error e => .error e
  | .ok s1 => runAll (tallyOne stk) (dueIds s1.active s1.time) s1

/-- one top-level statement of the SDK's `AddVote`: (store, `inVotingPeriod`, error) -/
def addVoteStep (pid : Nat) (voter : Addr) (opts : List (Opt × Nat)) (acc : State × Bool × Option String) (tag : String) :
    State × Bool × Option String :=
  let (s, inVoting, err) := acc
  if err.isSome then acc else
  if tag == "inVotingPeriod=VotingPeriodProposals.Has" then
    -- the `VotingPeriodProposals` index holds exactly the ids of the proposals stored with status voting (`SetProposal`)
    (s, (match findProp s.props pid with | some p => p.status == .voting | none => false), err)
  else if tag == "rejectUnlessVoting" then (if !inVoting then (s, inVoting, some "err:inactive") else acc)
  else if tag == "votesSet" then ({ s with votes := setVote s.votes ⟨pid, voter, opts⟩ }, inVoting, err)
  else acc

/-- `Keeper.AddVote` of the SDK, statement by statement in source order -/
def addVoteRun (s : State) (pid : Nat) (voter : Addr) (opts : List (Opt × Nat)) : Except String State :=
  match sdkAddVoteSteps.foldl (addVoteStep pid voter opts) (s, false, none) with
  | (_, _, some e) => .error e
  | (s', _, none) => .ok s'

/-! ### `msgServer.VoteWeighted` of the SDK, statement by statement (round 5)

The validation of the weighted options is no longer hand-copied (`optsValid`): the top-level statements of the SDK's
`VoteWeighted`, the body of its loop over the options and the statements of `WeightedVoteOption.IsValid` are regenerated from
the module cache (`sdkVoteWeightedSteps`, `sdkVoteWeightedLoop`, `sdkWeightedOptionValid`) and interpreted here. -/

/-- locals of `VoteWeighted`: `totalWeight`, `usedOptions`, an error returned -/
structure VoteLocals where
  total : Nat := 0
  used : List Opt := []
  rejected : Bool := false

/-- `WeightedVoteOption.IsValid` for a weight `w`·10^-18 (the four options of the model are the valid ones) -/
def weightedOptionValid (w : Nat) : Bool :=
  if sdkWeightedOptionValid.contains "falseUnlessPositiveAndAtMostOne" then decide (0 < w) && decide (w ≤ DEC) else true

/-- one statement of the body of the loop over the options -/
def voteLoopStep (o : Opt × Nat) (l : VoteLocals) (tag : String) : VoteLocals :=
  if l.rejected then l else
  if tag == "rejectInvalidOption" then (if !weightedOptionValid o.2 then { l with rejected := true } else l)
  else if tag == "total+=weight" then { l with total := l.total + o.2 }
  else if tag == "rejectDuplicate" then (if l.used.contains o.1 then { l with rejected := true } else l)
  else if tag == "markUsed" then { l with used := o.1 :: l.used }
  else l

/-- the loop over the options -/
def voteOptionLoop : List (Opt × Nat) → VoteLocals → VoteLocals
  | [], l => l
  | o :: r, l => voteOptionLoop r (sdkVoteWeightedLoop.foldl (voteLoopStep o) l)

/-- one top-level statement of `VoteWeighted` before `AddVote` -/
def voteTopStep (opts : List (Opt × Nat)) (l : VoteLocals) (tag : String) : VoteLocals :=
  if l.rejected then l else
  if tag == "rejectEmpty" then (if opts.isEmpty then { l with rejected := true } else l)
  else if tag == "total0" then { l with total := 0 }
  else if tag == "used0" then { l with used := [] }
  else if tag == "optionLoop" then voteOptionLoop opts l
  else if tag == "rejectTotalGT1" then (if DEC < l.total then { l with rejected := true } else l)
  else if tag == "rejectTotalLT1" then (if l.total < DEC then { l with rejected := true } else l)
  else l

/-- does `VoteWeighted` reach `AddVote`?  The statements before the tag `addVote`, in source order -/
def voteWeightedAccepts (opts : List (Opt × Nat)) : Bool :=
  !((sdkVoteWeightedSteps.takeWhile (fun t => t != "addVote")).foldl (voteTopStep opts) {}).rejected

/-- `MsgVote` / `MsgVoteWeighted` (SDK message server): validation of the options — interpreted —, then `AddVote` -/
def vote (s : State) (pid : Nat) (voter : Addr) (opts : List (Opt × Nat)) : Except String State :=
  if !voteWeightedAccepts opts then .error "err:vote" else addVoteRun s pid voter opts

/-! ## operations -/

inductive Op where
  | mint (who : Addr) (amt : Nat)
  | updateParams (p : Params)
  | updateCustom (url : Ty) (c : Option Custom)
  | submit (proposer : Addr) (msgs : List Msg) (initial : Nat) (expedited : Bool)
  | deposit (pid : Nat) (who : Addr) (amt : Nat)
  /-- a deposit that carries `other` units of a non-deposit denomination as well -/
  | depositX (pid : Nat) (who : Addr) (fx other : Nat)
  | cancel (pid : Nat) (who : Addr)
  | vote (pid : Nat) (voter : Addr) (opts : List (Opt × Nat))
  /-- a tracked account spends coins outside gov (a staking delegation) -/
  | spend (who : Addr) (amt : Nat)
  /-- run the end-blocker at the current block time with the block's staking numbers, then move to block time `time + dt` -/
  | endBlock (dt : Nat) (stk : Staking)
  deriving Repr

def ofExcept (s : State) (r : Except String State) : State × String :=
  match r with
  | .ok s' => (s', "ok")
  | .error e => (s, e)

def step (s : State) : Op → State × String
  | .mint who amt => ({ s with bal := credit s.bal who amt, minted := s.minted + amt }, "ok")
  | .updateParams p => if p.valid then ({ s with params := p }, "ok") else (s, "err:params")
  | .updateCustom url c =>
    match c with
    | none => ({ s with custom := eraseCustom s.custom url }, "ok")
    | some c => if c.valid then ({ s with custom := setCustom s.custom url c }, "ok") else (s, "err:params")
  | .submit who msgs initial exp => ofExcept s (submit s who msgs initial exp)
  | .deposit pid who amt => ofExcept s (deposit s pid who amt)
  | .depositX pid who fx other => ofExcept s (depositX s pid who fx other)
  | .cancel pid who => ofExcept s (cancelRun s pid who)
  | .vote pid voter opts => ofExcept s (vote s pid voter opts)
  | .spend who amt =>
    if getBal s.bal who < amt then (s, "err:funds") else ({ s with bal := setBal s.bal who (getBal s.bal who - amt) }, "ok")
  | .endBlock dt stk =>
    match endBlock stk s with
    | .ok s' => ({ s' with time := s'.time + dt }, "ok")
    | .error (.halt why) => (s, "halt:" ++ why)

def run (s : State) : List Op → State
  | [] => s
  | o :: r => run (step s o).1 r

/-- the operation submits no proposal that carries a message spending from the gov module account -/
def opNoGovSpend : Op → Bool
  | .submit _ msgs _ _ => noGovSpend msgs
  | _ => true

/-- **`NoGovSpend`**: no proposal of the history carries a message that spends from the gov module account -/
def NoGovSpend (ops : List Op) : Bool := ops.all opNoGovSpend

end FxVerif.Model.C15
