import FxVerif.Proofs.C13Stake
/-!
Stake is never lost on the way out: for an oracle record that never came back online after a governance removal, what is
delegated to its validator + what sits in its unbonding entries + what its delegate address holds is at least the recorded
stake — in every reachable state without validator slashing.  With `StakeInv.out` this gives `stake_recoverable` for
REACHABLE states without a balance hypothesis.
-/
namespace FxVerif.Proofs.C13
open FxVerif.Model.C13 FxVerif.Gen.C13

def ubdSum (s : State) (a : Nat) : Nat := ((s.ubds.filter (fun u => u.oracle == a)).map (·.balance)).sum

def delegAmt (s : State) (a v : Nat) : Nat := (Store.get s.deleg (a, v)).getD 0

structure OwedInv (s : State) : Prop where
  /-- online again although governance once undelegated it ⇒ it was flagged -/
  re : ∀ a r, Store.get s.oracles a = some r → r.online = true → (ghOf s a).undel > 0 → (ghOf s a).reon = true
  ow : ∀ a r, Store.get s.oracles a = some r → (ghOf s a).reon = false →
    r.amount ≤ delegAmt s a r.val + ubdSum s a + getBal s.dbal a

theorem owed_same (s t : State) (hi : OwedInv s) (ho : t.oracles = s.oracles) (hd : t.deleg = s.deleg) (hg : t.gh = s.gh)
    (hu : t.ubds = s.ubds) (hb : ∀ a, getBal s.dbal a ≤ getBal t.dbal a) : OwedInv t := by
  have hgh : ∀ a, ghOf t a = ghOf s a := by intro a; simp [ghOf, hg]
  refine ⟨?_, ?_⟩
  · intro a r hr hon hun; rw [ho] at hr; rw [hgh] at hun ⊢; exact hi.re a r hr hon hun
  · intro a r hr hre; rw [ho] at hr; rw [hgh] at hre
    have := hi.ow a r hr hre
    have hb' := hb a
    simp only [delegAmt, ubdSum, hd, hu] at this ⊢
    omega

theorem owed_mapVals (s t : State) (g : Oracle → Oracle) (hi : OwedInv s) (ho : t.oracles = Store.mapVals g s.oracles)
    (hd : t.deleg = s.deleg) (hg : t.gh = s.gh) (hu : t.ubds = s.ubds) (hb : t.dbal = s.dbal)
    (hk : ∀ o, (g o).amount = o.amount ∧ (g o).val = o.val ∧ ((g o).online = true → o.online = true)) : OwedInv t := by
  have hgh : ∀ a, ghOf t a = ghOf s a := by intro a; simp [ghOf, hg]
  refine ⟨?_, ?_⟩
  · intro a r hr hon hun
    rw [ho, get_mapVals] at hr
    cases h0 : Store.get s.oracles a with
    | none => rw [h0] at hr; simp at hr
    | some r0 =>
      rw [h0] at hr; simp at hr; subst hr
      rw [hgh] at hun ⊢
      exact hi.re a r0 h0 ((hk r0).2.2 hon) hun
  · intro a r hr hre
    rw [ho, get_mapVals] at hr
    cases h0 : Store.get s.oracles a with
    | none => rw [h0] at hr; simp at hr
    | some r0 =>
      rw [h0] at hr; simp at hr; subst hr
      rw [hgh] at hre
      have := hi.ow a r0 h0 hre
      simp only [delegAmt, ubdSum, hd, hu, hb, (hk r0).1, (hk r0).2.1] at this ⊢
      exact this

/-- one record written under address `a`; everything of every OTHER address untouched -/
theorem owed_update (s t : State) (a : Nat) (r' : Oracle) (hi : OwedInv s)
    (ho : t.oracles = Store.set s.oracles a r')
    (hdel : ∀ k : Nat × Nat, k.1 ≠ a → Store.get t.deleg k = Store.get s.deleg k)
    (hgh : ∀ x, x ≠ a → ghOf t x = ghOf s x) (hu : t.ubds = s.ubds)
    (hb : ∀ x, x ≠ a → getBal s.dbal x ≤ getBal t.dbal x)
    (hre : r'.online = true → (ghOf t a).undel > 0 → (ghOf t a).reon = true)
    (how : (ghOf t a).reon = false → r'.amount ≤ delegAmt t a r'.val + ubdSum t a + getBal t.dbal a) : OwedInv t := by
  refine ⟨?_, ?_⟩
  · intro a' r hr hon hun
    rw [ho, get_set] at hr
    by_cases e : a' = a
    · subst e; simp only [if_true] at hr; injection hr with hr; subst hr; exact hre hon hun
    · simp only [e, if_false] at hr
      rw [hgh a' e] at hun ⊢
      exact hi.re a' r hr hon hun
  · intro a' r hr hre'
    rw [ho, get_set] at hr
    by_cases e : a' = a
    · subst e; simp only [if_true] at hr; injection hr with hr; subst hr; exact how hre'
    · simp only [e, if_false] at hr
      rw [hgh a' e] at hre'
      have := hi.ow a' r hr hre'
      have hb' := hb a' e
      simp only [delegAmt, ubdSum, hu, hdel (a', r.val) e] at this ⊢
      omega

/-! ## unbonding entries -/

theorem ubdSum_append (l : List Ubd) (u : Ubd) (a : Nat) :
    (((l ++ [u]).filter (fun x => x.oracle == a)).map (·.balance)).sum =
      ((l.filter (fun x => x.oracle == a)).map (·.balance)).sum + (if u.oracle == a then u.balance else 0) := by
  rw [List.filter_append, List.map_append, List.sum_append]
  by_cases h : (u.oracle == a) = true
  · simp [List.filter_cons, h]
  · simp [List.filter_cons, h]

/-- adding `t` to the balance of some entries of oracle `o` (and of no other oracle) -/
theorem ubdSum_bump (l : List Ubd) (c : Ubd → Bool) (t o a : Nat) (hc : ∀ u, c u = true → u.oracle = o) :
    let l' := l.map (fun u => if c u then { u with balance := u.balance + t } else u)
    (a ≠ o → ((l'.filter (fun x => x.oracle == a)).map (·.balance)).sum = ((l.filter (fun x => x.oracle == a)).map (·.balance)).sum) ∧
    (l.any c = true → ((l'.filter (fun x => x.oracle == o)).map (·.balance)).sum ≥ ((l.filter (fun x => x.oracle == o)).map (·.balance)).sum + t) ∧
    ((l'.filter (fun x => x.oracle == o)).map (·.balance)).sum ≥ ((l.filter (fun x => x.oracle == o)).map (·.balance)).sum := by
  induction l with
  | nil => simp
  | cons u rest ih =>
    obtain ⟨i1, i2, i3⟩ := ih
    simp only [List.map_cons]
    by_cases hcu : c u = true
    · have huo : u.oracle = o := hc u hcu
      simp only [hcu, if_true]
      refine ⟨?_, ?_, ?_⟩
      · intro hne
        have : (u.oracle == a) = false := by rw [huo]; simpa using fun e => hne e.symm
        simp only [List.filter_cons, this]
        exact i1 hne
      · intro _
        have : (u.oracle == o) = true := by simp [huo]
        simp only [List.filter_cons, this, if_true, List.map_cons, List.sum_cons]
        omega
      · have : (u.oracle == o) = true := by simp [huo]
        simp only [List.filter_cons, this, if_true, List.map_cons, List.sum_cons]
        omega
    · simp only [hcu]
      refine ⟨?_, ?_, ?_⟩
      · intro hne
        by_cases h : (u.oracle == a) = true
        · simp only [List.filter_cons, h, if_true, List.map_cons, List.sum_cons, Bool.false_eq_true, if_false]
          have := i1 hne; omega
        · simp only [List.filter_cons, h, Bool.false_eq_true, if_false]
          exact i1 hne
      · intro hany
        have hany' : rest.any c = true := by
          simp only [List.any_cons, hcu, Bool.false_or] at hany
          simpa using hany
        have := i2 hany'
        by_cases h : (u.oracle == o) = true
        · simp only [List.filter_cons, h, if_true, List.map_cons, List.sum_cons, Bool.false_eq_true, if_false]; omega
        · simp only [List.filter_cons, h, Bool.false_eq_true, if_false]; exact this
      · by_cases h : (u.oracle == o) = true
        · simp only [List.filter_cons, h, if_true, List.map_cons, List.sum_cons, Bool.false_eq_true, if_false]; omega
        · simp only [List.filter_cons, h, Bool.false_eq_true, if_false]; exact i3

theorem stakeUndelegateAll_ubd (s t : State) (o v : Nat) (h : stakeUndelegateAll s o v = some t) :
    ∃ t0, Store.get s.deleg (o, v) = some t0 ∧ ubdSum t o ≥ ubdSum s o + t0 ∧ (∀ a, a ≠ o → ubdSum t a = ubdSum s a) ∧
      t.dbal = s.dbal ∧ ∀ a, (ghOf t a).reon = (ghOf s a).reon := by
  unfold stakeUndelegateAll at h
  split at h
  · simp at h
  · rename_i t0 ht0
    simp only at h
    split at h
    · simp at h
    · rename_i hlim
      injection h with h; subst h
      refine ⟨t0, ht0, ?_, ?_, rfl, ?_⟩
      · simp only [ubdSum]
        split
        · rename_i hm
          have hb := ubdSum_bump s.ubds (fun u => u.oracle == o && u.val == v && u.creation == s.height) t0 o o
            (by intro u hu; simp at hu; exact hu.1.1)
          have hany : s.ubds.any (fun u => u.oracle == o && u.val == v && u.creation == s.height) = true := by
            rw [List.any_eq_true] at hm ⊢
            obtain ⟨u, hu, hc⟩ := hm
            have hf := List.mem_filter.mp hu
            exact ⟨u, hf.1, by simp only [Bool.and_eq_true] at hf ⊢; exact ⟨hf.2, hc⟩⟩
          exact hb.2.1 hany
        · rw [ubdSum_append]; simp
      · intro a ha
        simp only [ubdSum]
        split
        · have hb := ubdSum_bump s.ubds (fun u => u.oracle == o && u.val == v && u.creation == s.height) t0 o a
            (by intro u hu; simp at hu; exact hu.1.1)
          exact hb.1 ha
        · rw [ubdSum_append]
          have : (o == a) = false := by simpa using fun e => ha e.symm
          simp [this]
      · intro a
        simp only [ghOf]
        rw [get_set]
        by_cases e : a = o
        · subst e; simp
        · simp [e]

theorem undelFold_ubd : ∀ (l : List Oracle) (s t : State), l.foldl undelStep (some s) = some t →
    (l.map (·.addr)).Nodup →
    (∀ a, (∀ o ∈ l, o.addr ≠ a) → ubdSum t a = ubdSum s a) ∧
    (∀ o ∈ l, ∃ t0, Store.get s.deleg (o.addr, o.val) = some t0 ∧ ubdSum t o.addr ≥ ubdSum s o.addr + t0) ∧
    t.dbal = s.dbal ∧ ∀ a, (ghOf t a).reon = (ghOf s a).reon := by
  intro l
  induction l with
  | nil =>
    intro s t h _
    simp at h; subst h
    exact ⟨fun _ _ => rfl, by intro o ho; simp at ho, rfl, fun _ => rfl⟩
  | cons o rest ih =>
    intro s t h hn
    simp only [List.foldl_cons] at h
    have hstep : undelStep (some s) o = stakeUndelegateAll s o.addr o.val := rfl
    rw [hstep] at h
    rw [List.map_cons] at hn
    have hn' := List.nodup_cons.mp hn
    cases hu : stakeUndelegateAll s o.addr o.val with
    | none => rw [hu, fold_none] at h; simp at h
    | some s1 =>
      rw [hu] at h
      obtain ⟨t0, hd0, hge, hoth, hdb, hre⟩ := stakeUndelegateAll_ubd s s1 _ _ hu
      obtain ⟨t0', _, hdel, _⟩ := stakeUndelegateAll_char s s1 _ _ hu
      obtain ⟨ia, ib, ic, id'⟩ := ih s1 t h hn'.2
      have hnotin : ∀ o' ∈ rest, o'.addr ≠ o.addr := by
        intro o' ho' e
        exact hn'.1 (List.mem_map.mpr ⟨o', ho', e⟩)
      refine ⟨?_, ?_, by rw [ic, hdb], fun a => by rw [id' a, hre a]⟩
      · intro a ha
        rw [ia a (fun o' ho' => ha o' (by simp [ho']))]
        exact hoth a (fun e => ha o (by simp) e.symm)
      · intro o' ho'
        rcases List.mem_cons.mp ho' with e | hm
        · subst e
          refine ⟨t0, hd0, ?_⟩
          rw [ia o'.addr (fun x hx => hnotin x hx)]
          exact hge
        · obtain ⟨t1, hd1, hg1⟩ := ib o' hm
          have hne : o'.addr ≠ o.addr := hnotin o' hm
          refine ⟨t1, ?_, ?_⟩
          · rw [hdel, get_erase] at hd1
            have : ¬ (o'.addr, o'.val) = (o.addr, o.val) := by
              intro e; exact hne (by injection e)
            simpa [this] using hd1
          · rw [hoth o'.addr hne] at hg1; exact hg1

/-! ## maturity -/

theorem getBal_foldl_mature (l : List Ubd) : ∀ (b : Store Nat Nat) (a : Nat),
    getBal (l.foldl (fun b u => Store.set b u.oracle (getBal b u.oracle + u.balance)) b) a =
      getBal b a + ((l.filter (fun u => u.oracle == a)).map (·.balance)).sum := by
  induction l with
  | nil => intro b a; simp
  | cons u rest ih =>
    intro b a
    simp only [List.foldl_cons]
    rw [ih]
    by_cases h : u.oracle = a
    · have hb : (u.oracle == a) = true := by simp [h]
      simp only [List.filter_cons, hb, if_true, List.map_cons, List.sum_cons]
      subst h
      simp only [getBal, get_set, if_true, Option.getD_some]
      omega
    · have hb : (u.oracle == a) = false := by simpa using h
      simp only [List.filter_cons, hb, Bool.false_eq_true, if_false]
      have : a ≠ u.oracle := fun e => h e.symm
      simp only [getBal, get_set, this, if_false]

theorem sum_partition (l : List Ubd) (p q : Ubd → Bool) :
    (((l.filter p).filter q).map (·.balance)).sum + (((l.filter (fun u => !p u)).filter q).map (·.balance)).sum =
      ((l.filter q).map (·.balance)).sum := by
  induction l with
  | nil => simp
  | cons u rest ih =>
    by_cases hp : p u = true <;> by_cases hq : q u = true <;>
      simp only [List.filter_cons, hp, hq, if_true, Bool.not_true, Bool.false_eq_true, if_false, Bool.not_false,
        List.map_cons, List.sum_cons] <;> omega

theorem stakeMature_owed (s : State) (tm : Nat) (a : Nat) :
    ubdSum (stakeMature s tm) a + getBal (stakeMature s tm).dbal a = ubdSum s a + getBal s.dbal a := by
  simp only [stakeMature, List.partition_eq_filter_filter, ubdSum]
  rw [getBal_foldl_mature]
  have := sum_partition s.ubds (fun u => decide (u.completion ≤ tm)) (fun u => u.oracle == a)
  simp only [Function.comp_def] at this ⊢
  omega

/-! ## every op (except a validator slash) keeps the invariant -/

theorem owed_mono (s t : State) (hi : OwedInv s) (ho : t.oracles = s.oracles) (hd : t.deleg = s.deleg) (hg : t.gh = s.gh)
    (hb : ∀ a, ubdSum s a + getBal s.dbal a ≤ ubdSum t a + getBal t.dbal a) : OwedInv t := by
  have hgh : ∀ a, ghOf t a = ghOf s a := by intro a; simp [ghOf, hg]
  refine ⟨?_, ?_⟩
  · intro a r hr hon hun; rw [ho] at hr; rw [hgh] at hun ⊢; exact hi.re a r hr hon hun
  · intro a r hr hre; rw [ho] at hr; rw [hgh] at hre
    have := hi.ow a r hr hre
    have hb' := hb a
    simp only [delegAmt, hd] at this ⊢
    omega

theorem stakeDelegate_rest (s t : State) (o v amt : Nat) (h : stakeDelegate s o v amt = some t) :
    t.ubds = s.ubds ∧ t.dbal = s.dbal := by
  unfold stakeDelegate at h
  split at h
  · injection h with h; subst h; exact ⟨rfl, rfl⟩
  · simp at h

theorem stakeRedelegateAll_rest (s t : State) (o a b : Nat) (h : stakeRedelegateAll s o a b = some t) :
    t.ubds = s.ubds ∧ t.dbal = s.dbal := by
  unfold stakeRedelegateAll at h
  split at h
  · simp at h
  · split at h
    · simp at h
    · split at h
      · simp at h
      · split at h
        · simp at h
        · injection h with h; subst h; exact ⟨rfl, rfl⟩

theorem gov_owed (s : State) (l : List Nat) (hinv : Inv s) (hfit : FitInv s) (hi : OwedInv s) :
    OwedInv (govUpdate s l).1 := by
  unfold govUpdate
  split
  · exact hi
  · simp only
    split
    · exact hi
    · split
      · exact hi
      · rename_i s2 hfold
        generalize hL : (Store.vals s.oracles).filter (fun o => !l.contains o.addr && s.proposal.contains o.addr) = L at hfold
        have hf := undelegateFold_frame _ _ _ hfold
        have hvals : (Store.vals s.oracles).map (·.addr) = s.oracles.map (·.1) := by
          simp only [Store.vals, List.map_map]
          apply List.map_congr_left
          intro p hp
          exact hfit.key p hp
        have hnd : (L.map (·.addr)).Nodup := by
          rw [← hL]
          exact List.Nodup.sublist (List.Sublist.map _ List.filter_sublist) (by rw [hvals]; exact hfit.nodup)
        have hfold' : L.foldl undelStep (some { s with proposal := l }) = some s2 := hfold
        obtain ⟨cb, cc, _⟩ := undelFold_char L _ s2 hfold' hnd
        obtain ⟨ua, ub, uc, ud⟩ := undelFold_ubd L _ s2 hfold' hnd
        have memL : ∀ a r, Store.get s.oracles a = some r → (r ∈ L ↔ (a ∉ l ∧ a ∈ s.proposal)) := by
          intro a r hr
          have hk : r.addr = a := hinv.reg.key a r hr
          rw [← hL, List.mem_filter]
          constructor
          · intro h; simpa [hk] using h.2
          · intro h; exact ⟨mem_vals_of_get _ _ _ hr, by simpa [hk] using h⟩
        have ofL : ∀ o ∈ L, Store.get s.oracles o.addr = some o := by
          intro o ho
          rw [← hL] at ho
          have hv := (List.mem_filter.mp ho).1
          simp only [Store.vals] at hv
          obtain ⟨p, hp, e⟩ := List.mem_map.mp hv
          have hk := hfit.key p hp
          obtain ⟨k, v⟩ := p
          simp only at e hk
          subst e
          rw [hk]
          exact get_of_mem_nodup _ _ _ hfit.nodup hp
        have hno : ∀ a r, Store.get s.oracles a = some r → r ∉ L → ∀ o ∈ L, o.addr ≠ a := by
          intro a r hr hin o ho e
          have := ofL o ho
          rw [e, hr] at this
          injection this with e'
          exact hin (e' ▸ ho)
        refine ⟨?_, ?_⟩
        · intro a r' hr' hon hun
          simp only at hr' hun ⊢
          rw [hf.1, get_mapVals] at hr'
          cases h0 : Store.get s.oracles a with
          | none => rw [h0] at hr'; simp at hr'
          | some r0 =>
            rw [h0] at hr'
            simp only [Option.map_some, Option.some.injEq] at hr'
            have hk : r0.addr = a := hinv.reg.key a r0 h0
            have hcase : r0.online = true ∧ ¬ ((!l.contains r0.addr && s.proposal.contains r0.addr) = true) := by
              rw [← hr'] at hon
              split at hon
              · simp at hon
              · rename_i hc; exact ⟨hon, hc⟩
            have hnin : r0 ∉ L := by
              intro hin
              have := (memL a r0 h0).mp hin
              apply hcase.2
              simp [hk, this.1, this.2]
            have hg : ghOf s2 a = ghOf s a := by
              simp only [ghOf]; rw [cc a (hno a r0 h0 hnin)]
            have hun' : (ghOf s2 a).undel > 0 := hun
            rw [hg] at hun'
            have := hi.re a r0 h0 hcase.1 hun'
            show (ghOf s2 a).reon = true
            rw [hg]; exact this
        · intro a r' hr' hre
          simp only at hr' hre ⊢
          rw [hf.1, get_mapVals] at hr'
          cases h0 : Store.get s.oracles a with
          | none => rw [h0] at hr'; simp at hr'
          | some r0 =>
            rw [h0] at hr'
            simp only [Option.map_some, Option.some.injEq] at hr'
            have hamt : r'.amount = r0.amount := by rw [← hr']; split <;> rfl
            have hval : r'.val = r0.val := by rw [← hr']; split <;> rfl
            have hre' : (ghOf s2 a).reon = false := hre
            rw [ud a] at hre'
            have hre0 : (ghOf s a).reon = false := hre'
            have h1 := hi.ow a r0 h0 hre0
            have hk : r0.addr = a := hinv.reg.key a r0 h0
            rw [hamt, hval]
            show r0.amount ≤ delegAmt s2 a r0.val + ubdSum s2 a + getBal s2.dbal a
            rw [uc]
            by_cases hin : r0 ∈ L
            · obtain ⟨t0, hd0, hge⟩ := ub r0 hin
              rw [hk] at hd0 hge
              have : delegAmt s a r0.val = t0 := by
                simp only [delegAmt]
                have hd0' : Store.get s.deleg (a, r0.val) = some t0 := hd0
                rw [hd0']; rfl
              have hge' : ubdSum s2 a ≥ ubdSum s a + t0 := hge
              have hdb : getBal ({ s with proposal := l } : State).dbal a = getBal s.dbal a := rfl
              rw [hdb]
              omega
            · have hu := ua a (hno a r0 h0 hin)
              have hu' : ubdSum s2 a = ubdSum s a := hu
              have hd : delegAmt s2 a r0.val = delegAmt s a r0.val := by
                simp only [delegAmt]
                rw [cb]
                have : L.any (fun o => (o.addr, o.val) == (a, r0.val)) = false := by
                  rw [List.any_eq_false]
                  intro o ho hc
                  have : o.addr = a := (by simpa using hc : o.addr = a ∧ o.val = r0.val).1
                  exact hno a r0 h0 hin o ho this
                simp only [this, Bool.false_eq_true, if_false]
              have hdb : getBal ({ s with proposal := l } : State).dbal a = getBal s.dbal a := rfl
              rw [hd, hu', hdb]
              exact h1

theorem bond_owed (hc : GuardCodeOk) (s : State) (o b e v amt : Nat) (hi : OwedInv s) : OwedInv (bond s o b e v amt).1 := by
  obtain ⟨g1, g2, g3, g4, g5, g6, _⟩ := hc
  unfold bond
  simp only [g1, g2, g3, g4, g5, g6, Bool.true_and]
  split
  · exact hi
  · split
    · exact hi
    · split
      · exact hi
      · split
        · exact hi
        · split
          · exact hi
          · split
            · exact hi
            · split
              · exact hi
              · split
                · exact hi
                · rename_i s2 hs2
                  have hf := stakeDelegate_frame _ _ _ _ _ hs2
                  obtain ⟨hd, hg⟩ := stakeDelegate_char _ _ _ _ _ hs2
                  obtain ⟨hu, hb⟩ := stakeDelegate_rest _ _ _ _ _ hs2
                  have hd' : s2.deleg = Store.set s.deleg (o, v) ((Store.get s.deleg (o, v)).getD 0 + amt) := hd
                  have hg' : s2.gh = s.gh := hg
                  have hu' : s2.ubds = s.ubds := hu
                  have hb' : s2.dbal = s.dbal := hb
                  refine owed_update s _ o ⟨o, b, e, amt, s.height, true, v, 0⟩ hi (by simp only [refreshPower, hf.1]) ?_ ?_
                    (by simp only [refreshPower]; exact hu') ?_ ?_ ?_
                  · intro k hk
                    simp only [refreshPower]
                    rw [hd', get_set]
                    have : ¬ k = (o, v) := by intro e'; apply hk; rw [e']
                    simp [this]
                  · intro x hx
                    simp only [refreshPower, ghOf]
                    rw [ghOf_set_ne _ _ _ _ hx, hg']
                  · intro x _
                    simp only [refreshPower]; rw [hb']; exact Nat.le_refl _
                  · intro _ hun
                    simp only [refreshPower, ghOf, get_set] at hun
                    simp at hun
                  · intro _
                    simp only [refreshPower, delegAmt]
                    rw [hd', get_set]
                    simp only [if_true, Option.getD_some]
                    omega

theorem add_owed (hc : GuardCodeOk) (s : State) (o amt : Nat) (hst : StakeInv s) (hi : OwedInv s) :
    OwedInv (addDelegate s o amt).1 := by
  have hre := reactivate_eq hc
  obtain ⟨_, _, _, _, _, _, _, a1, a2, a3, a4, _⟩ := hc
  unfold addDelegate
  simp only [a1, a2, a3, a4, Bool.true_and, hre]
  split
  · exact hi
  · split
    · exact hi
    · rename_i r hr
      try simp only
      split
      · exact hi
      · split
        · exact hi
        · split
          · exact hi
          · split
            · exact hi
            · split
              · exact hi
              · rename_i s2 hs2
                let r' : Oracle := { r with amount := r.amount + (amt - slashAmount s.p r), online := true, startHeight := (if r.online then r.startHeight else s.height), slashTimes := 0 }
                -- what the staking call did
                have hfacts : s2.oracles = s.oracles ∧ s2.gh = s.gh ∧ s2.ubds = s.ubds ∧ s2.dbal = s.dbal ∧
                    (∀ k : Nat × Nat, k.1 ≠ o → Store.get s2.deleg k = Store.get s.deleg k) ∧
                    delegAmt s2 o r.val = delegAmt s o r.val + (amt - slashAmount s.p r) := by
                  by_cases hpos : amt - slashAmount s.p r > 0
                  · rw [if_pos hpos] at hs2
                    have hf := stakeDelegate_frame _ _ _ _ _ hs2
                    obtain ⟨hd, hg⟩ := stakeDelegate_char _ _ _ _ _ hs2
                    obtain ⟨hu, hb⟩ := stakeDelegate_rest _ _ _ _ _ hs2
                    have hd' : s2.deleg = Store.set s.deleg (o, r.val) ((Store.get s.deleg (o, r.val)).getD 0 + (amt - slashAmount s.p r)) := hd
                    refine ⟨hf.1, hg, hu, hb, ?_, ?_⟩
                    · intro k hk
                      rw [hd', get_set]
                      have : ¬ k = (o, r.val) := by intro e'; apply hk; rw [e']
                      simp [this]
                    · simp only [delegAmt]; rw [hd', get_set]; simp
                  · rw [if_neg hpos] at hs2
                    injection hs2 with hs2; subst hs2
                    have hz : amt - slashAmount s.p r = 0 := by omega
                    exact ⟨rfl, rfl, rfl, rfl, fun _ _ => rfl, by simp only [delegAmt]; omega⟩
                obtain ⟨f1, f2, f3, f4, f5, f6⟩ := hfacts
                refine owed_update s _ o r' hi (by simp only [refreshPower, f1]; rfl) ?_ ?_
                  (by simp only [refreshPower]; exact f3) ?_ ?_ ?_
                · intro k hk; simp only [refreshPower]; exact f5 k hk
                · intro x hx
                  simp only [refreshPower, ghOf]
                  rw [ghOf_set_ne _ _ _ _ hx, f2]
                · intro x _
                  simp only [refreshPower]; rw [f4]; exact Nat.le_refl _
                · intro _ hun
                  simp only [refreshPower, ghOf, get_set, if_true, Option.getD_some] at hun ⊢
                  rw [f2] at hun ⊢
                  have : ((Store.get s.gh o).getD {}).undel > 0 := hun
                  simp [this]
                · intro hre
                  simp only [refreshPower, ghOf, get_set, if_true, Option.getD_some] at hre
                  rw [f2] at hre
                  have hre1 : ((Store.get s.gh o).getD {}).reon = false := by
                    cases h : ((Store.get s.gh o).getD {}).reon with
                    | false => rfl
                    | true => simp [h] at hre
                  have hun0 : ((Store.get s.gh o).getD {}).undel = 0 := by
                    cases h : decide (((Store.get s.gh o).getD {}).undel > 0) with
                    | false => simpa using h
                    | true => simp [h] at hre
                  have hacc := hst.acc o r hr hun0
                  have hd0 : delegAmt s o r.val = r.amount := by simp only [delegAmt]; rw [hacc.1]; rfl
                  simp only [refreshPower]
                  show r.amount + (amt - slashAmount s.p r) ≤ delegAmt s2 o r.val + ubdSum _ o + getBal s2.dbal o
                  rw [f6, hd0]
                  omega

theorem redel_owed (s : State) (o v : Nat) (hi : OwedInv s) : OwedInv (reDelegate s o v).1 := by
  unfold reDelegate
  split
  · exact hi
  · rename_i r hr
    split
    · exact hi
    · split
      · exact hi
      · split
        · exact hi
        · rename_i s1 hs1
          have hf := stakeRedelegateAll_frame _ _ _ _ _ hs1
          obtain ⟨t0, hd0, hne, hd, hg⟩ := stakeRedelegateAll_char _ _ _ _ _ hs1
          obtain ⟨hu, hb⟩ := stakeRedelegateAll_rest _ _ _ _ _ hs1
          have hg' : s1.gh = s.gh := hg
          refine owed_update s _ o { r with val := v } hi (by simp only [hf.1]) ?_ ?_ hu ?_ ?_ ?_
          · intro k hk
            simp only
            rw [hd, get_set, get_erase]
            have h1 : ¬ k = (o, v) := by intro e'; apply hk; rw [e']
            have h2 : ¬ k = (o, r.val) := by intro e'; apply hk; rw [e']
            simp [h1, h2]
          · intro x _; simp only [ghOf, hg']
          · intro x _; simp only; rw [hb]; exact Nat.le_refl _
          · intro hon hun
            simp only [ghOf, hg'] at hun ⊢
            exact hi.re o r hr hon hun
          · intro hre
            simp only [ghOf, hg'] at hre
            have h1 := hi.ow o r hr hre
            simp only [delegAmt, ubdSum] at h1 ⊢
            rw [hd, get_set, hu, hb]
            simp only [if_true, Option.getD_some]
            rw [hd0] at h1
            simp only [Option.getD_some] at h1
            omega

theorem editb_owed (s : State) (o b : Nat) (hi : OwedInv s) : OwedInv (editBridger s o b).1 := by
  unfold editBridger
  split
  · exact hi
  · rename_i r hr
    split
    · exact hi
    · split
      · exact hi
      · split
        · exact hi
        · exact owed_update s _ o { r with bridger := b } hi rfl (fun _ _ => rfl) (fun _ _ => rfl) rfl
            (fun _ _ => Nat.le_refl _) (fun hon hun => hi.re o r hr hon hun) (fun hre => hi.ow o r hr hre)

theorem withdraw_owed (s : State) (o : Nat) (hst : StakeInv s) (hi : OwedInv s) : OwedInv (withdrawReward s o).1 := by
  unfold withdrawReward
  split
  · exact hi
  · rename_i r hr
    split
    · exact hi
    · rename_i hon
      split
      · exact hi
      · split
        · exact hi
        · have honl : r.online = true := by simpa using hon
          refine ⟨?_, ?_⟩
          · intro a r0 hr0 hon0 hun; exact hi.re a r0 hr0 hon0 hun
          · intro a r0 hr0 hre
            have h1 := hi.ow a r0 hr0 hre
            by_cases e : a = o
            · subst e
              rw [hr] at hr0; injection hr0 with hr0; subst hr0
              -- online and not flagged ⇒ never removed ⇒ the whole stake is still delegated
              have hun0 : (ghOf s a).undel = 0 := by
                cases h : (ghOf s a).undel with
                | zero => rfl
                | succ n =>
                  have := hi.re a r hr honl (by omega)
                  have hre' : (ghOf s a).reon = false := hre
                  rw [this] at hre'; cases hre'
              have hacc := hst.acc a r hr hun0
              simp only [delegAmt]
              rw [hacc.1]; simp only [Option.getD_some]; omega
            · simp only [delegAmt, ubdSum, getBal] at h1 ⊢
              rw [get_set]
              simp only [e, if_false]
              exact h1

theorem unbond_owed (s : State) (o : Nat) (hi : OwedInv s) : OwedInv (unbond s o).1 := by
  unfold unbond
  split
  · exact hi
  · split
    · exact hi
    · rename_i r hr
      split
      · exact hi
      · simp only
        split
        · exact hi
        · split
          · exact hi
          · refine ⟨?_, ?_⟩
            · intro a r0 hr0 hon hun
              simp only at hr0 hun ⊢
              rw [get_erase] at hr0
              by_cases e : a = o
              · simp [e] at hr0
              · simp only [e, if_false] at hr0
                have hg : ∀ g : Store Nat Ghost, (Store.get (Store.erase g o) a).getD {} = (Store.get g a).getD {} := by
                  intro g; rw [get_erase]; simp [e]
                simp only [ghOf, hg] at hun ⊢
                exact hi.re a r0 hr0 hon hun
            · intro a r0 hr0 hre
              simp only at hr0 hre ⊢
              rw [get_erase] at hr0
              by_cases e : a = o
              · simp [e] at hr0
              · simp only [e, if_false] at hr0
                have hg : ∀ g : Store Nat Ghost, (Store.get (Store.erase g o) a).getD {} = (Store.get g a).getD {} := by
                  intro g; rw [get_erase]; simp [e]
                simp only [ghOf, hg] at hre
                have h1 := hi.ow a r0 hr0 hre
                simp only [delegAmt, ubdSum, getBal] at h1 ⊢
                rw [get_set]
                simp only [e, if_false]
                exact h1

theorem confirm_owed (s : State) (k : Kind) (n e b : Nat) (sg : Bool) (hi : OwedInv s) : OwedInv (confirm s k n e b sg).1 := by
  unfold confirm
  split
  · exact hi
  · split
    · exact hi
    · split
      · exact hi
      · split
        · exact hi
        · split
          · exact hi
          · split
            · exact hi
            · split
              · exact hi
              · cases k <;> exact owed_mono s _ hi rfl rfl rfl (fun _ => Nat.le_refl _)

theorem block_owed (hcode : SlashCodeOk) (s : State) (dt : Nat) (hi : OwedInv s) : OwedInv (block s dt).1 := by
  unfold block
  split
  · exact hi
  · rename_i s1 he
    obtain ⟨hc, g, hg, hrel⟩ := endBlock_rel hcode s s.height s1 he
    have h1 : OwedInv s1 := owed_mapVals s s1 g hi hg hc.dl hc.gh hc.ub hc.db (by
      intro o
      obtain ⟨_, _, _, hamt, _, hval, hor⟩ := hrel o
      refine ⟨hamt, hval, ?_⟩
      intro hon
      rcases hor with e | ⟨_, h2, _⟩
      · rw [e] at hon; exact hon
      · rw [h2] at hon; cases hon)
    have h2 : OwedInv (stakeMature s1 (s.time + dt)) :=
      owed_mono s1 _ h1 rfl rfl rfl (fun a => by rw [stakeMature_owed]; exact Nat.le_refl _)
    exact owed_mono _ _ h2 rfl rfl rfl (fun _ => Nat.le_refl _)

theorem fund_owed (s : State) (o amt : Nat) (hi : OwedInv s) :
    OwedInv ({ s with dbal := Store.set s.dbal o (getBal s.dbal o + amt) } : State) := by
  refine owed_mono s _ hi rfl rfl rfl ?_
  intro a
  simp only [ubdSum, getBal]
  rw [get_set]
  by_cases e : a = o
  · subst e; simp only [if_true, Option.getD_some]; omega
  · simp only [e, if_false]; exact Nat.le_refl _

structure AllInv2 (s : State) : Prop where
  all : AllInv s
  owed : OwedInv s

theorem step_all2 (hs : SlashCodeOk) (hg : GuardCodeOk) (s : State) (op : Op) (hthr : 0 < s.p.thr) (hop : noValSlash op = true)
    (hi : AllInv2 s) : AllInv2 (step s op).1 := by
  refine ⟨step_all hs hg s op hthr hop hi.all, ?_⟩
  cases op with
  | gov l => exact gov_owed s l hi.all.inv hi.all.fit hi.owed
  | bond o b e v amt => exact bond_owed hg s o b e v amt hi.owed
  | add o amt => exact add_owed hg s o amt hi.all.stake hi.owed
  | redel o v => exact redel_owed s o v hi.owed
  | editb o b => exact editb_owed s o b hi.owed
  | withdraw o => exact withdraw_owed s o hi.all.stake hi.owed
  | fund o amt => exact fund_owed s o amt hi.owed
  | mint o amt => exact owed_mono s _ hi.owed rfl rfl rfl (fun _ => Nat.le_refl _)
  | tick dt => exact owed_mono s _ hi.owed rfl rfl rfl (fun _ => Nat.le_refl _)
  | unbond o => exact unbond_owed s o hi.owed
  | mkbatch => simp only [step, mkBatch]; split <;> first | exact hi.owed | exact owed_mono s _ hi.owed rfl rfl rfl (fun _ => Nat.le_refl _)
  | mkcall => exact owed_mono s _ hi.owed rfl rfl rfl (fun _ => Nat.le_refl _)
  | conf k n e b sg => exact confirm_owed s k n e b sg hi.owed
  | observe n => simp only [step, observe]; repeat' split
                 all_goals first | exact hi.owed | exact owed_mono s _ hi.owed rfl rfl rfl (fun _ => Nat.le_refl _)
  | event bs bcs cs obs => exact owed_mono s _ hi.owed rfl rfl rfl (fun _ => Nat.le_refl _)
  | block dt => exact block_owed hs s dt hi.owed
  | valslash v num den => simp [noValSlash] at hop

theorem init_owed (p : Params) (bals : Store Nat Nat) : OwedInv (init p bals) := by
  refine ⟨?_, ?_⟩ <;> simp [init, Store.get]

theorem run_all2 (hs : SlashCodeOk) (hg : GuardCodeOk) : ∀ (ops : List Op) (s : State), 0 < s.p.thr →
    ops.all noValSlash = true → AllInv2 s → AllInv2 (run s ops) := by
  intro ops
  induction ops with
  | nil => intro s _ _ hi; exact hi
  | cons op ops ih =>
    intro s hthr hops hi
    simp only [List.all_cons, Bool.and_eq_true] at hops
    have hp : (step s op).1.p = s.p := step_params hs s op
    exact ih _ (by rw [hp]; exact hthr) hops.2 (step_all2 hs hg s op hthr hops.1 hi)

end FxVerif.Proofs.C13
