import FxVerif.Proofs.C04Batch
/-! C04: every successful operation keeps `held + inFlight − deposited + withdrawn` of every token group -/
namespace FxVerif.Proofs.C04
open FxVerif.Model.Ledger FxVerif.Model.Flows FxVerif.Model.C04 FxVerif.Proofs.Ledger

def measure (s : State) (g : Nat) : Int :=
  (heldObs g).val s.L + (inFlight s g : Int) - (s.deposited g : Int) + (s.withdrawn g : Int)

theorem run_ok {s s1 : State} {fl : List Prim} (h : run s fl = .ok s1) :
    ∃ L', runFlow fl s.L = .ok L' ∧ s1 = { s with L := L' } := by
  unfold run at h
  split at h
  · rename_i L' hL; cases h; exact ⟨L', hL, rfl⟩
  · cases h

theorem held_run {s s1 : State} {fl : List Prim} (g : Nat) (h : run s fl = .ok s1) :
    (heldObs g).val s1.L = (heldObs g).val s.L + (heldObs g).flowDelta fl ∧
      s1.chains = s.chains ∧ s1.deposited = s.deposited ∧ s1.withdrawn = s.withdrawn := by
  obtain ⟨L', hL, rfl⟩ := run_ok h
  exact ⟨runFlow_obs (heldObs_sound g) fl s.L L' hL, rfl, rfl, rfl⟩

theorem bumpAll_val (f : Nat → Nat) (ts : List (Nat × Nat)) (g : Nat) :
    bumpAll f ts g = f g + tokensValue g ts := by
  induction ts generalizing f with
  | nil => simp [bumpAll, tokensValue]
  | cons t ts ih =>
    have := ih (bump f t.1 t.2)
    simp only [bumpAll, List.foldl_cons] at this ⊢
    rw [this]
    simp only [tokensValue, List.map_cons, List.sum_cons, bump]
    by_cases h : g = t.1
    · subst h; simp; omega
    · have h' : ¬ t.1 = g := fun e => h e.symm
      simp [h, h']

theorem inFlight_setChain (s : State) (c : Nat) (cs : ChainSt) (g : Nat) (hc : c < 3) :
    (inFlight (setChain s c cs) g : Int) = inFlight s g - chainInFlight g (s.chains c) + chainInFlight g cs := by
  have : c = 0 ∨ c = 1 ∨ c = 2 := by omega
  rcases this with rfl | rfl | rfl <;> simp [inFlight, setChain] <;> omega

theorem measure_finish (s : State) (c : Nat) (cs : ChainSt) (dep wd : List (Nat × Nat)) (g : Nat) (hc : c < 3) :
    measure (finish s c cs dep wd) g = measure s g - chainInFlight g (s.chains c) + chainInFlight g cs
      - tokensValue g dep + tokensValue g wd := by
  have h1 := inFlight_setChain s c cs g hc
  have h2 : inFlight (finish s c cs dep wd) g = inFlight (setChain s c cs) g := by
    have e : ∀ c', chainInFlight g ((finish s c cs dep wd).chains c') = chainInFlight g ((setChain s c cs).chains c') := by
      intro c'; simp only [finish, setChain]; split <;> rfl
    simp only [inFlight, e]
  simp only [measure, h2, h1]
  simp only [finish, bumpAll_val, setChain]
  push_cast
  omega

theorem extract_sum {α : Type} (p : α → Bool) (v : α → Nat) (l : List α) (x : α) (rest : List α)
    (h : extract p l = some (x, rest)) : (l.map v).sum = v x + (rest.map v).sum := by
  induction l generalizing rest with
  | nil => simp [extract] at h
  | cons y ys ih =>
    simp only [extract] at h
    split at h
    · cases h; simp
    · split at h
      · rename_i y' ys' he
        cases h
        have := ih ys' he
        simp only [List.map_cons, List.sum_cons, this]; omega
      · cases h

theorem filter_sum {α : Type} (p : α → Bool) (v : α → Nat) (l : List α) :
    (l.map v).sum = ((l.filter p).map v).sum + ((l.filter (fun x => !p x)).map v).sum := by
  induction l with
  | nil => rfl
  | cons x xs ih =>
    cases hp : p x <;> simp [List.filter, hp, ih] <;> omega

theorem poolValue_append (g : Nat) (a b : List PoolTx) : poolValue g (a ++ b) = poolValue g a + poolValue g b := by
  simp [poolValue, List.sum_append]

theorem poolValue_flatMap (g : Nat) (bs : List Batch) :
    poolValue g (bs.flatMap (·.txs)) = (bs.map (fun b => poolValue g b.txs)).sum := by
  induction bs with
  | nil => rfl
  | cons b bs ih => simp [List.flatMap_cons, poolValue_append, ih]

/-- generic fold lemma: each step appends primitives whose delta is `d t` -/
theorem sum_zero {α : Type} (l : List α) : (l.map (fun _ => (0 : Int))).sum = 0 := by
  induction l with
  | nil => rfl
  | cons x xs ih => simp [ih]

theorem foldlM_delta (o : Obs) (stp : List Prim → (Nat × Nat) → Except Err (List Prim)) (d : Nat × Nat → Int)
    (h : ∀ acc t r, stp acc t = .ok r → o.flowDelta r = o.flowDelta acc + d t) :
    ∀ (tokens : List (Nat × Nat)) (acc fl : List Prim), tokens.foldlM stp acc = .ok fl →
      o.flowDelta fl = o.flowDelta acc + (tokens.map d).sum := by
  intro tokens
  induction tokens with
  | nil => intro acc fl hf; simp [List.foldlM, pure, Except.pure] at hf; subst hf; simp
  | cons t ts ih =>
    intro acc fl hf
    simp only [List.foldlM, bind, Except.bind] at hf
    cases hs : stp acc t with
    | error e => simp [hs] at hf
    | ok r =>
      simp only [hs] at hf
      rw [ih r fl hf, h acc t r hs]
      simp only [List.map_cons, List.sum_cons]; omega

theorem tokensValue_int (g : Nat) (ts : List (Nat × Nat)) :
    ((tokensValue g ts : Nat) : Int) = (ts.map (fun t => if t.1 = g then (t.2 : Int) else 0)).sum := by
  induction ts with
  | nil => rfl
  | cons t ts ih =>
    simp only [tokensValue, List.map_cons, List.sum_cons] at ih ⊢
    push_cast
    rw [ih]
    split <;> simp

theorem tokensFlow_delta (cfg : Cfg) (c g' : Nat) (f : Kind → Nat → Nat → List Prim) (sgn : Int)
    (hf : ∀ k g n, (heldObs g').flowDelta (f k g n) = if g = g' then sgn * (n : Int) else 0)
    (tokens : List (Nat × Nat)) (fl : List Prim) (h : tokensFlow cfg c tokens f = .ok fl) :
    (heldObs g').flowDelta fl = sgn * (tokensValue g' tokens : Int) := by
  unfold tokensFlow at h
  have := foldlM_delta (heldObs g') _ (fun t => if t.1 = g' then sgn * (t.2 : Int) else 0) ?_ tokens [] fl h
  · rw [this, tokensValue_int]
    simp only [Obs.flowDelta, Int.zero_add]
    clear this h
    induction tokens with
    | nil => simp
    | cons t ts ih => simp only [List.map_cons, List.sum_cons, ih]; split <;> simp [Int.mul_add]
  · intro acc t r hr
    split at hr
    · cases hr; rw [flowDelta_append, hf]
    · cases hr

theorem pairsFlow_delta (cfg : Cfg) (g' : Nat) (f : Kind → Nat → Nat → List Prim)
    (hf : ∀ k g n, (heldObs g').flowDelta (f k g n) = 0)
    (tokens : List (Nat × Nat)) (fl : List Prim) (h : pairsFlow cfg tokens f = .ok fl) :
    (heldObs g').flowDelta fl = 0 := by
  unfold pairsFlow at h
  have := foldlM_delta (heldObs g') _ (fun _ => 0) ?_ tokens [] fl h
  · rw [this, sum_zero]; simp [Obs.flowDelta]
  · intro acc t r hr
    split at hr
    · cases hr; rw [flowDelta_append, hf]
    · cases hr

theorem refundToEvm_delta (cfg : Cfg) (g' r : Nat) (tokens : List (Nat × Nat)) (fl : List Prim)
    (h : refundToEvmFlow cfg r tokens = .ok fl) : (heldObs g').flowDelta fl = 0 := by
  unfold refundToEvmFlow at h
  have := foldlM_delta (heldObs g') _ (fun _ => 0) ?_ tokens [] fl h
  · rw [this, sum_zero]; simp [Obs.flowDelta]
  · intro acc t r' hr
    split at hr
    · cases hr; simp
    · split at hr
      · cases hr; rw [flowDelta_append, held_refundToEvm]
      · cases hr
    · cases hr

theorem chainInFlight_pool (g : Nat) (cs : ChainSt) (p : List PoolTx) :
    chainInFlight g { cs with pool := p } + poolValue g cs.pool = chainInFlight g cs + poolValue g p := by
  simp only [chainInFlight]; omega

macro "exc" : tactic => `(tactic| try simp only [bind, Except.bind, pure, Except.pure] at *)

/-- finishing step shared by all cases: `run` succeeded, then `finish` -/
theorem measure_run_finish (s s1 : State) (fl : List Prim) (c : Nat) (cs : ChainSt) (dep wd : List (Nat × Nat))
    (g' : Nat) (hc : c < 3) (hr : run s fl = .ok s1) :
    measure (finish s1 c cs dep wd) g' = measure s g' + (heldObs g').flowDelta fl
      - chainInFlight g' (s.chains c) + chainInFlight g' cs - tokensValue g' dep + tokensValue g' wd := by
  obtain ⟨hv, hch, hd, hw⟩ := held_run g' hr
  rw [measure_finish _ _ _ _ _ _ hc]
  have : inFlight s1 g' = inFlight s g' := by simp [inFlight, hch]
  simp only [measure, hv, hch, hd, hw, this]
  omega

theorem measure_deposit (cfg : Cfg) (s s' : State) (c g u n : Nat) (toErc : Bool) (g' : Nat) (hc : c < 3)
    (h : stepCore cfg s (.deposit c g u n toErc) = .ok s') : measure s' g' = measure s g' := by
  simp only [stepCore] at h; exc
  cases hk : bridged cfg g c with
  | none => simp [hk] at h
  | some k =>
    simp only [hk] at h
    split at h
    · cases h
    cases toErc
    · simp only [Bool.false_eq_true, ↓reduceIte] at h
      cases hr : run s (bridgeTokenToBaseCoin k g c (U u) n) with
      | error e => simp [hr] at h
      | ok s1 =>
        simp only [hr, Except.ok.injEq] at h; subst h
        have hch : s1.chains c = s.chains c := by rw [(held_run g' hr).2.1]
        rw [measure_run_finish s s1 _ c _ _ _ g' hc hr, hch, held_deposit g' k g c u n hc]
        simp only [tokensValue, List.map_cons, List.map_nil, List.sum_cons, List.sum_nil]
        split <;> simp_all <;> omega
    · simp only [↓reduceIte] at h
      cases hp : pairOk cfg g with
      | none => simp [hp] at h
      | some k' =>
        simp only [hp] at h
        cases hr : run s (bridgeTokenToBaseCoin k g c (U u) n ++ convertCoin k g (U u) (U u) n) with
        | error e => simp [hr] at h
        | ok s1 =>
          simp only [hr, Except.ok.injEq] at h; subst h
          have hch : s1.chains c = s.chains c := by rw [(held_run g' hr).2.1]
          rw [measure_run_finish s s1 _ c _ _ _ g' hc hr, hch, flowDelta_append, held_deposit g' k g c u n hc,
            held_convertCoin]
          simp only [tokensValue, List.map_cons, List.map_nil, List.sum_cons, List.sum_nil]
          split <;> simp_all <;> omega

theorem measure_send (cfg : Cfg) (s s' : State) (c g u n fee : Nat) (g' : Nat) (hc : c < 3)
    (h : stepCore cfg s (.send c g u n fee) = .ok s') : measure s' g' = measure s g' := by
  simp only [stepCore] at h; exc
  split at h
  · cases h
  · cases hk : bridged cfg g c with
    | none => simp [hk] at h
    | some k =>
      simp only [hk] at h
      cases hr : run s (baseCoinToBridgeToken k g c (U u) (n + fee)) with
      | error e => simp [hr] at h
      | ok s1 =>
        simp only [hr, Except.ok.injEq] at h; subst h
        rw [measure_run_finish s s1 _ c _ _ _ g' hc hr, held_withdraw g' k g c u _ hc]
        simp only [chainInFlight, poolValue, tokensValue, List.map_cons, List.map_nil, List.sum_cons, List.sum_nil]
        split <;> simp_all <;> omega

theorem measure_xsend (cfg : Cfg) (s s' : State) (c g u n fee : Nat) (g' : Nat) (hc : c < 3)
    (h : stepCore cfg s (.xsend c g u n fee) = .ok s') : measure s' g' = measure s g' := by
  simp only [stepCore] at h; exc
  split at h
  · cases h
  · cases hkp : cfg.kind g with
    | none => simp [hkp] at h
    | some kp =>
      simp only [hkp] at h
      cases hk : bridged cfg g c with
      | none => simp [hk] at h
      | some k =>
        simp only [hk] at h
        cases hr : run s (precompileTokenIn kp g (U u) (n + fee) ++ baseCoinToBridgeToken k g c (U u) (n + fee)) with
        | error e => simp [hr] at h
        | ok s1 =>
          simp only [hr, Except.ok.injEq] at h; subst h
          rw [measure_run_finish s s1 _ c _ _ _ g' hc hr, flowDelta_append, held_precompileTokenIn,
            held_withdraw g' k g c u _ hc]
          simp only [chainInFlight, poolValue, tokensValue, List.map_cons, List.map_nil, List.sum_cons, List.sum_nil]
          split <;> simp_all <;> omega

theorem held_valueIn (g' g u n : Nat) : (heldObs g').flowDelta (valueIn g (U u) n) = 0 := by
  simp only [valueIn]; held_done

theorem held_feeToBridgeDenom (g' : Nat) (k : Kind) (g c u n : Nat) (hc : c < 3) :
    (heldObs g').flowDelta (feeToBridgeDenom k g c (U u) n) = 0 := by
  cases k <;> simp only [feeToBridgeDenom]
  · rfl
  · exact held_convertDenom g' _ g u n .base (.chain c) (by intro c h; cases h) (by intro c' h; cases h; exact hc)
  · exact held_convertDenom g' _ g u n .base (.chain c) (by intro c h; cases h) (by intro c' h; cases h; exact hc)

theorem measure_vsend (cfg : Cfg) (s s' : State) (c g u n fee : Nat) (g' : Nat) (hc : c < 3)
    (h : stepCore cfg s (.vsend c g u n fee) = .ok s') : measure s' g' = measure s g' := by
  simp only [stepCore] at h; exc
  split at h
  · cases h
  · split at h
    · cases h
    · cases hk : bridged cfg g c with
      | none => simp [hk] at h
      | some k =>
        simp only [hk] at h
        cases hr : run s (valueIn g (U u) (n + fee) ++ baseCoinToBridgeToken k g c (U u) (n + fee)) with
        | error e => simp [hr] at h
        | ok s1 =>
          simp only [hr, Except.ok.injEq] at h; subst h
          rw [measure_run_finish s s1 _ c _ _ _ g' hc hr, flowDelta_append, held_valueIn, held_withdraw g' k g c u _ hc]
          simp only [chainInFlight, poolValue, tokensValue, List.map_cons, List.map_nil, List.sum_cons, List.sum_nil]
          split <;> simp_all <;> omega

theorem measure_xincfee (cfg : Cfg) (s s' : State) (c id u g n : Nat) (g' : Nat) (hc : c < 3)
    (h : stepCore cfg s (.xincfee c id u g n) = .ok s') : measure s' g' = measure s g' := by
  simp only [stepCore] at h; exc
  split at h
  · cases h
  · cases hkp : cfg.kind g with
    | none => simp [hkp] at h
    | some kp =>
      simp only [hkp] at h
      cases he : extract (fun t : PoolTx => t.id == id) (s.chains c).pool with
      | none => simp [he] at h
      | some pr =>
        obtain ⟨tx, rest⟩ := pr
        simp only [he] at h
        have hsum := extract_sum _ (fun t : PoolTx => if t.g = g' then t.amount + t.fee else 0) _ _ _ he
        cases hk : bridged cfg g c with
        | none => simp [hk] at h
        | some k =>
          simp only [hk] at h
          split at h
          · cases h
          · rename_i hg
            cases hr : run s (precompileTokenIn kp g (U u) n ++ (feeToBridgeDenom k g c (U u) n ++
                addBridgeFee k g c (U u) n)) with
            | error e => simp [hr] at h
            | ok s1 =>
              simp [hr] at h; subst h
              rw [measure_run_finish s s1 _ c _ _ _ g' hc hr, flowDelta_append, flowDelta_append,
                held_precompileTokenIn, held_feeToBridgeDenom g' k g c u n hc, held_addBridgeFee g' k g c u _ hc]
              simp only [chainInFlight, poolValue, tokensValue, List.map_cons, List.map_nil, List.sum_cons,
                List.sum_nil] at hsum ⊢
              have hg' : tx.g = g := by simpa using hg
              split <;> simp_all <;> omega

theorem measure_cancel (cfg : Cfg) (s s' : State) (c id u : Nat) (g' : Nat) (hc : c < 3)
    (h : stepCore cfg s (.cancel c id u) = .ok s') : measure s' g' = measure s g' := by
  simp only [stepCore] at h; exc
  cases he : extract (fun t : PoolTx => t.id == id) (s.chains c).pool with
  | none => simp [he] at h
  | some pr =>
    obtain ⟨tx, rest⟩ := pr
    simp only [he] at h
    have hsum := extract_sum _ (fun t : PoolTx => if t.g = g' then t.amount + t.fee else 0) _ _ _ he
    split at h
    · cases h
    · cases hk : bridged cfg tx.g c with
      | none => simp [hk] at h
      | some k =>
        simp only [hk] at h
        cases hrel : tx.relation
        · simp only [hrel, Bool.false_eq_true, ↓reduceIte] at h
          cases hr : run s (bridgeTokenToBaseCoin k tx.g c (U u) (tx.amount + tx.fee)) with
          | error e => simp [hr] at h
          | ok s1 =>
            simp only [hr, Except.ok.injEq] at h; subst h
            rw [measure_run_finish s s1 _ c _ _ _ g' hc hr, held_deposit g' k tx.g c u _ hc]
            simp only [chainInFlight, poolValue, tokensValue, List.map_nil, List.sum_nil] at hsum ⊢
            split <;> simp_all <;> omega
        · simp only [hrel, ↓reduceIte] at h
          cases hp : pairOk cfg tx.g with
          | none => simp [hp] at h
          | some k' =>
            simp only [hp] at h
            cases hr : run s (bridgeTokenToBaseCoin k tx.g c (U u) (tx.amount + tx.fee) ++
                convertCoin k tx.g (U u) (U u) (tx.amount + tx.fee)) with
            | error e => simp [hr] at h
            | ok s1 =>
              simp only [hr, Except.ok.injEq] at h; subst h
              rw [measure_run_finish s s1 _ c _ _ _ g' hc hr, flowDelta_append, held_deposit g' k tx.g c u _ hc,
                held_convertCoin]
              simp only [chainInFlight, poolValue, tokensValue, List.map_nil, List.sum_nil] at hsum ⊢
              split <;> simp_all <;> omega

theorem measure_incfee (cfg : Cfg) (s s' : State) (c id u g n : Nat) (g' : Nat) (hc : c < 3)
    (h : stepCore cfg s (.incfee c id u g n) = .ok s') : measure s' g' = measure s g' := by
  simp only [stepCore] at h; exc
  split at h
  · cases h
  · cases he : extract (fun t : PoolTx => t.id == id) (s.chains c).pool with
    | none => simp [he] at h
    | some pr =>
      obtain ⟨tx, rest⟩ := pr
      simp only [he] at h
      have hsum := extract_sum _ (fun t : PoolTx => if t.g = g' then t.amount + t.fee else 0) _ _ _ he
      cases hk : bridged cfg g c with
      | none => simp [hk] at h
      | some k =>
        simp only [hk] at h
        split at h
        · cases h
        · rename_i hg
          cases hr : run s (addBridgeFee k g c (U u) n) with
          | error e => simp [hr] at h
          | ok s1 =>
            simp only [hr, Except.ok.injEq] at h; subst h
            rw [measure_run_finish s s1 _ c _ _ _ g' hc hr, held_addBridgeFee g' k g c u _ hc]
            simp only [chainInFlight, poolValue, tokensValue, List.map_cons, List.map_nil, List.sum_cons,
              List.sum_nil] at hsum ⊢
            have hg' : tx.g = g := by simpa using hg
            split <;> simp_all <;> omega

theorem measure_finish0 (s : State) (c : Nat) (cs : ChainSt) (wd : List (Nat × Nat)) (g : Nat) (hc : c < 3)
    (h : (chainInFlight g cs : Int) + tokensValue g wd = chainInFlight g (s.chains c)) :
    measure (finish s c cs [] wd) g = measure s g := by
  rw [measure_finish _ _ _ _ _ _ hc]; simp only [tokensValue, List.map_nil, List.sum_nil] at h ⊢; omega

theorem measure_batch (cfg : Cfg) (s s' : State) (c g bf mf : Nat) (ao : Bool) (g' : Nat) (hc : c < 3)
    (h : stepCore cfg s (.batch c g bf mf ao) = .ok s') : measure s' g' = measure s g' := by
  simp only [stepCore] at h; exc
  split at h
  · cases h
  · rw [request_closed] at h
    cases hb : batchResult (bridged cfg g c).isSome ao ⟨g, bf, mf⟩ (s.chains c) with
    | error e => simp [hb] at h
    | ok cs' =>
      simp only [hb, Except.ok.injEq] at h; subst h
      obtain ⟨_, _, _, _, rfl⟩ := batchResult_ok hb
      apply measure_finish0 _ _ _ _ _ hc
      have := filter_sum (selects ⟨g, bf, mf⟩)
        (fun t : PoolTx => if t.g = g' then t.amount + t.fee else 0) (s.chains c).pool
      simp only [chainInFlight, poolValue, tokensValue, List.map_cons, List.map_nil, List.sum_cons, List.sum_nil] at this ⊢
      omega

/-- split of a sum along two disjoint predicates -/
theorem split3_sum {α : Type} (p q : α → Bool) (v : α → Nat) (hd : ∀ x, p x = true → q x = true → False) (l : List α) :
    (l.map v).sum = ((l.filter (fun x => !p x && !q x)).map v).sum + ((l.filter p).map v).sum
      + ((l.filter q).map v).sum := by
  induction l with
  | nil => rfl
  | cons x xs ih =>
    simp only [List.filter_cons, List.map_cons, List.sum_cons, ih]
    cases hp : p x <;> cases hq : q x
    · simp; omega
    · simp; omega
    · simp; omega
    · exact absurd hq (fun h => hd x hp h)

theorem cancels_isBatch_disjoint (g nonce : Nat) (b : Batch) :
    cancels cancelRule g nonce b = true → isBatch g nonce b = true → False := by
  simp [cancels, cancelRule, Cmp.eval, isBatch]
  intro h1 _ h2; omega

theorem tokensValue_append (g : Nat) (a b : List (Nat × Nat)) :
    tokensValue g (a ++ b) = tokensValue g a + tokensValue g b := by
  simp [tokensValue, List.sum_append]

theorem exec_value (g' : Nat) (bs : List Batch) :
    tokensValue g' (bs.flatMap (fun b => b.txs.map (fun t => (t.g, t.amount + t.fee)))) =
      (bs.map (fun b => poolValue g' b.txs)).sum := by
  induction bs with
  | nil => rfl
  | cons b bs ih =>
    simp only [List.flatMap_cons, tokensValue_append, ih, List.map_cons, List.sum_cons]
    congr 1
    simp only [tokensValue, poolValue, List.map_map]
    rfl

theorem measure_executed (cfg : Cfg) (s s' : State) (c g nonce : Nat) (g' : Nat) (hc : c < 3)
    (h : stepCore cfg s (.executed c g nonce) = .ok s') : measure s' g' = measure s g' := by
  simp only [stepCore] at h; exc
  split at h
  · cases h
  · cases h
    apply measure_finish0 _ _ _ _ _ hc
    have h1 := split3_sum (cancels cancelRule g nonce) (isBatch g nonce) (fun b => poolValue g' b.txs)
      (cancels_isBatch_disjoint g nonce) (s.chains c).batches
    have h2 := exec_value g' ((s.chains c).batches.filter (isBatch g nonce))
    simp only [chainInFlight, executedWith, poolValue_append, poolValue_flatMap, h2]
    omega

theorem measure_btimeout (cfg : Cfg) (s s' : State) (c g nonce : Nat) (g' : Nat) (hc : c < 3)
    (h : stepCore cfg s (.btimeout c g nonce) = .ok s') : measure s' g' = measure s g' := by
  simp only [stepCore] at h; exc
  split at h
  · cases h
  · cases h
    apply measure_finish0 _ _ _ _ _ hc
    have h1 := filter_sum (isBatch g nonce) (fun b => poolValue g' b.txs) (s.chains c).batches
    simp only [chainInFlight, poolValue_append, poolValue_flatMap, tokensValue, List.map_nil, List.sum_nil]
    omega

theorem callsValue_extract (g' : Nat) (calls rest : List OutCall) (call : OutCall) (p : OutCall → Bool)
    (he : extract p calls = some (call, rest)) :
    (calls.map (fun cl => tokensValue g' cl.tokens)).sum =
      tokensValue g' call.tokens + (rest.map (fun cl => tokensValue g' cl.tokens)).sum :=
  extract_sum p (fun cl => tokensValue g' cl.tokens) calls call rest he

theorem measure_bcout (cfg : Cfg) (s s' : State) (c u r : Nat) (tokens : List (Nat × Nat)) (pre : Bool) (g' : Nat)
    (hc : c < 3) (h : stepCore cfg s (.bcout c u r tokens pre) = .ok s') : measure s' g' = measure s g' := by
  simp only [stepCore] at h; exc
  have hout : ∀ flOut, tokensFlow cfg c tokens (fun k g n => baseCoinToBridgeToken k g c (U u) n) = .ok flOut →
      (heldObs g').flowDelta flOut = -1 * (tokensValue g' tokens : Int) := fun flOut hf =>
    tokensFlow_delta cfg c g' _ (-1) (by intro k g n; rw [held_withdraw g' k g c u n hc]; split <;> simp) tokens flOut hf
  cases pre
  · simp only [Bool.false_eq_true, ↓reduceIte] at h
    cases ho : tokensFlow cfg c tokens (fun k g n => baseCoinToBridgeToken k g c (U u) n) with
    | error e => simp [ho] at h
    | ok flOut =>
      simp only [ho] at h
      simp only [List.nil_append] at h
      cases hr : run s flOut with
      | error e => simp [hr] at h
      | ok s1 =>
        simp only [hr, Except.ok.injEq] at h; subst h
        rw [measure_run_finish s s1 _ c _ _ _ g' hc hr, hout flOut ho]
        simp only [chainInFlight, tokensValue, List.map_cons, List.map_nil, List.sum_cons, List.sum_nil, Obs.flowDelta]
        omega
  · simp only [↓reduceIte] at h
    cases hi : pairsFlow cfg tokens (fun k g n => convertERC20 k g (U u) (U u) n) with
    | error e => simp [hi] at h
    | ok flIn =>
      simp only [hi] at h
      cases ho : tokensFlow cfg c tokens (fun k g n => baseCoinToBridgeToken k g c (U u) n) with
      | error e => simp [ho] at h
      | ok flOut =>
        simp only [ho] at h
        cases hr : run s (flIn ++ flOut) with
        | error e => simp [hr] at h
        | ok s1 =>
          simp only [hr, Except.ok.injEq] at h; subst h
          rw [measure_run_finish s s1 _ c _ _ _ g' hc hr, flowDelta_append, hout flOut ho,
            pairsFlow_delta cfg g' _ (fun k g n => held_convertERC20 g' k g u u n) tokens flIn hi]
          simp only [chainInFlight, tokensValue, List.map_cons, List.map_nil, List.sum_cons, List.sum_nil]
          omega

theorem measure_vbcout (cfg : Cfg) (s s' : State) (c gfx u r v : Nat) (tokens : List (Nat × Nat)) (g' : Nat)
    (hc : c < 3) (h : stepCore cfg s (.vbcout c gfx u r v tokens) = .ok s') : measure s' g' = measure s g' := by
  simp only [stepCore] at h; exc
  split at h
  · cases h
  · split at h
    · cases h
    · cases hi : pairsFlow cfg tokens (fun k g n => convertERC20 k g (U u) (U u) n) with
      | error e => simp [hi] at h
      | ok flIn =>
        simp only [hi] at h
        cases ho : tokensFlow cfg c ((gfx, v) :: tokens) (fun k g n => baseCoinToBridgeToken k g c (U u) n) with
        | error e => simp [ho] at h
        | ok flOut =>
          simp only [ho] at h
          cases hr : run s (valueIn gfx (U u) v ++ (flIn ++ flOut)) with
          | error e => simp [hr] at h
          | ok s1 =>
            simp only [hr, Except.ok.injEq] at h; subst h
            have hout := tokensFlow_delta cfg c g' _ (-1)
              (by intro k g n; rw [held_withdraw g' k g c u n hc]; split <;> simp) ((gfx, v) :: tokens) flOut ho
            rw [measure_run_finish s s1 _ c _ _ _ g' hc hr, flowDelta_append, flowDelta_append, held_valueIn, hout,
              pairsFlow_delta cfg g' _ (fun k g n => held_convertERC20 g' k g u u n) tokens flIn hi]
            simp only [chainInFlight, tokensValue, List.map_cons, List.map_nil, List.sum_cons, List.sum_nil]
            omega

theorem measure_refundCall (cfg : Cfg) (s s' : State) (c : Nat) (call : OutCall) (rest : List OutCall) (g' : Nat)
    (hc : c < 3) (p : OutCall → Bool) (he : extract p (s.chains c).calls = some (call, rest))
    (h : refundCall cfg s c call { (s.chains c) with calls := rest } = .ok s') : measure s' g' = measure s g' := by
  simp only [refundCall] at h; exc
  have hv := callsValue_extract g' _ _ _ p he
  cases h1 : tokensFlow cfg c call.tokens (fun k g n => bridgeCallRefundCoin k g c (U call.refund) n) with
  | error e => simp [h1] at h
  | ok fl1 =>
    simp only [h1] at h
    have hd1 := tokensFlow_delta cfg c g' _ 1
      (by intro k g n; rw [held_refundCoin g' k g c call.refund n hc]; split <;> simp) call.tokens fl1 h1
    cases hfm : call.fromMsg
    · simp only [hfm, Bool.false_eq_true, ↓reduceIte] at h
      cases h2 : refundToEvmFlow cfg call.refund call.tokens with
      | error e => simp [h2] at h
      | ok fl2 =>
        simp only [h2] at h
        cases hr : run s (fl1 ++ fl2) with
        | error e => simp [hr] at h
        | ok s1 =>
          simp only [hr, Except.ok.injEq] at h; subst h
          rw [measure_run_finish s s1 _ c _ _ _ g' hc hr, flowDelta_append, hd1,
            refundToEvm_delta cfg g' _ _ _ h2]
          simp only [chainInFlight, tokensValue, List.map_nil, List.sum_nil] at hv ⊢
          omega
    · simp only [hfm, ↓reduceIte] at h
      simp only [List.append_nil] at h
      cases hr : run s fl1 with
      | error e => simp [hr] at h
      | ok s1 =>
        simp only [hr, Except.ok.injEq] at h; subst h
        rw [measure_run_finish s s1 _ c _ _ _ g' hc hr, hd1]
        simp only [chainInFlight, tokensValue, List.map_nil, List.sum_nil, Obs.flowDelta] at hv ⊢
        omega

theorem measure_bcresult (cfg : Cfg) (s s' : State) (c nonce : Nat) (ok : Bool) (g' : Nat) (hc : c < 3)
    (h : stepCore cfg s (.bcresult c nonce ok) = .ok s') : measure s' g' = measure s g' := by
  simp only [stepCore] at h; exc
  cases he : extract (fun cl : OutCall => cl.nonce == nonce) (s.chains c).calls with
  | none => simp [he] at h
  | some pr =>
    obtain ⟨call, rest⟩ := pr
    simp only [he] at h
    cases ok
    · simp only [Bool.false_eq_true, ↓reduceIte] at h
      exact measure_refundCall cfg s s' c call rest g' hc _ he h
    · simp only [↓reduceIte, Except.ok.injEq] at h; subst h
      apply measure_finish0 _ _ _ _ _ hc
      have hv := callsValue_extract g' _ _ _ _ he
      simp only [chainInFlight] at hv ⊢
      omega

theorem measure_bctimeout (cfg : Cfg) (s s' : State) (c nonce : Nat) (g' : Nat) (hc : c < 3)
    (h : stepCore cfg s (.bctimeout c nonce) = .ok s') : measure s' g' = measure s g' := by
  simp only [stepCore] at h; exc
  cases he : extract (fun cl : OutCall => cl.nonce == nonce) (s.chains c).calls with
  | none => simp [he] at h
  | some pr =>
    obtain ⟨call, rest⟩ := pr
    simp only [he] at h
    exact measure_refundCall cfg s s' c call rest g' hc _ he h

theorem measure_bcin (cfg : Cfg) (s s' : State) (c to : Nat) (tokens : List (Nat × Nat)) (g' : Nat) (hc : c < 3)
    (h : stepCore cfg s (.bcin c to tokens) = .ok s') : measure s' g' = measure s g' := by
  simp only [stepCore] at h; exc
  split at h
  · cases h
  cases h1 : tokensFlow cfg c tokens (fun k g n => bridgeTokenToBaseCoin k g c (U to) n) with
  | error e => simp [h1] at h
  | ok fl1 =>
    simp only [h1] at h
    have hd1 := tokensFlow_delta cfg c g' _ 1
      (by intro k g n; rw [held_deposit g' k g c to n hc]; split <;> simp) tokens fl1 h1
    cases h2 : pairsFlow cfg tokens (fun k g n => convertCoin k g (U to) (U to) n) with
    | error e => simp [h2] at h
    | ok fl2 =>
      simp only [h2] at h
      cases hr : run s (fl1 ++ fl2) with
      | error e => simp [hr] at h
      | ok s1 =>
        simp only [hr, Except.ok.injEq] at h; subst h
        have hch : s1.chains c = s.chains c := by rw [(held_run g' hr).2.1]
        rw [measure_run_finish s s1 _ c _ _ _ g' hc hr, hch, flowDelta_append, hd1,
          pairsFlow_delta cfg g' _ (fun k g n => held_convertCoin g' k g to to n) tokens fl2 h2]
        simp only [tokensValue, List.map_nil, List.sum_nil]
        omega

theorem measure_bcinfail (cfg : Cfg) (s s' : State) (c r : Nat) (tokens : List (Nat × Nat)) (g' : Nat) (hc : c < 3)
    (h : stepCore cfg s (.bcinfail c r tokens) = .ok s') : measure s' g' = measure s g' := by
  simp only [stepCore] at h; exc
  split at h
  · cases h
  cases h1 : tokensFlow cfg c tokens (fun k g n =>
      bridgeTokenToBaseCoin k g c badContract n ++ [.send (.base g) badContract (U r) n]) with
  | error e => simp [h1] at h
  | ok fl1 =>
    simp only [h1] at h
    have hd1 := tokensFlow_delta cfg c g' _ 1
      (by intro k g n; rw [held_depositBadRefund g' k g c r n hc]; split <;> simp) tokens fl1 h1
    cases h2 : tokensFlow cfg c tokens (fun k g n => baseCoinToBridgeToken k g c (U r) n) with
    | error e => simp [h2] at h
    | ok fl2 =>
      simp only [h2] at h
      have hd2 := tokensFlow_delta cfg c g' _ (-1)
        (by intro k g n; rw [held_withdraw g' k g c r n hc]; split <;> simp) tokens fl2 h2
      cases hr : run s (fl1 ++ fl2) with
      | error e => simp [hr] at h
      | ok s1 =>
        simp only [hr, Except.ok.injEq] at h; subst h
        rw [measure_run_finish s s1 _ c _ _ _ g' hc hr, flowDelta_append, hd1, hd2]
        simp only [chainInFlight, tokensValue, List.map_cons, List.map_nil, List.sum_cons, List.sum_nil]
        omega

theorem measure_run (s s' : State) (fl : List Prim) (g' : Nat) (hr : run s fl = .ok s')
    (hd : (heldObs g').flowDelta fl = 0) : measure s' g' = measure s g' := by
  obtain ⟨hv, hch, hdp, hw⟩ := held_run g' hr
  have : inFlight s' g' = inFlight s g' := by simp [inFlight, hch]
  simp only [measure, hv, hdp, hw, this, hd]; omega

theorem measure_converts (cfg : Cfg) (s s' : State) (g' : Nat) (op : Op) (hop : op.chain? = none)
    (h : stepCore cfg s op = .ok s') : measure s' g' = measure s g' := by
  cases op <;> simp only [Op.chain?] at hop <;> first | cases hop | skip
  · rename_i g u r n
    simp only [stepCore] at h; exc
    cases hp : pairOk cfg g with
    | none => simp [hp] at h
    | some k => simp only [hp] at h; exact measure_run s s' _ g' h (held_convertCoin g' k g u r n)
  · rename_i g u r n
    simp only [stepCore] at h; exc
    cases hp : pairOk cfg g with
    | none => simp [hp] at h
    | some k => simp only [hp] at h; exact measure_run s s' _ g' h (held_convertERC20 g' k g u r n)
  · rename_i g u r n src dst
    simp only [stepCore] at h; exc
    cases hk : cfg.kind g with
    | none => simp [hk] at h
    | some k =>
      simp only [hk] at h
      generalize hdst : (if okDen cfg g dst = true then dst else Den.base) = dst' at h
      by_cases h1 : k = .fx ∨ src = dst'
      · simp [h1] at h
      · simp only [h1, ↓reduceIte] at h
        cases hb : (okDen cfg g src && okDen cfg g dst')
        · simp [hb] at h
        · simp only [hb, Bool.not_true, Bool.false_eq_true, ↓reduceIte] at h
          simp only [Bool.and_eq_true] at hb
          have hden : ∀ d : Den, okDen cfg g d = true → ∀ c, d = .chain c → c < 3 := by
            intro d hd c hdc; subst hdc; simp [okDen, nChains] at hd; exact of_decide_eq_true hd.1
          refine measure_run s s' _ g' h ?_
          rw [flowDelta_append, held_convertDenom g' k g u n src dst' (hden src hb.1) (hden dst' hb.2)]
          split
          · simp [Obs.flowDelta]
          · rw [held_sendPair]; rfl

/-- every successful operation preserves the conservation measure of every token group -/
theorem step_measure (cfg : Cfg) (s s' : State) (op : Op) (g' : Nat) (h : step cfg s op = .ok s') :
    measure s' g' = measure s g' := by
  unfold step at h
  cases hch : op.chain? with
  | none => simp only [hch] at h; exact measure_converts cfg s s' g' op hch h
  | some c =>
    simp only [hch] at h
    split at h
    · rename_i hc
      have hc : c < 3 := hc
      cases op <;> simp only [Op.chain?, Option.some.injEq, reduceCtorEq] at hch <;> (try subst hch)
      · exact measure_deposit cfg s s' _ _ _ _ _ g' hc h
      · exact measure_send cfg s s' _ _ _ _ _ g' hc h
      · exact measure_xsend cfg s s' _ _ _ _ _ g' hc h
      · exact measure_vsend cfg s s' _ _ _ _ _ g' hc h
      · exact measure_xincfee cfg s s' _ _ _ _ _ g' hc h
      · exact measure_cancel cfg s s' _ _ _ g' hc h
      · exact measure_incfee cfg s s' _ _ _ _ _ g' hc h
      · exact measure_batch cfg s s' _ _ _ _ _ g' hc h
      · exact measure_executed cfg s s' _ _ _ g' hc h
      · exact measure_btimeout cfg s s' _ _ _ g' hc h
      · exact measure_bcout cfg s s' _ _ _ _ _ g' hc h
      · exact measure_vbcout cfg s s' _ _ _ _ _ _ g' hc h
      · exact measure_bcresult cfg s s' _ _ _ g' hc h
      · exact measure_bctimeout cfg s s' _ _ g' hc h
      · exact measure_bcin cfg s s' _ _ _ g' hc h
      · exact measure_bcinfail cfg s s' _ _ _ g' hc h
    · cases h

theorem runOps_measure (cfg : Cfg) (ops : List Op) (s : State) (g : Nat) :
    measure (runOps cfg s ops) g = measure s g := by
  induction ops generalizing s with
  | nil => rfl
  | cons op ops ih =>
    simp only [runOps, List.foldl_cons] at ih ⊢
    rw [ih]
    unfold stepT
    cases h : step cfg s op with
    | error e => rfl
    | ok s' => exact step_measure cfg s s' op g h

end FxVerif.Proofs.C04
