import FxVerif.Model.C12
import FxVerif.Proofs.C12Abi
/-!
# C12 helper lemmas: closed forms of the three pre-images over the regenerated layouts, `goU64`, list lemmas,
handler invariant
-/
namespace FxVerif.Model.C12
open FxVerif.Gen.C12

/-! ## small facts -/

theorem allSome_map_some {α β : Type} (xs : List α) (h : α → β) :
    allSome (xs.map fun x => some (h x)) = some (xs.map h) := by
  induction xs with
  | nil => rfl
  | cons x xs ih => simp [allSome, ih]

theorem goU64_of_lt {x : Nat} (h : x < 2 ^ 63) : goU64 x = x := by simp [goU64, h]

theorem goU64_lt {x : Nat} (h : x < 2 ^ 64) : goU64 x < 2 ^ 256 := by
  unfold goU64; split <;> omega

theorem goU64_inj {x y : Nat} (hx : x < 2 ^ 64) (hy : y < 2 ^ 64) (h : goU64 x = goU64 y) : x = y := by
  unfold goU64 at h; split at h <;> split at h <;> omega

theorem map_goU64_of_lt (xs : List Nat) (h : ∀ x ∈ xs, x < 2 ^ 63) : xs.map goU64 = xs := by
  induction xs with
  | nil => rfl
  | cons x xs ih =>
    simp only [List.map_cons]
    rw [goU64_of_lt (h x (by simp)), ih (fun y hy => h y (by simp [hy]))]

/-- two lists agreeing on a jointly injective family of projections are equal -/
theorem eq_of_map_eq {α : Type} (f : α → List Nat) (xs ys : List α)
    (hf : ∀ a ∈ xs, ∀ b ∈ ys, f a = f b → a = b) (h : xs.map f = ys.map f) : xs = ys := by
  induction xs generalizing ys with
  | nil => cases ys with
    | nil => rfl
    | cons _ _ => simp at h
  | cons x xs ih => cases ys with
    | nil => simp at h
    | cons y ys =>
      simp only [List.map_cons, List.cons.injEq] at h
      rw [hf x (by simp) y (by simp) h.1,
        ih ys (fun a ha b hb => hf a (by simp [ha]) b (by simp [hb])) h.2]

theorem map_pair {α : Type} (f g : α → Nat) (xs ys : List α) (h1 : xs.map f = ys.map f) (h2 : xs.map g = ys.map g) :
    xs.map (fun a => [f a, g a]) = ys.map (fun a => [f a, g a]) := by
  induction xs generalizing ys with
  | nil => cases ys with
    | nil => rfl
    | cons _ _ => simp at h1
  | cons x xs ih => cases ys with
    | nil => simp at h1
    | cons y ys =>
      simp only [List.map_cons, List.cons.injEq] at h1 h2 ⊢
      exact ⟨by simp [h1.1, h2.1], ih ys h1.2 h2.2⟩

theorem map_triple {α : Type} (f g k : α → Nat) (xs ys : List α) (h1 : xs.map f = ys.map f) (h2 : xs.map g = ys.map g)
    (h3 : xs.map k = ys.map k) :
    xs.map (fun a => [f a, g a, k a]) = ys.map (fun a => [f a, g a, k a]) := by
  induction xs generalizing ys with
  | nil => cases ys with
    | nil => rfl
    | cons _ _ => simp at h1
  | cons x xs ih => cases ys with
    | nil => simp at h1
    | cons y ys =>
      simp only [List.map_cons, List.cons.injEq] at h1 h2 h3 ⊢
      exact ⟨by simp [h1.1, h2.1, h3.1], ih ys h1.2 h2.2 h3.2⟩

/-- the second head slot of an encoding that starts with two static words -/
theorem enc_second_word (a b : Nat) (vs : List Val) :
    ((enc (.word a :: .word b :: vs)).drop 32).take 32 = word b := by
  simp only [enc, heads, headEnc, List.append_assoc]
  rw [drop_word_append, take_word_append]

theorem word_inj {a b : Nat} (ha : a < 2 ^ 256) (hb : b < 2 ^ 256) (h : word a = word b) : a = b := by
  rw [← fromBE_word ha, ← fromBE_word hb, h]

/-! ## well-formedness of objects (what the Go types guarantee) -/

def OracleSet.WF (o : OracleSet) : Prop :=
  o.nonce < 2 ^ 64 ∧ o.members.length < 2 ^ 256 ∧ ∀ m ∈ o.members, m.power < 2 ^ 64 ∧ m.addr < 2 ^ 160

def Batch.WF (b : Batch) : Prop :=
  b.nonce < 2 ^ 64 ∧ b.timeout < 2 ^ 64 ∧ b.token < 2 ^ 160 ∧ b.feeReceive < 2 ^ 160 ∧ b.txs.length < 2 ^ 256 ∧
  ∀ t ∈ b.txs, t.amount < 2 ^ 256 ∧ t.dest < 2 ^ 160 ∧ t.fee < 2 ^ 256

def BridgeCall.WF (c : BridgeCall) : Prop :=
  c.sender < 2 ^ 160 ∧ c.refund < 2 ^ 160 ∧ c.to < 2 ^ 160 ∧ c.nonce < 2 ^ 64 ∧ c.timeout < 2 ^ 64 ∧ c.eventNonce < 2 ^ 64 ∧
  c.tokens.length < 2 ^ 256 ∧ (∀ t ∈ c.tokens, t.contract < 2 ^ 160 ∧ t.amount < 2 ^ 256) ∧
  c.data.length < 2 ^ 256 ∧ (∀ b ∈ c.data, b < 256) ∧ c.memo.length < 2 ^ 256 ∧ (∀ b ∈ c.memo, b < 256)

/-- all `uint64` fields fit an `int64` -/
def OracleSet.Int64Safe (o : OracleSet) : Prop := o.nonce < 2 ^ 63 ∧ ∀ m ∈ o.members, m.power < 2 ^ 63
def Batch.Int64Safe (b : Batch) : Prop := b.nonce < 2 ^ 63 ∧ b.timeout < 2 ^ 63
def BridgeCall.Int64Safe (c : BridgeCall) : Prop := c.nonce < 2 ^ 63 ∧ c.timeout < 2 ^ 63 ∧ c.eventNonce < 2 ^ 63


/-! ## closed forms of the pre-images (simp evaluates the regenerated layouts on the typed objects) -/

def tagOracleSet : Nat := 0x636865636b706f696e7400000000000000000000000000000000000000000000
def tagBatch : Nat := 0x7472616e73616374696f6e426174636800000000000000000000000000000000
def tagBridgeCall : Nat := 0x62726964676543616c6c00000000000000000000000000000000000000000000

/-- argument values of the oracle-set digest; `u` is what happens to `uint64` fields (`goU64` in Go, `id` in Solidity) -/
def osVals (u : Nat → Nat) (o : OracleSet) (g : Nat) : List Val :=
  [.word g, .word tagOracleSet, .word (u o.nonce), .arr (o.members.map (·.addr)), .arr ((o.members.map (·.power)).map u)]

def batchVals (u : Nat → Nat) (b : Batch) (g : Nat) : List Val :=
  [.word g, .word tagBatch, .arr (b.txs.map (·.amount)), .arr (b.txs.map (·.dest)), .arr (b.txs.map (·.fee)),
   .word (u b.nonce), .word b.token, .word (u b.timeout), .word b.feeReceive]

def bcVals (u : Nat → Nat) (c : BridgeCall) (g : Nat) : List Val :=
  [.word g, .word tagBridgeCall, .word c.sender, .word c.refund, .arr (c.tokens.map (·.contract)), .arr (c.tokens.map (·.amount)),
   .word c.to, .bytes c.data, .bytes c.memo, .word (u c.nonce), .word (u c.timeout), .word (u c.eventNonce)]

theorem goPre_oracleSet (o : OracleSet) (g : Nat) : goPreimage "oracleSet" o.toObj g = some (enc (osVals goU64 o g)) := by
  simp [goPreimage, goArgs, findGo, goLayouts, evalGo, OracleSet.toObj, pathKey, Obj.column, allSome, List.lookup,
    allSome_map_some, Function.comp_def, osVals, tagOracleSet]

theorem tronPre_oracleSet (o : OracleSet) (g : Nat) : tronPreimage "oracleSet" o.toObj g = some (enc (osVals goU64 o g)) := by
  simp [tronPreimage, goArgs, findGo, tronLayouts, evalGo, OracleSet.toObj, pathKey, Obj.column, allSome, List.lookup,
    allSome_map_some, Function.comp_def, osVals, tagOracleSet]

theorem solPre_oracleSet (o : OracleSet) (g : Nat) : solPreimage "oracleSet" o.toObj g = some (enc (osVals id o g)) := by
  simp [solPreimage, solArgs, findSol, solSites, mainSol, solFuncOf, specOf, specOracleSet, evalSol, evalSlot, canon, Obj.scalar,
    OracleSet.toObj, pathKey, Obj.column, allSome, List.lookup, allSome_map_some, Function.comp_def, osVals, tagOracleSet]

theorem goPre_batch (b : Batch) (g : Nat) : goPreimage "batch" b.toObj g = some (enc (batchVals goU64 b g)) := by
  simp [goPreimage, goArgs, findGo, goLayouts, evalGo, Batch.toObj, pathKey, Obj.column, allSome, List.lookup,
    allSome_map_some, Function.comp_def, batchVals, tagBatch]

theorem tronPre_batch (b : Batch) (g : Nat) : tronPreimage "batch" b.toObj g = some (enc (batchVals goU64 b g)) := by
  simp [tronPreimage, goArgs, findGo, tronLayouts, evalGo, Batch.toObj, pathKey, Obj.column, allSome, List.lookup,
    allSome_map_some, Function.comp_def, batchVals, tagBatch]

theorem solPre_batch (b : Batch) (g : Nat) : solPreimage "batch" b.toObj g = some (enc (batchVals id b g)) := by
  simp [solPreimage, solArgs, findSol, solSites, mainSol, solFuncOf, specOf, specBatch, evalSol, evalSlot, canon, Obj.scalar,
    Batch.toObj, pathKey, Obj.column, allSome, List.lookup, allSome_map_some, Function.comp_def, batchVals, tagBatch]

theorem goPre_bridgeCall (c : BridgeCall) (g : Nat) : goPreimage "bridgeCall" c.toObj g = some (enc (bcVals goU64 c g)) := by
  simp [goPreimage, goArgs, findGo, goLayouts, evalGo, BridgeCall.toObj, pathKey, Obj.column, allSome, List.lookup,
    allSome_map_some, Function.comp_def, bcVals, tagBridgeCall]

theorem tronPre_bridgeCall (c : BridgeCall) (g : Nat) : tronPreimage "bridgeCall" c.toObj g = some (enc (bcVals goU64 c g)) := by
  simp [tronPreimage, goArgs, findGo, tronLayouts, evalGo, BridgeCall.toObj, pathKey, Obj.column, allSome, List.lookup,
    allSome_map_some, Function.comp_def, bcVals, tagBridgeCall]

theorem solPre_bridgeCall (c : BridgeCall) (g : Nat) : solPreimage "bridgeCall" c.toObj g = some (enc (bcVals id c g)) := by
  simp [solPreimage, solArgs, findSol, solSites, mainSol, solFuncOf, specOf, specBridgeCall, evalSol, evalSlot, canon, Obj.scalar,
    BridgeCall.toObj, pathKey, Obj.column, allSome, List.lookup, allSome_map_some, Function.comp_def, bcVals, tagBridgeCall]

/-! ## injectivity of the three argument lists -/

structure U64Map (u : Nat → Nat) : Prop where
  inj : ∀ x y, x < 2 ^ 64 → y < 2 ^ 64 → u x = u y → x = y
  lt : ∀ x, x < 2 ^ 64 → u x < 2 ^ 256

theorem goU64_map : U64Map goU64 := ⟨fun _ _ hx hy h => goU64_inj hx hy h, fun _ hx => goU64_lt hx⟩
theorem id_map : U64Map id := ⟨fun _ _ _ _ h => h, fun x hx => by simp; omega⟩

theorem lt160 {x : Nat} (h : x < 2 ^ 160) : x < 2 ^ 256 := by omega
theorem tag_lt : tagOracleSet < 2 ^ 256 ∧ tagBatch < 2 ^ 256 ∧ tagBridgeCall < 2 ^ 256 := by decide

theorem osVals_wf {u : Nat → Nat} (hu : U64Map u) {o : OracleSet} {g : Nat} (w : o.WF) (hg : g < 2 ^ 256) :
    ∀ v ∈ osVals u o g, v.WF := by
  obtain ⟨hn, hl, hm⟩ := w
  intro v hv
  simp only [osVals, List.mem_cons, List.not_mem_nil, or_false] at hv
  rcases hv with rfl | rfl | rfl | rfl | rfl
  · exact hg
  · exact tag_lt.1
  · exact hu.lt _ hn
  · refine ⟨by simpa using hl, ?_⟩
    intro x hx
    simp only [List.mem_map] at hx
    obtain ⟨m, hm', rfl⟩ := hx
    exact lt160 (hm m hm').2
  · refine ⟨by simpa using hl, ?_⟩
    intro x hx
    simp only [List.mem_map] at hx
    obtain ⟨p, ⟨m, hm', rfl⟩, rfl⟩ := hx
    exact hu.lt _ (hm m hm').1

theorem osVals_inj {u : Nat → Nat} (hu : U64Map u) {o1 o2 : OracleSet} {g1 g2 : Nat} (w1 : o1.WF) (w2 : o2.WF)
    (hg1 : g1 < 2 ^ 256) (hg2 : g2 < 2 ^ 256) (h : enc (osVals u o1 g1) = enc (osVals u o2 g2)) : o1 = o2 ∧ g1 = g2 := by
  have hv := enc_injective _ _ (osVals_wf hu w1 hg1) (osVals_wf hu w2 hg2) (by simp [osVals, Val.kind]) h
  simp only [osVals, List.cons.injEq, Val.word.injEq, Val.arr.injEq, and_true, true_and] at hv
  obtain ⟨hg, hn, ha, hp⟩ := hv
  refine ⟨?_, hg⟩
  have hnn : o1.nonce = o2.nonce := hu.inj _ _ w1.1 w2.1 hn
  have hmm : o1.members = o2.members := by
    apply eq_of_map_eq (fun m => [m.addr, u m.power])
    · intro a ha' b hb' hab
      simp only [List.cons.injEq, and_true] at hab
      have hp' := hu.inj _ _ (w1.2.2 a ha').1 (w2.2.2 b hb').1 hab.2
      cases a; cases b; simp_all
    · apply map_pair (fun m : Member => m.addr) (fun m : Member => u m.power) _ _ ha
      simpa [List.map_map, Function.comp_def] using hp
  cases o1; cases o2; simp_all


theorem batchVals_wf {u : Nat → Nat} (hu : U64Map u) {b : Batch} {g : Nat} (w : b.WF) (hg : g < 2 ^ 256) :
    ∀ v ∈ batchVals u b g, v.WF := by
  obtain ⟨hn, ht, htok, hfr, hl, hm⟩ := w
  intro v hv
  simp only [batchVals, List.mem_cons, List.not_mem_nil, or_false] at hv
  rcases hv with rfl | rfl | rfl | rfl | rfl | rfl | rfl | rfl | rfl
  · exact hg
  · exact tag_lt.2.1
  · refine ⟨by simpa using hl, ?_⟩
    intro x hx
    simp only [List.mem_map] at hx
    obtain ⟨m, hm', rfl⟩ := hx
    exact (hm m hm').1
  · refine ⟨by simpa using hl, ?_⟩
    intro x hx
    simp only [List.mem_map] at hx
    obtain ⟨m, hm', rfl⟩ := hx
    exact lt160 (hm m hm').2.1
  · refine ⟨by simpa using hl, ?_⟩
    intro x hx
    simp only [List.mem_map] at hx
    obtain ⟨m, hm', rfl⟩ := hx
    exact (hm m hm').2.2
  · exact hu.lt _ hn
  · exact lt160 htok
  · exact hu.lt _ ht
  · exact lt160 hfr

theorem batchVals_inj {u : Nat → Nat} (hu : U64Map u) {b1 b2 : Batch} {g1 g2 : Nat} (w1 : b1.WF) (w2 : b2.WF)
    (hg1 : g1 < 2 ^ 256) (hg2 : g2 < 2 ^ 256) (h : enc (batchVals u b1 g1) = enc (batchVals u b2 g2)) : b1 = b2 ∧ g1 = g2 := by
  have hv := enc_injective _ _ (batchVals_wf hu w1 hg1) (batchVals_wf hu w2 hg2) (by simp [batchVals, Val.kind]) h
  simp only [batchVals, List.cons.injEq, Val.word.injEq, Val.arr.injEq, and_true, true_and] at hv
  obtain ⟨hg, ha, hd, hf, hn, htok, ht, hfr⟩ := hv
  refine ⟨?_, hg⟩
  have hnn : b1.nonce = b2.nonce := hu.inj _ _ w1.1 w2.1 hn
  have htt : b1.timeout = b2.timeout := hu.inj _ _ w1.2.1 w2.2.1 ht
  have hmm : b1.txs = b2.txs := by
    apply eq_of_map_eq (fun t => [t.amount, t.dest, t.fee])
    · intro a _ b _ hab
      simp only [List.cons.injEq, and_true] at hab
      cases a; cases b; simp_all
    · exact map_triple (fun t : Transfer => t.amount) (fun t : Transfer => t.dest) (fun t : Transfer => t.fee) _ _ ha hd hf
  cases b1; cases b2; simp_all

theorem bcVals_wf {u : Nat → Nat} (hu : U64Map u) {c : BridgeCall} {g : Nat} (w : c.WF) (hg : g < 2 ^ 256) :
    ∀ v ∈ bcVals u c g, v.WF := by
  obtain ⟨hs, hr, hto, hn, ht, he, hl, hm, hdl, hd, hml, hmm⟩ := w
  intro v hv
  simp only [bcVals, List.mem_cons, List.not_mem_nil, or_false] at hv
  rcases hv with rfl | rfl | rfl | rfl | rfl | rfl | rfl | rfl | rfl | rfl | rfl | rfl
  · exact hg
  · exact tag_lt.2.2
  · exact lt160 hs
  · exact lt160 hr
  · refine ⟨by simpa using hl, ?_⟩
    intro x hx
    simp only [List.mem_map] at hx
    obtain ⟨m, hm', rfl⟩ := hx
    exact lt160 (hm m hm').1
  · refine ⟨by simpa using hl, ?_⟩
    intro x hx
    simp only [List.mem_map] at hx
    obtain ⟨m, hm', rfl⟩ := hx
    exact (hm m hm').2
  · exact lt160 hto
  · exact ⟨hdl, hd⟩
  · exact ⟨hml, hmm⟩
  · exact hu.lt _ hn
  · exact hu.lt _ ht
  · exact hu.lt _ he

theorem bcVals_inj {u : Nat → Nat} (hu : U64Map u) {c1 c2 : BridgeCall} {g1 g2 : Nat} (w1 : c1.WF) (w2 : c2.WF)
    (hg1 : g1 < 2 ^ 256) (hg2 : g2 < 2 ^ 256) (h : enc (bcVals u c1 g1) = enc (bcVals u c2 g2)) : c1 = c2 ∧ g1 = g2 := by
  have hv := enc_injective _ _ (bcVals_wf hu w1 hg1) (bcVals_wf hu w2 hg2) (by simp [bcVals, Val.kind]) h
  simp only [bcVals, List.cons.injEq, Val.word.injEq, Val.arr.injEq, Val.bytes.injEq, and_true, true_and] at hv
  obtain ⟨hg, hs, hr, hc, ha, hto, hd, hm, hn, ht, he⟩ := hv
  refine ⟨?_, hg⟩
  have hnn : c1.nonce = c2.nonce := hu.inj _ _ w1.2.2.2.1 w2.2.2.2.1 hn
  have htt : c1.timeout = c2.timeout := hu.inj _ _ w1.2.2.2.2.1 w2.2.2.2.2.1 ht
  have hee : c1.eventNonce = c2.eventNonce := hu.inj _ _ w1.2.2.2.2.2.1 w2.2.2.2.2.2.1 he
  have hmm : c1.tokens = c2.tokens := by
    apply eq_of_map_eq (fun t => [t.contract, t.amount])
    · intro a _ b _ hab
      simp only [List.cons.injEq, and_true] at hab
      cases a; cases b; simp_all
    · exact map_pair (fun t : Token => t.contract) (fun t : Token => t.amount) _ _ hc ha
  cases c1; cases c2; simp_all

/-- pre-images of different object kinds differ (second slot = method tag) -/
theorem tag_slot (a b : Nat) (vs ws : List Val) (c d : Nat) (hb : b < 2 ^ 256) (hd : d < 2 ^ 256)
    (h : enc (.word a :: .word b :: vs) = enc (.word c :: .word d :: ws)) : b = d := by
  have h1 := enc_second_word a b vs
  have h2 := enc_second_word c d ws
  rw [h] at h1
  exact word_inj hb hd (h1.symm.trans h2)

end FxVerif.Model.C12
