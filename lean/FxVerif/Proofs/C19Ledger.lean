import FxVerif.Model.C19
import FxVerif.Proofs.C19
/-!
# C19 — the ledger: sums over the balance stores, and the invariant "every ERC-20 token in existence is backed by a coin
escrowed in the erc20 module account"
-/
namespace FxVerif.Proofs.C19
open FxVerif.Model.C19

/-! ## stores with unique keys and sums over them -/

def Keys {κ : Type} (s : Store κ) : Prop := (s.map (·.1)).Nodup

theorem tsum_cons {κ : Type} (p : κ → Bool) (k : κ) (v : Nat) (r : Store κ) :
    tsum p ((k, v) :: r) = (if p k then v else 0) + tsum p r := by
  unfold tsum
  rw [List.filter_cons]
  by_cases h : p k = true <;> simp [h]

theorem keys_filter {κ : Type} (s : Store κ) (q : κ × Nat → Bool) (h : Keys s) : Keys (s.filter q) := by
  unfold Keys at h ⊢
  exact List.Nodup.sublist (List.Sublist.map _ List.filter_sublist) h

theorem filter_ne_self {κ : Type} [DecidableEq κ] (s : Store κ) (k : κ) (h : k ∉ s.map (·.1)) :
    s.filter (fun p => p.1 ≠ k) = s := by
  rw [List.filter_eq_self]
  intro a ha
  simp only [ne_eq, decide_not, Bool.not_eq_eq_eq_not, Bool.not_true, decide_eq_false_iff_not]
  intro e
  exact h (List.mem_map.2 ⟨a, ha, e⟩)

theorem keys_sset {κ : Type} [DecidableEq κ] (s : Store κ) (k : κ) (v : Nat) (h : Keys s) : Keys (sset s k v) := by
  unfold sset Keys
  simp only [List.map_cons, List.nodup_cons]
  refine ⟨?_, keys_filter s _ h⟩
  intro hin
  obtain ⟨a, ha, hak⟩ := List.mem_map.1 hin
  have := (List.mem_filter.1 ha).2
  simp at this
  exact this hak

theorem keys_sadd {κ : Type} [DecidableEq κ] (s : Store κ) (k : κ) (n : Nat) (h : Keys s) : Keys (sadd s k n) :=
  keys_sset s k _ h

theorem keys_ssub {κ : Type} [DecidableEq κ] (s : Store κ) (k : κ) (n : Nat) (h : Keys s) : Keys (ssub s k n) :=
  keys_sset s k _ h

theorem tsum_filter_ne {κ : Type} [DecidableEq κ] (p : κ → Bool) (s : Store κ) (k : κ) (h : Keys s) :
    tsum p (s.filter (fun x => x.1 ≠ k)) + (if p k then sget s k else 0) = tsum p s := by
  induction s with
  | nil => simp [tsum, sget]
  | cons a r ih =>
    obtain ⟨k', v'⟩ := a
    have hk : k' ∉ r.map (·.1) ∧ Keys r := by
      unfold Keys at h
      rw [List.map_cons, List.nodup_cons] at h
      exact h
    rw [List.filter_cons]
    by_cases e : k' = k
    · subst e
      have hd : decide (((k', v') : κ × Nat).1 ≠ k') = false := by simp
      rw [hd]
      simp only [Bool.false_eq_true, ↓reduceIte]
      rw [filter_ne_self r k' hk.1, tsum_cons]
      simp only [sget, ↓reduceIte]
      omega
    · have hd : decide (((k', v') : κ × Nat).1 ≠ k) = true := by simp [e]
      rw [hd]
      simp only [↓reduceIte]
      rw [tsum_cons, tsum_cons]
      have := ih hk.2
      simp only [sget, e, ↓reduceIte]
      omega

theorem tsum_sset {κ : Type} [DecidableEq κ] (p : κ → Bool) (s : Store κ) (k : κ) (v : Nat) (h : Keys s) :
    tsum p (sset s k v) + (if p k then sget s k else 0) = tsum p s + (if p k then v else 0) := by
  unfold sset
  rw [tsum_cons]
  have := tsum_filter_ne p s k h
  omega

theorem tsum_sadd {κ : Type} [DecidableEq κ] (p : κ → Bool) (s : Store κ) (k : κ) (n : Nat) (h : Keys s) :
    tsum p (sadd s k n) = tsum p s + (if p k then n else 0) := by
  have := tsum_sset p s k (sget s k + n) h
  unfold sadd
  by_cases hp : p k = true
  · simp only [hp, ↓reduceIte] at this ⊢; omega
  · simp only [hp, Bool.false_eq_true, ↓reduceIte] at this ⊢; omega

theorem tsum_ssub {κ : Type} [DecidableEq κ] (p : κ → Bool) (s : Store κ) (k : κ) (n : Nat) (h : Keys s)
    (hle : n ≤ sget s k) : tsum p (ssub s k n) + (if p k then n else 0) = tsum p s := by
  have := tsum_sset p s k (sget s k - n) h
  unfold ssub
  by_cases hp : p k = true
  · simp only [hp, ↓reduceIte] at this ⊢; omega
  · simp only [hp, Bool.false_eq_true, ↓reduceIte] at this ⊢; omega

/-! ## the backing invariant -/

theorem pairOf_denomOfE (t : ETok) : pairOf (denomOfE t) = some t := by cases t <;> rfl

theorem pairOf_some {d : Denom} {t : ETok} (h : pairOf d = some t) : d = denomOfE t := by
  cases d <;> simp [pairOf] at h <;> subst h <;> rfl

theorem denomOfE_inj {t t' : ETok} (h : denomOfE t = denomOfE t') : t = t' := by
  cases t <;> cases t' <;> simp [denomOfE] at h ⊢
  all_goals exact h

/-- stores have unique keys and every ERC-20 token is backed one to one by its coin in the erc20 module account -/
structure Backed (b : Bal) : Prop where
  kb : Keys b.bank
  ke : Keys b.erc
  eq : ∀ t, supply t b.erc = sget b.bank (erc20Mod, denomOfE t)

theorem backed_init : Backed init.bal := ⟨by simp [init, Keys], by simp [init, Keys], by intro t; simp [init, supply, tsum, sget]⟩

/-- a change of the bank store at an account other than the erc20 module account -/
theorem backed_bank_other (b : Bal) (bank' : Store (Addr × Denom)) (h : Backed b) (hk : Keys bank')
    (hsame : ∀ t, sget bank' (erc20Mod, denomOfE t) = sget b.bank (erc20Mod, denomOfE t)) : Backed { b with bank := bank' } :=
  ⟨hk, h.ke, fun t => by rw [hsame]; exact h.eq t⟩

theorem backed_mint (b : Bal) (a : Addr) (d : Denom) (amt : Nat) (h : Backed b) (ha : a ≠ erc20Mod) :
    Backed (b.mint a d amt) := by
  refine backed_bank_other b _ h (keys_sadd _ _ _ h.kb) ?_
  intro d'
  simp [get_add, ha]

theorem backed_move (b : Bal) (d : Denom) (src dst : Addr) (amt : Nat) (h : Backed b) (h1 : src ≠ erc20Mod)
    (h2 : dst ≠ erc20Mod) : Backed (b.move d src dst amt) := by
  refine backed_bank_other b _ h (keys_sadd _ _ _ (keys_ssub _ _ _ h.kb)) ?_
  intro d'
  simp [get_add, get_sub, h1, h2]

theorem backed_marker (b : Bal) (m : Nat) (c : Option CallerId) (h : Backed b) :
    Backed { b with marker := m, caller := c } := ⟨h.kb, h.ke, h.eq⟩

theorem backed_switch (b : Bal) (off : List ETok) (p : Bool) (h : Backed b) :
    Backed { b with off := off, paused := p } := ⟨h.kb, h.ke, h.eq⟩

/-- FX backs no ERC-20 token: moving it between any two accounts keeps the invariant -/
theorem backed_move_fx (b : Bal) (src dst : Addr) (amt : Nat) (h : Backed b) : Backed (b.move .fx src dst amt) := by
  refine backed_bank_other b _ h (keys_sadd _ _ _ (keys_ssub _ _ _ h.kb)) ?_
  intro t
  cases t <;> simp [denomOfE, get_add, get_sub]

theorem backed_convertCoin (b b' : Bal) (d : Denom) (holder receiver : Addr) (amt : Nat) (h : Backed b)
    (hh : holder ≠ erc20Mod) (hc : convertCoin b d holder receiver amt = some b') : Backed b' := by
  unfold convertCoin at hc
  cases hp : pairOf d with
  | none => simp [hp] at hc
  | some t =>
    simp only [hp] at hc
    split at hc
    · cases hc
    split at hc
    · cases hc
    · cases hc
      have hd := pairOf_some hp
      refine ⟨keys_sadd _ _ _ (keys_ssub _ _ _ h.kb), keys_sadd _ _ _ h.ke, ?_⟩
      intro t'
      simp only [supply]
      rw [tsum_sadd _ _ _ _ h.ke]
      have := h.eq t'
      simp only [supply] at this
      rw [this]
      simp only [get_add, get_sub, Prod.mk.injEq, hh, false_and, ↓reduceIte, true_and]
      by_cases e : t = t'
      · subst e; simp [hd]
      · have : d ≠ denomOfE t' := by rw [hd]; exact fun x => e (denomOfE_inj x)
        simp [e, this]

theorem backed_toBaseCoin (b b' : Bal) (d r d' : Denom) (holder : Addr) (amt : Nat) (h : Backed b)
    (hh : holder ≠ erc20Mod) (hc : toBaseCoin b d r holder amt = some (b', d')) : Backed b' := by
  unfold toBaseCoin at hc
  split at hc
  · cases hc; exact h
  · split at hc
    · cases hc
    · cases hc
      refine backed_bank_other b _ h (keys_sadd _ _ _ (keys_sadd _ _ _ (keys_ssub _ _ _ h.kb))) ?_
      intro dd
      have ht : ¬ (transferMod = erc20Mod) := by decide
      simp [get_add, get_sub, hh, ht]

/-- user addresses and channel numbers: module accounts (escrow accounts 1000 + l, transfer module 2000, erc20 module
2001) are never senders or receivers — the real bank keeper blocks them -/
def userAddr (a : Addr) : Prop := a < 1000

theorem user_ne (a : Addr) (h : userAddr a) : a ≠ erc20Mod ∧ a ≠ transferMod :=
  ⟨Nat.ne_of_lt (Nat.lt_trans h (by decide)), Nat.ne_of_lt (Nat.lt_trans h (by decide))⟩

theorem escrow_ne (l : Ch) (h : l < 1000) : escrow l ≠ erc20Mod := by
  exact Nat.ne_of_lt (Nat.lt_trans (Nat.add_lt_add_left h 1000) (by decide))

theorem backed_fund (b : Bal) (a : Addr) (t : Tok) (l : Ch) (amt : Nat) (h : Backed b) (ha : userAddr a) :
    Backed (fundBal b a t l amt) := by
  have hne := (user_ne a ha).1
  cases t with
  | A =>
    simp only [fundBal]
    refine ⟨keys_sadd _ _ _ (keys_sadd _ _ _ h.kb), keys_sadd _ _ _ h.ke, ?_⟩
    intro t'
    simp only [supply]
    rw [tsum_sadd _ _ _ _ h.ke]
    have := h.eq t'
    simp only [supply] at this
    rw [this]
    have ht : ¬ (transferMod = erc20Mod) := by decide
    simp only [get_add, Prod.mk.injEq, ht, false_and, ↓reduceIte, true_and]
    cases t' <;> simp [denomOfE]
  | F => exact backed_mint b a _ amt h hne
  | N => exact backed_mint b a _ amt h hne
  | U => exact backed_mint b a _ amt h hne
  | V => exact backed_mint b a _ amt h hne
  | X => exact backed_mint b a _ amt h hne
  | W => exact backed_mint b a _ amt h hne
  | Y => exact backed_mint b a _ amt h hne
  | Z => exact backed_mint b a _ amt h hne

theorem backed_recvApp (b b1 : Bal) (l : Ch) (t : Tok) (to : Addr) (amt : Nat) (h : Backed b) (hto : userAddr to)
    (hl : l < 1000) (hr : recvApp b l t to amt = some b1) : Backed b1 := by
  unfold recvApp at hr
  split at hr
  · cases hr
  · split at hr
    · split at hr
      · cases hr
      · cases hr; exact backed_move b _ _ _ amt h (escrow_ne l hl) (user_ne to hto).1
    · cases hr; exact backed_mint b to _ amt h (user_ne to hto).1

theorem backed_convStep (cfg : Cfg) (vmeta : List Ch) (b : Bal) (d : Denom) (k : RKind) (to : Addr) (amt : Nat)
    (h : Backed b) (hto : userAddr to) : Backed (convStepD cfg vmeta b d k to amt).1 := by
  unfold convStepD
  split
  · split
    · exact h
    · split
      · exact h
      · cases h1 : toBaseCoin b d (resolve cfg vmeta true d) to amt with
        | none => exact h
        | some r =>
          obtain ⟨b1, d1⟩ := r
          have hb1 := backed_toBaseCoin b b1 _ _ d1 to amt h (user_ne to hto).1 h1
          simp only
          cases h2 : convertCoin b1 d1 to to amt with
          | none => exact hb1
          | some b2 => exact backed_convertCoin b1 b2 d1 to to amt hb1 (user_ne to hto).1 h2
  · exact h

theorem backed_memoStep (cfg : Cfg) (b : Bal) (src dst : Ch) (m : Memo) (snd : Nat) (h : Backed b) :
    Backed (memoStep cfg b src dst m snd).1 := by
  cases m <;> simp only [memoStep]
  · exact h
  · exact h
  · exact backed_marker b _ _ h
  · exact h
  · split
    · split
      · exact h
      · exact backed_move_fx b _ _ _ h
    · exact h

theorem backed_recvBal (cfg : Cfg) (vmeta : List Ch) (b : Bal) (src l : Ch) (t : Tok) (k : RKind) (to : Addr) (amt : Nat)
    (m : Memo) (snd : Nat) (h : Backed b) (hto : userAddr to) (hl : l < 1000) :
    Backed (recvBal cfg vmeta b src l t k to amt m snd).1 := by
  unfold recvBal
  split
  · exact h
  · cases ha : recvApp b l t to amt with
    | none => exact h
    | some b1 =>
      have hb1 := backed_recvApp b b1 l t to amt h hto hl ha
      simp only
      split
      · exact hb1
      · have hhook : Backed (recvHook cfg vmeta b1 src l t k to amt m snd).1 := by
          unfold recvHook
          split
          · exact hb1
          · split
            · exact hb1
            · rename_i dh _
              simp only
              split
              · exact backed_convStep cfg vmeta b1 dh k to amt hb1 hto
              · split
                · exact backed_memoStep cfg _ src l m snd (backed_convStep cfg vmeta b1 dh k to amt hb1 hto)
                · exact backed_convStep cfg vmeta b1 dh k to amt hb1 hto
        cases hh : recvHook cfg vmeta b1 src l t k to amt m snd with
        | mk b2 ok =>
          rw [hh] at hhook
          cases ok with
          | true => exact hhook
          | false =>
            simp only
            split
            · exact h
            · exact hhook

theorem backed_sendBal (b b' : Bal) (l : Ch) (sender : Addr) (t : Tok) (amt : Nat) (evm : Bool) (h : Backed b)
    (hs : userAddr sender) (hl : l < 1000) (hr : sendBal b l sender t amt evm = some b') : Backed b' := by
  have hne := (user_ne sender hs).1
  have hesc := escrow_ne l hl
  unfold sendBal at hr
  split at hr
  · cases hr
  · split at hr
    · split at hr
      · cases hr
      · cases hr; exact backed_move b _ _ _ amt h hne hesc
    · split at hr
      · cases hr
      · rename_i hcond
        cases hr
        have hc : amt ≤ sget b.erc (sender, ETok.base) ∧ amt ≤ sget b.bank (transferMod, Denom.vA l) ∧
            amt ≤ sget b.bank (erc20Mod, Denom.base) := by
          simp only [not_or, Nat.not_lt] at hcond; exact hcond
        refine ⟨keys_ssub _ _ _ (keys_ssub _ _ _ h.kb), keys_ssub _ _ _ h.ke, ?_⟩
        intro t'
        simp only [supply]
        have h1 := tsum_ssub (fun k => decide (k.2 = t')) b.erc (sender, ETok.base) amt h.ke hc.1
        have h2 := h.eq t'
        simp only [supply] at h2
        have ht : ¬ (transferMod = erc20Mod) := by decide
        simp only [get_sub, Prod.mk.injEq, ht, false_and, ↓reduceIte, true_and]
        cases t' with
        | base => simp only [decide_true, ↓reduceIte, denomOfE] at h1 h2 ⊢; omega
        | nat => simp [denomOfE] at h1 h2 ⊢; omega
        | v l' => simp [denomOfE] at h1 h2 ⊢; omega
        | w l' => simp [denomOfE] at h1 h2 ⊢; omega
        | z l' => simp [denomOfE] at h1 h2 ⊢; omega
    · split at hr
      · cases hr
      · cases hr; exact backed_move b _ _ _ amt h hne hesc
    · split at hr
      · cases hr
      · cases hr; exact backed_move b _ _ _ amt h hne hesc
    · cases hr

theorem backed_refundApp (b b1 : Bal) (l : Ch) (p : Pkt) (h : Backed b) (hs : userAddr p.sender) (hl : l < 1000)
    (hr : refundApp b l p = some b1) : Backed b1 := by
  unfold refundApp at hr
  split at hr
  · split at hr
    · cases hr
    · cases hr; exact backed_move b _ _ _ _ h (escrow_ne l hl) (user_ne _ hs).1
  · cases hr; exact backed_mint b _ _ _ h (user_ne _ hs).1

theorem backed_refundHook (cfg : Cfg) (vmeta : List Ch) (b b' : Bal) (l : Ch) (p : Pkt) (form : Bool) (h : Backed b)
    (hs : userAddr p.sender) (hr : refundHook cfg vmeta b l p form = some b') : Backed b' := by
  unfold refundHook at hr
  simp only at hr
  cases h1 : toBaseCoin b (bankDenom p.tok l) (resolve cfg vmeta false (bankDenom p.tok l)) p.sender p.amt with
  | none => simp [h1] at hr
  | some r =>
    obtain ⟨b1, d1⟩ := r
    have hb1 := backed_toBaseCoin b b1 _ _ d1 p.sender p.amt h (user_ne _ hs).1 h1
    simp only [h1] at hr
    split at hr
    · exact backed_convertCoin b1 b' d1 p.sender _ p.amt hb1 (user_ne _ hs).1 hr
    · cases hr; exact hb1

/-- one step of a middleware callback keeps the backing invariant — whatever the step is, in whatever order -/
theorem backed_mwStep (cfg : Cfg) (c : Ctl) (l : Ch) (seq : Seq) (p : Pkt) (i : MwIn) (r r' : MwRun) (st : String × String)
    (h : Backed r.bal) (hp : userAddr p.sender) (hl : l < 1000) (hs : mwStep cfg c l seq p i r st = some r') :
    Backed r'.bal := by
  unfold mwStep at hs
  simp only at hs
  split at hs
  · split at hs
    · cases hs
    · cases hs; exact h
  · split at hs
    · split at hs
      · cases hs
      · cases hs; exact h
    · split at hs
      · split at hs
        · split at hs
          · cases hs
          · cases hs; exact h
        · cases hs; exact h
        · rename_i hap
          cases ha : refundApp r.bal l p with
          | none =>
            simp only [ha] at hs
            split at hs
            · cases hs
            · cases hs; exact h
          | some b1 =>
            simp only [ha, Option.some.injEq] at hs
            subst hs
            exact backed_refundApp r.bal b1 l p h hp hl ha
      · split at hs
        · split at hs
          · cases hh : refundHook cfg c.vmeta r.bal l p (refundForm cfg c (l, seq) p) with
            | none =>
              simp only [hh] at hs
              split at hs
              · cases hs
              · cases hs; exact h
            | some b2 =>
              simp only [hh, Option.some.injEq] at hs
              subst hs
              exact backed_refundHook cfg _ r.bal b2 l p _ h hp hh
          · cases hs; exact h
        · cases hs; exact h

theorem backed_mwFold (cfg : Cfg) (c : Ctl) (l : Ch) (seq : Seq) (p : Pkt) (i : MwIn) (hp : userAddr p.sender) (hl : l < 1000) :
    ∀ (steps : List (String × String)) (r r' : MwRun), Backed r.bal → mwFold cfg c l seq p i steps r = some r' → Backed r'.bal := by
  intro steps
  induction steps with
  | nil => intro r r' h hf; simp only [mwFold, Option.some.injEq] at hf; subst hf; exact h
  | cons st rest ih =>
    intro r r' h hf
    simp only [mwFold] at hf
    cases hs : mwStep cfg c l seq p i r st with
    | none => simp [hs] at hf
    | some r1 =>
      simp only [hs] at hf
      exact ih r1 r' (backed_mwStep cfg c l seq p i r r1 st h hp hl hs) hf

/-- a run of a middleware callback over ANY step list, in ANY order, keeps the backing invariant -/
theorem backed_runMw (cfg : Cfg) (s s' : State) (l : Ch) (seq : Seq) (p : Pkt) (i : MwIn) (steps : List (String × String))
    (h : Backed s.bal) (hp : userAddr p.sender) (hl : l < 1000) (hr : runMw cfg s l seq p i steps = some s') : Backed s'.bal := by
  unfold runMw at hr
  cases hf : mwFold cfg s.ctl l seq p i steps { bal := s.bal } with
  | none => simp [hf] at hr
  | some r =>
    simp only [hf, Option.map_some, Option.some.injEq] at hr
    subst hr
    exact backed_mwFold cfg s.ctl l seq p i hp hl steps _ r h hf

/-! ## operations on user accounts -/

/-- operations whose accounts are user accounts and whose channel numbers are below 1000 -/
def userOnly : Op → Prop
  | .fund a _ l _ => userAddr a ∧ l < 1000
  | .recv l _ _ to _ _ _ => userAddr to ∧ l < 1000
  | .send l a _ _ => userAddr a ∧ l < 1000
  | .csend l a _ _ => userAddr a ∧ l < 1000
  | .settle l _ _ => l < 1000
  | .ackw l _ _ => l < 1000
  | _ => True

/-- commitments carry user senders -/
def SendersOk (c : Ctl) : Prop := ∀ x ∈ c.commits, userAddr x.2.sender

theorem sendersOk_drop (c : Ctl) (k : Ch × Seq) (h : ∀ x ∈ c.commits, userAddr x.2.sender) :
    ∀ x ∈ dropCommit c.commits k, userAddr x.2.sender := fun x hx => h x (mem_dropCommit.1 hx).1

theorem backed_step (cfg : Cfg) (s : State) (op : Op) (hu : userOnly op) (h : Backed s.bal) (hc : SendersOk s.ctl) :
    Backed (stepWith cfg s op).1.bal ∧ SendersOk (stepWith cfg s op).1.ctl := by
  cases op with
  | reset => exact ⟨backed_init, fun x hx => absurd hx List.not_mem_nil⟩
  | chan l r => exact ⟨h, hc⟩
  | vmeta l => exact ⟨h, hc⟩
  | migrate => exact ⟨h, hc⟩
  | toggle t l =>
    simp only [stepWith]
    split
    · exact ⟨h, hc⟩
    · exact ⟨backed_switch s.bal _ _ h, hc⟩
  | pause => exact ⟨backed_switch s.bal _ _ h, hc⟩
  | seqset l n =>
    simp only [stepWith]
    split
    · exact ⟨h, hc⟩
    · exact ⟨h, hc⟩
  | bad => exact ⟨h, hc⟩
  | nop => exact ⟨h, hc⟩
  | fund a t l amt =>
    simp only [stepWith]
    split
    · exact ⟨h, hc⟩
    · exact ⟨backed_fund s.bal a t l amt h hu.1, hc⟩
  | recv l t k to amt m snd =>
    simp only [stepWith]
    split
    · exact ⟨backed_recvBal cfg _ s.bal _ l t k to amt m snd h hu.1 hu.2, hc⟩
    · exact ⟨h, hc⟩
  | send l a t amt =>
    simp only [stepWith, doSend]
    cases hb : sendBal s.bal l a t amt true with
    | none => exact ⟨h, hc⟩
    | some b =>
      refine ⟨backed_sendBal s.bal b l a t amt true h hu.1 hu.2 hb, ?_⟩
      intro x hx
      simp only [sendCtl, List.mem_cons] at hx
      rcases hx with hx | hx
      · subst hx; exact hu.1
      · exact hc x hx
  | csend l a t amt =>
    simp only [stepWith, doSend]
    cases hb : sendBal s.bal l a t amt false with
    | none => exact ⟨h, hc⟩
    | some b =>
      refine ⟨backed_sendBal s.bal b l a t amt false h hu.1 hu.2 hb, ?_⟩
      intro x hx
      simp only [sendCtl, List.mem_cons] at hx
      rcases hx with hx | hx
      · subst hx; exact hu.1
      · exact hc x hx
  | settle l seq mode =>
    simp only [stepWith, settle]
    cases hl : lookup (l, seq) s.ctl.commits with
    | none => exact ⟨h, hc⟩
    | some p =>
      have hp : userAddr p.sender := hc _ (lookup_mem hl)
      simp only
      cases hst : settleState cfg s l seq p mode with
      | none => exact ⟨h, hc⟩
      | some s' =>
        simp only
        have hcom := settleState_commits cfg s s' l seq p mode hst
        refine ⟨?_, by intro x hx; rw [hcom] at hx; exact hc x (mem_dropCommit.1 hx).1⟩
        have hrefund : ∀ b, refundState cfg s l seq p b = some s' → Backed s'.bal := by
          intro b hr
          cases b with
          | true =>
            obtain ⟨b1, ha, hh | hh⟩ := refundState_cases cfg s s' l seq p hr
            · obtain ⟨b2, hh2, hs'⟩ := hh
              subst hs'
              exact backed_refundHook cfg _ b1 b2 l p _ (backed_refundApp s.bal b1 l p h hp hu ha) hp hh2
            · obtain ⟨_, _, hs'⟩ := hh
              subst hs'
              exact backed_refundApp s.bal b1 l p h hp hu ha
          | false =>
            obtain ⟨b1, ha, hs'⟩ := refundState_false cfg s s' l seq p hr
            subst hs'
            exact backed_refundApp s.bal b1 l p h hp hu ha
        cases mode with
        | ackOk => simp only [settleState, Option.some.injEq] at hst; subst hst; exact h
        | ackErr => exact hrefund _ hst
        | timeout => exact backed_runMw cfg s s' l seq p _ _ h hp hu hst
  | ackw l seq w =>
    -- every step list, every order, every combination of the two decisions, agreeing or not
    simp only [stepWith, settleW]
    cases hl : lookup (l, seq) s.ctl.commits with
    | none => exact ⟨h, hc⟩
    | some p =>
      have hp : userAddr p.sender := hc _ (lookup_mem hl)
      simp only
      cases hst : settleAckState cfg s l seq p w with
      | none => exact ⟨h, hc⟩
      | some s' =>
        simp only
        unfold settleAckState at hst
        have hcom := runMw_commits cfg s s' l seq p _ _ hst
        exact ⟨backed_runMw cfg s s' l seq p _ _ h hp hu hst, by intro x hx; rw [hcom] at hx; exact hc x (mem_dropCommit.1 hx).1⟩

theorem backed_run (cfg : Cfg) (ops : List Op) (s : State) (hu : ∀ op ∈ ops, userOnly op) (h : Backed s.bal)
    (hc : SendersOk s.ctl) : Backed (runWith cfg s ops).bal := by
  induction ops generalizing s with
  | nil => exact h
  | cons op ops ih =>
    have := backed_step cfg s op (hu op List.mem_cons_self) h hc
    exact ih _ (fun o ho => hu o (List.mem_cons_of_mem _ ho)) this.1 this.2

end FxVerif.Proofs.C19
