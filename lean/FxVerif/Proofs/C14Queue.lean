import FxVerif.Proofs.C14
/-! helper lemmas for C14: the time-queue slices (`ubdQ`, `redQ`) under the per-entry rewrite of
`DistrStakingMigrate.Execute`, generic in the shape of the queue element (pair / triplet) -/
namespace FxVerif.Proofs.C14
open FxVerif.Model.C14

section setAt
variable {κ ν : Type} [BEq κ] [LawfulBEq κ] [DecidableEq κ]

theorem get_mapval (m : Store κ ν) (k k' : κ) (v : ν) :
    get (m.map (fun p => if p.1 == k then (p.1, v) else p)) k' =
      if k' = k then (get m k').map (fun _ => v) else get m k' := by
  induction m with
  | nil => simp [get_nil]
  | cons p m ih =>
    simp only [List.map_cons]
    rw [get_cons, get_cons, ih]
    by_cases hp : p.1 == k
    · have hpk : p.1 = k := eq_of_beq hp
      simp only [hp, ↓reduceIte]
      by_cases hk : k' = k
      · subst hk
        simp [hpk]
      · have : (k' == p.1) = false := by
          cases hh : k' == p.1
          · rfl
          · exact absurd ((eq_of_beq hh).trans hpk) hk
        simp [hk, this]
    · simp only [hp, Bool.false_eq_true, ↓reduceIte]
      by_cases hk : k' = k
      · subst hk
        have : (k' == p.1) = false := by
          cases hh : k' == p.1
          · rfl
          · exact absurd (by rw [eq_of_beq hh]; exact beq_self_eq_true _) hp
        simp [this]
      · simp [hk]

omit [DecidableEq κ] in
theorem any_key_of_get {m : Store κ ν} {k : κ} {v : ν} (h : get m k = some v) : m.any (fun p => p.1 == k) = true := by
  have := get_some_mem m k v h
  exact List.any_eq_true.mpr ⟨(k, v), this, beq_self_eq_true _⟩

omit [DecidableEq κ] in
theorem get_of_any_key {m : Store κ ν} {k : κ} (h : m.any (fun p => p.1 == k) = true) : ∃ v, get m k = some v := by
  induction m with
  | nil => simp at h
  | cons q m ih =>
    rw [get_cons]
    by_cases hq : k == q.1
    · exact ⟨q.2, by simp [hq]⟩
    · have hq' : (q.1 == k) = false := by
        cases hh : q.1 == k
        · rfl
        · exact absurd (by rw [eq_of_beq hh]; exact beq_self_eq_true _) hq
      simp only [List.any_cons, hq', Bool.false_or] at h
      simp only [hq, Bool.false_eq_true, ↓reduceIte]
      exact ih h

theorem get_setAt (m : Store κ ν) (k k' : κ) (v : ν) :
    get (setAt m k v) k' = if k' = k then some v else get m k' := by
  unfold setAt
  split
  · rename_i h
    obtain ⟨w, hw⟩ := get_of_any_key h
    rw [get_mapval]
    by_cases hk : k' = k
    · subst hk; simp [hw]
    · simp [hk]
  · rw [get_cons]
    by_cases hk : k' = k
    · subst hk; simp
    · have : (k' == k) = false := by
        cases hh : k' == k
        · rfl
        · exact absurd (eq_of_beq hh) hk
      simp [hk, this]

end setAt

section slices
variable {γ : Type}

/-- rename the delegator of a queue element -/
def renG (frm to : Addr) (p : Addr × γ) : Addr × γ := if p.1 == frm then (to, p.2) else p

theorem renPair_eq (frm to : Addr) : renPair frm to = renG frm to := rfl
theorem renTriple_eq (frm to : Addr) : renTriple frm to = renG frm to := rfl

theorem renG_fst_ne (frm to : Addr) (hne : frm ≠ to) (p : Addr × γ) : (renG frm to p).1 ≠ frm := by
  unfold renG
  by_cases h : p.1 == frm
  · simp only [h, ↓reduceIte]; exact fun e => hne e.symm
  · simp only [h, Bool.false_eq_true, ↓reduceIte]; exact fun e => h (by rw [e]; exact beq_self_eq_true _)

theorem renG_of_ne (frm to : Addr) (p : Addr × γ) (h : p.1 ≠ frm) : renG frm to p = p := by
  unfold renG
  have : (p.1 == frm) = false := by
    cases hh : p.1 == frm
    · rfl
    · exact absurd (eq_of_beq hh) h
  simp [this]

theorem renG_idem (frm to : Addr) (hne : frm ≠ to) (p : Addr × γ) : renG frm to (renG frm to p) = renG frm to p :=
  renG_of_ne frm to _ (renG_fst_ne frm to hne p)

theorem map_renG_idem (frm to : Addr) (hne : frm ≠ to) (sl : List (Addr × γ)) :
    (sl.map (renG frm to)).map (renG frm to) = sl.map (renG frm to) := by
  rw [List.map_map]
  exact List.map_congr_left (fun p _ => renG_idem frm to hne p)

theorem map_renG_of_clean (frm to : Addr) (sl : List (Addr × γ)) (h : sl.any (fun x => x.1 == frm) = false) :
    sl.map (renG frm to) = sl := by
  have h' : ∀ p ∈ sl, renG frm to p = p := fun p hp => by
    apply renG_of_ne
    intro e
    have := List.any_eq_false.mp h p hp
    simp [e] at this
  calc sl.map (renG frm to) = sl.map id := List.map_congr_left h'
    _ = sl := List.map_id sl

theorem renG_clean (frm to : Addr) (hne : frm ≠ to) (sl : List (Addr × γ)) :
    ∀ x ∈ sl.map (renG frm to), x.1 ≠ frm := by
  intro x hx
  obtain ⟨p, _, rfl⟩ := List.mem_map.mp hx
  exact renG_fst_ne frm to hne p

abbrev Queue (γ : Type) := Store Time (List (Addr × γ))

/-- the queue rewrite `Execute` performs for one entry with completion time `t` -/
def qStep (frm to : Addr) (q : Queue γ) (t : Time) : Queue γ :=
  let slice := (get q t).getD []
  if slice.any (fun x => x.1 == frm) then setAt q t (slice.map (renG frm to)) else q

theorem get_qStep (frm to : Addr) (q : Queue γ) (t t' : Time) :
    get (qStep frm to q t) t' = if t' = t then (get q t').map (List.map (renG frm to)) else get q t' := by
  unfold qStep
  simp only
  split
  · rename_i hany
    rw [get_setAt]
    by_cases ht : t' = t
    · subst ht
      cases hg : get q t' with
      | none => rw [hg] at hany; simp at hany
      | some sl => simp
    · simp [ht]
  · rename_i hany
    by_cases ht : t' = t
    · subst ht
      cases hg : get q t' with
      | none => simp
      | some sl =>
        rw [hg] at hany
        simp only [Option.getD_some, Bool.not_eq_true] at hany
        simp [map_renG_of_clean frm to sl hany]
    · simp [ht]

theorem get_qFold (frm to : Addr) (hne : frm ≠ to) (ts : List Time) (q : Queue γ) (t' : Time) :
    get (ts.foldl (qStep frm to) q) t' =
      if t' ∈ ts then (get q t').map (List.map (renG frm to)) else get q t' := by
  induction ts generalizing q with
  | nil => simp
  | cons t ts ih =>
    simp only [List.foldl_cons, List.mem_cons]
    rw [ih, get_qStep]
    by_cases h1 : t' = t
    · subst h1
      simp only [↓reduceIte, true_or]
      have idem : ((get q t').map (List.map (renG frm to))).map (List.map (renG frm to)) =
          (get q t').map (List.map (renG frm to)) := by
        cases get q t' with
        | none => rfl
        | some sl => simp only [Option.map_some]; rw [map_renG_idem frm to hne]
      split
      · exact idem
      · rfl
    · simp [h1]

/-- slices of a queue without duplicate keys, rewritten in place -/
theorem qStep_exact (frm to : Addr) (q : Queue γ) (hq : (q.map (·.1)).Nodup) (t : Time) :
    qStep frm to q t = q.map (fun p => if p.1 = t then (p.1, p.2.map (renG frm to)) else p) := by
  -- every element stored under `t` carries the slice `get` returns
  have hslice : ∀ p ∈ q, p.1 = t → get q t = some p.2 := by
    intro p hp ht
    induction q with
    | nil => cases hp
    | cons r q ih =>
      rw [get_cons]
      have hnd : r.1 ∉ q.map (·.1) ∧ (q.map (·.1)).Nodup := List.nodup_cons.mp hq
      rcases List.mem_cons.mp hp with rfl | hp'
      · simp [ht]
      · have : (t == r.1) = false := by
          cases hh : t == r.1
          · rfl
          · exfalso
            apply hnd.1
            rw [← eq_of_beq hh, ← ht]
            exact List.mem_map.mpr ⟨p, hp', rfl⟩
        simp only [this, Bool.false_eq_true, ↓reduceIte]
        exact ih hnd.2 hp'
  unfold qStep
  simp only
  split
  · rename_i hany
    have hpres : q.any (fun p => p.1 == t) = true := by
      cases hg : get q t with
      | none => rw [hg] at hany; simp at hany
      | some sl => exact any_key_of_get hg
    unfold setAt
    rw [if_pos hpres]
    apply List.map_congr_left
    intro p hp
    by_cases ht : p.1 = t
    · have := hslice p hp ht
      simp [ht, this]
    · have : (p.1 == t) = false := by
        cases hh : p.1 == t
        · rfl
        · exact absurd (eq_of_beq hh) ht
      simp [ht, this]
  · rename_i hany
    symm
    calc q.map (fun p => if p.1 = t then (p.1, p.2.map (renG frm to)) else p) = q.map id := by
          apply List.map_congr_left
          intro p hp
          by_cases ht : p.1 = t
          · have hg := hslice p hp ht
            rw [hg] at hany
            simp only [Option.getD_some, Bool.not_eq_true] at hany
            rw [if_pos ht, map_renG_of_clean frm to p.2 hany]; rfl
          · simp [ht]
      _ = q := List.map_id q

theorem qFold_exact (frm to : Addr) (hne : frm ≠ to) (ts : List Time) (q : Queue γ) (hq : (q.map (·.1)).Nodup) :
    ts.foldl (qStep frm to) q = q.map (fun p => if p.1 ∈ ts then (p.1, p.2.map (renG frm to)) else p) := by
  induction ts generalizing q with
  | nil => simp
  | cons t ts ih =>
    simp only [List.foldl_cons]
    rw [qStep_exact frm to q hq t]
    rw [ih]
    · rw [List.map_map]
      apply List.map_congr_left
      intro p _
      simp only [Function.comp, List.mem_cons]
      by_cases h1 : p.1 = t
      · rw [if_pos h1, if_pos (Or.inl h1)]
        by_cases h2 : p.1 ∈ ts
        · rw [if_pos h2, map_renG_idem frm to hne]
        · rw [if_neg h2]
      · rw [if_neg h1]
        by_cases h2 : p.1 ∈ ts
        · rw [if_pos h2, if_pos (Or.inr h2)]
        · rw [if_neg h2, if_neg (fun e => e.elim h1 h2)]
    · have : (q.map (fun p => if p.1 = t then (p.1, p.2.map (renG frm to)) else p)).map (·.1) = q.map (·.1) := by
        rw [List.map_map]
        apply List.map_congr_left
        intro p _
        by_cases h1 : p.1 = t <;> simp [h1]
      rw [this]; exact hq

theorem foldl_flatMap {σ α β : Type} (f : σ → β → σ) (g : α → List β) (L : List α) (s : σ) :
    L.foldl (fun s a => (g a).foldl f s) s = (L.flatMap g).foldl f s := by
  induction L generalizing s with
  | nil => rfl
  | cons a L ih => simp only [List.foldl_cons, List.flatMap_cons, List.foldl_append]; exact ih _

end slices

/-- completion times of every entry of every record of `a` -/
def entryTimes {β : Type} [BEq β] (m : Store (Addr × β) (List (Time × Nat × Nat))) (a : Addr) : List Time :=
  (entriesOf m a).flatMap (fun p => p.2.map (·.1))

/-- `a` holds an entry (in some record) that completes at `t` -/
def hasEntryAt {β : Type} [BEq β] (m : Store (Addr × β) (List (Time × Nat × Nat))) (a : Addr) (t : Time) : Prop :=
  ∃ x es, get m (a, x) = some es ∧ ∃ e ∈ es, e.1 = t

theorem mem_entryTimes {β : Type} [BEq β] [LawfulBEq β] (m : Store (Addr × β) (List (Time × Nat × Nat))) (a : Addr)
    (t : Time) : t ∈ entryTimes m a ↔ hasEntryAt m a t := by
  unfold entryTimes hasEntryAt
  simp only [List.mem_flatMap, List.mem_map]
  constructor
  · rintro ⟨p, hp, e, he, rfl⟩
    obtain ⟨_, hg, ha⟩ := (entriesOf_spec m a p).mp hp
    obtain ⟨⟨pa, px⟩, es⟩ := p
    simp only at ha hg he
    subst ha
    exact ⟨px, es, hg, e, he, rfl⟩
  · rintro ⟨x, es, hg, e, he, rfl⟩
    exact ⟨((a, x), es), (entriesOf_spec m a _).mpr ⟨get_some_mem m _ _ hg, hg, rfl⟩, e, he, rfl⟩

end FxVerif.Proofs.C14
