import FxVerif.Model.C15
import FxVerif.Proofs.C15Sdk
/-! helper lemmas for the C15 property theorems (core Lean only) -/
namespace FxVerif.Proofs.C15
open FxVerif.Gen.C15 FxVerif.Model.C15

/-! ### deposits store -/

theorem sumAmt_append (a b : List Dep) : sumAmt (a ++ b) = sumAmt a + sumAmt b := by
  induction a with
  | nil => simp [sumAmt]
  | cons d r ih => simp [sumAmt, ih, Nat.add_assoc]

theorem sumAmt_split (ds : List Dep) (pid : Nat) : sumAmt ds = sumAmt (depsOf ds pid) + sumAmt (depsNot ds pid) := by
  induction ds with
  | nil => simp [depsOf, depsNot, sumAmt]
  | cons d r ih =>
    simp only [depsOf, depsNot] at ih ⊢
    by_cases h : d.pid == pid
    · simp [List.filter, h, sumAmt, ih]; omega
    · simp [List.filter, h, sumAmt, ih]; omega

theorem sumAmt_addDep (ds : List Dep) (pid who amt : Nat) : sumAmt (addDep ds pid who amt) = sumAmt ds + amt := by
  induction ds with
  | nil => simp [addDep, sumAmt]
  | cons d r ih =>
    unfold addDep
    split
    · simp [sumAmt]; omega
    · simp [sumAmt, ih]; omega

theorem mem_addDep_pid {ds : List Dep} {pid who amt : Nat} {d : Dep} (h : d ∈ addDep ds pid who amt) :
    d.pid = pid ∨ d ∈ ds := by
  induction ds with
  | nil => simp [addDep] at h; left; rw [h]
  | cons x r ih =>
    unfold addDep at h
    split at h
    · rename_i hx
      simp only [List.mem_cons] at h
      rcases h with h | h
      · left; rw [h]; simp at hx; exact hx.1
      · right; exact List.mem_cons_of_mem _ h
    · simp only [List.mem_cons] at h
      rcases h with h | h
      · right; rw [h]; exact List.mem_cons_self
      · rcases ih h with h | h
        · left; exact h
        · right; exact List.mem_cons_of_mem _ h

theorem mem_depsNot {ds : List Dep} {pid : Nat} {d : Dep} (h : d ∈ depsNot ds pid) : d ∈ ds ∧ d.pid ≠ pid := by
  simp [depsNot] at h; exact h

/-! ### proposals store -/

theorem findProp_putProp (ps : List Proposal) (q : Proposal) (id : Nat) :
    findProp (putProp ps q) id = if id = q.id then (findProp ps id).map (fun _ => q) else findProp ps id := by
  induction ps with
  | nil => simp [findProp, putProp]
  | cons p r ih =>
    simp only [findProp, putProp]
    by_cases hid : id = q.id
    · subst hid
      by_cases hp : p.id = q.id
      · simp [hp]
      · simp [hp, ih]
    · by_cases hp : p.id = q.id
      · have h2 : ¬ q.id = id := fun h => hid h.symm
        simp [hp, hid, h2, ih]
      · simp [hp, hid, ih]

theorem findProp_dropProp (ps : List Proposal) (x id : Nat) :
    findProp (dropProp ps x) id = if id = x then none else findProp ps id := by
  induction ps with
  | nil => simp [findProp, dropProp]
  | cons p r ih =>
    simp only [findProp, dropProp]
    by_cases hid : id = x
    · subst hid
      by_cases hp : p.id = id
      · simp [hp, ih]
      · simp [hp, findProp, ih]
    · by_cases hp : p.id = x
      · have h3 : ¬ x = id := fun h => hid h.symm
        simp [hp, hid, h3, ih]
      · simp [hp, hid, findProp, ih]

theorem findProp_append (ps : List Proposal) (p : Proposal) (id : Nat) :
    findProp (ps ++ [p]) id = match findProp ps id with | some q => some q | none => if p.id = id then some p else none := by
  induction ps with
  | nil => simp [findProp]
  | cons a r ih =>
    simp only [List.cons_append, findProp]
    by_cases ha : a.id = id
    · simp [ha]
    · simp [ha, ih]

theorem findProp_id {ps : List Proposal} {id : Nat} {p : Proposal} (h : findProp ps id = some p) : p.id = id := by
  induction ps with
  | nil => simp [findProp] at h
  | cons a r ih =>
    simp only [findProp] at h
    by_cases ha : a.id = id
    · simp [ha] at h; rw [← h]; exact ha
    · simp [ha] at h; exact ih h

/-! ### message types -/

theorem lowerAscii_eq_of_checkMsgs (hcmp : msgTypeCmp = "strings.EqualFold") :
    ∀ (ms : List Msg) (m : Msg), checkMsgs (m :: ms) = true → ∀ x ∈ ms, lowerAscii x.ty = lowerAscii m.ty := by
  intro ms
  induction ms with
  | nil => intro m _ x hx; cases hx
  | cons b r ih =>
    intro m h x hx
    simp only [checkMsgs, sameType, hcmp, Bool.and_eq_true] at h
    have h1 : lowerAscii m.ty = lowerAscii b.ty := by simpa using h.1
    rcases List.mem_cons.mp hx with hx | hx
    · rw [hx, h1]
    · rw [h1]; exact ih b h.2 x hx

/-! ### the deposit invariant -/

def isOpenSt (st : Status) : Bool := st == .deposit || st == .voting

def isOpenId (ps : List Proposal) (pid : Nat) : Bool :=
  match findProp ps pid with
  | some p => isOpenSt p.status
  | none => false

/-- no stored proposal carries a message that spends from the gov module account -/
def CleanP (ps : List Proposal) : Prop := ∀ id p, findProp ps id = some p → noGovSpend p.msgs = true

structure Inv (s : State) : Prop where
  bal : s.gov = sumAmt s.deps
  recs : ∀ d ∈ s.deps, isOpenId s.props d.pid = true
  /-- round 5: `bal` is only an invariant of histories in which no stored proposal can spend the escrow (`NoGovSpend`) -/
  clean : CleanP s.props

/-! ### stored proposals that cannot spend the escrow -/

theorem cleanP_put {ps : List Proposal} {q : Proposal} (h : CleanP ps) (hq : noGovSpend q.msgs = true) : CleanP (putProp ps q) := by
  intro id p hp
  rw [findProp_putProp] at hp
  by_cases hid : id = q.id
  · rw [if_pos hid] at hp
    cases hf : findProp ps id with
    | none => rw [hf] at hp; cases hp
    | some p' => rw [hf] at hp; simp only [Option.map] at hp; cases hp; exact hq
  · rw [if_neg hid] at hp; exact h id p hp

theorem cleanP_drop {ps : List Proposal} {x : Nat} (h : CleanP ps) : CleanP (dropProp ps x) := by
  intro id p hp
  rw [findProp_dropProp] at hp
  split at hp
  · cases hp
  · exact h id p hp

theorem cleanP_append {ps : List Proposal} {q : Proposal} (h : CleanP ps) (hq : noGovSpend q.msgs = true) : CleanP (ps ++ [q]) := by
  intro id p hp
  rw [findProp_append] at hp
  cases hf : findProp ps id with
  | some p' => rw [hf] at hp; simp only at hp; cases hp; exact h id _ hf
  | none =>
    rw [hf] at hp; simp only at hp
    split at hp
    · cases hp; exact hq
    · cases hp

theorem isOpenId_putProp_other {ps : List Proposal} {q : Proposal} {id : Nat} (h : id ≠ q.id) :
    isOpenId (putProp ps q) id = isOpenId ps id := by
  simp [isOpenId, findProp_putProp, h]

theorem isOpenId_putProp_keep {ps : List Proposal} {q : Proposal} {id : Nat}
    (hq : isOpenId ps q.id = true → isOpenSt q.status = true) (h : isOpenId ps id = true) :
    isOpenId (putProp ps q) id = true := by
  by_cases hid : id = q.id
  · subst hid
    have hq' := hq h
    simp only [isOpenId, findProp_putProp] at h ⊢
    cases hf : findProp ps q.id with
    | none => simp [hf] at h
    | some p => simp [hq']
  · rw [isOpenId_putProp_other hid]; exact h

theorem isOpenId_dropProp_other {ps : List Proposal} {x id : Nat} (h : id ≠ x) :
    isOpenId (dropProp ps x) id = isOpenId ps id := by
  simp [isOpenId, findProp_dropProp, h]

theorem isOpenId_append {ps : List Proposal} {p : Proposal} {id : Nat} (h : isOpenId ps id = true) :
    isOpenId (ps ++ [p]) id = true := by
  simp only [isOpenId, findProp_append] at h ⊢
  cases hf : findProp ps id with
  | none => simp [hf] at h
  | some q => simpa [hf] using h

theorem refundLoop_ok : ∀ (ds : List Dep) (g : Nat) (b : List (Addr × Nat)), sumAmt ds ≤ g →
    ∃ b', refundLoop ds g b = .ok (g - sumAmt ds, b') := by
  intro ds
  induction ds with
  | nil => intro g b _; exact ⟨b, by simp [refundLoop, sumAmt]⟩
  | cons d r ih =>
    intro g b h
    simp only [sumAmt] at h
    have h1 : ¬ g < d.amt := by omega
    obtain ⟨b', hb⟩ := ih (g - d.amt) (credit b d.who d.amt) (by omega)
    refine ⟨b', ?_⟩
    simp only [refundLoop, h1, if_false, hb, sumAmt]
    congr 2; omega

theorem refundLoop_sum : ∀ (ds : List Dep) (g : Nat) (b : List (Addr × Nat)) (g' : Nat) (b' : List (Addr × Nat)),
    refundLoop ds g b = .ok (g', b') → g = g' + sumAmt ds := by
  intro ds
  induction ds with
  | nil => intro g b g' b' h; simp [refundLoop] at h; simp [sumAmt, h.1]
  | cons d r ih =>
    intro g b g' b' h
    simp only [refundLoop] at h
    split at h
    · cases h
    · have := ih _ _ _ _ h
      simp only [sumAmt]; omega

theorem chargeLoop_sum (rate : Nat) : ∀ (ds : List Dep) (g : Nat) (b : List (Addr × Nat)) (g' : Nat) (b' : List (Addr × Nat)) (c : Nat),
    chargeLoop rate ds g b = some (g', b', c) → g + c = g' + sumAmt ds := by
  intro ds
  induction ds with
  | nil => intro g b g' b' c h; simp [chargeLoop] at h; simp [sumAmt, h.1, h.2.2.symm]
  | cons d r ih =>
    intro g b g' b' c h
    simp only [chargeLoop] at h
    split at h
    · cases h
    · split at h
      · rename_i g1 b1 c1 hr
        have := ih _ _ _ _ _ hr
        simp only [Option.some.injEq, Prod.mk.injEq] at h
        obtain ⟨h1, _, h3⟩ := h
        simp only [sumAmt]; omega
      · cases h

theorem execMsg_frame {m : Msg} {s s' : State} (h : execMsg m s = some s') :
    s'.props = s.props ∧ s'.deps = s.deps ∧ (spendsEscrow m = false → s'.gov = s.gov) ∧ s'.inactive = s.inactive ∧ s'.active = s.active ∧
    s'.time = s.time ∧ s'.params = s.params ∧ s'.nextId = s.nextId ∧ s'.votes = s.votes := by
  unfold execMsg at h
  split at h
  · cases h
  · split at h
    · cases h; simp
    · split at h
      · cases h; simp
      · cases h
    · cases h; simp
    · split at h
      · cases h; simp
      · split at h
        · cases h; simp
        · cases h
    · simp [addDepositGov, show depositGuardsModule = true from rfl] at h
    · simp [submitGov, show depositGuardsModule = true from rfl] at h
    · rename_i amt to hact
      split at h
      · cases h
      · cases h; simp [spendsEscrow, hact]

theorem noGovSpend_cons {m : Msg} {r : List Msg} (h : noGovSpend (m :: r) = true) : spendsEscrow m = false ∧ noGovSpend r = true := by
  simpa [noGovSpend] using h

theorem execMsgs_frame : ∀ (ms : List Msg) (s s' : State), execMsgs ms s = some s' →
    s'.props = s.props ∧ s'.deps = s.deps ∧ (noGovSpend ms = true → s'.gov = s.gov) ∧ s'.inactive = s.inactive ∧ s'.active = s.active ∧
    s'.time = s.time ∧ s'.params = s.params ∧ s'.nextId = s.nextId ∧ s'.votes = s.votes := by
  intro ms
  induction ms with
  | nil => intro s s' h; simp [execMsgs] at h; subst h; simp
  | cons m r ih =>
    intro s s' h
    simp only [execMsgs] at h
    split at h
    · rename_i s1 h1
      have f1 := execMsg_frame h1
      have f2 := ih _ _ h
      refine ⟨f2.1.trans f1.1, f2.2.1.trans f1.2.1,
        fun hn => (f2.2.2.1 (noGovSpend_cons hn).2).trans (f1.2.2.1 (noGovSpend_cons hn).1), f2.2.2.2.1.trans f1.2.2.2.1,
        f2.2.2.2.2.1.trans f1.2.2.2.2.1, f2.2.2.2.2.2.1.trans f1.2.2.2.2.2.1, f2.2.2.2.2.2.2.1.trans f1.2.2.2.2.2.2.1,
        f2.2.2.2.2.2.2.2.1.trans f1.2.2.2.2.2.2.2.1, f2.2.2.2.2.2.2.2.2.trans f1.2.2.2.2.2.2.2.2⟩
    · cases h

/-! ### preservation -/

theorem noRec_depsNot {ds : List Dep} {pid : Nat} {ps : List Proposal}
    (h : ∀ d ∈ ds, isOpenId ps d.pid = true) : ∀ d ∈ depsNot ds pid, isOpenId ps d.pid = true ∧ d.pid ≠ pid := by
  intro d hd
  have := mem_depsNot hd
  exact ⟨h d this.1, this.2⟩

/-- settling all deposits of `pid` out of a state whose balance covers all deposits -/
theorem refundDeposits_spec {s s' : State} {pid : Nat} (hb : s.gov = sumAmt s.deps) (h : refundDeposits pid s = .ok s') :
    s'.gov = sumAmt s'.deps ∧ s'.deps = depsNot s.deps pid ∧ s'.props = s.props ∧ s'.inactive = s.inactive ∧
    s'.active = s.active ∧ s'.time = s.time ∧ s'.params = s.params ∧ s'.custom = s.custom ∧ s'.nextId = s.nextId ∧
    s'.votes = s.votes := by
  unfold refundDeposits at h
  split at h
  · cases h
  · rename_i g b hr
    have hs := refundLoop_sum _ _ _ _ _ hr
    cases h
    have := sumAmt_split s.deps pid
    refine ⟨?_, rfl, rfl, rfl, rfl, rfl, rfl, rfl, rfl, rfl⟩
    simp only; omega

theorem refundDeposits_total {s : State} {pid : Nat} (hb : s.gov = sumAmt s.deps) : ∃ s', refundDeposits pid s = .ok s' := by
  have := sumAmt_split s.deps pid
  obtain ⟨b', hb'⟩ := refundLoop_ok (depsOf s.deps pid) s.gov s.bal (by omega)
  unfold refundDeposits
  rw [hb']
  exact ⟨_, rfl⟩

theorem burnDeposits_spec {s s' : State} {pid : Nat} (hb : s.gov = sumAmt s.deps) (h : burnDeposits pid s = .ok s') :
    s'.gov = sumAmt s'.deps ∧ s'.deps = depsNot s.deps pid ∧ s'.props = s.props ∧ s'.inactive = s.inactive ∧
    s'.active = s.active ∧ s'.time = s.time ∧ s'.params = s.params ∧ s'.custom = s.custom ∧ s'.nextId = s.nextId ∧
    s'.votes = s.votes := by
  unfold burnDeposits at h
  simp only at h
  split at h
  · cases h
  · cases h
    have := sumAmt_split s.deps pid
    refine ⟨?_, rfl, rfl, rfl, rfl, rfl, rfl, rfl, rfl, rfl⟩
    simp only; omega

theorem burnDeposits_total {s : State} {pid : Nat} (hb : s.gov = sumAmt s.deps) : ∃ s', burnDeposits pid s = .ok s' := by
  have := sumAmt_split s.deps pid
  unfold burnDeposits
  simp only
  have : ¬ s.gov < sumAmt (depsOf s.deps pid) := by omega
  simp [this]

theorem dropInactive_inv {s s' : State} {pid : Nat} (hsh : inactiveSettleShapeOk = true) (hi : Inv s)
    (h : dropInactive pid s = .ok s') : Inv s' := by
  rw [dropInactive_eq] at h
  unfold dropInactiveSpec at h
  split at h
  · cases h
  · rename_i p hp
    simp only [hsh, if_true] at h
    have key : ∀ s1 s2 : State, (s2.gov = sumAmt s2.deps ∧ s2.deps = depsNot s1.deps pid ∧ s2.props = s1.props) →
        s1.deps = s.deps → s1.props = dropProp s.props pid → Inv s2 := by
      intro s1 s2 ⟨hb, hd, hp2⟩ h2 h3
      refine ⟨hb, ?_, by rw [hp2, h3]; exact cleanP_drop hi.clean⟩
      intro d hdm
      rw [hd, h2] at hdm
      have := noRec_depsNot hi.recs d hdm
      rw [hp2, h3, isOpenId_dropProp_other this.2]; exact this.1
    split at h
    · have sp := refundDeposits_spec (by simpa using hi.bal) h
      exact key _ s' ⟨sp.1, sp.2.1, sp.2.2.1⟩ rfl rfl
    · have sp := burnDeposits_spec (by simpa using hi.bal) h
      exact key _ s' ⟨sp.1, sp.2.1, sp.2.2.1⟩ rfl rfl

theorem execPrefix_frame : ∀ (ms : List Msg) (s : State),
    (execPrefix ms s).props = s.props ∧ (execPrefix ms s).deps = s.deps ∧ (noGovSpend ms = true → (execPrefix ms s).gov = s.gov) ∧
    (execPrefix ms s).inactive = s.inactive ∧ (execPrefix ms s).active = s.active ∧ (execPrefix ms s).time = s.time ∧
    (execPrefix ms s).params = s.params ∧ (execPrefix ms s).nextId = s.nextId ∧ (execPrefix ms s).votes = s.votes := by
  intro ms
  induction ms with
  | nil => intro s; exact ⟨rfl, rfl, fun _ => rfl, rfl, rfl, rfl, rfl, rfl, rfl⟩
  | cons m r ih =>
    intro s
    simp only [execPrefix]
    split
    · rename_i s1 h1
      have f1 := execMsg_frame h1
      have f2 := ih s1
      exact ⟨f2.1.trans f1.1, f2.2.1.trans f1.2.1,
        fun hn => (f2.2.2.1 (noGovSpend_cons hn).2).trans (f1.2.2.1 (noGovSpend_cons hn).1), f2.2.2.2.1.trans f1.2.2.2.1,
        f2.2.2.2.2.1.trans f1.2.2.2.2.1, f2.2.2.2.2.2.1.trans f1.2.2.2.2.2.1, f2.2.2.2.2.2.2.1.trans f1.2.2.2.2.2.2.1,
        f2.2.2.2.2.2.2.2.1.trans f1.2.2.2.2.2.2.2.1, f2.2.2.2.2.2.2.2.2.trans f1.2.2.2.2.2.2.2.2⟩
    · exact ⟨rfl, rfl, fun _ => rfl, rfl, rfl, rfl, rfl, rfl, rfl⟩

/-- whatever the messages of a passed proposal do, they touch neither the proposals, the deposits, the queues, the parameters
nor the votes (whether or not the error test after the loop sees the handler's error) — and not the module balance either,
PROVIDED none of them spends from the gov module account (`noGovSpend`, round 5) -/
theorem runProposalMsgs_same (hc : execInCacheCtx = true) (ms : List Msg) (s : State) :
    (runProposalMsgs ms s).1.props = s.props ∧ (runProposalMsgs ms s).1.deps = s.deps ∧
    (noGovSpend ms = true → (runProposalMsgs ms s).1.gov = s.gov) ∧
    (runProposalMsgs ms s).1.inactive = s.inactive ∧ (runProposalMsgs ms s).1.active = s.active ∧
    (runProposalMsgs ms s).1.time = s.time ∧ (runProposalMsgs ms s).1.params = s.params ∧
    (runProposalMsgs ms s).1.nextId = s.nextId ∧ (runProposalMsgs ms s).1.votes = s.votes := by
  unfold runProposalMsgs
  simp only [hc, if_true]
  split
  · split
    · rename_i s' h
      exact execMsgs_frame _ _ _ h
    · exact ⟨rfl, rfl, fun _ => rfl, rfl, rfl, rfl, rfl, rfl, rfl⟩
  · exact execPrefix_frame ms s

theorem runProposalMsgs_frame (hc : execInCacheCtx = true) (ms : List Msg) (s : State) (hn : noGovSpend ms = true) :
    (runProposalMsgs ms s).1.props = s.props ∧ (runProposalMsgs ms s).1.deps = s.deps ∧ (runProposalMsgs ms s).1.gov = s.gov := by
  have := runProposalMsgs_same hc ms s
  exact ⟨this.1, this.2.1, this.2.2.1 hn⟩

theorem finishTally_inv {s s' : State} {pid : Nat} {p : Proposal} {passes burn : Bool} {res : Nat × Nat × Nat × Nat}
    (hsh : settleShapeOk = true) (hc : execInCacheCtx = true)
    (hi : Inv s) (hp : findProp s.props pid = some p) (h : finishTally passes burn res p pid s = .ok s') : Inv s' := by
  unfold finishTally at h
  simp only [refundRun_eq, burnRun_eq] at h
  simp only [hsh, Bool.not_true, Bool.false_and, Bool.false_eq_true, if_false] at h
  · have hpid : p.id = pid := findProp_id hp
    have hn : noGovSpend p.msgs = true := hi.clean pid p hp
    simp only [hsh, if_true] at h
    by_cases hkeep : (p.expedited && !passes) = true
    · -- failed expedited proposal: deposits stay, the proposal stays in voting
      simp only [hkeep, Bool.not_true, Bool.false_eq_true, if_false] at h
      have hpass : passes = false := by
        cases passes <;> simp_all
      have hexp : p.expedited = true := by
        cases hx : p.expedited <;> simp_all
      simp only [hpass, Bool.false_eq_true, if_false, hexp, if_true] at h
      cases h
      refine ⟨by simpa using hi.bal, ?_, cleanP_put hi.clean hn⟩
      intro d hd
      simp only at hd ⊢
      apply isOpenId_putProp_keep _ (hi.recs d hd)
      intro ho
      simp only [isOpenId, hpid, hp] at ho
      simpa using ho
    · have hk : (p.expedited && !passes) = false := by simpa using hkeep
      simp only [hk, Bool.not_false, if_true] at h
      -- the deposits of `pid` are settled first
      have settle : ∀ s1 : State, (if burn = true then burnDeposits pid s else refundDeposits pid s) = .ok s1 →
          s1.gov = sumAmt s1.deps ∧ s1.deps = depsNot s.deps pid ∧ s1.props = s.props := by
        intro s1 h1
        split at h1
        · have := burnDeposits_spec hi.bal h1; exact ⟨this.1, this.2.1, this.2.2.1⟩
        · have := refundDeposits_spec hi.bal h1; exact ⟨this.1, this.2.1, this.2.2.1⟩
      split at h
      · cases h
      · rename_i s1 h1
        obtain ⟨hb1, hd1, hp1⟩ := settle s1 h1
        have recs1 : ∀ (q : Proposal), q.id = pid → ∀ ps : List Proposal, ps = s.props →
            ∀ d ∈ depsNot s.deps pid, isOpenId (putProp ps q) d.pid = true := by
          intro q hq ps hps d hd
          have := noRec_depsNot hi.recs d hd
          rw [hps, isOpenId_putProp_other (by rw [hq]; exact this.2)]; exact this.1
        split at h
        · -- passes
          generalize hr : runProposalMsgs p.msgs { s1 with active := removeQ (p.votingEnd, pid) s1.active } = rr at h
          obtain ⟨s3, ok⟩ := rr
          simp only at h
          cases h
          have fr := runProposalMsgs_frame hc p.msgs { s1 with active := removeQ (p.votingEnd, pid) s1.active } hn
          rw [hr] at fr
          simp only at fr
          refine ⟨by simp only; rw [fr.2.2, fr.2.1]; exact hb1, ?_, by simp only; rw [fr.1, hp1]; exact cleanP_put hi.clean hn⟩
          intro d hd
          simp only at hd ⊢
          rw [fr.2.1, hd1] at hd
          refine recs1 _ ?_ s3.props (by rw [fr.1]; exact hp1) d hd
          exact hpid
        · split at h
          · cases h
            refine ⟨by simpa using hb1, ?_, by simp only; rw [hp1]; exact cleanP_put hi.clean hn⟩
            intro d hd
            simp only at hd ⊢
            rw [hd1] at hd
            refine recs1 _ ?_ _ hp1 d hd
            exact hpid
          · cases h
            refine ⟨by simpa using hb1, ?_, by simp only; rw [hp1]; exact cleanP_put hi.clean hn⟩
            intro d hd
            simp only at hd ⊢
            rw [hd1] at hd
            refine recs1 _ ?_ _ hp1 d hd
            exact hpid

theorem tallyOne_inv {s s' : State} {pid : Nat} {stk : Staking} (hsh : settleShapeOk = true) (hc : execInCacheCtx = true)
    (hi : Inv s) (h : tallyOne stk pid s = .ok s') : Inv s' := by
  unfold tallyOne at h
  split at h
  · cases h
  · rename_i p hp
    split at h
    · cases h
    · split at h
      · cases h
      · exact finishTally_inv (s := { s with votes := if tallyRemovesVotes = true then votesNot s.votes pid else s.votes })
          hsh hc ⟨hi.bal, hi.recs, hi.clean⟩ hp h

theorem runAll_inv {f : Nat → State → Except Err State} (hf : ∀ id s s', Inv s → f id s = .ok s' → Inv s') :
    ∀ (ids : List Nat) (s s' : State), Inv s → runAll f ids s = .ok s' → Inv s' := by
  intro ids
  induction ids with
  | nil => intro s s' hi h; simp [runAll] at h; subst h; exact hi
  | cons id r ih =>
    intro s s' hi h
    simp only [runAll] at h
    split at h
    · rename_i s1 h1
      exact ih _ _ (hf _ _ _ hi h1) h
    · cases h

theorem endBlock_inv {s s' : State} {envs : Staking} (h1 : inactiveSettleShapeOk = true)
    (h2 : settleShapeOk = true) (h3 : execInCacheCtx = true) (hi : Inv s) (h : endBlock envs s = .ok s') : Inv s' := by
  unfold endBlock at h
  split at h
  · cases h
  · rename_i s1 hs1
    have i1 := runAll_inv (fun id s s' hi h => dropInactive_inv h1 hi h) _ _ _ hi hs1
    exact runAll_inv (fun id s s' hi h => tallyOne_inv h2 h3 hi h) _ _ _ i1 h

theorem activate_frame (s : State) (p : Proposal) :
    (activate s p).gov = s.gov ∧ (activate s p).deps = s.deps ∧
    (activate s p).props = putProp s.props { p with status := .voting, votingStart := s.time, votingEnd := s.time + activationPeriod s p } := by
  simp [activate]

/-- **the statement order of `AddDeposit` is the one the one-piece effect assumes**: coins sent and the total updated and
stored BEFORE the minimum of the message type replaces the default and the activation test runs on the updated local
proposal; the deposit record last -/
theorem addDepositSteps_order : addDepositSteps =
    ["getProposal", "statusCheck", "depositorNotModule:gov", "getParams", "defaultMin", "getRatio", "denomCheck", "ratioCheck", "sendCoins", "addTotal",
     "setProposal", "msgMin", "flag", "activate", "getDeposit", "mergeDeposit", "hooks", "sdkCtx", "event", "setDeposit", "return"] := rfl

theorem depositRun_eq (s : State) (p : Proposal) (who : Addr) (amt : Nat) : depositRun s p who amt = depositEffect s p who amt := by
  unfold depositRun
  rw [addDepositSteps_order]
  -- the statements that neither read nor write what the model keeps
  have n1 : ∀ l, depStep who amt l "getProposal" = l := fun _ => rfl
  have n2 : ∀ l, depStep who amt l "statusCheck" = l := fun _ => rfl
  have n2' : ∀ l, depStep who amt l "depositorNotModule:gov" = l := fun _ => rfl
  have n3 : ∀ l, depStep who amt l "getParams" = l := fun _ => rfl
  have n4 : ∀ l, depStep who amt l "getRatio" = l := fun _ => rfl
  have n5 : ∀ l, depStep who amt l "denomCheck" = l := fun _ => rfl
  have n6 : ∀ l, depStep who amt l "ratioCheck" = l := fun _ => rfl
  have n7 : ∀ l, depStep who amt l "flag" = l := fun _ => rfl
  have n8 : ∀ l, depStep who amt l "getDeposit" = l := fun _ => rfl
  have n9 : ∀ l, depStep who amt l "mergeDeposit" = l := fun _ => rfl
  have n10 : ∀ l, depStep who amt l "hooks" = l := fun _ => rfl
  have n11 : ∀ l, depStep who amt l "sdkCtx" = l := fun _ => rfl
  have n12 : ∀ l, depStep who amt l "event" = l := fun _ => rfl
  have n13 : ∀ l, depStep who amt l "return" = l := fun _ => rfl
  -- the seven that do
  have e1 : ∀ l, depStep who amt l "defaultMin" = { l with min := ⟨some (defaultMin l.s l.p.expedited), none⟩ } := fun _ => rfl
  have e2 : ∀ l, depStep who amt l "sendCoins" =
      { l with s := { l.s with bal := setBal l.s.bal who (getBal l.s.bal who - amt), gov := l.s.gov + amt } } := fun _ => rfl
  have e3 : ∀ l, depStep who amt l "addTotal" = { l with p := { l.p with total := l.p.total + amt } } := fun _ => rfl
  have e4 : ∀ l, depStep who amt l "setProposal" = { l with s := { l.s with props := putProp l.s.props l.p } } := fun _ => rfl
  have e5 : ∀ l, depStep who amt l "msgMin" = { l with min := minForMsgs l.s.custom (l.min.fx.getD 0) l.p.msgs } := fun _ => rfl
  have e6 : ∀ l, depStep who amt l "activate" =
      (if l.p.status == .deposit && reaches l.p.total l.min then { l with s := activate l.s l.p } else l) := fun l => by
    rw [← activateRun_eq]; rfl
  have e7 : ∀ l, depStep who amt l "setDeposit" =
      { l with s := { l.s with deps := addDep l.s.deps l.p.id who amt, paid := l.s.paid ++ [⟨l.p.id, who, amt⟩] } } := fun _ => rfl
  simp only [List.foldl, n1, n2, n2', n3, n4, n5, n6, n7, n8, n9, n10, n11, n12, n13, e1, e2, e3, e4, e5, e7]
  rw [e6]
  simp only [Option.getD_some]
  unfold depositEffect
  simp only
  by_cases hc : (p.status == .deposit && reaches (p.total + amt) (minForMsgs s.custom (defaultMin s p.expedited) p.msgs)) = true
  · rw [if_pos hc, if_pos hc]
  · rw [if_neg hc, if_neg hc]

theorem addDeposit_ok {s s' : State} {pid who amt : Nat} (h : addDeposit s pid who amt = .ok s') :
    ∃ p, findProp s.props pid = some p ∧ isOpenSt p.status = true ∧ s' = depositEffect s p who amt := by
  unfold addDeposit at h
  split at h
  · cases h
  · rename_i p hp
    split at h
    · cases h
    · rename_i hopen
      split at h
      · cases h
      · split at h
        · cases h
        · cases h
          refine ⟨p, hp, ?_, depositRun_eq s p who amt⟩
          simp only [isOpenSt]
          cases hs : p.status <;> simp_all

theorem depositEffect_inv {s : State} {p : Proposal} {who amt : Nat} (hi : Inv s) (hp : findProp s.props p.id = some p)
    (hopen' : isOpenSt p.status = true) : Inv (depositEffect s p who amt) := by
  have openPid : ∀ ps : List Proposal, isOpenId ps p.id = true → ∀ d ∈ addDep s.deps p.id who amt,
      (∀ d ∈ s.deps, isOpenId ps d.pid = true) → isOpenId ps d.pid = true := by
    intro ps h1 d hd h2
    rcases mem_addDep_pid hd with h3 | h3
    · rw [h3]; exact h1
    · exact h2 d h3
  have step1 : ∀ d ∈ s.deps, isOpenId (putProp s.props { p with total := p.total + amt }) d.pid = true := by
    intro d hd
    exact isOpenId_putProp_keep (fun _ => hopen') (hi.recs d hd)
  have pid1 : isOpenId (putProp s.props { p with total := p.total + amt }) p.id = true := by
    refine isOpenId_putProp_keep (fun _ => hopen') ?_
    simp [isOpenId, hp, hopen']
  have hn : noGovSpend p.msgs = true := hi.clean p.id p hp
  unfold depositEffect
  simp only
  split
  · refine ⟨?_, ?_, ?_⟩
    · simp only [activate, sumAmt_addDep]; rw [hi.bal]
    · intro d hd
      simp only [activate] at hd ⊢
      have hv : ∀ (q : Proposal) id, isOpenSt q.status = true →
          isOpenId (putProp s.props { p with total := p.total + amt }) id = true →
          isOpenId (putProp (putProp s.props { p with total := p.total + amt }) q) id = true :=
        fun q id hq h => isOpenId_putProp_keep (fun _ => hq) h
      refine openPid _ (hv _ _ ?_ pid1) d hd (fun d hd => hv _ _ ?_ (step1 d hd)) <;> simp [isOpenSt]
    · simp only [activate]; exact cleanP_put (cleanP_put hi.clean hn) hn
  · refine ⟨?_, ?_, ?_⟩
    · simp only [sumAmt_addDep]; rw [hi.bal]
    · intro d hd
      exact openPid _ pid1 d hd step1
    · exact cleanP_put hi.clean hn

theorem addDeposit_inv {s s' : State} {pid who amt : Nat} (hi : Inv s) (h : addDeposit s pid who amt = .ok s') : Inv s' := by
  obtain ⟨p, hp, ho, rfl⟩ := addDeposit_ok h
  have hpid : p.id = pid := findProp_id hp
  subst hpid
  exact depositEffect_inv hi hp ho

theorem submit_inv {s s' : State} {who : Addr} {msgs : List Msg} {initial : Nat} {exp : Bool} (hi : Inv s)
    (hm : noGovSpend msgs = true) (h : submit s who msgs initial exp = .ok s') : Inv s' := by
  rw [submit_eq] at h
  unfold submitSpec at h
  split at h
  · cases h
  · split at h
    · cases h
    · split at h
      · cases h
      · simp only at h
        refine addDeposit_inv ?_ h
        exact ⟨hi.bal, fun d hd => isOpenId_append (hi.recs d hd), cleanP_append hi.clean hm⟩

theorem cancel_inv {s s' : State} {pid : Nat} {who : Addr} (hi : Inv s) (h : cancel s pid who = .ok s') : Inv s' := by
  unfold cancel at h
  split at h
  · cases h
  · rename_i p hp
    split at h
    · cases h
    · split at h
      · cases h
      · split at h
        · cases h
        · split at h
          · cases h
          · rename_i g b c hc
            split at h
            · cases h
            · rename_i hgc
              cases h
              have hs := chargeLoop_sum _ _ _ _ _ _ _ hc
              have := sumAmt_split s.deps pid
              refine ⟨?_, ?_, cleanP_drop hi.clean⟩
              · simp only; have := hi.bal; omega
              · intro d hd
                simp only at hd ⊢
                have := noRec_depsNot hi.recs d hd
                rw [isOpenId_dropProp_other this.2]; exact this.1

/-- the only way a deposit with a foreign denomination succeeds is not to carry one -/
theorem depositX_ok {s s' : State} {pid who fx other : Nat} (h : depositX s pid who fx other = .ok s') :
    other = 0 ∧ deposit s pid who fx = .ok s' := by
  unfold depositX at h
  split at h
  · rename_i h0; exact ⟨by simpa using h0, h⟩
  · split at h
    · cases h
    · split at h <;> cases h

theorem step_inv (h1 : inactiveSettleShapeOk = true) (h2 : settleShapeOk = true) (h3 : execInCacheCtx = true)
    {s : State} (op : Op) (hop : opNoGovSpend op = true) (hi : Inv s) : Inv (step s op).1 := by
  cases op with
  | mint who amt => exact ⟨hi.bal, hi.recs, hi.clean⟩
  | updateParams p => simp only [step]; split <;> exact ⟨hi.bal, hi.recs, hi.clean⟩
  | updateCustom url c =>
    simp only [step]
    split
    · exact ⟨hi.bal, hi.recs, hi.clean⟩
    · split <;> exact ⟨hi.bal, hi.recs, hi.clean⟩
  | submit who msgs initial exp =>
    simp only [step, Model.C15.ofExcept]
    split
    · rename_i s' h; exact submit_inv hi hop h
    · exact hi
  | deposit pid who amt =>
    simp only [step, Model.C15.ofExcept]
    split
    · rename_i s' h
      unfold deposit at h
      split at h
      · cases h
      · exact addDeposit_inv hi h
    · exact hi
  | depositX pid who fx other =>
    simp only [step, Model.C15.ofExcept]
    split
    · rename_i s' h
      have h := (depositX_ok h).2
      unfold deposit at h
      split at h
      · cases h
      · exact addDeposit_inv hi h
    · exact hi
  | cancel pid who =>
    simp only [step, Model.C15.ofExcept, cancelRun_eq]
    split
    · rename_i s' h; exact cancel_inv hi h
    · exact hi
  | vote pid voter opts =>
    simp only [step, Model.C15.ofExcept]
    split
    · rename_i s' h
      rw [vote_eq] at h
      unfold voteSpec at h
      split at h
      · cases h
      · split at h
        · cases h
        · split at h
          · cases h; exact ⟨hi.bal, hi.recs, hi.clean⟩
          · cases h
    · exact hi
  | spend who amt =>
    simp only [step]
    split
    · exact hi
    · exact ⟨hi.bal, hi.recs, hi.clean⟩
  | endBlock dt envs =>
    simp only [step]
    split
    · rename_i s' h
      have := endBlock_inv h1 h2 h3 hi h
      exact ⟨this.bal, this.recs, this.clean⟩
    · exact hi

theorem init_inv : Inv init := ⟨rfl, (by intro d hd; cases hd), (by intro id p hp; cases hp)⟩

theorem run_inv (h1 : inactiveSettleShapeOk = true) (h2 : settleShapeOk = true) (h3 : execInCacheCtx = true) :
    ∀ (ops : List Op), NoGovSpend ops = true → ∀ (s : State), Inv s → Inv (run s ops) := by
  intro ops
  induction ops with
  | nil => intro _ s hi; exact hi
  | cons o r ih =>
    intro hc s hi
    have hc' : opNoGovSpend o = true ∧ NoGovSpend r = true := by simpa [NoGovSpend] using hc
    exact ih hc'.2 _ (step_inv h1 h2 h3 o hc'.1 hi)

end FxVerif.Proofs.C15
