import FxVerif.Proofs.C08Books
/-! helper lemmas for C08: the book of an externally-owned pair over its (dynamic) set of denominations -/
namespace FxVerif.Proofs.C08
open FxVerif.Model.Ledger FxVerif.Model.Flows FxVerif.Model.C08 FxVerif.Proofs.Ledger

/-- Σ supply over a list of coin denominations -/
def supplySum (l : List Nat) : Obs := Obs.sum (l.map (fun x => supplyObs (coinAsset x)))

theorem supplySum_sound (l : List Nat) : (supplySum l).Sound :=
  sum_sound (fun o ho => by
    simp only [List.mem_map] at ho
    obtain ⟨x, _, rfl⟩ := ho
    exact supplyObs_sound _)

@[simp] theorem supplySum_delta_send (l : List Nat) (a : Asset) (s d : Addr) (n : Nat) :
    (supplySum l).delta (.send a s d n) = 0 := by
  induction l with
  | nil => rfl
  | cons x xs ih =>
    show (supplyObs (coinAsset x)).delta _ + (supplySum xs).delta _ = 0
    rw [ih]; simp [supplyObs]

@[simp] theorem supplySum_delta_mint_erc (l : List Nat) (c : Nat) (b d : Addr) (n : Nat) :
    (supplySum l).delta (.mint (.erc c) b d n) = 0 := by
  induction l with
  | nil => rfl
  | cons x xs ih =>
    show (supplyObs (coinAsset x)).delta _ + (supplySum xs).delta _ = 0
    rw [ih]; simp [supplyObs]

@[simp] theorem supplySum_delta_burn_erc (l : List Nat) (c : Nat) (b d : Addr) (n : Nat) :
    (supplySum l).delta (.burn (.erc c) b d n) = 0 := by
  induction l with
  | nil => rfl
  | cons x xs ih =>
    show (supplyObs (coinAsset x)).delta _ + (supplySum xs).delta _ = 0
    rw [ih]; simp [supplyObs]

theorem supplySum_delta_mint_coin (l : List Nat) (hn : l.Nodup) (y : Nat) (b d : Addr) (n : Nat) :
    (supplySum l).delta (.mint (coinAsset y) b d n) = if y ∈ l then (n : Int) else 0 := by
  induction l with
  | nil => rfl
  | cons x xs ih =>
    simp only [List.nodup_cons] at hn
    show (supplyObs (coinAsset x)).delta _ + (supplySum xs).delta _ = _
    rw [ih hn.2]
    by_cases e : y = x
    · subst e; simp [supplyObs, hn.1]
    · have : coinAsset y ≠ coinAsset x := fun h => e (coinAsset_inj h)
      simp [supplyObs, this, e]

theorem supplySum_delta_burn_coin (l : List Nat) (hn : l.Nodup) (y : Nat) (b d : Addr) (n : Nat) :
    (supplySum l).delta (.burn (coinAsset y) b d n) = if y ∈ l then -(n : Int) else 0 := by
  induction l with
  | nil => rfl
  | cons x xs ih =>
    simp only [List.nodup_cons] at hn
    show (supplyObs (coinAsset x)).delta _ + (supplySum xs).delta _ = _
    rw [ih hn.2]
    by_cases e : y = x
    · subst e; simp [supplyObs, hn.1]
    · have : coinAsset y ≠ coinAsset x := fun h => e (coinAsset_inj h)
      simp [supplyObs, this, e]

/-- **I_external** as "left − right": ERC-20 tokens of contract `ct` escrowed by the erc20 module account minus the coin
supply summed over the base denomination `d` and the alias denominations `as` -/
def bookE (d ct : Nat) (as : List Nat) : Obs := (balObs (.erc ct) E).add (supplySum (d :: as)).neg

theorem bookE_sound (d ct : Nat) (as : List Nat) : (bookE d ct as).Sound :=
  add_sound (balObs_sound _ _) (neg_sound (supplySum_sound _))

/-- coin → ERC-20 of the pair itself releases exactly the tokens whose coins are burned — PROVIDED the receiver is not the
module account itself (then the release is a self-transfer, the coins are burned all the same and the escrow exceeds the
supply by `n`): this is what the blocked-receiver guard of `MintingEnabled` is for -/
theorem bookE_convertCoinU_same (d ct : Nat) (as : List Nat) (hn : (d :: as).Nodup) (s : Nat) (r : Addr) (hr : r ≠ E) (n : Nat) :
    (bookE d ct as).flowDelta (convertCoinU .externalOwned d ct (.user s) r n) = 0 := by
  have hr' : ¬ r = Addr.erc20Mod := hr
  simp [bookE, convertCoinU, Obs.flowDelta, Obs.add, Obs.neg, balObs, E, supplySum_delta_burn_coin _ hn, hr']
  omega

/-- without the guard: the module account as receiver leaves the escrow `n` above the supply -/
theorem bookE_convertCoinU_to_module (d ct : Nat) (as : List Nat) (hn : (d :: as).Nodup) (s n : Nat) :
    (bookE d ct as).flowDelta (convertCoinU .externalOwned d ct (.user s) E n) = (n : Int) := by
  simp [bookE, convertCoinU, Obs.flowDelta, Obs.add, Obs.neg, balObs, E, supplySum_delta_burn_coin _ hn]

theorem bookE_convertCoinU_other (d ct d' ct' : Nat) (as : List Nat) (hn : (d :: as).Nodup) (k : Kind)
    (hd : d' ∉ d :: as) (hc : ct' ≠ ct) (s : Nat) (r : Addr) (n : Nat) :
    (bookE d ct as).flowDelta (convertCoinU k d' ct' (.user s) r n) = 0 := by
  cases k <;>
    simp [bookE, convertCoinU, Obs.flowDelta, Obs.add, Obs.neg, balObs, E, supplySum_delta_burn_coin _ hn, hd, hc]

theorem bookE_convertERC20U_same (d ct : Nat) (as : List Nat) (hn : (d :: as).Nodup) (s : Nat) (r : Addr) (n : Nat) :
    (bookE d ct as).flowDelta (convertERC20U .externalOwned d ct (.user s) r n) = 0 := by
  simp [bookE, convertERC20U, Obs.flowDelta, Obs.add, Obs.neg, balObs, E, supplySum_delta_mint_coin _ hn]
  omega

theorem bookE_convertERC20U_other (d ct d' ct' : Nat) (as : List Nat) (hn : (d :: as).Nodup) (k : Kind)
    (hd : d' ∉ d :: as) (hc : ct' ≠ ct) (s : Nat) (r : Addr) (n : Nat) :
    (bookE d ct as).flowDelta (convertERC20U k d' ct' (.user s) r n) = 0 := by
  cases k <;>
    simp [bookE, convertERC20U, Obs.flowDelta, Obs.add, Obs.neg, balObs, E, supplySum_delta_mint_coin _ hn, hd, hc]

/-- `MsgConvertDenom` of another token's denominations leaves the book alone -/
theorem bookE_convertDenomU_other (d ct : Nat) (as : List Nat) (hn : (d :: as).Nodup) (k : Kind) (base : Nat)
    (aliases : List Nat) (src dst u r n : Nat) (hs : src ∉ d :: as) (hd : dst ∉ d :: as) :
    (bookE d ct as).flowDelta (convertDenomU k base aliases src dst u r n) = 0 := by
  simp only [convertDenomU, flowDelta_append]
  have hmid : (bookE d ct as).flowDelta (convertDenomMid k base aliases src dst n) = 0 := by
    cases k <;> simp only [convertDenomMid] <;> (repeat' split) <;>
      simp [bookE, Obs.flowDelta, Obs.add, Obs.neg, balObs, E, supplySum_delta_mint_coin _ hn,
        supplySum_delta_burn_coin _ hn, hs, hd]
  rw [hmid]
  split <;> simp [bookE, Obs.flowDelta, Obs.add, Obs.neg, balObs, E]

/-- `MsgConvertDenom` inside the token's own family: base → alias mints an alias while the base coin stays locked
(book −n), alias → base burns the alias (book +n), alias → alias changes nothing -/
theorem bookE_convertDenomU_own (d ct : Nat) (as : List Nat) (hn : (d :: as).Nodup) (k : Kind) (hk : k ≠ .moduleOwned)
    (src dst u r n : Nat) (hne : src ≠ dst) (hs : src ∈ d :: as) (hd : dst ∈ d :: as) :
    (bookE d ct as).flowDelta (convertDenomU k d as src dst u r n) =
      (if dst = d then (n : Int) else 0) - (if src = d then (n : Int) else 0) := by
  simp only [convertDenomU, flowDelta_append]
  have hleg : (bookE d ct as).flowDelta
      (if u = r then [] else [Prim.send (coinAsset dst) (Addr.user u) E n, Prim.send (coinAsset dst) E (Addr.user r) n]) = 0 := by
    split <;> simp [bookE, Obs.flowDelta, Obs.add, Obs.neg, balObs, E]
  rw [hleg]
  have hsend : ∀ x (a b : Addr), (bookE d ct as).flowDelta [Prim.send (coinAsset x) a b n] = 0 := by
    intro x a b; simp [bookE, Obs.flowDelta, Obs.add, Obs.neg, balObs, E]
  rw [hsend, hsend]
  have hd_notin : d ∉ as := (List.nodup_cons.1 hn).1
  by_cases e1 : src = d
  · subst e1
    have hdne : dst ≠ src := fun e => hne e.symm
    have hdin : dst ∈ as := by
      rcases List.mem_cons.1 hd with h | h
      · exact absurd h hdne
      · exact h
    cases k with
    | moduleOwned => exact absurd rfl hk
    | externalOwned =>
      simp [convertDenomMid, bookE, Obs.flowDelta, Obs.add, Obs.neg, balObs, E, supplySum_delta_mint_coin _ hn, hd, hdne]
    | fx =>
      simp [convertDenomMid, hdin, bookE, Obs.flowDelta, Obs.add, Obs.neg, balObs, E, supplySum_delta_mint_coin _ hn, hd, hdne]
  · have hsin : src ∈ as := by
      rcases List.mem_cons.1 hs with h | h
      · exact absurd h e1
      · exact h
    by_cases e2 : dst = d
    · subst e2
      cases k with
      | moduleOwned => exact absurd rfl hk
      | externalOwned =>
        simp [convertDenomMid, e1, bookE, Obs.flowDelta, Obs.add, Obs.neg, balObs, E, supplySum_delta_burn_coin _ hn, hs]
      | fx =>
        have : ¬ (src = dst ∧ as.contains dst = true) := fun h => e1 h.1
        simp [convertDenomMid, e1, hsin, bookE, Obs.flowDelta, Obs.add, Obs.neg, balObs, E,
          supplySum_delta_burn_coin _ hn, hs]
    · cases k with
      | moduleOwned => exact absurd rfl hk
      | externalOwned =>
        simp [convertDenomMid, e1, e2, Obs.flowDelta]
      | fx =>
        simp [convertDenomMid, e1, e2, bookE, Obs.flowDelta, Obs.add, Obs.neg, balObs, E,
          supplySum_delta_burn_coin _ hn, supplySum_delta_mint_coin _ hn, hs, hd]
        omega

theorem supplySum_val_append (l : List Nat) (a : Nat) (L : Ledger) :
    (supplySum (l ++ [a])).val L = (supplySum l).val L + (L.supply (coinAsset a) : Int) := by
  induction l with
  | nil => simp [supplySum, Obs.sum, Obs.add, Obs.zero, supplyObs]
  | cons x xs ih =>
    show (supplyObs (coinAsset x)).val L + (supplySum (xs ++ [a])).val L = (supplyObs (coinAsset x)).val L + (supplySum xs).val L + _
    rw [ih]; omega

/-- the coin a family was found for is the family's base denomination or one of its metadata aliases -/
theorem familyOf_src_mem {i : Idx} (hi : IdxInv i) {d base : Nat} {aliases : List Nat}
    (h : familyOf i d = some (base, aliases)) : d = base ∨ d ∈ aliases := by
  obtain ⟨_, hmd, _, hbase⟩ := familyOf_some hi h
  by_cases hr : (lookup d i.byDenom).isSome
  · exact Or.inl (hbase hr).symm
  · simp only [familyOf, hr, Bool.false_eq_true, ↓reduceIte] at h
    split at h
    · cases h
    · rename_i b hb
      cases hh : hasDenomAlias i b with
      | none => simp [hh] at h
      | some as' =>
        simp only [hh, Option.map_some, Option.some.injEq, Prod.mk.injEq] at h
        obtain ⟨rfl, rfl⟩ := h
        obtain ⟨_, as'', hm, hin⟩ := hi.alias_ok _ _ hb
        rw [hmd] at hm; cases hm
        exact Or.inr hin

/-- the target `MsgConvertDenom` computes (the coin itself when no conversion is possible) -/
def dstOf (i : Idx) (d : Nat) (tgt : Option Nat) : Nat :=
  match familyOf i d with
  | some (b, al) => toTargetDenom d b al tgt
  | none => d

/-- what a message does to the book of an externally-owned pair `p`: nothing, except `MsgConvertDenom` inside the
pair's own family — base → alias: −n (the known finding), alias → base: +n -/
def extDelta (i : Idx) (p : Pair) : UOp → Int
  | .convertDenom d _ _ n tgt => (if dstOf i d tgt = p.denom then (n : Int) else 0) - (if d = p.denom then (n : Int) else 0)
  | _ => 0

/-- **I_external, one message, exactly** -/
theorem bookE_stepU (s s' : UState) (hi : IdxInv s.idx) (id : PairId) (p : Pair) (hp : lookup id s.idx.pairs = some p)
    (hext : p.external = true) (as : List Nat) (hmd : lookup p.denom s.idx.md = some as) (hn : (p.denom :: as).Nodup)
    (op : UOp) (h : stepU s op = .ok s') :
    (bookE p.denom p.contract as).val s'.L = (bookE p.denom p.contract as).val s.L + extDelta s.idx p op := by
  obtain ⟨hid, hden, herc⟩ := hi.pairs_ok _ _ hp
  have hreg : (lookup p.denom s.idx.byDenom).isSome := by rw [hden]; rfl
  have hkind : p.kind = .externalOwned := by simp [Pair.kind, hext]
  -- a registered denomination other than the pair's own is none of the pair's denominations
  have hnotin : ∀ d', (lookup d' s.idx.byDenom).isSome → d' ≠ p.denom → d' ∉ p.denom :: as := by
    intro d' hr hne hin
    rcases List.mem_cons.1 hin with e | hin
    · exact hne e
    · have := hi.disj _ _ (hi.md_ok _ _ hreg hmd d' hin)
      rw [this] at hr; cases hr
  cases op with
  | convertCoin d u r n =>
    obtain ⟨p', hpd, hnb, hcase⟩ := stepU_convertCoin_ok s s' d u r n h
    obtain ⟨id', hl', hp'⟩ := pairByDenom_some hpd
    have hd' : p'.denom = d := by
      obtain ⟨q, hq, hqd⟩ := hi.byDenom_ok _ _ hl'
      rw [hp'] at hq; cases hq; exact hqd
    -- the guard: a blocked address, in particular the module account itself, is never the receiver
    have hrE : partyAddr r ≠ E := fun e => by rw [e] at hnb; cases hnb
    simp only [extDelta]
    rcases hcase with ⟨_, rfl⟩ | ⟨_, L', hrun, rfl⟩
    · simp
    · rw [runFlow_obs (bookE_sound _ _ _) _ _ _ hrun]
      rcases pairs_eq_or_disjoint hi hp hp' with ⟨_, rfl⟩ | ⟨hnd, hnc⟩
      · rw [← hd', hkind, bookE_convertCoinU_same _ _ _ hn _ _ hrE]
      · rw [bookE_convertCoinU_other _ _ _ _ _ hn _ (hnotin d (by rw [hl']; rfl) (hd' ▸ hnd)) hnc]
  | convertERC20 ct u r n =>
    obtain ⟨p', hpe, _, hcase⟩ := stepU_convertERC20_ok s s' ct u r n h
    obtain ⟨id', hl', hp'⟩ := pairByErc_some hpe
    obtain ⟨_, hden', _⟩ := hi.pairs_ok _ _ hp'
    simp only [extDelta]
    rcases hcase with ⟨_, rfl⟩ | ⟨_, L', hrun, rfl⟩
    · simp
    · rw [runFlow_obs (bookE_sound _ _ _) _ _ _ hrun]
      rcases pairs_eq_or_disjoint hi hp hp' with ⟨_, rfl⟩ | ⟨hnd, hnc⟩
      · rw [hkind, bookE_convertERC20U_same _ _ _ hn]
      · rw [bookE_convertERC20U_other _ _ _ _ _ hn _ (hnotin _ (by rw [hden']; rfl) hnd) hnc]
  | convertDenom d u r n tgt =>
    simp only [stepU] at h
    split at h; · cases h
    rename_i base aliases hfam
    obtain ⟨hbreg, hbmd, hne, hbase⟩ := familyOf_some hi hfam
    have hsrc := familyOf_src_mem hi hfam
    split at h; · cases h
    rename_i hdst
    split at h
    · split at h <;> cases h
    · rename_i pb hpb
      obtain ⟨idb, hlb, hppb⟩ := pairByDenom_some hpb
      simp only [UState.withLedger] at h
      split at h
      · rename_i L' hrun
        cases h
        rw [runFlow_obs (bookE_sound _ _ _) _ _ _ hrun]
        simp only [extDelta, dstOf, hfam]
        have hdstmem : toTargetDenom d base aliases tgt = base ∨ toTargetDenom d base aliases tgt ∈ aliases := by
          rcases toTargetDenom_cases d base aliases tgt with h | h | h
          · exact Or.inl h
          · exact Or.inr h
          · exact absurd h hne
        by_cases hb : base = p.denom
        · -- the pair's own family
          subst hb
          rw [hmd] at hbmd; cases hbmd
          rw [hden] at hlb; cases hlb
          rw [hp] at hppb; cases hppb
          have hk : denomMode p.denom p ≠ .moduleOwned := by
            simp only [denomMode, hext, ↓reduceIte]; split <;> simp
          have hs : d ∈ p.denom :: as := by
            rcases hsrc with e | e
            · rw [e]; simp
            · simp [e]
          have hd : toTargetDenom d p.denom as tgt ∈ p.denom :: as := by
            rcases hdstmem with e | e
            · rw [e]; simp
            · simp [e]
          rw [bookE_convertDenomU_own _ _ _ hn _ hk _ _ _ _ _ (fun e => hdst e.symm) hs hd]
        · -- another token's family: none of its denominations is one of the pair's
          have hs : d ∉ p.denom :: as := by
            intro hin
            rcases List.mem_cons.1 hin with e | hin
            · exact hb (hbase (by rw [e]; exact hreg) |>.trans e)
            · have h1 := hi.md_ok _ _ hreg hmd d hin
              rcases hsrc with e | e
              · rw [e] at h1; rw [hi.disj _ _ h1] at hbreg; cases hbreg
              · have h2 := hi.md_ok _ _ hbreg hbmd d e
                rw [h1] at h2; exact hb (Option.some.inj h2).symm
          have hd : toTargetDenom d base aliases tgt ∉ p.denom :: as := by
            intro hin
            rcases hdstmem with e | e
            · rw [e] at hin
              exact hnotin base hbreg hb hin
            · have h2 := hi.md_ok _ _ hbreg hbmd _ e
              rcases List.mem_cons.1 hin with e' | hin
              · rw [e'] at h2; rw [hi.disj _ _ h2] at hreg; cases hreg
              · have h1 := hi.md_ok _ _ hreg hmd _ hin
                rw [h1] at h2; exact hb (Option.some.inj h2).symm
          rw [bookE_convertDenomU_other _ _ _ hn _ _ _ _ _ _ _ _ hs hd]
          have e1 : ¬ toTargetDenom d base aliases tgt = p.denom := fun e => hd (by rw [e]; simp)
          have e2 : ¬ d = p.denom := fun e => hs (by rw [e]; simp)
          simp [e1, e2]
      · cases h
  | idx iop =>
    obtain ⟨i, _, rfl⟩ := stepU_idx_ok h; simp [extDelta]
  | setEnable b =>
    simp only [stepU] at h; cases h; simp [extDelta]

end FxVerif.Proofs.C08
