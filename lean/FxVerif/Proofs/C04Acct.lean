import FxVerif.Proofs.C04Flow
/-! C04: every operation changes every user's holdings of every token group by exactly what it states -/
namespace FxVerif.Proofs.C04
open FxVerif.Model.Ledger FxVerif.Model.Flows FxVerif.Model.C04 FxVerif.Proofs.Ledger

macro "exc'" : tactic => `(tactic| try simp only [bind, Except.bind, pure, Except.pure] at *)

theorem okDen_denOk {cfg : Cfg} {g : Nat} {d : Den} (h : okDen cfg g d = true) : denOk d := by
  cases d with
  | base => trivial
  | chain c =>
    simp only [okDen, nChains, Bool.and_eq_true] at h
    have h3 : c < 3 := of_decide_eq_true h.1
    exact h3

theorem refundFlow_acct (cfg : Cfg) (c : Nat) (call : OutCall) (g' : Nat) (x : Addr) (hx : Holder x) (hc3 : c < 3) (fl : List Prim)
    (h : refundFlow cfg c call = .ok fl) :
    (acctObs g' x).flowDelta fl = if U call.refund = x then (tokensValue g' call.tokens : Int) else 0 := by
  simp only [refundFlow] at h; exc'
  cases h1 : tokensFlow cfg c call.tokens (fun k g n => bridgeCallRefundCoin k g c (U call.refund) n) with
  | error e => simp [h1] at h
  | ok fl1 =>
    simp only [h1] at h
    have hd1 := tokensFlow_obs (acctObs g' x) cfg c g' _ (if U call.refund = x then 1 else 0)
      (by intro k g n _; rw [acct_refundCoin g' x hx k g c call.refund n hc3]; split <;> split <;> simp_all)
      call.tokens fl1 h1
    cases hfm : call.fromMsg
    · simp only [hfm, Bool.false_eq_true, ↓reduceIte] at h
      cases h2 : refundToEvmFlow cfg call.refund call.tokens with
      | error e => simp [h2] at h
      | ok fl2 =>
        simp only [h2, Except.ok.injEq] at h; subst h
        rw [flowDelta_append, hd1, refundToEvm_obs _ cfg call.refund (fun k g n => acct_refundToEvm g' x hx k g _ n) _ _ h2]
        split <;> simp
    · simp only [hfm, ↓reduceIte, Except.ok.injEq] at h; subst h
      rw [flowDelta_append, hd1]; simp only [Obs.flowDelta]; split <;> simp

/-- the flow of an operation changes a user's holdings by exactly the stated amount -/
theorem opFlow_acct (cfg : Cfg) (s s' : State) (op : Op) (g' : Nat) (x : Addr) (hx : Holder x) (hc : ∀ c, op.chain? = some c → c < 3)
    (h : stepCore cfg s op = .ok s') (fl : List Prim) (hfl : opFlow cfg s op = .ok fl) :
    (acctObs g' x).flowDelta fl = stated s op x g' := by
  cases op with
  | deposit c g u n toErc =>
    have hc3 := hc c rfl
    simp only [opFlow] at hfl; exc'
    cases hk : bridged cfg g c with
    | none => simp [hk] at hfl
    | some k =>
      simp only [hk] at hfl
      cases toErc
      · simp only [Bool.false_eq_true, ↓reduceIte, Except.ok.injEq] at hfl; subst hfl
        rw [acct_deposit g' x hx k g c u n hc3]; rfl
      · simp only [↓reduceIte] at hfl
        cases hp : pairOk cfg g with
        | none => simp [hp] at hfl
        | some k' =>
          simp only [hp, Except.ok.injEq] at hfl; subst hfl
          rw [flowDelta_append, acct_deposit g' x hx k g c u n hc3, acct_convertCoin g' x hx]
          simp only [stated]; omega
  | send c g u n fee =>
    have hc3 := hc c rfl
    simp only [opFlow] at hfl; exc'
    cases hk : bridged cfg g c with
    | none => simp [hk] at hfl
    | some k =>
      simp only [hk, Except.ok.injEq] at hfl; subst hfl
      rw [acct_withdraw g' x hx k g c u _ hc3]; simp only [stated]; split <;> simp
  | xsend c g u n fee =>
    have hc3 := hc c rfl
    simp only [opFlow] at hfl; exc'
    cases hkp : cfg.kind g with
    | none => simp [hkp] at hfl
    | some kp =>
      simp only [hkp] at hfl
      cases hk : bridged cfg g c with
      | none => simp [hk] at hfl
      | some k =>
        simp only [hk, Except.ok.injEq] at hfl; subst hfl
        rw [flowDelta_append, acct_precompileTokenIn g' x hx, acct_withdraw g' x hx k g c u _ hc3]
        simp only [stated]; split <;> simp
  | vsend c g u n fee =>
    have hc3 := hc c rfl
    simp only [opFlow] at hfl; exc'
    cases hk : bridged cfg g c with
    | none => simp [hk] at hfl
    | some k =>
      simp only [hk, Except.ok.injEq] at hfl; subst hfl
      rw [flowDelta_append, acct_valueIn g' x, acct_withdraw g' x hx k g c u _ hc3]
      simp only [stated]; split <;> simp
  | xincfee c id u g n =>
    have hc3 := hc c rfl
    simp only [opFlow] at hfl; exc'
    cases hkp : cfg.kind g with
    | none => simp [hkp] at hfl
    | some kp =>
      simp only [hkp] at hfl
      cases hk : bridged cfg g c with
      | none => simp [hk] at hfl
      | some k =>
        simp only [hk, Except.ok.injEq] at hfl; subst hfl
        rw [flowDelta_append, flowDelta_append, acct_precompileTokenIn g' x hx, acct_feeToBridgeDenom g' x hx k g c u n hc3,
          acct_addBridgeFee g' x hx k g c u n hc3]
        simp only [stated]; split <;> simp
  | incfee c id u g n =>
    have hc3 := hc c rfl
    simp only [opFlow] at hfl; exc'
    cases hk : bridged cfg g c with
    | none => simp [hk] at hfl
    | some k =>
      simp only [hk, Except.ok.injEq] at hfl; subst hfl
      rw [acct_addBridgeFee g' x hx k g c u n hc3]
      simp only [stated]; split <;> simp
  | cancel c id u =>
    have hc3 := hc c rfl
    simp only [opFlow] at hfl; exc'
    cases he : extract (fun t : PoolTx => t.id == id) (s.chains c).pool with
    | none => simp [he] at hfl
    | some pr =>
      obtain ⟨tx, rest⟩ := pr
      simp only [he] at hfl
      cases hk : bridged cfg tx.g c with
      | none => simp [hk] at hfl
      | some k =>
        simp only [hk] at hfl
        cases hrel : tx.relation
        · simp only [hrel, Bool.false_eq_true, ↓reduceIte, Except.ok.injEq] at hfl; subst hfl
          rw [acct_deposit g' x hx k tx.g c u _ hc3]; simp only [stated, he]
        · simp only [hrel, ↓reduceIte] at hfl
          cases hp : pairOk cfg tx.g with
          | none => simp [hp] at hfl
          | some k' =>
            simp only [hp, Except.ok.injEq] at hfl; subst hfl
            rw [flowDelta_append, acct_deposit g' x hx k tx.g c u _ hc3, acct_convertCoin g' x hx]
            simp only [stated, he]; omega
  | batch c g bf mf ao =>
    simp only [opFlow, pure, Except.pure, Except.ok.injEq] at hfl; subst hfl; rfl
  | executed c g nonce =>
    simp only [opFlow, pure, Except.pure, Except.ok.injEq] at hfl; subst hfl; rfl
  | btimeout c g nonce =>
    simp only [opFlow, pure, Except.pure, Except.ok.injEq] at hfl; subst hfl; rfl
  | bcout c u r tokens pre =>
    have hc3 := hc c rfl
    simp only [opFlow] at hfl; exc'
    have hout : ∀ flOut, tokensFlow cfg c tokens (fun k g n => baseCoinToBridgeToken k g c (U u) n) = .ok flOut →
        (acctObs g' x).flowDelta flOut = (if U u = x then -1 else 0) * (tokensValue g' tokens : Int) := fun flOut hf =>
      tokensFlow_obs _ cfg c g' _ _ (by intro k g n _; rw [acct_withdraw g' x hx k g c u n hc3]; split <;> split <;> simp_all)
        tokens flOut hf
    cases pre
    · simp only [Bool.false_eq_true, ↓reduceIte] at hfl
      cases ho : tokensFlow cfg c tokens (fun k g n => baseCoinToBridgeToken k g c (U u) n) with
      | error e => simp [ho] at hfl
      | ok flOut =>
        simp only [ho, List.nil_append, Except.ok.injEq] at hfl; subst hfl
        rw [hout _ ho]; simp only [stated]; split <;> simp
    · simp only [↓reduceIte] at hfl
      cases hi : pairsFlow cfg tokens (fun k g n => convertERC20 k g (U u) (U u) n) with
      | error e => simp [hi] at hfl
      | ok flIn =>
        simp only [hi] at hfl
        cases ho : tokensFlow cfg c tokens (fun k g n => baseCoinToBridgeToken k g c (U u) n) with
        | error e => simp [ho] at hfl
        | ok flOut =>
          simp only [ho, Except.ok.injEq] at hfl; subst hfl
          rw [flowDelta_append, hout _ ho, pairsFlow_obs _ cfg _ (by intro k g n; rw [acct_convertERC20 g' x hx]; omega) tokens flIn hi]
          simp only [stated]; split <;> simp
  | vbcout c gfx u r v tokens =>
    have hc3 := hc c rfl
    simp only [opFlow] at hfl; exc'
    cases hi : pairsFlow cfg tokens (fun k g n => convertERC20 k g (U u) (U u) n) with
    | error e => simp [hi] at hfl
    | ok flIn =>
      simp only [hi] at hfl
      cases ho : tokensFlow cfg c ((gfx, v) :: tokens) (fun k g n => baseCoinToBridgeToken k g c (U u) n) with
      | error e => simp [ho] at hfl
      | ok flOut =>
        simp only [ho, Except.ok.injEq] at hfl; subst hfl
        have hout := tokensFlow_obs (acctObs g' x) cfg c g' _ (if U u = x then -1 else 0)
          (by intro k g n _; rw [acct_withdraw g' x hx k g c u n hc3]; split <;> split <;> simp_all)
          ((gfx, v) :: tokens) flOut ho
        rw [flowDelta_append, flowDelta_append, acct_valueIn g' x, hout,
          pairsFlow_obs _ cfg _ (by intro k g n; rw [acct_convertERC20 g' x hx]; omega) tokens flIn hi]
        simp only [stated]; split <;> simp
  | bcresult c nonce success =>
    have hc3 := hc c rfl
    simp only [opFlow] at hfl; exc'
    cases he : extract (fun cl : OutCall => cl.nonce == nonce) (s.chains c).calls with
    | none => simp [he] at hfl
    | some pr =>
      obtain ⟨call, rest⟩ := pr
      simp only [he] at hfl
      cases success
      · simp only [Bool.false_eq_true, ↓reduceIte] at hfl
        simp only [stated, he, Bool.false_eq_true, ↓reduceIte]
        exact refundFlow_acct cfg c call g' x hx hc3 fl hfl
      · simp only [↓reduceIte, Except.ok.injEq] at hfl; subst hfl; rfl
  | bctimeout c nonce =>
    have hc3 := hc c rfl
    simp only [opFlow] at hfl; exc'
    cases he : extract (fun cl : OutCall => cl.nonce == nonce) (s.chains c).calls with
    | none => simp [he] at hfl
    | some pr =>
      obtain ⟨call, rest⟩ := pr
      simp only [he] at hfl
      simp only [stated, he]
      exact refundFlow_acct cfg c call g' x hx hc3 fl hfl
  | bcin c to tokens =>
    have hc3 := hc c rfl
    simp only [opFlow] at hfl; exc'
    cases h1 : tokensFlow cfg c tokens (fun k g n => bridgeTokenToBaseCoin k g c (U to) n) with
    | error e => simp [h1] at hfl
    | ok fl1 =>
      simp only [h1] at hfl
      cases h2 : pairsFlow cfg tokens (fun k g n => convertCoin k g (U to) (U to) n) with
      | error e => simp [h2] at hfl
      | ok fl2 =>
        simp only [h2, Except.ok.injEq] at hfl; subst hfl
        rw [flowDelta_append, pairsFlow_obs _ cfg _ (by intro k g n; rw [acct_convertCoin g' x hx]; omega) tokens fl2 h2,
          tokensFlow_obs _ cfg c g' _ (if U to = x then 1 else 0)
            (by intro k g n _; rw [acct_deposit g' x hx k g c to n hc3]; split <;> split <;> simp_all) tokens fl1 h1]
        simp only [stated]; split <;> simp
  | bcinfail c r tokens =>
    have hc3 := hc c rfl
    simp only [opFlow] at hfl; exc'
    cases h1 : tokensFlow cfg c tokens (fun k g n =>
        bridgeTokenToBaseCoin k g c badContract n ++ [.send (.base g) badContract (U r) n]) with
    | error e => simp [h1] at hfl
    | ok fl1 =>
      simp only [h1] at hfl
      cases h2 : tokensFlow cfg c tokens (fun k g n => baseCoinToBridgeToken k g c (U r) n) with
      | error e => simp [h2] at hfl
      | ok fl2 =>
        simp only [h2, Except.ok.injEq] at hfl; subst hfl
        rw [flowDelta_append,
          tokensFlow_obs _ cfg c g' _ (if U r = x then 1 else 0)
            (by intro k g n _; rw [acct_depositBadRefund g' x hx k g c r n hc3]; split <;> split <;> simp_all) tokens fl1 h1,
          tokensFlow_obs _ cfg c g' _ (if U r = x then -1 else 0)
            (by intro k g n _; rw [acct_withdraw g' x hx k g c r n hc3]; split <;> split <;> simp_all) tokens fl2 h2]
        simp only [stated]; split <;> simp <;> omega
  | convertCoin g u r n =>
    simp only [opFlow] at hfl; exc'
    cases hp : pairOk cfg g with
    | none => simp [hp] at hfl
    | some k => simp only [hp, Except.ok.injEq] at hfl; subst hfl; rw [acct_convertCoin g' x hx]; rfl
  | convertERC20 g u r n =>
    simp only [opFlow] at hfl; exc'
    cases hp : pairOk cfg g with
    | none => simp [hp] at hfl
    | some k => simp only [hp, Except.ok.injEq] at hfl; subst hfl; rw [acct_convertERC20 g' x hx]; rfl
  | convertDenom g u r n src dst =>
    simp only [opFlow] at hfl; exc'
    simp only [stepCore] at h; exc'
    cases hk : cfg.kind g with
    | none => simp [hk] at hfl
    | some k =>
      simp only [hk, Except.ok.injEq] at hfl h
      generalize hdst : (if okDen cfg g dst = true then dst else Den.base) = dst' at hfl h
      subst hfl
      split at h
      · cases h
      · split at h
        · cases h
        · rename_i hb
          simp only [Bool.not_eq_true', Bool.not_eq_false, Bool.and_eq_true] at hb
          have hs := okDen_denOk hb.1
          have hd := okDen_denOk hb.2
          rw [flowDelta_append, acct_convertDenom g' x hx k g u n src dst' hs hd]
          simp only [stated]
          split
          · rename_i hur; subst hur; simp [Obs.flowDelta]
          · rw [acct_sendPair g' x hx g u r n dst' hd]; omega

/-- every successful operation changes every user's holdings of every token group by exactly the stated amount -/
theorem step_holdings (cfg : Cfg) (s s' : State) (op : Op) (g' : Nat) (x : Addr) (hx : Holder x) (h : step cfg s op = .ok s') :
    (acctObs g' x).val s'.L = (acctObs g' x).val s.L + stated s op x g' := by
  unfold step at h
  have key : stepCore cfg s op = .ok s' ∧ ∀ c, op.chain? = some c → c < 3 := by
    cases hch : op.chain? with
    | none => simp only [hch] at h; exact ⟨h, by intro c hc; cases hc⟩
    | some c =>
      simp only [hch] at h
      split at h
      · rename_i hc; exact ⟨h, by intro c' hc'; cases hc'; exact hc⟩
      · cases h
  obtain ⟨fl, hfl, hval⟩ := stepCore_obs (acctObs_sound g' x) cfg s s' op key.1
  rw [hval, opFlow_acct cfg s s' op g' x hx key.2 key.1 fl hfl]

end FxVerif.Proofs.C04
