import FxVerif.Proofs.C04Esc
/-! C04: every successful operation keeps `escrow − in flight − circulating outside` of every locking token on every
chain -/
namespace FxVerif.Proofs.C04
open FxVerif.Model.Ledger FxVerif.Model.Flows FxVerif.Model.C04 FxVerif.Proofs.Ledger

section
variable (cfg : Cfg) (k0 : Kind) (g0 c0 : Nat) (hkind : cfg.kind g0 = some k0) (hk0 : k0 ≠ .moduleOwned)
  (hB : cfg.envBound = true)

macro "exq" : tactic => `(tactic| try simp only [bind, Except.bind, pure, Except.pure] at *)

/-- closing arithmetic shared by the cases -/
macro "em_close" : tactic =>
  `(tactic| (simp only [chainInFlight, poolValue, tokensValue, List.map_cons, List.map_nil, List.sum_cons,
      List.sum_nil] at * <;> (repeat' split) <;> (try simp_all) <;> (try omega)))

include hkind hk0

theorem em_send (s s' : State) (c g u n fee : Nat)
    (h : stepCore cfg s (.send c g u n fee) = .ok s') : emeasure k0 g0 c0 s' = emeasure k0 g0 c0 s := by
  simp only [stepCore] at h; exq
  split at h
  · cases h
  · cases hk : bridged cfg g c with
    | none => simp [hk] at h
    | some k =>
      simp only [hk] at h
      cases hr : run s (baseCoinToBridgeToken k g c (U u) (n + fee)) with
      | error e => simp [hr] at h
      | ok s1 =>
        simp only [hr, Except.ok.injEq] at h; subst h
        rw [emeasure_finish k0 g0 c0 s s1 _ c _ _ _ hr, esc_withdraw k0 g0 c0 hk0 k g c u _ (kind_unique hk hkind)]
        · em_close
        · rfl
        · intro _; simp [tokensValue]

theorem em_xsend (s s' : State) (c g u n fee : Nat)
    (h : stepCore cfg s (.xsend c g u n fee) = .ok s') : emeasure k0 g0 c0 s' = emeasure k0 g0 c0 s := by
  simp only [stepCore] at h; exq
  split at h
  · cases h
  · cases hkp : cfg.kind g with
    | none => simp [hkp] at h
    | some kp =>
      simp only [hkp] at h
      cases hk : bridged cfg g c with
      | none => simp [hk] at h
      | some k =>
        simp only [hk] at h
        cases hr : run s (precompileTokenIn kp g (U u) (n + fee) ++ baseCoinToBridgeToken k g c (U u) (n + fee)) with
        | error e => simp [hr] at h
        | ok s1 =>
          simp only [hr, Except.ok.injEq] at h; subst h
          rw [emeasure_finish k0 g0 c0 s s1 _ c _ _ _ hr, flowDelta_append, esc_precompileTokenIn,
            esc_withdraw k0 g0 c0 hk0 k g c u _ (kind_unique hk hkind)]
          · em_close
          · rfl
          · intro _; simp [tokensValue]

theorem em_vsend (s s' : State) (c g u n fee : Nat)
    (h : stepCore cfg s (.vsend c g u n fee) = .ok s') : emeasure k0 g0 c0 s' = emeasure k0 g0 c0 s := by
  simp only [stepCore] at h; exq
  split at h
  · cases h
  · split at h
    · cases h
    · cases hk : bridged cfg g c with
      | none => simp [hk] at h
      | some k =>
        simp only [hk] at h
        cases hr : run s (valueIn g (U u) (n + fee) ++ baseCoinToBridgeToken k g c (U u) (n + fee)) with
        | error e => simp [hr] at h
        | ok s1 =>
          simp only [hr, Except.ok.injEq] at h; subst h
          rw [emeasure_finish k0 g0 c0 s s1 _ c _ _ _ hr, flowDelta_append, esc_valueIn,
            esc_withdraw k0 g0 c0 hk0 k g c u _ (kind_unique hk hkind)]
          · em_close
          · rfl
          · intro _; simp [tokensValue]

theorem em_incfee (s s' : State) (c id u g n : Nat)
    (h : stepCore cfg s (.incfee c id u g n) = .ok s') : emeasure k0 g0 c0 s' = emeasure k0 g0 c0 s := by
  simp only [stepCore] at h; exq
  split at h
  · cases h
  · cases he : extract (fun t : PoolTx => t.id == id) (s.chains c).pool with
    | none => simp [he] at h
    | some pr =>
      obtain ⟨tx, rest⟩ := pr
      simp only [he] at h
      have hsum := extract_sum _ (fun t : PoolTx => if t.g = g0 then t.amount + t.fee else 0) _ _ _ he
      cases hk : bridged cfg g c with
      | none => simp [hk] at h
      | some k =>
        simp only [hk] at h
        split at h
        · cases h
        · rename_i hg
          have hg' : tx.g = g := by simpa using hg
          cases hr : run s (addBridgeFee k g c (U u) n) with
          | error e => simp [hr] at h
          | ok s1 =>
            simp only [hr, Except.ok.injEq] at h; subst h
            rw [emeasure_finish k0 g0 c0 s s1 _ c _ _ _ hr, esc_addBridgeFee k0 g0 c0 hk0 k g c u _ (kind_unique hk hkind)]
            · em_close
            · rfl
            · intro _; simp [tokensValue]

theorem em_xincfee (s s' : State) (c id u g n : Nat)
    (h : stepCore cfg s (.xincfee c id u g n) = .ok s') : emeasure k0 g0 c0 s' = emeasure k0 g0 c0 s := by
  simp only [stepCore] at h; exq
  split at h
  · cases h
  · cases hkp : cfg.kind g with
    | none => simp [hkp] at h
    | some kp =>
      simp only [hkp] at h
      cases he : extract (fun t : PoolTx => t.id == id) (s.chains c).pool with
      | none => simp [he] at h
      | some pr =>
        obtain ⟨tx, rest⟩ := pr
        simp only [he] at h
        have hsum := extract_sum _ (fun t : PoolTx => if t.g = g0 then t.amount + t.fee else 0) _ _ _ he
        cases hk : bridged cfg g c with
        | none => simp [hk] at h
        | some k =>
          simp only [hk] at h
          split at h
          · cases h
          · rename_i hg
            have hg' : tx.g = g := by simpa using hg
            cases hr : run s (precompileTokenIn kp g (U u) n ++ (feeToBridgeDenom k g c (U u) n ++
                addBridgeFee k g c (U u) n)) with
            | error e => simp [hr] at h
            | ok s1 =>
              simp [hr] at h; subst h
              rw [emeasure_finish k0 g0 c0 s s1 _ c _ _ _ hr, flowDelta_append, flowDelta_append,
                esc_precompileTokenIn, esc_feeToBridgeDenom, esc_addBridgeFee k0 g0 c0 hk0 k g c u _ (kind_unique hk hkind)]
              · em_close
              · rfl
              · intro _; simp [tokensValue]

theorem em_cancel (s s' : State) (c id u : Nat)
    (h : stepCore cfg s (.cancel c id u) = .ok s') : emeasure k0 g0 c0 s' = emeasure k0 g0 c0 s := by
  simp only [stepCore] at h; exq
  cases he : extract (fun t : PoolTx => t.id == id) (s.chains c).pool with
  | none => simp [he] at h
  | some pr =>
    obtain ⟨tx, rest⟩ := pr
    simp only [he] at h
    have hsum := extract_sum _ (fun t : PoolTx => if t.g = g0 then t.amount + t.fee else 0) _ _ _ he
    split at h
    · cases h
    · cases hk : bridged cfg tx.g c with
      | none => simp [hk] at h
      | some k =>
        simp only [hk] at h
        cases hrel : tx.relation
        · simp only [hrel, Bool.false_eq_true, ↓reduceIte] at h
          cases hr : run s (bridgeTokenToBaseCoin k tx.g c (U u) (tx.amount + tx.fee)) with
          | error e => simp [hr] at h
          | ok s1 =>
            simp only [hr, Except.ok.injEq] at h; subst h
            rw [emeasure_finish k0 g0 c0 s s1 _ c _ _ _ hr, esc_deposit k0 g0 c0 hk0 k tx.g c u _ (kind_unique hk hkind)]
            · em_close
            · rfl
            · intro _; simp [tokensValue]
        · simp only [hrel, ↓reduceIte] at h
          cases hp : pairOk cfg tx.g with
          | none => simp [hp] at h
          | some k' =>
            simp only [hp] at h
            cases hr : run s (bridgeTokenToBaseCoin k tx.g c (U u) (tx.amount + tx.fee) ++
                convertCoin k tx.g (U u) (U u) (tx.amount + tx.fee)) with
            | error e => simp [hr] at h
            | ok s1 =>
              simp only [hr, Except.ok.injEq] at h; subst h
              rw [emeasure_finish k0 g0 c0 s s1 _ c _ _ _ hr, flowDelta_append,
                esc_deposit k0 g0 c0 hk0 k tx.g c u _ (kind_unique hk hkind), esc_convertCoin]
              · em_close
              · rfl
              · intro _; simp [tokensValue]

include hB

theorem em_deposit (s s' : State) (c g u n : Nat) (toErc : Bool)
    (h : stepCore cfg s (.deposit c g u n toErc) = .ok s') : emeasure k0 g0 c0 s' = emeasure k0 g0 c0 s := by
  simp only [stepCore] at h; exq
  cases hk : bridged cfg g c with
  | none => simp [hk] at h
  | some k =>
    simp only [hk] at h
    split at h
    · cases h
    rename_i henv
    have henv' : envOk cfg (s.chains c) [(g, n)] = true := by simpa using henv
    have hbound := envOk_bound hB hkind hk0 henv'
    cases toErc
    · simp only [Bool.false_eq_true, ↓reduceIte] at h
      cases hr : run s (bridgeTokenToBaseCoin k g c (U u) n) with
      | error e => simp [hr] at h
      | ok s1 =>
        simp only [hr, Except.ok.injEq] at h; subst h
        have hch := run_chains hr
        rw [emeasure_finish k0 g0 c0 s s1 _ c _ _ _ hr, esc_deposit k0 g0 c0 hk0 k g c u _ (kind_unique hk hkind), hch]
        · em_close
        · rw [hch]
        · intro _; omega
    · simp only [↓reduceIte] at h
      cases hp : pairOk cfg g with
      | none => simp [hp] at h
      | some k' =>
        simp only [hp] at h
        cases hr : run s (bridgeTokenToBaseCoin k g c (U u) n ++ convertCoin k g (U u) (U u) n) with
        | error e => simp [hr] at h
        | ok s1 =>
          simp only [hr, Except.ok.injEq] at h; subst h
          have hch := run_chains hr
          rw [emeasure_finish k0 g0 c0 s s1 _ c _ _ _ hr, flowDelta_append,
            esc_deposit k0 g0 c0 hk0 k g c u _ (kind_unique hk hkind), esc_convertCoin, hch]
          · em_close
          · rw [hch]
          · intro _; omega

omit hB

omit hkind hk0 in
theorem em_batch (s s' : State) (c g bf mf : Nat) (ao : Bool)
    (h : stepCore cfg s (.batch c g bf mf ao) = .ok s') : emeasure k0 g0 c0 s' = emeasure k0 g0 c0 s := by
  simp only [stepCore] at h; exq
  split at h
  · cases h
  · rw [request_closed] at h
    cases hb : batchResult (bridged cfg g c).isSome ao ⟨g, bf, mf⟩ (s.chains c) with
    | error e => simp [hb] at h
    | ok cs' =>
      simp only [hb, Except.ok.injEq] at h; subst h
      obtain ⟨_, _, _, _, rfl⟩ := batchResult_ok hb
      have := filter_sum (selects ⟨g, bf, mf⟩)
        (fun t : PoolTx => if t.g = g0 then t.amount + t.fee else 0) (s.chains c).pool
      rw [emeasure_finish k0 g0 c0 s s [] c _ _ _ (run_nil s)]
      · simp only [Obs.flowDelta, chainInFlight, poolValue, tokensValue, List.map_cons, List.map_nil, List.sum_cons,
          List.sum_nil] at this ⊢
        split
        · rename_i hc; subst hc; omega
        · omega
      · rfl
      · intro _; simp [tokensValue]

omit hkind hk0 in
theorem em_executed (s s' : State) (c g nonce : Nat)
    (h : stepCore cfg s (.executed c g nonce) = .ok s') : emeasure k0 g0 c0 s' = emeasure k0 g0 c0 s := by
  simp only [stepCore] at h; exq
  split at h
  · cases h
  · cases h
    have h1 := split3_sum (cancels cancelRule g nonce) (isBatch g nonce) (fun b => poolValue g0 b.txs)
      (cancels_isBatch_disjoint g nonce) (s.chains c).batches
    have h2 := exec_value g0 ((s.chains c).batches.filter (isBatch g nonce))
    rw [emeasure_finish k0 g0 c0 s s [] c _ _ _ (run_nil s)]
    · have h0 : tokensValue g0 [] = 0 := rfl
      simp only [Obs.flowDelta, chainInFlight, executedWith, poolValue_append, poolValue_flatMap, h2, h0]
      split
      · rename_i hc; subst hc; omega
      · omega
    · rfl
    · intro _; simp [tokensValue]

omit hkind hk0 in
theorem em_btimeout (s s' : State) (c g nonce : Nat)
    (h : stepCore cfg s (.btimeout c g nonce) = .ok s') : emeasure k0 g0 c0 s' = emeasure k0 g0 c0 s := by
  simp only [stepCore] at h; exq
  split at h
  · cases h
  · cases h
    have h1 := filter_sum (isBatch g nonce) (fun b => poolValue g0 b.txs) (s.chains c).batches
    rw [emeasure_finish k0 g0 c0 s s [] c _ _ _ (run_nil s)]
    · simp only [Obs.flowDelta, chainInFlight, poolValue_append, poolValue_flatMap, tokensValue, List.map_nil,
        List.sum_nil]
      split
      · rename_i hc; subst hc; omega
      · omega
    · rfl
    · intro _; simp [tokensValue]

theorem em_bcout (s s' : State) (c u r : Nat) (tokens : List (Nat × Nat)) (pre : Bool)
    (h : stepCore cfg s (.bcout c u r tokens pre) = .ok s') : emeasure k0 g0 c0 s' = emeasure k0 g0 c0 s := by
  simp only [stepCore] at h; exq
  have hout : ∀ flOut, tokensFlow cfg c tokens (fun k g n => baseCoinToBridgeToken k g c (U u) n) = .ok flOut →
      (escObs k0 g0 c0).flowDelta flOut = (if c = c0 then 1 else 0) * (tokensValue g0 tokens : Int) := fun flOut hf =>
    tokensFlow_obs _ cfg c g0 _ _ (by
      intro k g n hk; rw [esc_withdraw k0 g0 c0 hk0 k g c u n (kind_unique hk hkind)]
      split <;> split <;> simp_all) tokens flOut hf
  cases pre
  · simp only [Bool.false_eq_true, ↓reduceIte] at h
    cases ho : tokensFlow cfg c tokens (fun k g n => baseCoinToBridgeToken k g c (U u) n) with
    | error e => simp [ho] at h
    | ok flOut =>
      simp only [ho, List.nil_append] at h
      cases hr : run s flOut with
      | error e => simp [hr] at h
      | ok s1 =>
        simp only [hr, Except.ok.injEq] at h; subst h
        rw [emeasure_finish k0 g0 c0 s s1 _ c _ _ _ hr, hout flOut ho]
        · em_close
        · rfl
        · intro _; simp [tokensValue]
  · simp only [↓reduceIte] at h
    cases hi : pairsFlow cfg tokens (fun k g n => convertERC20 k g (U u) (U u) n) with
    | error e => simp [hi] at h
    | ok flIn =>
      simp only [hi] at h
      cases ho : tokensFlow cfg c tokens (fun k g n => baseCoinToBridgeToken k g c (U u) n) with
      | error e => simp [ho] at h
      | ok flOut =>
        simp only [ho] at h
        cases hr : run s (flIn ++ flOut) with
        | error e => simp [hr] at h
        | ok s1 =>
          simp only [hr, Except.ok.injEq] at h; subst h
          rw [emeasure_finish k0 g0 c0 s s1 _ c _ _ _ hr, flowDelta_append, hout flOut ho,
            pairsFlow_obs _ cfg _ (fun k g n => esc_convertERC20 k0 g0 c0 k g u u n) tokens flIn hi]
          · em_close
          · rfl
          · intro _; simp [tokensValue]

theorem em_vbcout (s s' : State) (c gfx u r v : Nat) (tokens : List (Nat × Nat))
    (h : stepCore cfg s (.vbcout c gfx u r v tokens) = .ok s') : emeasure k0 g0 c0 s' = emeasure k0 g0 c0 s := by
  simp only [stepCore] at h; exq
  split at h
  · cases h
  · split at h
    · cases h
    · cases hi : pairsFlow cfg tokens (fun k g n => convertERC20 k g (U u) (U u) n) with
      | error e => simp [hi] at h
      | ok flIn =>
        simp only [hi] at h
        cases ho : tokensFlow cfg c ((gfx, v) :: tokens) (fun k g n => baseCoinToBridgeToken k g c (U u) n) with
        | error e => simp [ho] at h
        | ok flOut =>
          simp only [ho] at h
          cases hr : run s (valueIn gfx (U u) v ++ (flIn ++ flOut)) with
          | error e => simp [hr] at h
          | ok s1 =>
            simp only [hr, Except.ok.injEq] at h; subst h
            have hout := tokensFlow_obs (escObs k0 g0 c0) cfg c g0 _ (if c = c0 then 1 else 0) (by
              intro k g n hk; rw [esc_withdraw k0 g0 c0 hk0 k g c u n (kind_unique hk hkind)]
              split <;> split <;> simp_all) ((gfx, v) :: tokens) flOut ho
            rw [emeasure_finish k0 g0 c0 s s1 _ c _ _ _ hr, flowDelta_append, flowDelta_append, esc_valueIn, hout,
              pairsFlow_obs _ cfg _ (fun k g n => esc_convertERC20 k0 g0 c0 k g u u n) tokens flIn hi]
            · em_close
            · rfl
            · intro _; simp [tokensValue]

theorem em_refundCall (s s' : State) (c : Nat) (call : OutCall) (rest : List OutCall) (p : OutCall → Bool)
    (he : extract p (s.chains c).calls = some (call, rest))
    (h : refundCall cfg s c call { (s.chains c) with calls := rest } = .ok s') :
    emeasure k0 g0 c0 s' = emeasure k0 g0 c0 s := by
  simp only [refundCall] at h; exq
  have hv := callsValue_extract g0 _ _ _ p he
  cases h1 : tokensFlow cfg c call.tokens (fun k g n => bridgeCallRefundCoin k g c (U call.refund) n) with
  | error e => simp [h1] at h
  | ok fl1 =>
    simp only [h1] at h
    have hd1 := tokensFlow_obs (escObs k0 g0 c0) cfg c g0 _ (if c = c0 then -1 else 0) (by
      intro k g n hk; rw [esc_refundCoin k0 g0 c0 hk0 k g c call.refund n (kind_unique hk hkind)]
      split <;> split <;> simp_all) call.tokens fl1 h1
    cases hfm : call.fromMsg
    · simp only [hfm, Bool.false_eq_true, ↓reduceIte] at h
      cases h2 : refundToEvmFlow cfg call.refund call.tokens with
      | error e => simp [h2] at h
      | ok fl2 =>
        simp only [h2] at h
        cases hr : run s (fl1 ++ fl2) with
        | error e => simp [hr] at h
        | ok s1 =>
          simp only [hr, Except.ok.injEq] at h; subst h
          rw [emeasure_finish k0 g0 c0 s s1 _ c _ _ _ hr, flowDelta_append, hd1,
            refundToEvm_obs _ cfg call.refund (fun k g n => esc_refundToEvm k0 g0 c0 k g _ n) _ _ h2]
          · simp only [chainInFlight, tokensValue, List.map_nil, List.sum_nil] at hv ⊢
            split
            · rename_i hc; subst hc; (try simp only [↓reduceIte]); omega
            · simp
          · rfl
          · intro _; simp [tokensValue]
    · simp only [hfm, ↓reduceIte, List.append_nil] at h
      cases hr : run s fl1 with
      | error e => simp [hr] at h
      | ok s1 =>
        simp only [hr, Except.ok.injEq] at h; subst h
        rw [emeasure_finish k0 g0 c0 s s1 _ c _ _ _ hr, hd1]
        · simp only [chainInFlight, tokensValue, List.map_nil, List.sum_nil] at hv ⊢
          split
          · rename_i hc; subst hc; (try simp only [↓reduceIte]); omega
          · simp
        · rfl
        · intro _; simp [tokensValue]

theorem em_bcresult (s s' : State) (c nonce : Nat) (ok : Bool)
    (h : stepCore cfg s (.bcresult c nonce ok) = .ok s') : emeasure k0 g0 c0 s' = emeasure k0 g0 c0 s := by
  simp only [stepCore] at h; exq
  cases he : extract (fun cl : OutCall => cl.nonce == nonce) (s.chains c).calls with
  | none => simp [he] at h
  | some pr =>
    obtain ⟨call, rest⟩ := pr
    simp only [he] at h
    cases ok
    · simp only [Bool.false_eq_true, ↓reduceIte] at h
      exact em_refundCall cfg k0 g0 c0 hkind hk0 s s' c call rest _ he h
    · simp only [↓reduceIte, Except.ok.injEq] at h; subst h
      have hv := callsValue_extract g0 _ _ _ _ he
      rw [emeasure_finish k0 g0 c0 s s [] c _ _ _ (run_nil s)]
      · have h0 : tokensValue g0 [] = 0 := rfl
        simp only [Obs.flowDelta, chainInFlight, h0] at hv ⊢
        split
        · rename_i hc; subst hc; omega
        · omega
      · rfl
      · intro _; simp [tokensValue]

theorem em_bctimeout (s s' : State) (c nonce : Nat)
    (h : stepCore cfg s (.bctimeout c nonce) = .ok s') : emeasure k0 g0 c0 s' = emeasure k0 g0 c0 s := by
  simp only [stepCore] at h; exq
  cases he : extract (fun cl : OutCall => cl.nonce == nonce) (s.chains c).calls with
  | none => simp [he] at h
  | some pr =>
    obtain ⟨call, rest⟩ := pr
    simp only [he] at h
    exact em_refundCall cfg k0 g0 c0 hkind hk0 s s' c call rest _ he h

include hB

theorem em_bcin (s s' : State) (c to : Nat) (tokens : List (Nat × Nat))
    (h : stepCore cfg s (.bcin c to tokens) = .ok s') : emeasure k0 g0 c0 s' = emeasure k0 g0 c0 s := by
  simp only [stepCore] at h; exq
  split at h
  · cases h
  rename_i henv
  have hbound := envOk_bound hB hkind hk0 (by simpa using henv : envOk cfg (s.chains c) tokens = true)
  cases h1 : tokensFlow cfg c tokens (fun k g n => bridgeTokenToBaseCoin k g c (U to) n) with
  | error e => simp [h1] at h
  | ok fl1 =>
    simp only [h1] at h
    have hd1 := tokensFlow_obs (escObs k0 g0 c0) cfg c g0 _ (if c = c0 then -1 else 0) (by
      intro k g n hk; rw [esc_deposit k0 g0 c0 hk0 k g c to n (kind_unique hk hkind)]
      split <;> split <;> simp_all) tokens fl1 h1
    cases h2 : pairsFlow cfg tokens (fun k g n => convertCoin k g (U to) (U to) n) with
    | error e => simp [h2] at h
    | ok fl2 =>
      simp only [h2] at h
      cases hr : run s (fl1 ++ fl2) with
      | error e => simp [hr] at h
      | ok s1 =>
        simp only [hr, Except.ok.injEq] at h; subst h
        have hch := run_chains hr
        rw [emeasure_finish k0 g0 c0 s s1 _ c _ _ _ hr, flowDelta_append, hd1,
          pairsFlow_obs _ cfg _ (fun k g n => esc_convertCoin k0 g0 c0 k g to to n) tokens fl2 h2, hch]
        · have h0 : tokensValue g0 [] = 0 := rfl
          simp only [h0]
          split
          · rename_i hc; subst hc; (try simp only [↓reduceIte]); omega
          · simp
        · rw [hch]
        · intro _; omega

theorem em_bcinfail (s s' : State) (c r : Nat) (tokens : List (Nat × Nat))
    (h : stepCore cfg s (.bcinfail c r tokens) = .ok s') : emeasure k0 g0 c0 s' = emeasure k0 g0 c0 s := by
  simp only [stepCore] at h; exq
  split at h
  · cases h
  rename_i henv
  have hbound := envOk_bound hB hkind hk0 (by simpa using henv : envOk cfg (s.chains c) tokens = true)
  cases h1 : tokensFlow cfg c tokens (fun k g n =>
      bridgeTokenToBaseCoin k g c badContract n ++ [.send (.base g) badContract (U r) n]) with
  | error e => simp [h1] at h
  | ok fl1 =>
    simp only [h1] at h
    have hd1 := tokensFlow_obs (escObs k0 g0 c0) cfg c g0 _ (if c = c0 then -1 else 0) (by
      intro k g n hk; rw [esc_depositBad k0 g0 c0 hk0 k g c r n (kind_unique hk hkind)]
      split <;> split <;> simp_all) tokens fl1 h1
    cases h2 : tokensFlow cfg c tokens (fun k g n => baseCoinToBridgeToken k g c (U r) n) with
    | error e => simp [h2] at h
    | ok fl2 =>
      simp only [h2] at h
      have hd2 := tokensFlow_obs (escObs k0 g0 c0) cfg c g0 _ (if c = c0 then 1 else 0) (by
        intro k g n hk; rw [esc_withdraw k0 g0 c0 hk0 k g c r n (kind_unique hk hkind)]
        split <;> split <;> simp_all) tokens fl2 h2
      cases hr : run s (fl1 ++ fl2) with
      | error e => simp [hr] at h
      | ok s1 =>
        simp only [hr, Except.ok.injEq] at h; subst h
        rw [emeasure_finish k0 g0 c0 s s1 _ c _ _ _ hr, flowDelta_append, hd1, hd2]
        · have h0 : tokensValue g0 [] = 0 := rfl
          simp only [chainInFlight, List.map_cons, List.sum_cons, h0]
          split
          · rename_i hc; subst hc; (try simp only [↓reduceIte]); omega
          · simp
        · rfl
        · intro _; omega

omit hB hkind hk0

theorem emeasure_run (s s' : State) (fl : List Prim) (hr : run s fl = .ok s')
    (hd : (escObs k0 g0 c0).flowDelta fl = 0) : emeasure k0 g0 c0 s' = emeasure k0 g0 c0 s := by
  obtain ⟨L', hL, rfl⟩ := run_ok hr
  have hv := runFlow_obs (escObs_sound k0 g0 c0) fl s.L L' hL
  simp only [emeasure, hv, hd]; omega

theorem em_converts (s s' : State) (op : Op) (hop : op.chain? = none)
    (h : stepCore cfg s op = .ok s') : emeasure k0 g0 c0 s' = emeasure k0 g0 c0 s := by
  cases op <;> simp only [Op.chain?] at hop <;> first | cases hop | skip
  · rename_i g u r n
    simp only [stepCore] at h; exq
    cases hp : pairOk cfg g with
    | none => simp [hp] at h
    | some k => simp only [hp] at h; exact emeasure_run k0 g0 c0 s s' _ h (esc_convertCoin k0 g0 c0 k g u r n)
  · rename_i g u r n
    simp only [stepCore] at h; exq
    cases hp : pairOk cfg g with
    | none => simp [hp] at h
    | some k => simp only [hp] at h; exact emeasure_run k0 g0 c0 s s' _ h (esc_convertERC20 k0 g0 c0 k g u r n)
  · rename_i g u r n src dst
    simp only [stepCore] at h; exq
    cases hk : cfg.kind g with
    | none => simp [hk] at h
    | some k =>
      simp only [hk] at h
      generalize (if okDen cfg g dst = true then dst else Den.base) = dst' at h
      split at h
      · cases h
      · split at h
        · cases h
        · refine emeasure_run k0 g0 c0 s s' _ h ?_
          rw [flowDelta_append, esc_convertDenom]
          split
          · simp [Obs.flowDelta]
          · rw [esc_sendPair]; rfl

include hkind hk0 hB

/-- every successful operation keeps the escrow measure -/
theorem step_emeasure (s s' : State) (op : Op) (h : step cfg s op = .ok s') :
    emeasure k0 g0 c0 s' = emeasure k0 g0 c0 s := by
  unfold step at h
  cases hch : op.chain? with
  | none => simp only [hch] at h; exact em_converts cfg k0 g0 c0 s s' op hch h
  | some c =>
    simp only [hch] at h
    split at h
    · cases op <;> simp only [Op.chain?, Option.some.injEq, reduceCtorEq] at hch <;> (try subst hch)
      · exact em_deposit cfg k0 g0 c0 hkind hk0 hB s s' _ _ _ _ _ h
      · exact em_send cfg k0 g0 c0 hkind hk0 s s' _ _ _ _ _ h
      · exact em_xsend cfg k0 g0 c0 hkind hk0 s s' _ _ _ _ _ h
      · exact em_vsend cfg k0 g0 c0 hkind hk0 s s' _ _ _ _ _ h
      · exact em_xincfee cfg k0 g0 c0 hkind hk0 s s' _ _ _ _ _ h
      · exact em_cancel cfg k0 g0 c0 hkind hk0 s s' _ _ _ h
      · exact em_incfee cfg k0 g0 c0 hkind hk0 s s' _ _ _ _ _ h
      · exact em_batch cfg k0 g0 c0 s s' _ _ _ _ _ h
      · exact em_executed cfg k0 g0 c0 s s' _ _ _ h
      · exact em_btimeout cfg k0 g0 c0 s s' _ _ _ h
      · exact em_bcout cfg k0 g0 c0 hkind hk0 s s' _ _ _ _ _ h
      · exact em_vbcout cfg k0 g0 c0 hkind hk0 s s' _ _ _ _ _ _ h
      · exact em_bcresult cfg k0 g0 c0 hkind hk0 s s' _ _ _ h
      · exact em_bctimeout cfg k0 g0 c0 hkind hk0 s s' _ _ h
      · exact em_bcin cfg k0 g0 c0 hkind hk0 hB s s' _ _ _ h
      · exact em_bcinfail cfg k0 g0 c0 hkind hk0 hB s s' _ _ _ h
    · cases h

theorem runOps_emeasure (ops : List Op) (s : State) :
    emeasure k0 g0 c0 (runOps cfg s ops) = emeasure k0 g0 c0 s := by
  induction ops generalizing s with
  | nil => rfl
  | cons op ops ih =>
    simp only [runOps, List.foldl_cons] at ih ⊢
    rw [ih]
    unfold stepT
    cases h : step cfg s op with
    | error e => rfl
    | ok s' => exact step_emeasure cfg k0 g0 c0 hkind hk0 hB s s' op h

end
end FxVerif.Proofs.C04
