import FxVerif.Model.C15
/-!
# C15 — the custom-parameter look-ups (`GetCustomMsgVotingPeriod`, `GetCustomMsgQuorum`), interpreted = one piece

`customPeriodSteps` / `customQuorumSteps` are regenerated from `x/gov/keeper/proposal.go` on every run; the model interprets them
(`lookupRun`).  For the statement lists the source has now the run equals the one-piece look-up the type theorems speak about:
the entry stored under the type url of the proposal's first message when there is one, else the default argument.
-/
namespace FxVerif.Proofs.C15
open FxVerif.Gen.C15 FxVerif.Model.C15

theorem customPeriodSteps_order : customPeriodSteps =
    [("msgType", periodLookupType), ("ifFound", "customParams.VotingPeriod"), ("return", "defaultVotingPeriod")] := rfl

theorem customQuorumSteps_order : customQuorumSteps =
    [("msgType", quorumLookupType), ("ifFound", "customParams.Quorum"), ("return", "defaultQuorum")] := rfl

/-- `GetCustomMsgVotingPeriod`, statement by statement = found ⇒ the entry's voting period, else the default argument -/
theorem customPeriodOf_eq (custom : List (Ty × Custom)) (msgs : List Msg) (dflt : Nat) :
    customPeriodOf custom msgs dflt = match getCustom custom (propTypeP msgs) with | some c => c.votingPeriod | none => dflt := by
  unfold customPeriodOf lookupRun
  rw [customPeriodSteps_order]
  have e1 : lookupStep custom msgs dflt {} ("msgType", periodLookupType) = { ty := propTypeP msgs } := rfl
  simp only [List.foldl, e1]
  cases h : getCustom custom (propTypeP msgs) with
  | some c =>
    have e2 : lookupStep custom msgs dflt { ty := propTypeP msgs } ("ifFound", "customParams.VotingPeriod") =
        { ty := propTypeP msgs, ret := some c.votingPeriod } := by
      simp [lookupStep, h, lookupValue]
    rw [e2]
    rfl
  | none =>
    have e2 : lookupStep custom msgs dflt { ty := propTypeP msgs } ("ifFound", "customParams.VotingPeriod") = { ty := propTypeP msgs } := by
      simp [lookupStep, h]
    rw [e2]
    rfl

/-- `GetCustomMsgQuorum`, statement by statement = found ⇒ the entry's quorum, else the default argument -/
theorem customQuorumOf_eq (custom : List (Ty × Custom)) (msgs : List Msg) (dflt : Nat) :
    customQuorumOf custom msgs dflt = match getCustom custom (propTypeQ msgs) with | some c => c.quorum | none => dflt := by
  unfold customQuorumOf lookupRun
  rw [customQuorumSteps_order]
  have e1 : lookupStep custom msgs dflt {} ("msgType", quorumLookupType) = { ty := propTypeQ msgs } := rfl
  simp only [List.foldl, e1]
  cases h : getCustom custom (propTypeQ msgs) with
  | some c =>
    have e2 : lookupStep custom msgs dflt { ty := propTypeQ msgs } ("ifFound", "customParams.Quorum") =
        { ty := propTypeQ msgs, ret := some c.quorum } := by
      simp [lookupStep, h, lookupValue]
    rw [e2]
    rfl
  | none =>
    have e2 : lookupStep custom msgs dflt { ty := propTypeQ msgs } ("ifFound", "customParams.Quorum") = { ty := propTypeQ msgs } := by
      simp [lookupStep, h]
    rw [e2]
    rfl

/-! ## `msgServer.VoteWeighted` of the SDK, interpreted = the one-piece validation of the weighted options -/

theorem sdkVoteWeightedLoop_order : sdkVoteWeightedLoop =
    ["rejectInvalidOption", "parseWeight", "total+=weight", "rejectDuplicate", "markUsed"] := rfl

theorem sdkVoteWeightedSteps_before : sdkVoteWeightedSteps.takeWhile (fun t => t != "addVote") =
    ["voterAddr", "rejectBadAddr", "rejectEmpty", "total0", "used0", "optionLoop", "rejectTotalGT1", "rejectTotalLT1", "sdkCtx"] := by decide

theorem weightedOptionValid_eq (w : Nat) : weightedOptionValid w = (decide (0 < w) && decide (w ≤ DEC)) := by
  have h : sdkWeightedOptionValid.contains "falseUnlessPositiveAndAtMostOne" = true := by decide
  unfold weightedOptionValid
  rw [h]; rfl

/-- no option of the list is among `used`, and no option occurs twice -/
def fresh : List Opt → List (Opt × Nat) → Bool
  | _, [] => true
  | used, o :: r => !used.contains o.1 && fresh (o.1 :: used) r

theorem loop_one (o : Opt × Nat) (l : VoteLocals) (hl : l.rejected = false) :
    sdkVoteWeightedLoop.foldl (voteLoopStep o) l =
      if !weightedOptionValid o.2 then { l with rejected := true }
      else if l.used.contains o.1 then { l with total := l.total + o.2, rejected := true }
      else { l with total := l.total + o.2, used := o.1 :: l.used } := by
  rw [sdkVoteWeightedLoop_order]
  obtain ⟨t, u, rj⟩ := l
  simp only at hl
  subst hl
  have s1 : voteLoopStep o ⟨t, u, false⟩ "rejectInvalidOption" = if !weightedOptionValid o.2 then ⟨t, u, true⟩ else ⟨t, u, false⟩ := rfl
  have dead : ∀ t' u' tg, voteLoopStep o ⟨t', u', true⟩ tg = ⟨t', u', true⟩ := fun _ _ _ => rfl
  have s2 : ∀ t u, voteLoopStep o ⟨t, u, false⟩ "parseWeight" = ⟨t, u, false⟩ := fun _ _ => rfl
  have s3 : ∀ t u, voteLoopStep o ⟨t, u, false⟩ "total+=weight" = ⟨t + o.2, u, false⟩ := fun _ _ => rfl
  have s4 : ∀ t u, voteLoopStep o ⟨t, u, false⟩ "rejectDuplicate" = if u.contains o.1 then ⟨t, u, true⟩ else ⟨t, u, false⟩ := fun _ _ => rfl
  have s5 : ∀ t u, voteLoopStep o ⟨t, u, false⟩ "markUsed" = ⟨t, o.1 :: u, false⟩ := fun _ _ => rfl
  simp only [List.foldl]
  rw [s1]
  cases hv : weightedOptionValid o.2
  · simp only [Bool.not_false, if_true]
    rw [dead, dead, dead, dead]
  · simp only [Bool.not_true, Bool.false_eq_true, if_false]
    rw [s2, s3, s4]
    cases hu : u.contains o.1
    · simp only [Bool.false_eq_true, if_false]
      rw [s5]
    · simp only [if_true]
      rw [dead]

theorem loop_rejected : ∀ (opts : List (Opt × Nat)) (l : VoteLocals), l.rejected = true → (voteOptionLoop opts l).rejected = true := by
  intro opts
  induction opts with
  | nil => intro l h; exact h
  | cons o r ih =>
    intro l h
    simp only [voteOptionLoop]
    apply ih
    rw [sdkVoteWeightedLoop_order]
    simp only [List.foldl, voteLoopStep, h, if_true]

theorem loop_spec : ∀ (opts : List (Opt × Nat)) (l : VoteLocals), l.rejected = false →
    (voteOptionLoop opts l).rejected = !(opts.all (fun o => weightedOptionValid o.2) && fresh l.used opts) ∧
    ((voteOptionLoop opts l).rejected = false → (voteOptionLoop opts l).total = l.total + sumW opts) := by
  intro opts
  induction opts with
  | nil =>
    intro l h
    exact ⟨by simp only [voteOptionLoop, h, List.all_nil, fresh, Bool.and_self, Bool.not_true],
      fun _ => by simp only [voteOptionLoop, sumW, Nat.add_zero]⟩
  | cons o r ih =>
    intro l h
    simp only [voteOptionLoop, loop_one o l h, List.all_cons, fresh, sumW]
    cases hv : weightedOptionValid o.2
    · simp only [Bool.not_false, if_true, Bool.false_and]
      have := loop_rejected r { l with rejected := true } rfl
      exact ⟨this, fun hr => by rw [this] at hr; cases hr⟩
    · cases hu : l.used.contains o.1
      · simp only [Bool.not_true, Bool.false_eq_true, if_false, Bool.true_and, Bool.not_false]
        obtain ⟨i1, i2⟩ := ih { l with total := l.total + o.2, used := o.1 :: l.used } h
        exact ⟨i1, fun hr => by rw [i2 hr]; simp only; omega⟩
      · simp only [Bool.not_true, Bool.false_eq_true, if_false, if_true, Bool.true_and, Bool.false_and, Bool.and_false, Bool.not_false]
        have := loop_rejected r { l with total := l.total + o.2, rejected := true } rfl
        exact ⟨this, fun hr => by rw [this] at hr; cases hr⟩

theorem all_and_bool {α : Type} (p q : α → Bool) : ∀ r : List α, (r.all fun x => p x && q x) = (r.all p && r.all q) := by
  intro r
  induction r with
  | nil => rfl
  | cons b t ih =>
    simp only [List.all_cons, ih]
    cases p b <;> cases q b <;> cases t.all p <;> cases t.all q <;> rfl

theorem all_not_contains_cons (a : Opt) (used : List Opt) (r : List (Opt × Nat)) :
    (r.all fun x => !(a :: used).contains x.1) = ((r.all fun x => !used.contains x.1) && (r.all fun x => !(x.1 == a))) := by
  have : (fun x : Opt × Nat => !(a :: used).contains x.1) = (fun x => (!used.contains x.1) && !(x.1 == a)) := by
    funext x
    rw [List.contains_cons]
    cases (x.1 == a) <;> cases (used.contains x.1) <;> rfl
  rw [this, all_and_bool]

theorem fresh_eq : ∀ (opts : List (Opt × Nat)) (used : List Opt),
    fresh used opts = (opts.all (fun o => !used.contains o.1) && distinctOpts opts) := by
  intro opts
  induction opts with
  | nil => intro used; rfl
  | cons o r ih =>
    intro used
    simp only [fresh, ih, List.all_cons, distinctOpts, all_not_contains_cons]
    cases (used.contains o.1) <;> cases (r.all fun x => !used.contains x.1) <;> cases (r.all fun x => !(x.1 == o.1)) <;>
      cases (distinctOpts r) <;> rfl

/-- **`VoteWeighted` of the SDK, statement by statement, accepts exactly the option lists the one-piece validation accepts**:
not empty, every weight in (0, 1], no option twice, the weights add up to exactly 1 -/
theorem voteWeightedAccepts_eq (opts : List (Opt × Nat)) : voteWeightedAccepts opts = optsValid opts := by
  unfold voteWeightedAccepts
  rw [sdkVoteWeightedSteps_before]
  have dead : ∀ t u tg, voteTopStep opts ⟨t, u, true⟩ tg = ⟨t, u, true⟩ := fun _ _ _ => rfl
  have n1 : voteTopStep opts {} "voterAddr" = {} := rfl
  have n2 : voteTopStep opts {} "rejectBadAddr" = {} := rfl
  have e1 : voteTopStep opts {} "rejectEmpty" = if opts.isEmpty then ⟨0, [], true⟩ else {} := rfl
  have e2 : voteTopStep opts {} "total0" = {} := rfl
  have e3 : voteTopStep opts {} "used0" = {} := rfl
  have e4 : voteTopStep opts {} "optionLoop" = voteOptionLoop opts {} := rfl
  have g1 : ∀ t u, voteTopStep opts ⟨t, u, false⟩ "rejectTotalGT1" = if DEC < t then ⟨t, u, true⟩ else ⟨t, u, false⟩ := fun _ _ => rfl
  have g2 : ∀ t u, voteTopStep opts ⟨t, u, false⟩ "rejectTotalLT1" = if t < DEC then ⟨t, u, true⟩ else ⟨t, u, false⟩ := fun _ _ => rfl
  have n3 : ∀ t u rj, voteTopStep opts ⟨t, u, rj⟩ "sdkCtx" = ⟨t, u, rj⟩ := fun _ _ rj => by cases rj <;> rfl
  simp only [List.foldl, n1, n2, e1]
  cases he : opts.isEmpty
  · simp only [Bool.false_eq_true, if_false, e2, e3, e4]
    obtain ⟨i1, i2⟩ := loop_spec opts {} rfl
    have hf : fresh ([] : List Opt) opts = distinctOpts opts := by
      rw [fresh_eq]
      have : (opts.all fun o => !([] : List Opt).contains o.1) = true := by
        rw [List.all_eq_true]; intro x _; rfl
      rw [this, Bool.true_and]
    have hall : (opts.all fun o => decide (0 < o.2) && decide (o.2 ≤ DEC)) = (opts.all fun o => weightedOptionValid o.2) := by
      congr 1 <;> (funext o; exact (weightedOptionValid_eq o.2).symm)
    have hov : optsValid opts = ((opts.all fun o => weightedOptionValid o.2) && fresh [] opts && (sumW opts == DEC)) := by
      unfold optsValid; rw [he, hall, hf]
      try simp only [Bool.not_false, Bool.true_and]
    rw [hov]
    generalize voteOptionLoop opts {} = L at i1 i2 ⊢
    obtain ⟨t, u, rj⟩ := L
    simp only at i1 i2
    cases rj
    · have hA : ((opts.all fun o => weightedOptionValid o.2) && fresh [] opts) = true := by
        cases hx : ((opts.all fun o => weightedOptionValid o.2) && fresh [] opts) with
        | true => rfl
        | false => rw [hx] at i1; cases i1
      have ht : t = sumW opts := by have := i2 rfl; omega
      subst ht
      rw [hA, g1, Bool.true_and]
      by_cases h1 : DEC < sumW opts
      · have : (sumW opts == DEC) = false := by rw [beq_eq_false_iff_ne]; omega
        rw [if_pos h1, dead, n3, this]
        rfl
      · rw [if_neg h1, g2]
        by_cases h2 : sumW opts < DEC
        · have : (sumW opts == DEC) = false := by rw [beq_eq_false_iff_ne]; omega
          rw [if_pos h2, n3, this]
          rfl
        · have : (sumW opts == DEC) = true := by rw [beq_iff_eq]; omega
          rw [if_neg h2, n3, this]
          rfl
    · have hA : ((opts.all fun o => weightedOptionValid o.2) && fresh [] opts) = false := by
        cases hx : ((opts.all fun o => weightedOptionValid o.2) && fresh [] opts) with
        | false => rfl
        | true => rw [hx] at i1; cases i1
      rw [hA, dead, dead, n3]
      rfl
  · simp only [if_true, dead, n3]
    unfold optsValid
    rw [he]
    rfl

end FxVerif.Proofs.C15
