import FxVerif.Model.C11
/-! helper lemmas for the C11 property theorems (core Lean only) -/

/-! ### the hand-structured reading of `handlerTransferShares` (specification of the interpreter run)

`Model.C11.VS.xferCore` interprets the instruction list regenerated from the Go body.  The four functions below are the
same body read by hand as four phases (withdraw the sender / look the recipient up / rewrite the sender / rewrite
the recipient); `xferCore_eq_spec` proves that the interpreter run on the reference program computes exactly their
composition, and the property proofs then reason about the phases. -/
namespace FxVerif.Model.C11
open FxVerif.Gen.C11 (Cfg)

/-- sender side of `handlerTransferShares` ("update from delegate, delete it if shares zero"); `v` is the stale
validator object read at the start, `fsh` the stale copy of the sender's shares -/
def VS.xferFrom (c : Cfg) (v v2 : VS) (from_ fsh X : Nat) : Except Err VS :=
  -- `GetDelegatorStartingInfo` of an absent key yields the zero value, not an error
  let fsi := (v2.sinfo from_).getD ⟨0, 0, 0⟩
  if fsh < X then .error .negShares else
  if fsh - X = 0 then
    let a : VS := { v2 with del := setAt v2.del from_ none }
    match (if c.decRefOnRemoval then a.decRef fsi.period else .ok a) with
    | .error e => .error e
    | .ok b => .ok (if c.delInfoOnRemoval then { b with sinfo := setAt b.sinfo from_ none } else b)
  else
    .ok { v2 with del := setAt v2.del from_ (some (fsh - X)),
                  sinfo := setAt v2.sinfo from_ (some { fsi with stake := v.tokensFromSharesTrunc (fsh - X) }) }

/-- recipient side ("update to delegate, set starting info if to not delegate before"); `toDel0` is the stale
copy of the recipient's delegation looked up earlier -/
def VS.xferTo (c : Cfg) (v v3 : VS) (h to X : Nat) (toDel0 : Option Nat) : Except Err VS :=
  let base := if c.toLookupBeforeFromWrite then toDel0.getD 0 else (v3.del to).getD 0
  let tsh := base + X
  let v4 : VS := { v3 with del := setAt v3.del to (some tsh) }
  match toDel0 with
  | none =>
    let p := v4.period - c.newToPeriodOffset
    match (if c.incRefForNewTo then v4.incRef p else .ok v4) with
    | .error e => .error e
    | .ok v5 => .ok { v5 with sinfo := setAt v5.sinfo to (some ⟨p, v.tokensFromSharesTrunc X, h⟩) }
  | some _ =>
    let tsi := (v4.sinfo to).getD ⟨0, 0, 0⟩
    .ok { v4 with sinfo := setAt v4.sinfo to (some { tsi with stake := v.tokensFromSharesTrunc tsh }) }

/-- recipient lookup ("get to delegation"): new recipient → `IncrementValidatorPeriod(ctx, validator)` with the
stale validator object, existing recipient → its rewards are withdrawn; returns reward coins paid to `to` -/
def VS.xferLookup (c : Cfg) (v v1 : VS) (h to : Nat) : Except Err (VS × Nat) :=
  match v1.del to with
  | none =>
    if c.incPeriodForNewTo then
      match v1.incPeriod v.tokens with
      | .error e => .error e
      | .ok (v2, _) => .ok (v2, 0)
    else .ok (v1, 0)
  | some _ => if c.withdrawTo then v1.withdrawMsg h to else .ok (v1, 0)

/-- the state-changing part of `handlerTransferShares` (after the guards): withdraw the sender's rewards, look up
the recipient (the copy is kept, as in the Go code), rewrite the sender's side, rewrite the recipient's side -/
def VS.specCore (c : Cfg) (v : VS) (h from_ to fsh X : Nat) : Except Err (VS × Nat × Nat) :=
  (if c.withdrawFrom then v.withdrawMsg h from_ else .ok (v, 0)) >>= fun r1 =>
  VS.xferLookup c v r1.1 h to >>= fun r2 =>
  VS.xferFrom c v r2.1 from_ fsh X >>= fun v3 =>
  VS.xferTo c v v3 h to X (r1.1.del to) >>= fun v4 =>
  pure (v4, r1.2, r2.2)

end FxVerif.Model.C11

namespace FxVerif.Proofs.C11
open FxVerif.Model.C11
open FxVerif.Gen.C11 (Cfg)

@[simp] theorem setAt_same {α} (f : Nat → α) (k : Nat) (x : α) : setAt f k x k = x := by simp [setAt]
theorem setAt_ne {α} (f : Nat → α) {k i : Nat} (x : α) (h : i ≠ k) : setAt f k x i = f i := by simp [setAt, h]

theorem sumTo_congr {n : Nat} {f g : Nat → Nat} (h : ∀ i, i < n → f i = g i) : sumTo n f = sumTo n g := by
  induction n with
  | zero => rfl
  | succ n ih =>
    simp only [sumTo]
    rw [ih (fun i hi => h i (Nat.lt_succ_of_lt hi)), h n (Nat.lt_succ_self n)]

/-- updating one point below `n` changes the sum by exactly the difference at that point -/
theorem sumTo_update {n : Nat} (f g : Nat → Nat) (d : Nat) (hd : d < n) (h : ∀ i, i ≠ d → g i = f i) :
    sumTo n g + f d = sumTo n f + g d := by
  induction n with
  | zero => omega
  | succ n ih =>
    simp only [sumTo]
    by_cases hdn : d = n
    · subst hdn
      have : sumTo d g = sumTo d f := sumTo_congr (fun i hi => h i (Nat.ne_of_lt hi))
      omega
    · have := ih (by omega)
      have hn : g n = f n := h n (fun e => hdn e.symm)
      omega

/-- updating two distinct points below `n` -/
theorem sumTo_update2 {n : Nat} (f g : Nat → Nat) (a b : Nat) (ha : a < n) (hb : b < n) (hab : a ≠ b)
    (h : ∀ i, i ≠ a → i ≠ b → g i = f i) : sumTo n g + f a + f b = sumTo n f + g a + g b := by
  let m : Nat → Nat := fun i => if i = a then g a else f i
  have h1 : sumTo n m + f a = sumTo n f + m a := sumTo_update f m a ha (fun i hi => by simp [m, hi])
  have h2 : sumTo n g + m b = sumTo n m + g b :=
    sumTo_update m g b hb (fun i hi => by
      by_cases hia : i = a
      · simp [m, hia]
      · simp [m, hia, h i hia hi])
  have hma : m a = g a := by simp [m]
  have hmb : m b = f b := by simp [m, Ne.symm hab]
  omega

/-- the staking side of a validator record (what distribution bookkeeping never touches) -/
def SF (v v' : VS) : Prop := v'.del = v.del ∧ v'.tokens = v.tokens ∧ v'.shares = v.shares

theorem SF.refl (v : VS) : SF v v := ⟨rfl, rfl, rfl⟩
theorem SF.trans {a b c : VS} (h1 : SF a b) (h2 : SF b c) : SF a c :=
  ⟨h2.1.trans h1.1, h2.2.1.trans h1.2.1, h2.2.2.trans h1.2.2⟩

/-! ### inversion lemmas: what a successful call did -/

theorem decRef_ok {v v' : VS} {p : Nat} (h : v.decRef p = .ok v') :
    v.refs p ≠ 0 ∧ v' = { v with refs := setAt v.refs p (v.refs p - 1) } := by
  unfold VS.decRef at h
  split at h
  · cases h
  · rename_i hne; cases h; exact ⟨hne, rfl⟩

theorem incRef_ok {v v' : VS} {p : Nat} (h : v.incRef p = .ok v') :
    v.refs p ≤ 2 ∧ v' = { v with refs := setAt v.refs p (v.refs p + 1), ratio := setAt v.ratio p (v.ratioAt p) } := by
  unfold VS.incRef at h
  split at h
  · cases h
  · rename_i hne; cases h; exact ⟨by omega, rfl⟩

/-- the record `incPeriod` works on after the zero-token branch -/
def prePeriod (v : VS) (t : Nat) : VS :=
  if t = 0 then { v with dust := v.dust + v.cur, outstanding := v.outstanding - v.cur } else v

def curRatio (v : VS) (t : Nat) : Nat := if t = 0 then 0 else dQuoTrunc v.cur (t * ONE)

theorem incPeriod_ok {v v' : VS} {t e : Nat} (h : v.incPeriod t = .ok (v', e)) :
    e = v.period ∧ v.refs (v.period - 1) ≠ 0 ∧
    v' = { prePeriod v t with
            refs := setAt (setAt v.refs (v.period - 1) (v.refs (v.period - 1) - 1)) v.period 1,
            ratio := setAt v.ratio v.period (v.ratioAt (v.period - 1) + curRatio v t),
            cur := 0, period := v.period + 1 } := by
  unfold VS.incPeriod at h
  by_cases ht : t = 0
  · simp only [ht, if_true] at h
    split at h
    · cases h
    · rename_i v1 h1
      obtain ⟨hne, rfl⟩ := decRef_ok h1
      cases h
      refine ⟨rfl, hne, ?_⟩
      simp [prePeriod, curRatio, ht, VS.ratioAt]
  · simp only [ht, if_false] at h
    split at h
    · cases h
    · rename_i v1 h1
      obtain ⟨hne, rfl⟩ := decRef_ok h1
      cases h
      refine ⟨rfl, hne, ?_⟩
      simp [prePeriod, curRatio, ht]

/-- the record after the payout step of `withdrawDelegationRewards` -/
def payout (v1 : VS) (raw : Nat) : VS :=
  { v1 with outstanding := v1.outstanding - min raw v1.outstanding, paid := v1.paid + min raw v1.outstanding / ONE,
            dust := v1.dust + min raw v1.outstanding % ONE }

theorem withdrawRewards_ok {v v' : VS} {h d c : Nat} (hw : v.withdrawRewards h d = .ok (v', c)) :
    ∃ sh si v1 raw v3, v.del d = some sh ∧ v.sinfo d = some si ∧ v.incPeriod v.tokens = .ok (v1, v.period) ∧
      v1.calcRewards h d sh v.period = .ok raw ∧ (payout v1 raw).decRef si.period = .ok v3 ∧
      v' = { v3 with sinfo := setAt v3.sinfo d none } ∧ c = min raw v1.outstanding / ONE := by
  unfold VS.withdrawRewards at hw
  split at hw
  · cases hw
  · rename_i sh hsh
    split at hw
    · cases hw
    · rename_i si hsi
      split at hw
      · cases hw
      · rename_i v1 ending h1
        have he := (incPeriod_ok h1).1
        subst he
        split at hw
        · cases hw
        · rename_i raw hraw
          dsimp only at hw
          split at hw
          · cases hw
          · rename_i v3 h3
            cases hw
            exact ⟨sh, si, v1, raw, v3, hsh, hsi, h1, hraw, h3, rfl, rfl⟩

theorem initDelegation_ok {v v' : VS} {h d : Nat} (hi : v.initDelegation h d = .ok v') :
    ∃ v1 sh, v.incRef (v.period - 1) = .ok v1 ∧ v.del d = some sh ∧
      v' = { v1 with sinfo := setAt v1.sinfo d (some ⟨v.period - 1, v.tokensFromSharesTrunc sh, h⟩) } := by
  unfold VS.initDelegation at hi
  split at hi
  · cases hi
  · rename_i v1 h1
    obtain ⟨_, e1⟩ := incRef_ok h1
    split at hi
    · cases hi
    · rename_i sh hsh
      cases hi
      subst e1
      exact ⟨_, sh, h1, hsh, rfl⟩

theorem withdrawMsg_ok {v v' : VS} {h d c : Nat} (hw : v.withdrawMsg h d = .ok (v', c)) :
    ∃ v1, v.withdrawRewards h d = .ok (v1, c) ∧ v1.initDelegation h d = .ok v' := by
  unfold VS.withdrawMsg at hw
  split at hw
  · cases hw
  · rename_i v1 c1 h1
    split at hw
    · cases hw
    · rename_i v2 h2
      cases hw
      exact ⟨v1, h1, h2⟩

/-! ### staking frame -/

theorem decRef_SF {v v' : VS} {p : Nat} (h : v.decRef p = .ok v') : SF v v' := by
  obtain ⟨_, rfl⟩ := decRef_ok h; exact ⟨rfl, rfl, rfl⟩

theorem incRef_SF {v v' : VS} {p : Nat} (h : v.incRef p = .ok v') : SF v v' := by
  obtain ⟨_, rfl⟩ := incRef_ok h; exact ⟨rfl, rfl, rfl⟩

theorem incPeriod_SF {v v' : VS} {t e : Nat} (h : v.incPeriod t = .ok (v', e)) : SF v v' := by
  obtain ⟨_, _, rfl⟩ := incPeriod_ok h
  unfold prePeriod; split <;> exact ⟨rfl, rfl, rfl⟩

theorem withdrawRewards_SF {v v' : VS} {h d c : Nat} (hw : v.withdrawRewards h d = .ok (v', c)) : SF v v' := by
  obtain ⟨sh, si, v1, raw, v3, _, _, h1, _, h3, rfl, _⟩ := withdrawRewards_ok hw
  have a := incPeriod_SF h1
  have b := decRef_SF h3
  exact ⟨b.1.trans a.1, b.2.1.trans a.2.1, b.2.2.trans a.2.2⟩

theorem initDelegation_SF {v v' : VS} {h d : Nat} (hi : v.initDelegation h d = .ok v') : SF v v' := by
  obtain ⟨v1, sh, h1, _, rfl⟩ := initDelegation_ok hi
  have a := incRef_SF h1
  exact ⟨a.1, a.2.1, a.2.2⟩

theorem withdrawMsg_SF {v v' : VS} {h d c : Nat} (hw : v.withdrawMsg h d = .ok (v', c)) : SF v v' := by
  obtain ⟨v1, h1, h2⟩ := withdrawMsg_ok hw
  exact (withdrawRewards_SF h1).trans (initDelegation_SF h2)

/-! ### the transfer under the facts the property needs (`good c`) -/

theorem good_fields {c : Cfg} (h : good c = true) :
    c.selfGuard = true ∧ c.refuseRecvRedel = true ∧ c.sharesCmp = "LT" ∧ c.withdrawFrom = true ∧
    c.toLookupBeforeFromWrite = true ∧ c.withdrawTo = true ∧ c.incPeriodForNewTo = true ∧ c.decRefOnRemoval = true ∧
    c.delInfoOnRemoval = true ∧ c.incRefForNewTo = true ∧ c.newToPeriodOffset = 1 ∧ c.allowanceCheck = true ∧
    c.allowanceSubDecrease = true ∧ c.transferFromArgs = true ∧ c.sharesPositive = true ∧ c.prog = refProg ∧
    c.wrappers = wrappersRef := by
  simp only [good, Bool.and_eq_true, beq_iff_eq] at h
  obtain ⟨⟨⟨⟨⟨⟨⟨⟨⟨⟨⟨⟨⟨⟨⟨⟨⟨⟨a1, a2⟩, a3⟩, a4⟩, a5⟩, a6⟩, a7⟩, a8⟩, a9⟩, a10⟩, a11⟩, a12⟩, a13⟩, a14⟩, a15⟩, a16⟩, a17⟩, _⟩, _⟩ := h
  exact ⟨a1, a2, a3, a4, a5, a6, a7, a8, a9, a10, a11, a12, a13, a14, a15, a16, a17⟩

/-- the regenerated native actions of the two Run methods are the reference ones -/
theorem good_run {c : Cfg} (h : good c = true) : c.runTransfer = refRunTransfer ∧ c.runFrom = refRunFrom := by
  simp only [good, Bool.and_eq_true, beq_iff_eq] at h
  exact ⟨h.1.2, h.2⟩

/-- `transferShares` through the regenerated native action of `TransferShares.Run` is the handler run for the caller -/
theorem transferTx_eq {c : Cfg} (hg : good c = true) (s : State) (f t v x : Nat) :
    s.transferTx c f t v x = s.transferOp c f t v x := by
  obtain ⟨hr, -⟩ := good_run hg
  unfold State.transferTx
  rw [hr]
  simp only [refRunTransfer, State.runR, State.execR, RunEnv.who, Bool.and_self, Bool.not_true, Bool.false_eq_true, if_false,
    if_true]
  by_cases h1 : (!(s.okAcc f && s.okAcc t && s.okVal v)) = true
  · simp only [h1, if_true]; unfold State.transferOp; simp only [h1, if_true]
  · by_cases h2 : (c.sharesPositive && x == 0) = true
    · simp only [h1, h2, if_true]; unfold State.transferOp; simp only [h1, h2, if_true]
    · simp only [h1, h2]
      cases s.transferOp c f t v x <;> rfl

/-- `transferFromShares` through the regenerated native action of `TransferFromShares.Run` is: the allowance is checked
and decremented FIRST and UNCONDITIONALLY, then the handler runs for `args.From` -/
theorem transferFromTx_eq {c : Cfg} (hg : good c = true) (s : State) (sp f t v x : Nat) :
    s.transferFromTx c sp f t v x = s.transferFromRef c sp f t v x := by
  obtain ⟨-, hr⟩ := good_run hg
  unfold State.transferFromTx State.transferFromRef
  rw [hr]
  simp only [refRunFrom, State.runR, State.execR, RunEnv.who, Bool.and_self, Bool.not_true, Bool.false_eq_true, if_false,
    if_true, State.decAllowance]
  by_cases h1 : (!(s.okAcc sp && s.okAcc f && s.okAcc t && s.okVal v)) = true
  · simp only [h1, if_true]
  · by_cases h2 : (c.sharesPositive && x == 0) = true
    · simp only [h1, h2, if_true]
    · simp only [h1, h2]
      by_cases h4 : s.allow v f sp < x
      · cases hc : c.allowanceCheck <;> simp [h4]
      · simp only [h4, decide_false, Bool.and_false, Bool.false_eq_true, if_false]
        generalize State.transferOp c _ f t v x = r
        cases r <;> rfl

theorem cmpShares_LT (a b : Nat) : cmpShares "LT" a b = decide (a < b) := by
  simp [cmpShares]

/-- a transfer to oneself returns the state unchanged and pays nothing -/
theorem transfer_self {c : Cfg} (hg : good c = true) {v v' : VS} {h d x rf rt : Nat} {recv : Bool}
    (ht : VS.transfer c v h d d x recv = .ok (v', rf, rt)) : v' = v ∧ rf = 0 ∧ rt = 0 := by
  obtain ⟨g1, g2, g3, -⟩ := good_fields hg
  unfold VS.transfer at ht
  split at ht
  · cases ht
  · split at ht
    · cases ht
    · split at ht
      · cases ht
      · simp only [g1, beq_self_eq_true, Bool.and_self, if_true] at ht
        cases ht
        exact ⟨rfl, rfl, rfl⟩

theorem bind_ok {α β : Type} {x : Except Err α} {g : α → Except Err β} {b : β} (h : (x >>= g) = .ok b) :
    ∃ a, x = .ok a ∧ g a = .ok b := by
  cases x with
  | error e => cases h
  | ok a => exact ⟨a, rfl, h⟩

set_option linter.unusedSimpArgs false in
/-- the interpreter run on the reference program computes the composition of the four hand-read phases -/
theorem xferCore_eq_spec {c : Cfg} (hg : good c = true) (v : VS) (h f t fsh X : Nat) :
    VS.xferCore c v h f t fsh X = VS.specCore c v h f t fsh X := by
  obtain ⟨-, -, -, g4, g5, g6, g7, g8, g9, g10, g11, -, -, -, -, gp, -⟩ := good_fields hg
  unfold VS.xferCore VS.specCore
  rw [gp]
  simp only [g4, if_true]
  simp only [refProg, interp, execStmt, execSimple, Env.addr]
  cases h1 : v.withdrawMsg h f with
  | error e => rfl
  | ok r1 =>
    obtain ⟨v1, c1⟩ := r1
    simp only [bind, Except.bind]
    unfold VS.xferLookup
    simp only [g6, g7, if_true]
    cases hd : v1.del t with
    | none =>
      simp only [evalCond, Loc.setDel, execSimples, execSimple, evalSE]
      cases h2 : v1.incPeriod v.tokens with
      | error e => rfl
      | ok r2 =>
        obtain ⟨v2, e2⟩ := r2
        simp only [Loc.setInfo, Loc.del, Loc.info, evalSE]
        unfold VS.xferFrom
        by_cases hlt : fsh < X
        · simp [hlt]
        · simp only [hlt, if_false, Loc.setDel, evalCond, evalSE, Loc.del, g8, g9, if_true]
          by_cases hz : fsh - X = 0
          · simp only [hz, beq_self_eq_true, if_true, execSimples, execSimple, evalPE, Loc.info, Env.addr]
            cases h3 : VS.decRef { v2 with del := setAt v2.del f none } ((v2.sinfo f).getD ⟨0, 0, 0⟩).period with
            | error e => rfl
            | ok v3 =>
              simp only [evalSE, Loc.del, Loc.setDel, evalCond, Bool.not_false, execSimples, execSimple, evalPE, Loc.info,
                Loc.setInfo, Env.addr, if_true]
              unfold VS.xferTo
              simp only [g5, g10, g11, if_true, Option.getD_none, Nat.zero_add]
              cases h4 : VS.incRef { v3 with sinfo := setAt v3.sinfo f none, del := setAt v3.del t (some X) }
                  (v3.period - 1) with
              | error e => simp [h4]
              | ok v4 => simp [h4, pure, Except.pure]
          · have hz' : (fsh - X == 0) = false := by simp [hz]
            simp only [hz, hz', if_false, execSimples, execSimple, evalSE, Loc.del, Loc.info, Loc.setInfo, Env.addr,
              Loc.setDel, evalCond, Bool.not_false, evalPE, Bool.false_eq_true]
            unfold VS.xferTo
            simp only [g5, g10, g11, if_true, Option.getD_none, Nat.zero_add]
            cases h4 : VS.incRef
                { v2 with del := setAt (setAt v2.del f (some (fsh - X))) t (some X),
                          sinfo := setAt v2.sinfo f (some { (v2.sinfo f).getD ⟨0, 0, 0⟩ with stake := v.tokensFromSharesTrunc (fsh - X) }) }
                (v2.period - 1) with
            | error e => simp [h4]
            | ok v4 => simp [h4, pure, Except.pure]
    | some tsh =>
      simp only [evalCond, Loc.setDel, execSimples, execSimple, evalSE, Env.addr]
      cases h2 : v1.withdrawMsg h t with
      | error e => rfl
      | ok r2 =>
        obtain ⟨v2, c2⟩ := r2
        simp only [Loc.setInfo, Loc.del, Loc.info, evalSE]
        unfold VS.xferFrom
        by_cases hlt : fsh < X
        · simp [hlt]
        · simp only [hlt, if_false, Loc.setDel, evalCond, evalSE, Loc.del, g8, g9, if_true]
          by_cases hz : fsh - X = 0
          · simp only [hz, beq_self_eq_true, if_true, execSimples, execSimple, evalPE, Loc.info, Env.addr]
            cases h3 : VS.decRef { v2 with del := setAt v2.del f none } ((v2.sinfo f).getD ⟨0, 0, 0⟩).period with
            | error e => rfl
            | ok v3 =>
              simp only [evalSE, Loc.del, Loc.setDel, evalCond, Bool.not_true, execSimples, execSimple, evalPE, Loc.info,
                Loc.setInfo, Env.addr, if_true, Bool.false_eq_true, if_false]
              unfold VS.xferTo
              simp [g5, pure, Except.pure]
          · have hz' : (fsh - X == 0) = false := by simp [hz]
            simp only [hz, hz', if_false, execSimples, execSimple, evalSE, Loc.del, Loc.info, Loc.setInfo, Env.addr,
              Loc.setDel, evalCond, Bool.not_true, evalPE, Bool.false_eq_true]
            unfold VS.xferTo
            simp [g5, pure, Except.pure]

theorem xferCore_ok {c : Cfg} (hg : good c = true) {v v' : VS} {h f t fsh X rf rt : Nat}
    (ht : VS.xferCore c v h f t fsh X = .ok (v', rf, rt)) :
    ∃ v1 v2 v3, v.withdrawMsg h f = .ok (v1, rf) ∧
      VS.xferLookup c v v1 h t = .ok (v2, rt) ∧ VS.xferFrom c v v2 f fsh X = .ok v3 ∧
      VS.xferTo c v v3 h t X (v1.del t) = .ok v' := by
  obtain ⟨-, -, -, g4, -⟩ := good_fields hg
  rw [xferCore_eq_spec hg] at ht
  unfold VS.specCore at ht
  rw [g4, if_pos rfl] at ht
  obtain ⟨r1, h1, ht⟩ := bind_ok ht
  obtain ⟨r2, h2, ht⟩ := bind_ok ht
  obtain ⟨v3, h3, ht⟩ := bind_ok ht
  obtain ⟨v4, h4, ht⟩ := bind_ok ht
  obtain ⟨v1, rf'⟩ := r1
  obtain ⟨v2, rt'⟩ := r2
  cases ht
  exact ⟨v1, v2, v3, h1, h2, h3, h4⟩

theorem transfer_ok {c : Cfg} (hg : good c = true) {v v' : VS} {h f t X rf rt : Nat} {recv : Bool} (hne : f ≠ t)
    (ht : VS.transfer c v h f t X recv = .ok (v', rf, rt)) :
    ∃ fsh v1 v2 v3, v.del f = some fsh ∧ recv = false ∧ X ≤ fsh ∧ v.withdrawMsg h f = .ok (v1, rf) ∧
      VS.xferLookup c v v1 h t = .ok (v2, rt) ∧ VS.xferFrom c v v2 f fsh X = .ok v3 ∧
      VS.xferTo c v v3 h t X (v1.del t) = .ok v' := by
  obtain ⟨g1, g2, g3, g4, -⟩ := good_fields hg
  unfold VS.transfer at ht
  cases hf : v.del f with
  | none => rw [hf] at ht; cases ht
  | some fsh =>
    rw [hf] at ht
    have hft : (f == t) = false := by simp [hne]
    simp only [g2, g3, g1, hft, Bool.true_and, Bool.and_false, Bool.false_eq_true, cmpShares_LT,
      decide_eq_true_eq, if_false] at ht
    by_cases hrecv : recv = true
    · rw [if_pos hrecv] at ht; cases ht
    · rw [if_neg hrecv] at ht
      by_cases hlt : fsh < X
      · rw [if_pos hlt] at ht; cases ht
      · rw [if_neg hlt] at ht
        obtain ⟨v1, v2, v3, h1, h2, h3, h4⟩ := xferCore_ok hg ht
        refine ⟨fsh, v1, v2, v3, rfl, ?_, Nat.le_of_not_lt hlt, h1, h2, h3, h4⟩
        cases recv
        · rfl
        · exact absurd rfl hrecv

theorem xferLookup_SF {c : Cfg} {v v1 v2 : VS} {h t rt : Nat} (hl : VS.xferLookup c v v1 h t = .ok (v2, rt)) : SF v1 v2 := by
  unfold VS.xferLookup at hl
  split at hl
  · split at hl
    · split at hl
      · cases hl
      · rename_i v2' e h1
        cases hl
        exact incPeriod_SF h1
    · cases hl; exact SF.refl _
  · split at hl
    · exact withdrawMsg_SF hl
    · cases hl; exact SF.refl _

theorem xferFrom_ok {c : Cfg} {v v2 v3 : VS} {f fsh X : Nat} (hx : VS.xferFrom c v v2 f fsh X = .ok v3) :
    X ≤ fsh ∧ v3.tokens = v2.tokens ∧ v3.shares = v2.shares ∧
    v3.del = setAt v2.del f (if fsh - X = 0 then none else some (fsh - X)) := by
  unfold VS.xferFrom at hx
  dsimp only at hx
  split at hx
  · cases hx
  · rename_i hle
    split at hx
    · rename_i hz
      split at hx
      · cases hx
      · rename_i b hb
        refine ⟨by omega, ?_⟩
        split at hb
        · obtain ⟨_, rfl⟩ := decRef_ok hb
          cases hx
          split <;> simp
        · cases hb
          cases hx
          split <;> simp
    · rename_i hz
      cases hx
      exact ⟨by omega, rfl, rfl, by simp [hz]⟩

theorem xferTo_ok {c : Cfg} (hg : good c = true) {v v3 v4 : VS} {h t X : Nat} {o : Option Nat}
    (hx : VS.xferTo c v v3 h t X o = .ok v4) :
    v4.tokens = v3.tokens ∧ v4.shares = v3.shares ∧ v4.del = setAt v3.del t (some (o.getD 0 + X)) := by
  obtain ⟨-, -, -, -, g5, -⟩ := good_fields hg
  unfold VS.xferTo at hx
  simp only [g5, if_true] at hx
  split at hx
  · split at hx
    · cases hx
    · rename_i v5 h5
      split at h5
      · obtain ⟨_, rfl⟩ := incRef_ok h5
        cases hx
        exact ⟨rfl, rfl, rfl⟩
      · cases h5
        cases hx
        exact ⟨rfl, rfl, rfl⟩
  · cases hx
    exact ⟨rfl, rfl, rfl⟩

/-! ### Σ delegations = validator shares -/

def SumInv (n : Nat) (v : VS) : Prop := v.delSum n = v.shares ∧ ∀ d, n ≤ d → v.del d = none

theorem SumInv_of_SF {n : Nat} {v v' : VS} (h : SF v v') (hi : SumInv n v) : SumInv n v' := by
  obtain ⟨hd, _, hs⟩ := h
  unfold SumInv VS.delSum at *
  rw [hd, hs]; exact hi

/-- rewriting one delegation below `n` -/
theorem delSum_set {n : Nat} {v : VS} {d : Nat} (hd : d < n) (o : Option Nat) (del' : Nat → Option Nat)
    (hdel : del' = setAt v.del d o) :
    sumTo n (fun i => (del' i).getD 0) + (v.del d).getD 0 = v.delSum n + o.getD 0 := by
  subst hdel
  have := sumTo_update (fun i => (v.del i).getD 0) (fun i => (setAt v.del d o i).getD 0) d hd
    (fun i hi => by simp [setAt, hi])
  simpa [VS.delSum] using this

theorem delegatePre_SF {v v1 : VS} {h d c : Nat} (hp : v.delegatePre h d = .ok (v1, c)) : SF v v1 := by
  unfold VS.delegatePre at hp
  split at hp
  · exact withdrawRewards_SF hp
  · split at hp
    · cases hp
    · rename_i v1' e hq
      cases hp
      exact incPeriod_SF hq

/-- rewriting one delegation below `n` keeps "nothing outside the accounts" -/
theorem outside_set {n : Nat} {v : VS} {d : Nat} (hd : d < n) (o : Option Nat) (hi : ∀ e, n ≤ e → v.del e = none) :
    ∀ e, n ≤ e → setAt v.del d o e = none := by
  intro e he
  have : e ≠ d := by omega
  simp only [setAt, this, if_false]
  exact hi e he

theorem delegate_SumInv {n : Nat} {v v' : VS} {h d amt c : Nat} (hd : d < n)
    (hx : v.delegate h d amt = .ok (v', c)) (hi : SumInv n v) : SumInv n v' := by
  unfold VS.delegate at hx
  split at hx
  · cases hx
  · obtain ⟨r, hpre, hx⟩ := bind_ok hx
    obtain ⟨v3, h3, hx⟩ := bind_ok hx
    obtain ⟨v1, c1⟩ := r
    cases hx
    have hi1 := SumInv_of_SF (delegatePre_SF hpre) hi
    refine SumInv_of_SF (initDelegation_SF h3) ?_
    unfold VS.issue
    dsimp only
    generalize (if v1.shares = 0 then amt * ONE else v1.sharesFromTokens amt) = issued
    constructor
    · have := delSum_set (v := v1) hd (some ((v1.del d).getD 0 + issued)) _ rfl
      simp only [VS.delSum, Option.getD_some] at this ⊢
      have h1 := hi1.1
      simp only [VS.delSum] at h1
      omega
    · exact outside_set hd _ hi1.2

theorem unbond_SumInv {n : Nat} {v v' : VS} {h d sh ret c : Nat} (hd : d < n)
    (hx : v.unbond h d sh = .ok (v', ret, c)) (hi : SumInv n v) : SumInv n v' := by
  unfold VS.unbond at hx
  cases hdel : v.del d with
  | none => rw [hdel] at hx; cases hx
  | some cur =>
    rw [hdel] at hx
    dsimp only at hx
    obtain ⟨r, hw, hx⟩ := bind_ok hx
    obtain ⟨v1, c1⟩ := r
    dsimp only at hx
    have hsf1 := withdrawRewards_SF hw
    have hi1 := SumInv_of_SF hsf1 hi
    have hdel1 : v1.del d = some cur := by rw [hsf1.1]; exact hdel
    by_cases hlt : cur < sh
    · rw [if_pos hlt] at hx; cases hx
    · rw [if_neg hlt] at hx
      obtain ⟨v2, hpost, hx⟩ := bind_ok hx
      obtain ⟨q, hq, hx⟩ := bind_ok hx
      cases hx
      -- the record after the delegation rewrite
      have hsf2 : SF (v1.setShares d (cur - sh)) v2 := by
        unfold VS.unbondPost at hpost
        split at hpost
        · cases hpost; exact SF.refl _
        · exact initDelegation_SF hpost
      have hset : (v1.setShares d (cur - sh)).delSum n + sh = v1.shares ∧
          ∀ e, n ≤ e → (v1.setShares d (cur - sh)).del e = none := by
        unfold VS.setShares
        dsimp only
        constructor
        · have := delSum_set (v := v1) hd (if cur - sh = 0 then none else some (cur - sh)) _ rfl
          have h1 := hi1.1
          simp only [VS.delSum, hdel1, Option.getD_some] at this h1 ⊢
          by_cases hz : cur - sh = 0
          · simp only [hz, if_true, Option.getD_none] at this ⊢; omega
          · simp only [hz, if_false, Option.getD_some] at this ⊢; omega
        · exact outside_set hd _ hi1.2
      have hk : v2.delSum n + sh = v1.shares ∧ ∀ e, n ≤ e → v2.del e = none := by
        obtain ⟨hd2, _, _⟩ := hsf2
        unfold VS.delSum at hset ⊢
        rw [hd2]; exact hset
      have hs2 : v2.shares = v1.shares := hsf2.2.2
      unfold VS.removeTokens at hq
      dsimp only at hq
      generalize (if v2.shares - sh = 0 then v2.tokens else v2.tokensFromShares sh / ONE) = issued at hq
      by_cases hneg : v2.tokens < issued
      · rw [if_pos hneg] at hq; cases hq
      · rw [if_neg hneg] at hq
        cases hq
        constructor
        · simp only [VS.delSum] at hk ⊢
          omega
        · exact hk.2


theorem transfer_del {c : Cfg} (hg : good c = true) {v v' : VS} {h f t X rf rt : Nat} {recv : Bool} (hne : f ≠ t)
    (ht : VS.transfer c v h f t X recv = .ok (v', rf, rt)) :
    ∃ fsh, v.del f = some fsh ∧ recv = false ∧ X ≤ fsh ∧ v'.tokens = v.tokens ∧ v'.shares = v.shares ∧
      v'.del = setAt (setAt v.del f (if fsh - X = 0 then none else some (fsh - X))) t
                 (some ((v.del t).getD 0 + X)) := by
  obtain ⟨fsh, v1, v2, v3, hf, hr, hle, h1, h2, h3, h4⟩ := transfer_ok hg hne ht
  have s1 := withdrawMsg_SF h1
  have s2 := xferLookup_SF h2
  obtain ⟨_, t3, sh3, d3⟩ := xferFrom_ok h3
  obtain ⟨t4, sh4, d4⟩ := xferTo_ok hg h4
  refine ⟨fsh, hf, hr, hle, ?_, ?_, ?_⟩
  · rw [t4, t3, s2.2.1, s1.2.1]
  · rw [sh4, sh3, s2.2.2, s1.2.2]
  · rw [d4, d3, s2.1, s1.1]

theorem transfer_SumInv {c : Cfg} (hg : good c = true) {n : Nat} {v v' : VS} {h f t X rf rt : Nat} {recv : Bool}
    (hf : f < n) (htn : t < n) (ht : VS.transfer c v h f t X recv = .ok (v', rf, rt)) (hi : SumInv n v) :
    SumInv n v' := by
  by_cases hne : f = t
  · subst hne
    rw [(transfer_self hg ht).1]; exact hi
  · obtain ⟨fsh, hdf, _, hle, _, hsh, hdel⟩ := transfer_del hg hne ht
    constructor
    · have := sumTo_update2 (fun i => (v.del i).getD 0) (fun i => (v'.del i).getD 0) f t hf htn hne
        (fun i h1 h2 => by rw [hdel]; simp [setAt, h1, h2])
      have e1 : (v'.del f).getD 0 = fsh - X := by
        rw [hdel]
        simp only [setAt, hne, if_false, if_true]
        split <;> simp <;> omega
      have e2 : (v'.del t).getD 0 = (v.del t).getD 0 + X := by
        rw [hdel]; simp [setAt]
      have h1 := hi.1
      simp only [VS.delSum, hdf, Option.getD_some] at this h1 ⊢
      rw [hsh]
      omega
    · intro e he
      rw [hdel]
      have a : e ≠ f := by omega
      have b : e ≠ t := by omega
      simp only [setAt, a, b, if_false]
      exact hi.2 e he

theorem alloc_SF (v : VS) (amt : Nat) : SF v (v.alloc amt) := by
  unfold VS.alloc
  generalize amt * ONE = t
  dsimp only
  generalize dMul t v.rate = com
  exact ⟨rfl, rfl, rfl⟩

theorem slashHook_SF (v : VS) (h eff : Nat) : SF v (v.slashHook h eff) := by
  unfold VS.slashHook
  split
  · exact SF.refl _
  · rename_i v1 np hq
    have a := incPeriod_SF hq
    split
    · rename_i v2 hr
      have b := incRef_SF hr
      exact ⟨b.1.trans a.1, b.2.1.trans a.2.1, b.2.2.trans a.2.2⟩
    · exact ⟨a.1, a.2.1, a.2.2⟩

theorem slash_SumInv {n : Nat} (v : VS) (h p f : Nat) (hi : SumInv n v) : SumInv n (v.slash h p f) := by
  unfold VS.slash
  dsimp only
  split
  · exact hi
  · generalize (min ONE _) = eff
    obtain ⟨hd, _, hs⟩ := slashHook_SF v h eff
    unfold SumInv VS.delSum at *
    dsimp only
    rw [hd, hs]; exact hi

end FxVerif.Proofs.C11
