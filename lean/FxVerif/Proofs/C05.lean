import FxVerif.Model.C05
/-!
Helper lemmas for C05 / C06: permutation facts of the pool / batch / bridge-call containers, the partition invariant and
its preservation by every operation.
-/
namespace FxVerif.Proofs.C05
open FxVerif.Gen.C05 FxVerif.Model.C05 List

/-! ## the shapes of the source the model is parametrised by, as they are now -/

/-- a refunded outgoing bridge call pays the record's refund address (regenerated: `callRefundReceiver`) -/
@[simp] theorem callRefundTo_eq (c : Call) : callRefundTo c = c.refund := by
  have : callRefundReceiver = .refund := by decide
  simp [callRefundTo, this]

/-- applying a bridge-call result: success deletes the record and logs the execution, failure refunds and THEN deletes it
(regenerated statement lists `resultSuccessBody`, `resultFailureBody`, `deleteRecordBody`, run in source order) -/
theorem doExec_eq (s : State) (n : Nat) : doExec s n = doExecStd s n := by
  have h1 : resultFailureBody = ["HandleOutgoingBridgeCallRefund", "DeleteOutgoingBridgeCallRecord"] := by decide
  have h2 : resultSuccessBody = ["DeleteOutgoingBridgeCallRecord"] := by decide
  have h3 : deleteRecordBody = ["DeleteOutgoingBridgeCall", "DeleteBridgeCallConfirm", "DeleteBridgeCallFromMsg"] := by decide
  have h4 : deleteRecordDropsFromMsg = true := by decide
  unfold doExec doExecStd
  split
  · rfl
  · split
    · rfl
    · rename_i p _ _ c _
      cases hp : p.2.2 <;> simp [h1, h2, h3, h4, callStmts, callStmt, callPrim, dropFromMsg, refundCall]

/-- the flag form of `doExec` (per outcome: refunded? deleted?) the older proofs were written against -/
def doExecFlags (s : State) (n : Nat) : State × Res :=
  match s.pending.find? (fun p => p.1 = n) with
  | none => (s, .err)
  | some p =>
    match s.calls.find? (fun c => c.nonce = p.2.1) with
    | none => (s, .panic)
    | some c =>
      let refunds := if p.2.2 then resultRefundsOnSuccess else resultRefundsOnFailure
      let deletes := if p.2.2 then resultDeletesOnSuccess else resultDeletesOnFailure
      let s1 := { s with pending := s.pending.erase p, calls := if deletes then s.calls.erase c else s.calls }
      let fin := fun (st : State) => if deletes then dropFromMsg [c.nonce] st else st
      if refunds then (fin (refundCall s1 c), .ok 0)
      else if p.2.2 then (fin { s1 with settled := s1.settled ++ [⟨true, c.nonce, .executed, 0, c.tokens⟩] }, .ok 0)
      else (fin s1, .ok 0)

theorem doExecFlags_eq (s : State) (n : Nat) : doExecFlags s n = doExecStd s n := by
  have h1 : resultRefundsOnFailure = true := by decide
  have h2 : resultRefundsOnSuccess = false := by decide
  have h3 : resultDeletesOnFailure = true := by decide
  have h4 : resultDeletesOnSuccess = true := by decide
  unfold doExecFlags doExecStd
  cases s.pending.find? (fun p => p.1 = n) with
  | none => rfl
  | some p =>
    simp only
    cases s.calls.find? (fun c => c.nonce = p.2.1) with
    | none => rfl
    | some c => cases hp : p.2.2 <;> simp [h1, h2, h3, h4]

theorem doExec_flags (s : State) (n : Nat) : doExec s n = doExecFlags s n := by rw [doExec_eq, doExecFlags_eq]

/-! ## containers -/

theorem insertDesc_perm (x : Tx) (l : List Tx) : (insertDesc x l).Perm (x :: l) := by
  induction l with
  | nil => simp [insertDesc]
  | cons y ys ih =>
    unfold insertDesc
    split
    · exact Perm.refl _
    · exact (Perm.cons y ih).trans (Perm.swap x y ys)

theorem insertAll_perm (xs l : List Tx) : (insertAll xs l).Perm (xs ++ l) := by
  induction xs generalizing l with
  | nil => simp [insertAll]
  | cons x xs ih =>
    have h1 : insertAll (x :: xs) l = insertAll xs (insertDesc x l) := by simp [insertAll]
    rw [h1]
    refine (ih (insertDesc x l)).trans ?_
    refine (Perm.append_left xs (insertDesc_perm x l)).trans ?_
    simpa using (perm_middle (a := x) (l₁ := xs) (l₂ := l))

theorem pick_perm (t : Token) (base : Nat) (n : Nat) (l : List Tx) :
    ((pick t base n l).1 ++ (pick t base n l).2).Perm l := by
  induction l generalizing n with
  | nil => simp [pick]
  | cons x xs ih =>
    cases n with
    | zero => simp [pick]
    | succ n =>
      unfold pick
      split
      · split
        · simp
        · simpa using Perm.cons x (ih n)
      · simpa using (perm_middle (a := x)).trans (Perm.cons x (ih (n + 1)))

theorem pick_fst_token (t : Token) (base : Nat) (n : Nat) (l : List Tx) :
    ∀ x ∈ (pick t base n l).1, x.token = t := by
  induction l generalizing n with
  | nil => simp [pick]
  | cons y ys ih =>
    cases n with
    | zero => simp [pick]
    | succ n =>
      unfold pick
      split
      · split
        · simp
        · intro x hx
          simp only [mem_cons] at hx
          rcases hx with rfl | hx
          · assumption
          · exact ih n x hx
      · exact ih (n + 1)

theorem filter_flatMap_perm (p : Batch → Bool) (bs : List Batch) :
    ((bs.filter p).flatMap (·.txs) ++ (bs.filter (fun b => !p b)).flatMap (·.txs)).Perm (bs.flatMap (·.txs)) := by
  rw [← flatMap_append]
  exact Perm.flatMap_right _ (filter_append_perm p bs)

/-! ## id views -/

def poolIds (s : State) : List Nat := s.pool.map (·.id)
def batchTxs (s : State) : List Tx := s.batches.flatMap (·.txs)
def batchIds (s : State) : List Nat := (batchTxs s).map (·.id)
def settledTxIds (st : List Settle) : List Nat := (st.filter (fun x => !x.isCall)).map (·.id)
def settledCallIds (st : List Settle) : List Nat := (st.filter (fun x => x.isCall)).map (·.id)
/-- where every transfer id is: pool, a batch, or the settlement log -/
def allTxIds (s : State) : List Nat := poolIds s ++ batchIds s ++ settledTxIds s.settled
def callIds (s : State) : List Nat := s.calls.map (·.nonce)
def allCallIds (s : State) : List Nat := callIds s ++ settledCallIds s.settled

/-- the partition invariant: the ids in pool ⊎ batches ⊎ settled log are exactly `1 .. nextTxId-1`, each once; same for
bridge calls -/
structure Inv (s : State) : Prop where
  tx : (allTxIds s).Perm (range' 1 (s.nextTxId - 1))
  call : (allCallIds s).Perm (range' 1 (s.nextCallId - 1))
  txPos : 1 ≤ s.nextTxId
  callPos : 1 ≤ s.nextCallId

theorem settledTxIds_append (a b : List Settle) : settledTxIds (a ++ b) = settledTxIds a ++ settledTxIds b := by
  simp [settledTxIds]

theorem settledCallIds_append (a b : List Settle) : settledCallIds (a ++ b) = settledCallIds a ++ settledCallIds b := by
  simp [settledCallIds]

theorem settledTxIds_exec (txs : List Tx) :
    settledTxIds (txs.map (fun tx => (⟨false, tx.id, .executed, 0, [(tx.token, tx.amount + tx.fee)]⟩ : Settle)))
      = txs.map (·.id) := by
  induction txs with
  | nil => rfl
  | cons x xs ih => simp_all [settledTxIds]

theorem settledCallIds_exec (txs : List Tx) :
    settledCallIds (txs.map (fun tx => (⟨false, tx.id, .executed, 0, [(tx.token, tx.amount + tx.fee)]⟩ : Settle))) = [] := by
  induction txs with
  | nil => rfl
  | cons x xs ih => simp_all [settledCallIds]

theorem range'_succ_count (n a : Nat) (h : 1 ≤ n) :
    count a (range' 1 (n + 1 - 1)) = count a (range' 1 (n - 1)) + count a [n] := by
  have : n + 1 - 1 = (n - 1) + 1 := by omega
  rw [this, range'_concat]
  simp only [count_append]
  have : 1 + 1 * (n - 1) = n := by omega
  rw [this]

/-! ## clean-ups -/

theorem cancelBatches_ids (p : Batch → Bool) (s : State) (a : Nat) :
    count a (poolIds (cancelBatches p s)) + count a (batchIds (cancelBatches p s))
      = count a (poolIds s) + count a (batchIds s) := by
  have h1 := ((insertAll_perm ((s.batches.filter p).flatMap (·.txs)) s.pool).map (·.id)).count_eq a
  have h2 := ((filter_flatMap_perm p s.batches).map (·.id)).count_eq a
  simp only [map_append, count_append] at h1 h2
  simp only [poolIds, batchIds, batchTxs, cancelBatches]
  omega

theorem cancelBatches_frame (p : Batch → Bool) (s : State) :
    (cancelBatches p s).settled = s.settled ∧ (cancelBatches p s).calls = s.calls ∧
    (cancelBatches p s).nextTxId = s.nextTxId ∧ (cancelBatches p s).nextCallId = s.nextCallId ∧
    (cancelBatches p s).bal = s.bal ∧ (cancelBatches p s).pending = s.pending := by
  simp [cancelBatches]

/-! ## the sequential clean-up (`cleanupCalls`: regenerated callback body, run record after record) against the closed form -/

/-- everything except the two origin-dependent components -/
def core (s : State) : State := { s with erc := [], fromMsg := [] }

theorem eq_of_core {a b : State} (h : core a = core b) : a = { b with fromMsg := a.fromMsg, erc := a.erc } := by
  cases a; cases b; simp_all [core]


theorem core_refundCall_congr {a b : State} (h : core a = core b) (c : Call) : core (refundCall a c) = core (refundCall b c) := by
  cases a; cases b; simp_all [core, refundCall]

theorem core_foldl_refundCall_congr (l : List Call) : ∀ {a b : State}, core a = core b →
    core (l.foldl refundCall a) = core (l.foldl refundCall b) := by
  induction l with
  | nil => intro a b h; exact h
  | cons c l ih => intro a b h; exact ih (core_refundCall_congr h c)

theorem callStmts_cleanup (c : Call) (s : State) :
    callStmts c callCleanupBody s =
      { refundCall s c with calls := s.calls.erase c, fromMsg := s.fromMsg.filter (fun n => !([c.nonce].contains n)) } := by
  have h1 : callCleanupBody = ["HandleOutgoingBridgeCallRefund", "DeleteOutgoingBridgeCallRecord"] := by decide
  have h2 : deleteRecordBody = ["DeleteOutgoingBridgeCall", "DeleteBridgeCallConfirm", "DeleteBridgeCallFromMsg"] := by decide
  simp [callStmts, callStmt, callPrim, h1, h2, refundCall]

theorem seq_cleanup_core (pre rest : List Call) : ∀ (s : State), s.calls = pre ++ rest →
    core (pre.foldl (fun s c => callStmts c callCleanupBody s) s) = core (pre.foldl refundCall { s with calls := rest }) := by
  induction pre with
  | nil => intro s h; simp only [foldl_nil, nil_append] at h ⊢; rw [← h]
  | cons c pre ih =>
    intro s h
    simp only [foldl_cons]
    rw [callStmts_cleanup]
    rw [ih _ (by simp [h])]
    apply core_foldl_refundCall_congr
    simp [core, refundCall]

/-- `cleanupCalls` is `cleanupCallsCore` up to the from-message marks and the ERC-20 part of the ledger -/
theorem cleanupCalls_core (s : State) : ∃ fm er, cleanupCalls s = { cleanupCallsCore s with fromMsg := fm, erc := er } := by
  have h1 : callCleanupStops = true := by decide
  have h2 : callCleanupDeletes = true := by decide
  refine ⟨_, _, eq_of_core ?_⟩
  unfold cleanupCalls cleanupCallsCore
  simp only [h2, if_true]
  have hs : s.calls = expiredCalls (heightOf callCleanupSrc s) s.calls ++ keptCalls (heightOf callCleanupSrc s) s.calls := by
    simp [expiredCalls, keptCalls, h1]
  exact seq_cleanup_core _ _ s hs

/-- the from-message marks after the sequential clean-up: exactly the marks of the refunded records are gone -/
theorem cleanupCalls_fromMsg (s : State) :
    (cleanupCalls s).fromMsg =
      s.fromMsg.filter (fun n => !(((expiredCalls (heightOf callCleanupSrc s) s.calls).map (·.nonce)).contains n)) := by
  unfold cleanupCalls
  generalize expiredCalls (heightOf callCleanupSrc s) s.calls = l
  induction l generalizing s with
  | nil => simp only [foldl_nil, map_nil]; exact (filter_eq_self.mpr (fun _ _ => by simp)).symm
  | cons c l ih =>
    simp only [foldl_cons]
    rw [ih, callStmts_cleanup]
    simp only [filter_filter, map_cons]
    congr 1
    funext n
    simp [Bool.and_comm]

theorem foldl_refundCall (cs : List Call) (s : State) :
    ((cs.foldl refundCall s).pool = s.pool ∧ (cs.foldl refundCall s).batches = s.batches ∧
     (cs.foldl refundCall s).calls = s.calls ∧ (cs.foldl refundCall s).nextTxId = s.nextTxId ∧
     (cs.foldl refundCall s).nextCallId = s.nextCallId ∧ (cs.foldl refundCall s).pending = s.pending ∧
     (cs.foldl refundCall s).settled
        = s.settled ++ cs.map (fun c => (⟨true, c.nonce, .refunded, c.refund, c.tokens⟩ : Settle))) := by
  induction cs generalizing s with
  | nil => simp
  | cons c cs ih =>
    simp only [foldl_cons]
    obtain ⟨h1, h2, h3, h4, h5, h6, h7⟩ := ih (refundCall s c)
    refine ⟨by rw [h1]; rfl, by rw [h2]; rfl, by rw [h3]; rfl, by rw [h4]; rfl, by rw [h5]; rfl, by rw [h6]; rfl, ?_⟩
    rw [h7]
    simp [refundCall]

theorem settledTxIds_refunds (cs : List Call) :
    settledTxIds (cs.map (fun c => (⟨true, c.nonce, .refunded, c.refund, c.tokens⟩ : Settle))) = [] := by
  induction cs with
  | nil => rfl
  | cons x xs ih => simp_all [settledTxIds]

theorem settledCallIds_refunds (cs : List Call) :
    settledCallIds (cs.map (fun c => (⟨true, c.nonce, .refunded, c.refund, c.tokens⟩ : Settle))) = cs.map (·.nonce) := by
  induction cs with
  | nil => rfl
  | cons x xs ih => simp_all [settledCallIds]

theorem expired_kept_perm (h : Nat) (cs : List Call) : (expiredCalls h cs ++ keptCalls h cs).Perm cs := by
  unfold expiredCalls keptCalls
  split
  · rw [takeWhile_append_dropWhile]
  · have := filter_append_perm (fun c => !callStops h c) cs
    simpa using this

theorem cleanupCalls_tx (s : State) : allTxIds (cleanupCalls s) = allTxIds s := by
  obtain ⟨fm, er, hfm⟩ := cleanupCalls_core s
  rw [hfm]
  unfold cleanupCallsCore
  obtain ⟨h1, h2, _, _, _, _, h7⟩ := foldl_refundCall (expiredCalls (heightOf callCleanupSrc s) s.calls)
    { s with calls := if callCleanupDeletes then keptCalls (heightOf callCleanupSrc s) s.calls else s.calls }
  simp only [allTxIds, poolIds, batchIds, batchTxs, h1, h2, h7, settledTxIds_append, settledTxIds_refunds, append_nil]

theorem cleanupCalls_call (s : State) (a : Nat) :
    count a (allCallIds (cleanupCalls s)) = count a (allCallIds s) := by
  have hdel : callCleanupDeletes = true := by decide
  obtain ⟨fm, er, hfm⟩ := cleanupCalls_core s
  rw [hfm]
  unfold cleanupCallsCore
  simp only [hdel, if_true]
  obtain ⟨_, _, h3, _, _, _, h7⟩ := foldl_refundCall (expiredCalls (heightOf callCleanupSrc s) s.calls)
    { s with calls := keptCalls (heightOf callCleanupSrc s) s.calls }
  have hp := ((expired_kept_perm (heightOf callCleanupSrc s) s.calls).map (·.nonce)).count_eq a
  simp only [map_append, count_append] at hp
  simp only [allCallIds, callIds, h3, h7, settledCallIds_append, settledCallIds_refunds, count_append]
  omega

theorem cleanupCalls_next (s : State) :
    (cleanupCalls s).nextTxId = s.nextTxId ∧ (cleanupCalls s).nextCallId = s.nextCallId := by
  obtain ⟨fm, er, hfm⟩ := cleanupCalls_core s
  rw [hfm]
  unfold cleanupCallsCore
  obtain ⟨_, _, _, h4, h5, _, _⟩ := foldl_refundCall (expiredCalls (heightOf callCleanupSrc s) s.calls)
    { s with calls := if callCleanupDeletes then keptCalls (heightOf callCleanupSrc s) s.calls else s.calls }
  exact ⟨h4, h5⟩

/-! ## invariant preservation -/

theorem inv_of_counts {s s' : State} (hi : Inv s)
    (htx : ∀ a, count a (allTxIds s') = count a (allTxIds s)) (hcall : ∀ a, count a (allCallIds s') = count a (allCallIds s))
    (hn : s'.nextTxId = s.nextTxId) (hc : s'.nextCallId = s.nextCallId) : Inv s' := by
  refine ⟨?_, ?_, by rw [hn]; exact hi.txPos, by rw [hc]; exact hi.callPos⟩
  · rw [hn]; exact (perm_iff_count.mpr htx).trans hi.tx
  · rw [hc]; exact (perm_iff_count.mpr hcall).trans hi.call

theorem inv_dropFromMsg (ns : List Nat) {s : State} (hi : Inv s) : Inv (dropFromMsg ns s) :=
  ⟨hi.tx, hi.call, hi.txPos, hi.callPos⟩

theorem inv_cancelBatches (p : Batch → Bool) {s : State} (hi : Inv s) : Inv (cancelBatches p s) := by
  obtain ⟨h1, h2, h3, h4, _, _⟩ := cancelBatches_frame p s
  refine inv_of_counts hi (fun a => ?_) (fun a => ?_) h3 h4
  · have := cancelBatches_ids p s a
    simp only [allTxIds, count_append, h1]; omega
  · simp only [allCallIds, callIds, h1, h2]

theorem inv_cleanupCalls {s : State} (hi : Inv s) : Inv (cleanupCalls s) :=
  inv_of_counts hi (fun a => by rw [cleanupCalls_tx]) (cleanupCalls_call s) (cleanupCalls_next s).1 (cleanupCalls_next s).2

theorem inv_send {s : State} (hi : Inv s) (a : Addr) (d : String) (t : Token) (am f : Nat) : Inv (doSend s a d t am f).1 := by
  unfold doSend
  split
  · exact hi
  · split
    · exact hi
    · refine ⟨?_, hi.call, by simp, hi.callPos⟩
      refine perm_iff_count.mpr (fun x => ?_)
      have h1 := ((insertDesc_perm ⟨s.nextTxId, a, d, t, am, f⟩ s.pool).map (·.id)).count_eq x
      have h2 := hi.tx.count_eq x
      have h3 := range'_succ_count s.nextTxId x hi.txPos
      simp only [allTxIds, poolIds, batchIds, batchTxs, count_append, map_cons, count_cons, count_nil] at *
      omega

theorem inv_cancel {s : State} (hi : Inv s) (id : Nat) (who : Addr) : Inv (doCancel s id who).1 := by
  unfold doCancel
  split
  · exact hi
  · split
    · exact hi
    · rename_i tx hf
      split
      · exact hi
      · have hmem : tx ∈ s.pool := mem_of_find?_eq_some hf
        refine inv_of_counts hi (fun x => ?_) (fun x => ?_) rfl rfl
        · have h1 := ((perm_cons_erase hmem).map (·.id)).count_eq x
          simp only [allTxIds, poolIds, batchIds, batchTxs, count_append, map_cons, count_cons, settledTxIds_append] at *
          simp only [settledTxIds, filter_cons, Bool.not_false, if_true, filter_nil, map_cons, map_nil, count_cons, count_nil]
          omega
        · simp [allCallIds, callIds, settledCallIds_append, settledCallIds]

theorem inv_incFee {s : State} (hi : Inv s) (id : Nat) (who : Addr) (t : Token) (add : Nat) : Inv (doIncFee s id who t add evm).1 := by
  unfold doIncFee
  split
  · exact hi
  · split
    · exact hi
    · rename_i tx hf
      split
      · exact hi
      · have hmem : tx ∈ s.pool := mem_of_find?_eq_some hf
        refine inv_of_counts hi (fun x => ?_) (fun x => rfl) rfl rfl
        have h1 := ((perm_cons_erase hmem).map (·.id)).count_eq x
        have h2 := ((insertDesc_perm { tx with fee := tx.fee + add } (s.pool.erase tx)).map (·.id)).count_eq x
        simp only [allTxIds, poolIds, batchIds, batchTxs, count_append, map_cons, count_cons] at *
        omega

theorem inv_reqBatch {s : State} (hi : Inv s) (t : Token) (mf bf : Nat) (fr : String) : Inv (doReqBatch s t mf bf fr).1 := by
  have hrm : pickRemovesFromPool = true := by decide
  unfold doReqBatch
  simp only [hrm, if_true]
  repeat' split
  all_goals first
    | exact hi
    | (refine inv_of_counts hi (fun x => ?_) (fun x => rfl) rfl rfl
       have h1 := ((pick_perm t bf outgoingTxBatchSize s.pool).map (·.id)).count_eq x
       simp only [allTxIds, poolIds, batchIds, batchTxs, count_append, map_append, flatMap_append, flatMap_cons,
         flatMap_nil, append_nil] at *
       omega)

theorem inv_bridgeCall {s : State} (hi : Inv s) (a r : Addr) (to d m : String) (cs : List (Token × Nat)) :
    Inv (doBridgeCall s a r to d m cs).1 := by
  unfold doBridgeCall
  split
  · exact hi
  · split
    · exact hi
    · simp only
      split
      · exact hi
      · refine ⟨hi.tx, ?_, hi.txPos, by simp⟩
        refine perm_iff_count.mpr (fun x => ?_)
        have h2 := hi.call.count_eq x
        have h3 := range'_succ_count s.nextCallId x hi.callPos
        simp only [allCallIds, callIds, count_append, map_append, map_cons, map_nil, count_cons, count_nil] at *
        omega

theorem inv_executeBatch {s : State} (hi : Inv s) (b : Batch) (hb : b ∈ s.batches) : Inv (executeBatch s b) := by
  have hcmp : executedCancelsCmp = .lt := by decide
  unfold executeBatch
  simp only
  have hnp : (executedCancelsCmp.eval b.nonce b.nonce && (!executedCancelsSameToken || b.token == b.token)) = false := by
    simp [hcmp, Cmp.eval]
  have hi' := inv_cancelBatches (fun b' => executedCancelsCmp.eval b'.nonce b.nonce &&
    (!executedCancelsSameToken || b'.token == b.token)) hi
  generalize hs' : cancelBatches (fun b' => executedCancelsCmp.eval b'.nonce b.nonce &&
    (!executedCancelsSameToken || b'.token == b.token)) s = s' at *
  have hb' : b ∈ s'.batches := by
    rw [← hs']
    simp only [cancelBatches, mem_filter]
    exact ⟨hb, by simp [hcmp, Cmp.eval]⟩
  refine inv_of_counts hi' (fun x => ?_) (fun x => ?_) rfl rfl
  · have h1 := (((perm_cons_erase hb').flatMap_right (·.txs)).map (·.id)).count_eq x
    simp only [allTxIds, poolIds, batchIds, batchTxs, count_append, settledTxIds_append, settledTxIds_exec,
      flatMap_cons, map_append] at *
    omega
  · simp only [allCallIds, callIds, settledCallIds_append, settledCallIds_exec, append_nil]

/-- with the call order `TryAttestation` has in the source now, an observation is: store nonce and heights, handle the
event in its cache context, cancel timed-out batches, refund timed-out bridge calls -/
theorem doObserve_eq (s : State) (h : Nat) (ev : Ev) : doObserve s h ev = doObserveStd s h ev := by
  have ho : tryAttestationOrder = ["SetLastObservedEventNonce", "SetLastObservedBlockHeight", "processAttestation",
      "cleanupTimedOutBatches", "cleanupTimeOutBridgeCall"] := by decide
  unfold doObserve doObserveStd
  rw [ho]
  simp only [attSteps, attStep, String.reduceEq, if_true, if_false]
  cases handleEvent { s with eventNonce := s.eventNonce + 1, obsExt := h, obsFx := s.fxHeight } ev with
  | none => rfl
  | some s2 =>
    rfl

theorem endBlock_eq (s : State) : endBlock s = s := by
  have : endBlockerCleanups = [] := by decide
  simp [endBlock, this]

theorem inv_observe {s : State} (hi : Inv s) (h : Nat) (ev : Ev) : Inv (doObserve s h ev).1 := by
  rw [doObserve_eq]
  unfold doObserveStd
  simp only
  have hi1 : Inv { s with eventNonce := s.eventNonce + 1, obsExt := h, obsFx := s.fxHeight } :=
    ⟨hi.tx, hi.call, hi.txPos, hi.callPos⟩
  generalize { s with eventNonce := s.eventNonce + 1, obsExt := h, obsFx := s.fxHeight } = s1 at *
  cases ev with
  | other => exact inv_cleanupCalls (inv_cancelBatches _ hi1)
  | result c ok =>
    simp only [handleEvent]
    exact inv_cleanupCalls (inv_cancelBatches _ ⟨hi1.tx, hi1.call, hi1.txPos, hi1.callPos⟩)
  | batch t n =>
    simp only [handleEvent]
    cases hf : s1.batches.find? (fun b => decide (b.token = t ∧ b.nonce = n)) with
    | none => exact hi
    | some b =>
        exact inv_cleanupCalls (inv_cancelBatches _ (inv_executeBatch hi1 b (mem_of_find?_eq_some hf)))

theorem inv_refundCall {s : State} (c : Call)
    (htx : (allTxIds s).Perm (range' 1 (s.nextTxId - 1))) (hp1 : 1 ≤ s.nextTxId) (hp2 : 1 ≤ s.nextCallId)
    (hcall : (c.nonce :: allCallIds s).Perm (range' 1 (s.nextCallId - 1))) : Inv (refundCall s c) := by
  refine ⟨?_, ?_, hp1, hp2⟩
  · simpa [refundCall, allTxIds, poolIds, batchIds, batchTxs, settledTxIds_append, settledTxIds] using htx
  · refine (perm_iff_count.mpr (fun x => ?_)).trans hcall
    simp [refundCall, allCallIds, callIds, settledCallIds_append, settledCallIds, count_append, count_cons]
    omega

theorem inv_exec {s : State} (hi : Inv s) (n : Nat) : Inv (doExec s n).1 := by
  rw [doExec_eq]
  unfold doExecStd
  split
  · exact hi
  · rename_i p hp
    split
    · exact hi
    · rename_i c hf
      have hmem : c ∈ s.calls := mem_of_find?_eq_some hf
      simp only
      split
      · apply inv_dropFromMsg
        refine inv_of_counts hi (fun x => by simp [allTxIds, poolIds, batchIds, batchTxs, settledTxIds_append, settledTxIds])
          (fun x => ?_) rfl rfl
        have h1 := ((perm_cons_erase hmem).map (·.nonce)).count_eq x
        simp only [allCallIds, callIds, count_append, map_cons, count_cons, settledCallIds_append] at *
        simp only [settledCallIds, filter_cons, if_true, filter_nil, map_cons, map_nil, count_cons, count_nil]
        omega
      · apply inv_dropFromMsg
        refine inv_refundCall c hi.tx hi.txPos hi.callPos ?_
        refine (perm_iff_count.mpr (fun x => ?_)).trans hi.call
        have h1 := ((perm_cons_erase hmem).map (·.nonce)).count_eq x
        simp only [allCallIds, callIds, count_append, map_cons, count_cons] at *
        omega

theorem inv_psend {s : State} (hi : Inv s) (a : Addr) (d : String) (t : Token) (am f : Nat) : Inv (doPSend s a d t am f).1 := by
  unfold doPSend
  split
  · exact hi
  · split
    · exact hi
    · refine ⟨?_, hi.call, by simp, hi.callPos⟩
      refine perm_iff_count.mpr (fun x => ?_)
      have h1 := ((insertDesc_perm ⟨s.nextTxId, a, d, t, am, f⟩ s.pool).map (·.id)).count_eq x
      have h2 := hi.tx.count_eq x
      have h3 := range'_succ_count s.nextTxId x hi.txPos
      simp only [allTxIds, poolIds, batchIds, batchTxs, count_append, map_cons, count_cons, count_nil] at *
      omega

theorem inv_pcall {s : State} (hi : Inv s) (a r : Addr) (to d m : String) (cs : List (Token × Nat)) :
    Inv (doPCall s a r to d m cs).1 := by
  unfold doPCall
  split
  · simp only
    split
    · exact hi
    · refine ⟨hi.tx, ?_, hi.txPos, by simp⟩
      refine perm_iff_count.mpr (fun x => ?_)
      have h2 := hi.call.count_eq x
      have h3 := range'_succ_count s.nextCallId x hi.callPos
      simp only [allCallIds, callIds, count_append, map_append, map_cons, map_nil, count_cons, count_nil] at *
      omega
  · exact hi

theorem inv_step {s : State} (hi : Inv s) (op : Op) : Inv (step s op).1 := by
  cases op with
  | send a d t am f => exact inv_send hi a d t am f
  | cancel id who => exact inv_cancel hi id who
  | incFee id who t add evm => exact inv_incFee hi id who t add
  | reqBatch t mf bf fr => exact inv_reqBatch hi t mf bf fr
  | bridgeCall a r to d m cs => exact inv_bridgeCall hi a r to d m cs
  | psend a d t am f => exact inv_psend hi a d t am f
  | pcall a r to d m cs => exact inv_pcall hi a r to d m cs
  | observe h ev => exact inv_observe hi h ev
  | exec n => exact inv_exec hi n
  | setParams p =>
    simp only [step]
    split
    · exact hi
    · exact ⟨hi.tx, hi.call, hi.txPos, hi.callPos⟩
  | block n =>
    simp only [step, endBlock_eq]
    exact ⟨hi.tx, hi.call, hi.txPos, hi.callPos⟩

theorem inv_init {s : State} (h : IsInit s) : Inv s := by
  obtain ⟨h1, _, h3, h4, h5, h6, _, h8, _⟩ := h
  refine ⟨?_, ?_, by omega, by omega⟩
  · simp [allTxIds, poolIds, batchIds, batchTxs, settledTxIds, h1, h4, h5, h8]
  · simp [allCallIds, callIds, settledCallIds, h3, h6, h8]

theorem inv_run {s : State} (hi : Inv s) (ops : List Op) : Inv (run s ops) := by
  induction ops generalizing s with
  | nil => exact hi
  | cons op ops ih => exact ih (inv_step hi op)

end FxVerif.Proofs.C05

namespace FxVerif.Proofs.C05
open FxVerif.Gen.C05 FxVerif.Model.C05 List

/-! ## ledger -/

theorem getBal_setBal (b : Bal) (k k' : Addr × Token) (v : Nat) :
    getBal (setBal b k v) k' = if k' = k then v else getBal b k' := by
  simp [getBal, setBal]

theorem getBal_addBal (b : Bal) (k k' : Addr × Token) (v : Nat) :
    getBal (addBal b k v) k' = if k' = k then getBal b k + v else getBal b k' := by
  simp [addBal, getBal_setBal]

theorem getBal_subBal (b : Bal) (k k' : Addr × Token) (v : Nat) :
    getBal (subBal b k v) k' = if k' = k then getBal b k - v else getBal b k' := by
  simp [subBal, getBal_setBal]

/-- total credited to `(who, t)` by a coin list -/
def creditOf (t : Token) (cs : List (Token × Nat)) : Nat := ((cs.filter (fun c => c.1 = t)).map (·.2)).sum

theorem getBal_creditAll (who : Addr) (cs : List (Token × Nat)) (b : Bal) (a : Addr) (t : Token) :
    getBal (creditAll who cs b) (a, t) = getBal b (a, t) + (if a = who then creditOf t cs else 0) := by
  unfold creditAll
  induction cs generalizing b with
  | nil => simp [creditOf]
  | cons c cs ih =>
    simp only [foldl_cons]
    rw [ih]
    by_cases hpos : 0 < c.2
    · simp only [hpos, if_true, getBal_addBal]
      by_cases ha : a = who
      · subst ha
        by_cases ht : c.1 = t
        · subst ht; simp [creditOf, filter_cons]; omega
        · have : ¬ (a, t) = (a, c.1) := by intro h; exact ht (by injection h with _ h2; exact h2.symm)
          simp [creditOf, filter_cons, ht, this]
      · have : ¬ (a, t) = (who, c.1) := by intro h; exact ha (by injection h)
        simp [ha, this]
    · have h0 : c.2 = 0 := by omega
      simp only [hpos, if_false]
      by_cases ha : a = who
      · by_cases ht : c.1 = t
        · simp [creditOf, filter_cons, ht, h0, ha]
        · simp [creditOf, filter_cons, ht, ha]
      · simp [ha]

/-! ## the settlement log only grows -/

theorem cleanupCalls_settled (s : State) :
    (cleanupCalls s).settled = s.settled ++ (expiredCalls (heightOf callCleanupSrc s) s.calls).map
      (fun c => (⟨true, c.nonce, .refunded, c.refund, c.tokens⟩ : Settle)) := by
  obtain ⟨fm, er, hfm⟩ := cleanupCalls_core s
  rw [hfm]
  unfold cleanupCallsCore
  obtain ⟨_, _, _, _, _, _, h7⟩ := foldl_refundCall (expiredCalls (heightOf callCleanupSrc s) s.calls)
    { s with calls := if callCleanupDeletes then keptCalls (heightOf callCleanupSrc s) s.calls else s.calls }
  simp only [h7]

theorem cleanup_settled (s2 : State) :
    ∃ l, (cleanupCalls (cleanupBatches s2)).settled = s2.settled ++ l := by
  rw [cleanupCalls_settled]
  have : (cleanupBatches s2).settled = s2.settled := by simp [cleanupBatches, cancelBatches]
  rw [this]
  exact ⟨_, rfl⟩

theorem settled_grows (s : State) (op : Op) : ∃ l, (step s op).1.settled = s.settled ++ l := by
  cases op with
  | send a d t am f => simp only [step]; unfold doSend; (repeat' split) <;> exact ⟨[], by simp⟩
  | cancel id who =>
    simp only [step]; unfold doCancel
    repeat' split
    all_goals first | (refine ⟨[], ?_⟩; simp; done) | exact ⟨_, rfl⟩
  | incFee id who t add evm => simp only [step]; unfold doIncFee; (repeat' split) <;> exact ⟨[], by simp⟩
  | reqBatch t mf bf fr => simp only [step]; unfold doReqBatch; simp only; (repeat' split) <;> exact ⟨[], by simp⟩
  | bridgeCall a r to d m cs => simp only [step]; unfold doBridgeCall; simp only; (repeat' split) <;> exact ⟨[], by simp⟩
  | psend a d t am f => simp only [step]; unfold doPSend; (repeat' split) <;> exact ⟨[], by simp⟩
  | pcall a r to d m cs => simp only [step]; unfold doPCall; simp only; (repeat' split) <;> exact ⟨[], by simp⟩
  | setParams p => simp only [step]; (repeat' split) <;> exact ⟨[], by simp⟩
  | block n => exact ⟨[], by simp [step, endBlock_eq]⟩
  | exec n =>
    simp only [step]; rw [doExec_eq]; unfold doExecStd
    repeat' split
    all_goals first | (refine ⟨[], ?_⟩; simp; done) | exact ⟨_, rfl⟩ | (refine ⟨_, ?_⟩; simp [refundCall]; rfl)
  | observe h ev =>
    simp only [step]; rw [doObserve_eq]; unfold doObserveStd
    simp only
    cases ev with
    | other => simp only [handleEvent]; exact cleanup_settled _
    | result c ok => simp only [handleEvent]; exact cleanup_settled _
    | batch t n =>
      simp only [handleEvent]
      cases hf : (s.batches.find? (fun b => decide (b.token = t ∧ b.nonce = n))) with
      | none => exact ⟨[], by simp⟩
      | some b =>
        simp only []
        obtain ⟨l, hl⟩ := cleanup_settled (executeBatch { s with eventNonce := s.eventNonce + 1, obsExt := h, obsFx := s.fxHeight } b)
        refine ⟨b.txs.map (fun tx => (⟨false, tx.id, .executed, 0, [(tx.token, tx.amount + tx.fee)]⟩ : Settle)) ++ l, ?_⟩
        simp only [hl]
        simp [executeBatch, cancelBatches]

end FxVerif.Proofs.C05

namespace FxVerif.Proofs.C05
open List

theorem nodup_map_inj {α β : Type} (f : α → β) : ∀ (l : List α), (l.map f).Nodup → ∀ a ∈ l, ∀ b ∈ l, f a = f b → a = b
  | [], _, _, ha, _, _, _ => by cases ha
  | x :: xs, hnd, a, ha, b, hb, hab => by
    simp only [map_cons, nodup_cons, mem_map, not_exists, not_and] at hnd
    simp only [mem_cons] at ha hb
    rcases ha with rfl | ha <;> rcases hb with rfl | hb
    · rfl
    · exact absurd hab.symm (hnd.1 b hb)
    · exact absurd hab (hnd.1 a ha)
    · exact nodup_map_inj f xs hnd.2 a ha b hb hab

end FxVerif.Proofs.C05
