import FxVerif.Model.C19
/-!
# C19 — helper lemmas: store algebra, the inductive invariant of the control part, per-transition preservation
-/
namespace FxVerif.Proofs.C19
open FxVerif.Model.C19

/-! ## stores -/

theorem get_filter_ne {κ : Type} [DecidableEq κ] (s : Store κ) (k k' : κ) (h : k ≠ k') :
    sget (s.filter (fun p => p.1 ≠ k)) k' = sget s k' := by
  induction s with
  | nil => rfl
  | cons p r ih =>
    obtain ⟨a, v⟩ := p
    rw [List.filter_cons]
    by_cases ha : a = k
    · have hd : decide ((a, v).1 ≠ k) = false := by simp [ha]
      rw [hd]
      simp only [Bool.false_eq_true, ↓reduceIte]
      rw [ih]
      subst ha
      simp [sget, h]
    · have hd : decide ((a, v).1 ≠ k) = true := by simp [ha]
      rw [hd]
      simp only [↓reduceIte, sget]
      rw [ih]

theorem get_set {κ : Type} [DecidableEq κ] (s : Store κ) (k k' : κ) (v : Nat) :
    sget (sset s k v) k' = if k = k' then v else sget s k' := by
  unfold sset
  by_cases h : k = k'
  · simp [sget, h]
  · simp only [sget, h, ↓reduceIte]
    exact get_filter_ne s k k' h

theorem get_add {κ : Type} [DecidableEq κ] (s : Store κ) (k k' : κ) (n : Nat) :
    sget (sadd s k n) k' = if k = k' then sget s k + n else sget s k' := by
  simp [sadd, get_set]

theorem get_sub {κ : Type} [DecidableEq κ] (s : Store κ) (k k' : κ) (n : Nat) :
    sget (ssub s k n) k' = if k = k' then sget s k - n else sget s k' := by
  simp [ssub, get_set]

/-! ## commitments -/

theorem lookup_mem {k : Ch × Seq} {cs : List ((Ch × Seq) × Pkt)} {p : Pkt} (h : lookup k cs = some p) :
    (k, p) ∈ cs := by
  induction cs with
  | nil => simp [lookup] at h
  | cons c r ih =>
    obtain ⟨k', q⟩ := c
    simp only [lookup] at h
    by_cases hk : k' = k
    · simp only [hk, ↓reduceIte, Option.some.injEq] at h
      subst hk; subst h; exact List.mem_cons_self
    · simp only [hk, ↓reduceIte] at h
      exact List.mem_cons_of_mem _ (ih h)

theorem mem_dropCommit {cs : List ((Ch × Seq) × Pkt)} {k : Ch × Seq} {c : (Ch × Seq) × Pkt} :
    c ∈ dropCommit cs k ↔ c ∈ cs ∧ c.1 ≠ k := by
  simp [dropCommit]

theorem mem_dropRel {rel : List (Ch × Seq)} {k x : Ch × Seq} : x ∈ dropRel rel k ↔ x ∈ rel ∧ x ≠ k := by
  simp [dropRel]

theorem not_mem_dropRel (rel : List (Ch × Seq)) (k : Ch × Seq) : k ∉ dropRel rel k := by
  simp [dropRel]

theorem dropRel_of_not_mem (rel : List (Ch × Seq)) (k : Ch × Seq) (h : k ∉ rel) : dropRel rel k = rel := by
  unfold dropRel
  rw [List.filter_eq_self]
  intro a ha
  simp only [ne_eq, decide_not, Bool.not_eq_eq_eq_not, Bool.not_true, decide_eq_false_iff_not]
  intro e; subst e; exact h ha

theorem mem_dropRelOpt {rel : List (Ch × Seq)} {o : Option (Ch × Seq)} {x : Ch × Seq} :
    x ∈ dropRelOpt rel o ↔ x ∈ rel ∧ o ≠ some x := by
  cases o with
  | none => simp [dropRelOpt]
  | some k =>
    simp only [dropRelOpt, mem_dropRel, ne_eq, Option.some.injEq]
    constructor
    · rintro ⟨h1, h2⟩; exact ⟨h1, fun e => h2 e.symm⟩
    · rintro ⟨h1, h2⟩; exact ⟨h1, fun e => h2 e.symm⟩

theorem lookup_none_not_mem {k : Ch × Seq} : ∀ {cs : List ((Ch × Seq) × Pkt)}, lookup k cs = none → ∀ y ∈ cs, y.1 ≠ k := by
  intro cs
  induction cs with
  | nil => intro _ y hy; cases hy
  | cons c r ih =>
    obtain ⟨k', q⟩ := c
    intro hn y hy
    simp only [lookup] at hn
    by_cases hk : k' = k
    · simp [hk] at hn
    · simp only [hk, ↓reduceIte] at hn
      rcases List.mem_cons.1 hy with hy | hy
      · subst hy; exact hk
      · exact ih hn y hy

/-! ## the key a callback computes -/

theorem keyOf_src (seqOk : Bool) (src dst : Ch) (seq : Seq) (h : seqOk = true) :
    keyOf .src seqOk src dst seq = some (src, seq) := by
  simp [keyOf, h, ChanSel.pick]

/-! ## the invariant -/

/-- inductive invariant of the control part (holds for every configuration that records the relation of a transfer
under the transfer's own (local channel, sequence) and whose callbacks compute the key from the source channel) -/
structure Inv (c : Ctl) : Prop where
  /-- sequence freshness -/
  fC : ∀ x ∈ c.commits, x.1.2 ≤ sget c.next x.1.1
  fR : ∀ r ∈ c.refundLog, r.seq ≤ sget c.next r.ch
  fA : ∀ k ∈ c.ackedOk, k.2 ≤ sget c.next k.1
  fE : ∀ e ∈ c.evmSent, e.seq ≤ sget c.next e.ch
  fK : ∀ k ∈ c.rel, k.2 ≤ sget c.next k.1
  /-- a refunded transfer is no longer committed -/
  rNC : ∀ r ∈ c.refundLog, ∀ x ∈ c.commits, x.1 ≠ r.key
  /-- a successfully acknowledged transfer is no longer committed -/
  aNC : ∀ k ∈ c.ackedOk, ∀ x ∈ c.commits, x.1 ≠ k
  /-- at most one refund per (channel, sequence) -/
  nodup : (c.refundLog.map RefundRec.key).Nodup
  /-- never both acknowledged successfully and refunded -/
  rNA : ∀ r ∈ c.refundLog, r.key ∉ c.ackedOk
  /-- the commitment of an EVM-originated transfer carries its sender, token and amount -/
  eData : ∀ e ∈ c.evmSent, ∀ x ∈ c.commits, x.1 = e.key →
    x.2.sender = e.sender ∧ x.2.tok = e.tok ∧ x.2.amt = e.amt ∧ x.2.evm = true
  /-- an EVM-originated transfer of the aliased token that is still in flight has its relation record -/
  eRel : ∀ e ∈ c.evmSent, e.tok = .A → (∃ x ∈ c.commits, x.1 = e.key) → e.key ∈ c.rel
  /-- a refund of an EVM-originated transfer went to its sender, with its amount, and in ERC-20 form for the aliased token -/
  rE : ∀ r ∈ c.refundLog, ∀ e ∈ c.evmSent, r.key = e.key →
    r.sender = e.sender ∧ r.tok = e.tok ∧ r.amt = e.amt ∧ (e.tok = .A → r.erc20Form = true)

theorem inv_init : Inv init.ctl := by
  constructor <;> simp [init]

/-- what the invariant needs from the configuration -/
structure Sound (cfg : Cfg) : Prop where
  sendSetsRel : cfg.sendSetsRel = true
  sendKeyOwn : cfg.sendKeyOwn = true
  refundSees : cfg.refundSees = true
  refundConverts : cfg.refundConverts = true
  ackOkChan : cfg.ackOkChan = .src
  refundChan : cfg.refundChan = .src
  refundSeq : cfg.refundSeq = true
  deleteReports : cfg.deleteReports = true
  errPropagates : cfg.refundErrPropagates = true
  ackAgrees : cfg.ackAgrees = true
  ackSteps : cfg.ackSteps = stdAckSteps
  timeoutSteps : cfg.timeoutSteps = stdTimeoutSteps

theorem inv_send (c : Ctl) (l : Ch) (p : Pkt) (key : Option (Ch × Seq)) (h : Inv c)
    (hkey : key = none ∨ key = some (l, nextSeq c l))
    (hrel : p.evm = true → p.tok = .A → key = some (l, nextSeq c l)) : Inv (sendCtl c l p key) := by
  have hn : ∀ ch', sget c.next ch' ≤ sget (sset c.next l (nextSeq c l)) ch' := by
    intro ch'
    rw [get_set]
    by_cases hc : l = ch'
    · subst hc; simp [nextSeq]
    · simp [hc]
  -- nothing recorded so far carries the new key
  have freshC : ∀ x ∈ c.commits, x.1 ≠ (l, nextSeq c l) := by
    intro x hx he
    have := h.fC x hx
    rw [he] at this; exact absurd this (Nat.not_succ_le_self _)
  have freshR : ∀ r ∈ c.refundLog, r.key ≠ (l, nextSeq c l) := by
    intro r hr he
    have := h.fR r hr
    simp only [RefundRec.key, Prod.mk.injEq] at he
    rw [he.1, he.2] at this; exact absurd this (Nat.not_succ_le_self _)
  have freshA : ∀ k ∈ c.ackedOk, k ≠ (l, nextSeq c l) := by
    intro k hk he
    have := h.fA k hk
    rw [he] at this; exact absurd this (Nat.not_succ_le_self _)
  have freshE : ∀ e ∈ c.evmSent, e.key ≠ (l, nextSeq c l) := by
    intro e he hk
    have := h.fE e he
    simp only [SentRec.key, Prod.mk.injEq] at hk
    rw [hk.1, hk.2] at this; exact absurd this (Nat.not_succ_le_self _)
  have memE : ∀ e, e ∈ (if p.evm then (⟨l, nextSeq c l, p.sender, p.tok, p.amt⟩ : SentRec) :: c.evmSent else c.evmSent) →
      (p.evm = true ∧ e = ⟨l, nextSeq c l, p.sender, p.tok, p.amt⟩) ∨ e ∈ c.evmSent := by
    intro e he
    cases hev : p.evm with
    | false => right; simpa [hev] using he
    | true =>
      simp only [hev, ↓reduceIte, List.mem_cons] at he
      rcases he with he | he
      · left; exact ⟨rfl, he⟩
      · right; exact he
  have relMono : ∀ k, k ∈ c.rel → k ∈ (match key with | some k => k :: c.rel | none => c.rel) := by
    intro k hk; cases key <;> simp [hk]
  constructor
  · -- fC
    intro x hx
    simp only [sendCtl, List.mem_cons] at hx ⊢
    rcases hx with hx | hx
    · subst hx; simp [get_set, nextSeq]
    · exact Nat.le_trans (h.fC x hx) (hn _)
  · intro r hr
    exact Nat.le_trans (h.fR r hr) (hn _)
  · intro k hk
    exact Nat.le_trans (h.fA k hk) (hn _)
  · intro e he
    rcases memE e he with ⟨_, he⟩ | he
    · subst he; simp [sendCtl, get_set, nextSeq]
    · exact Nat.le_trans (h.fE e he) (hn _)
  · -- fK
    intro k hk
    simp only [sendCtl] at hk ⊢
    rcases hkey with hkey | hkey
    · subst hkey; exact Nat.le_trans (h.fK k hk) (hn _)
    · subst hkey
      simp only [List.mem_cons] at hk
      rcases hk with hk | hk
      · subst hk; simp [get_set, nextSeq]
      · exact Nat.le_trans (h.fK k hk) (hn _)
  · -- rNC
    intro r hr x hx
    simp only [sendCtl, List.mem_cons] at hx hr
    rcases hx with hx | hx
    · subst hx; exact fun he => freshR r hr he.symm
    · exact h.rNC r hr x hx
  · intro k hk x hx
    simp only [sendCtl, List.mem_cons] at hx hk
    rcases hx with hx | hx
    · subst hx; exact fun he => freshA k hk he.symm
    · exact h.aNC k hk x hx
  · exact h.nodup
  · exact h.rNA
  · -- eData
    intro e he x hx hk
    simp only [sendCtl, List.mem_cons] at hx
    rcases memE e he with ⟨hev, he⟩ | he
    · rcases hx with hx | hx
      · subst hx; subst he; exact ⟨rfl, rfl, rfl, hev⟩
      · subst he; exact absurd hk (freshC x hx)
    · rcases hx with hx | hx
      · subst hx; exact absurd hk.symm (freshE e he)
      · exact h.eData e he x hx hk
  · -- eRel
    intro e he hB hx
    obtain ⟨x, hx, hk⟩ := hx
    simp only [sendCtl, List.mem_cons] at hx ⊢
    rcases memE e he with ⟨hevm, he⟩ | he
    · subst he
      have : key = some (l, nextSeq c l) := hrel hevm hB
      simp [this, SentRec.key]
    · rcases hx with hx | hx
      · subst hx; exact absurd hk.symm (freshE e he)
      · exact relMono _ (h.eRel e he hB ⟨x, hx, hk⟩)
  · -- rE
    intro r hr e he hk
    rcases memE e he with ⟨_, he⟩ | he
    · subst he; exact absurd hk (freshR r hr)
    · exact h.rE r hr e he hk

/-- the send sequence of a channel jumps forward -/
theorem inv_next_mono (c : Ctl) (nx : Store Ch) (h : Inv c) (hm : ∀ ch, sget c.next ch ≤ sget nx ch) :
    Inv { c with next := nx } := by
  constructor
  · intro x hx; exact Nat.le_trans (h.fC x hx) (hm _)
  · intro r hr; exact Nat.le_trans (h.fR r hr) (hm _)
  · intro k hk; exact Nat.le_trans (h.fA k hk) (hm _)
  · intro e he; exact Nat.le_trans (h.fE e he) (hm _)
  · intro k hk; exact Nat.le_trans (h.fK k hk) (hm _)
  · exact h.rNC
  · exact h.aNC
  · exact h.nodup
  · exact h.rNA
  · exact h.eData
  · exact h.eRel
  · exact h.rE

/-- only the commitment goes away (error ack / timeout without a refund hook) -/
theorem inv_drop (c : Ctl) (k : Ch × Seq) (h : Inv c) : Inv { c with commits := dropCommit c.commits k } := by
  constructor
  · intro x hx; exact h.fC x (mem_dropCommit.1 hx).1
  · exact h.fR
  · exact h.fA
  · exact h.fE
  · exact h.fK
  · intro r hr x hx; exact h.rNC r hr x (mem_dropCommit.1 hx).1
  · intro a ha x hx; exact h.aNC a ha x (mem_dropCommit.1 hx).1
  · exact h.nodup
  · exact h.rNA
  · intro e he x hx; exact h.eData e he x (mem_dropCommit.1 hx).1
  · intro e he hB hx
    obtain ⟨x, hx, hk⟩ := hx
    exact h.eRel e he hB ⟨x, (mem_dropCommit.1 hx).1, hk⟩
  · exact h.rE

theorem inv_ackOk (cfg : Cfg) (hsel : cfg.ackOkChan = .src) (c : Ctl) (k : Ch × Seq) (p : Pkt) (h : Inv c)
    (hk : (k, p) ∈ c.commits) : Inv (ackOkCtl cfg c k p) := by
  -- whatever the success branch deletes, it is at most the record of `k`
  have hsub : ∀ x, x ∈ c.rel → x ≠ k → x ∈ (ackOkCtl cfg c k p).rel := by
    intro x hx hne
    simp only [ackOkCtl]
    split
    · rw [mem_dropRelOpt]
      refine ⟨hx, ?_⟩
      rw [hsel]
      cases hs : cfg.ackOkSeq with
      | false => simp [keyOf]
      | true => rw [keyOf_src _ _ _ _ rfl]; intro e; exact hne (by cases e; rfl)
    · exact hx
  have hsup : ∀ x, x ∈ (ackOkCtl cfg c k p).rel → x ∈ c.rel := by
    intro x hx
    simp only [ackOkCtl] at hx
    split at hx
    · exact (mem_dropRelOpt.1 hx).1
    · exact hx
  constructor
  · intro x hx; exact h.fC x (mem_dropCommit.1 hx).1
  · exact h.fR
  · intro a ha
    simp only [ackOkCtl, List.mem_cons] at ha
    rcases ha with ha | ha
    · subst ha; exact h.fC _ hk
    · exact h.fA a ha
  · exact h.fE
  · intro x hx; exact h.fK x (hsup x hx)
  · intro r hr x hx; exact h.rNC r hr x (mem_dropCommit.1 hx).1
  · intro a ha x hx
    simp only [ackOkCtl, List.mem_cons] at ha hx
    rcases ha with ha | ha
    · subst ha; exact (mem_dropCommit.1 hx).2
    · exact h.aNC a ha x (mem_dropCommit.1 hx).1
  · exact h.nodup
  · intro r hr hin
    simp only [ackOkCtl, List.mem_cons] at hin hr
    rcases hin with hin | hin
    · exact h.rNC r hr _ hk hin.symm
    · exact h.rNA r hr hin
  · intro e he x hx; exact h.eData e he x (mem_dropCommit.1 hx).1
  · intro e he hB hx
    obtain ⟨x, hx, hke⟩ := hx
    have hx' := mem_dropCommit.1 hx
    have hin := h.eRel e he hB ⟨x, hx'.1, hke⟩
    exact hsub _ hin (by rw [← hke]; exact hx'.2)
  · exact h.rE

theorem refundFound_src (cfg : Cfg) (hsees : cfg.refundSees = true) (hch : cfg.refundChan = .src)
    (hseq : cfg.refundSeq = true) (hrep : cfg.deleteReports = true) (c : Ctl) (k : Ch × Seq) (p : Pkt) :
    refundFound cfg c k p = if c.rel.contains k then some k else none := by
  simp [refundFound, hsees, hch, keyOf_src _ _ _ _ hseq, hrep]

theorem inv_refund (cfg : Cfg) (c : Ctl) (k : Ch × Seq) (p : Pkt) (h : Inv c) (hk : (k, p) ∈ c.commits)
    (hsees : cfg.refundSees = true) (hconv : cfg.refundConverts = true) (hch : cfg.refundChan = .src)
    (hseq : cfg.refundSeq = true) (hrep : cfg.deleteReports = true) : Inv (refundCtl cfg c k p) := by
  have hf := refundFound_src cfg hsees hch hseq hrep c k p
  have hsub : ∀ x, x ∈ c.rel → x ≠ k → x ∈ (refundCtl cfg c k p).rel := by
    intro x hx hne
    simp only [refundCtl, hf]
    rw [mem_dropRelOpt]
    refine ⟨hx, ?_⟩
    split
    · intro e; exact hne (by cases e; rfl)
    · simp
  have hsup : ∀ x, x ∈ (refundCtl cfg c k p).rel → x ∈ c.rel := by
    intro x hx
    simp only [refundCtl] at hx
    exact (mem_dropRelOpt.1 hx).1
  constructor
  · intro x hx; exact h.fC x (mem_dropCommit.1 hx).1
  · intro r hr
    simp only [refundCtl, List.mem_cons] at hr
    rcases hr with hr | hr
    · subst hr; exact h.fC _ hk
    · exact h.fR r hr
  · exact h.fA
  · exact h.fE
  · intro x hx; exact h.fK x (hsup x hx)
  · intro r hr x hx
    simp only [refundCtl, List.mem_cons] at hr hx
    rcases hr with hr | hr
    · subst hr; exact (mem_dropCommit.1 hx).2
    · exact h.rNC r hr x (mem_dropCommit.1 hx).1
  · intro a ha x hx; exact h.aNC a ha x (mem_dropCommit.1 hx).1
  · -- nodup
    simp only [refundCtl, List.map_cons, List.nodup_cons]
    refine ⟨?_, h.nodup⟩
    intro hin
    obtain ⟨r, hr, hrk⟩ := List.mem_map.1 hin
    exact h.rNC r hr _ hk hrk.symm
  · intro r hr hin
    simp only [refundCtl, List.mem_cons] at hr hin
    rcases hr with hr | hr
    · subst hr; exact h.aNC _ hin _ hk rfl
    · exact h.rNA r hr hin
  · intro e he x hx; exact h.eData e he x (mem_dropCommit.1 hx).1
  · intro e he hB hx
    obtain ⟨x, hx, hke⟩ := hx
    have hx' := mem_dropCommit.1 hx
    have hin := h.eRel e he hB ⟨x, hx'.1, hke⟩
    exact hsub _ hin (by rw [← hke]; exact hx'.2)
  · intro r hr e he hke
    simp only [refundCtl, List.mem_cons] at hr he
    rcases hr with hr | hr
    · subst hr
      have hke' : k = e.key := by simpa [RefundRec.key] using hke
      obtain ⟨h1, h2, h3, _⟩ := h.eData e he _ hk hke'
      simp only at h1 h2 h3
      refine ⟨h1, h2, h3, ?_⟩
      intro hB
      have hin := h.eRel e he hB ⟨_, hk, hke'⟩
      have hin' : k ∈ c.rel := by rw [hke']; exact hin
      simp [refundForm, hf, hconv, hin']
    · exact h.rE r hr e he hke

/-! ## the middleware callbacks as folds over the regenerated step lists: the standard order is `settleBy` -/

/-- the fold over "application, packet data, hook" (every error returned) is `settleBy` -/
theorem mwFold_app_hook (cfg : Cfg) (s : State) (l : Ch) (seq : Seq) (p : Pkt) (i : MwIn) :
    (mwFold cfg s.ctl l seq p i [("app", "returned"), ("decode-data", "returned"), ("hook", "returned")] { bal := s.bal }).map
        (mwFinish cfg s l seq p) =
      match i.appDec with
      | none => none
      | some ar => settleBy cfg s l seq p ar i.act := by
  cases ha : i.appDec with
  | none => simp (config := { decide := true }) [mwFold, mwStep, ha]
  | some ar =>
    cases ar with
    | false =>
      cases hact : i.act with
      | refund =>
        cases hh : refundHook cfg s.ctl.vmeta s.bal l p (refundForm cfg s.ctl (l, seq) p) <;>
          cases hp : cfg.refundErrPropagates <;>
          simp (config := { decide := true }) [mwFold, mwStep, ha, hact, hh, hp, settleBy, mwFinish, ackCtlOf]
      | after => simp (config := { decide := true }) [mwFold, mwStep, ha, hact, settleBy, mwFinish, ackCtlOf]
      | nothing => simp (config := { decide := true }) [mwFold, mwStep, ha, hact, settleBy, mwFinish, ackCtlOf]
    | true =>
      cases hr : refundApp s.bal l p with
      | none => cases i.act <;> simp (config := { decide := true }) [mwFold, mwStep, ha, hr, settleBy, refundState]
      | some b1 =>
        cases hact : i.act with
        | refund =>
          cases hh : refundHook cfg s.ctl.vmeta b1 l p (refundForm cfg s.ctl (l, seq) p) <;>
            cases hp : cfg.refundErrPropagates <;>
            simp (config := { decide := true }) [mwFold, mwStep, ha, hact, hr, hh, hp, settleBy, refundState, mwFinish, ackCtlOf]
        | after => simp (config := { decide := true }) [mwFold, mwStep, ha, hact, hr, settleBy, mwFinish, ackCtlOf]
        | nothing => simp (config := { decide := true }) [mwFold, mwStep, ha, hact, hr, settleBy, refundState, mwFinish, ackCtlOf]

theorem runMw_std_timeout (cfg : Cfg) (s : State) (l : Ch) (seq : Seq) (p : Pkt) (h : cfg.timeoutSteps = stdTimeoutSteps) :
    runMw cfg s l seq p (mwInOfTimeout cfg) cfg.timeoutSteps = refundState cfg s l seq p cfg.timeoutRefunds := by
  rw [h]
  simp only [runMw, stdTimeoutSteps]
  rw [mwFold_app_hook]
  cases hT : cfg.timeoutRefunds <;> simp [mwInOfTimeout, hT, settleBy]

theorem settleState_std (cfg : Cfg) (s : State) (l : Ch) (seq : Seq) (p : Pkt) (h : cfg.timeoutSteps = stdTimeoutSteps) (mode : Mode) :
    settleState cfg s l seq p mode = settleStateStd cfg s l seq p mode := by
  cases mode with
  | ackOk => rfl
  | ackErr => rfl
  | timeout => exact runMw_std_timeout cfg s l seq p h

theorem settleAckState_std (cfg : Cfg) (s : State) (l : Ch) (seq : Seq) (p : Pkt) (w : AckWire) (h : cfg.ackSteps = stdAckSteps) :
    settleAckState cfg s l seq p w = settleAckStateStd cfg s l seq p w := by
  unfold settleAckState settleAckStateStd
  rw [h]
  cases w with
  | undecodable => simp (config := { decide := true }) [runMw, stdAckSteps, mwFold, mwStep, mwInOfAck, AckWire.mwView, AckWire.isCanonical, Cfg.appRefunds]
  | nonCanonical a m => simp (config := { decide := true }) [runMw, stdAckSteps, mwFold, mwStep, mwInOfAck, AckWire.mwView, AckWire.isCanonical]
  | result b | error b | unset =>
    simp only [runMw, stdAckSteps]
    rw [mwFold]
    simp (config := { decide := true }) only [mwStep, mwInOfAck, AckWire.mwView, AckWire.isCanonical, Option.isSome_some, Bool.and_self,
      Bool.not_true, Bool.false_and, Bool.false_eq_true, ↓reduceIte]
    rw [mwFold]
    simp (config := { decide := true }) only [mwStep, Bool.not_true, Bool.false_and, Bool.false_eq_true, ↓reduceIte]
    rw [mwFold_app_hook]
    simp only [AckWire.appView, Option.getD_some, Bool.not_true, Bool.false_eq_true, ↓reduceIte]
    try rfl

/-! ### any step list with the canonical check in front -/

/-- a step that is neither the application nor the hook fails or leaves the run as it is -/
theorem mwStep_neutral (cfg : Cfg) (c : Ctl) (l : Ch) (seq : Seq) (p : Pkt) (i : MwIn) (r : MwRun) (st : String × String)
    (h1 : st.1 ≠ "app") (h2 : st.1 ≠ "hook") :
    mwStep cfg c l seq p i r st = none ∨ mwStep cfg c l seq p i r st = some r := by
  unfold mwStep
  simp only [beq_iff_eq, h1, h2, ↓reduceIte]
  split
  · split
    · exact Or.inl rfl
    · exact Or.inr rfl
  · split
    · split
      · exact Or.inl rfl
      · exact Or.inr rfl
    · exact Or.inr rfl

/-- ANY step list in which a canonical-encoding check whose error is returned stands in front of the application and the
hook: bytes that are not the canonical encoding never reach either of them -/
theorem mwFold_canonical_first (cfg : Cfg) (c : Ctl) (l : Ch) (seq : Seq) (p : Pkt) (i : MwIn) (hi : i.canonical = false)
    (pre post : List (String × String)) (hpre : ∀ st ∈ pre, st.1 ≠ "app" ∧ st.1 ≠ "hook") (r : MwRun) :
    mwFold cfg c l seq p i (pre ++ ("canonical-ack", "returned") :: post) r = none := by
  induction pre with
  | nil => simp (config := { decide := true }) [mwFold, mwStep, hi]
  | cons st rest ih =>
    have hst := hpre st List.mem_cons_self
    simp only [List.cons_append, mwFold]
    rcases mwStep_neutral cfg c l seq p i r st hst.1 hst.2 with h | h
    · rw [h]
    · rw [h]; exact ih (fun x hx => hpre x (List.mem_cons_of_mem _ hx))

/-! ## the whole transition preserves the invariant -/

/-- a processed refund (hook wired): the transfer application's refund, then the hook — or, when the hook's error is
not handed up to IBC core, only the former with the record left in place -/
theorem refundState_cases (cfg : Cfg) (s s' : State) (l : Ch) (seq : Seq) (p : Pkt)
    (hr : refundState cfg s l seq p true = some s') :
    ∃ b1, refundApp s.bal l p = some b1 ∧
      ((∃ b2, refundHook cfg s.ctl.vmeta b1 l p (refundForm cfg s.ctl (l, seq) p) = some b2 ∧
          s' = { bal := b2, ctl := refundCtl cfg s.ctl (l, seq) p }) ∨
       (cfg.refundErrPropagates = false ∧ refundHook cfg s.ctl.vmeta b1 l p (refundForm cfg s.ctl (l, seq) p) = none ∧
          s' = { bal := b1, ctl := { s.ctl with commits := dropCommit s.ctl.commits (l, seq),
                                                refundLog := ⟨l, seq, p.sender, p.tok, p.amt, false⟩ :: s.ctl.refundLog } })) := by
  unfold refundState at hr
  cases ha : refundApp s.bal l p with
  | none => simp [ha] at hr
  | some b1 =>
    refine ⟨b1, rfl, ?_⟩
    simp only [ha, ↓reduceIte] at hr
    cases hh : refundHook cfg s.ctl.vmeta b1 l p (refundForm cfg s.ctl (l, seq) p) with
    | none =>
      simp only [hh] at hr
      cases hp : cfg.refundErrPropagates with
      | true => simp [hp] at hr
      | false =>
        simp only [hp, Bool.false_eq_true, ↓reduceIte, Option.some.injEq] at hr
        exact Or.inr ⟨rfl, rfl, hr.symm⟩
    | some b2 =>
      simp only [hh, Option.some.injEq] at hr
      exact Or.inl ⟨b2, rfl, hr.symm⟩

theorem refundState_true (cfg : Cfg) (hp : cfg.refundErrPropagates = true) (s s' : State) (l : Ch) (seq : Seq) (p : Pkt)
    (hr : refundState cfg s l seq p true = some s') :
    ∃ b1 b2, refundApp s.bal l p = some b1 ∧
      refundHook cfg s.ctl.vmeta b1 l p (refundForm cfg s.ctl (l, seq) p) = some b2 ∧
      s' = { bal := b2, ctl := refundCtl cfg s.ctl (l, seq) p } := by
  obtain ⟨b1, ha, h | h⟩ := refundState_cases cfg s s' l seq p hr
  · obtain ⟨b2, hh, hs'⟩ := h; exact ⟨b1, b2, ha, hh, hs'⟩
  · rw [hp] at h; cases h.1

theorem refundState_false (cfg : Cfg) (s s' : State) (l : Ch) (seq : Seq) (p : Pkt)
    (hr : refundState cfg s l seq p false = some s') :
    ∃ b1, refundApp s.bal l p = some b1 ∧
      s' = { bal := b1, ctl := { s.ctl with commits := dropCommit s.ctl.commits (l, seq) } } := by
  unfold refundState at hr
  cases ha : refundApp s.bal l p with
  | none => simp [ha] at hr
  | some b1 =>
    simp only [ha, Bool.false_eq_true, ↓reduceIte, Option.some.injEq] at hr
    exact ⟨b1, rfl, hr.symm⟩

theorem refundState_inv (cfg : Cfg) (hs : Sound cfg) (s s' : State) (l : Ch) (seq : Seq) (p : Pkt) (refunds : Bool)
    (h : Inv s.ctl) (hk : ((l, seq), p) ∈ s.ctl.commits) (hr : refundState cfg s l seq p refunds = some s') :
    Inv s'.ctl := by
  cases refunds with
  | true =>
    obtain ⟨_, _, _, _, hs'⟩ := refundState_true cfg hs.errPropagates s s' l seq p hr
    subst hs'
    exact inv_refund cfg s.ctl _ p h hk hs.refundSees hs.refundConverts hs.refundChan hs.refundSeq hs.deleteReports
  | false =>
    obtain ⟨_, _, hs'⟩ := refundState_false cfg s s' l seq p hr
    subst hs'
    exact inv_drop s.ctl _ h

theorem settleState_inv (cfg : Cfg) (hs : Sound cfg) (s s' : State) (l : Ch) (seq : Seq) (p : Pkt) (mode : Mode)
    (h : Inv s.ctl) (hk : ((l, seq), p) ∈ s.ctl.commits) (hr : settleState cfg s l seq p mode = some s') :
    Inv s'.ctl := by
  rw [settleState_std cfg s l seq p hs.timeoutSteps] at hr
  cases mode with
  | ackOk =>
    simp only [settleStateStd, Option.some.injEq] at hr
    subst hr
    exact inv_ackOk cfg hs.ackOkChan s.ctl _ p h hk
  | ackErr => exact refundState_inv cfg hs s s' l seq p _ h hk hr
  | timeout => exact refundState_inv cfg hs s s' l seq p _ h hk hr

theorem settle_inv (cfg : Cfg) (hs : Sound cfg) (s : State) (l : Ch) (seq : Seq) (mode : Mode) (h : Inv s.ctl) :
    Inv (settle cfg s l seq mode).1.ctl := by
  unfold settle
  cases hl : lookup (l, seq) s.ctl.commits with
  | none => exact h
  | some p =>
    simp only
    cases hst : settleState cfg s l seq p mode with
    | none => exact h
    | some s' => exact settleState_inv cfg hs s s' l seq p mode h (lookup_mem hl) hst

theorem doSend_inv (cfg : Cfg) (hs : Sound cfg) (s : State) (l : Ch) (sender : Addr) (t : Tok) (amt : Nat) (evm : Bool)
    (h : Inv s.ctl) : Inv (doSend cfg s l sender t amt evm).1.ctl := by
  unfold doSend
  split
  · exact h
  · refine inv_send s.ctl l _ _ h ?_ ?_
    · unfold sendKey; split <;> simp
    · intro hev hA
      simp only at hev hA
      simp [sendKey, hev, hA, hs.sendSetsRel, hs.sendKeyOwn]

/-! ## acknowledgements as they are on the wire -/

theorem mem_allWires (w : AckWire) (hc : w.isCanonical = true) : w ∈ AckWire.all := by
  cases w with
  | result b => cases b <;> simp [AckWire.all]
  | error b => cases b <;> simp [AckWire.all]
  | unset => simp [AckWire.all]
  | undecodable => simp [AckWire.all]
  | nonCanonical a m => simp [AckWire.isCanonical] at hc

/-- what `ackAgrees` says about one acknowledgement -/
theorem ackAgrees_at (cfg : Cfg) (hag : cfg.ackAgrees = true) (w : AckWire) (hc : w.isCanonical = true) (b : Bool)
    (ha : cfg.appRefunds w = some b) :
    cfg.ackAct w = if b then .refund else .after := by
  have := List.all_eq_true.1 hag w (mem_allWires w hc)
  rw [ha] at this
  cases b with
  | true => simpa using this
  | false => simpa using this

/-- when the two decisions agree, an acknowledgement on the wire is the transfer application's refund followed by the
refund hook, or the success clean-up -/
theorem settleAckState_agree (cfg : Cfg) (hag : cfg.ackAgrees = true) (hst : cfg.ackSteps = stdAckSteps) (s : State)
    (l : Ch) (seq : Seq) (p : Pkt) (w : AckWire) (hc : w.isCanonical = true) :
    settleAckState cfg s l seq p w =
      match cfg.appRefunds w with
      | none => none
      | some true => refundState cfg s l seq p true
      | some false => some { s with ctl := ackOkCtl { cfg with ackOkCallsAfter := true } s.ctl (l, seq) p } := by
  rw [settleAckState_std cfg s l seq p w hst]
  unfold settleAckStateStd
  simp only [hc, Bool.not_true, Bool.false_eq_true, ↓reduceIte]
  cases ha : cfg.appRefunds w with
  | none => rfl
  | some b =>
    have := ackAgrees_at cfg hag w hc b ha
    cases b with
    | true => simp only [this, ↓reduceIte, settleBy]
    | false => simp only [this, Bool.false_eq_true, ↓reduceIte, settleBy]

theorem cfg_after_eq (cfg : Cfg) (h : cfg.ackOkCallsAfter = true) : { cfg with ackOkCallsAfter := true } = cfg := by
  cases cfg
  simp only at h
  subst h
  rfl

/-- … and, when the canonical shapes are wired as they should, it IS the settlement at the mode it is classified as -/
theorem settleAckState_mode (cfg : Cfg) (hag : cfg.ackAgrees = true) (hst : cfg.ackSteps = stdAckSteps)
    (hA : cfg.ackOkCallsAfter = true)
    (hE : cfg.ackErrRefunds = true) (s : State) (l : Ch) (seq : Seq) (p : Pkt) (w : AckWire) (hc : w.isCanonical = true) :
    settleAckState cfg s l seq p w =
      match cfg.appRefunds w with
      | none => none
      | some b => settleState cfg s l seq p (if b then .ackErr else .ackOk) := by
  rw [settleAckState_agree cfg hag hst s l seq p w hc]
  cases ha : cfg.appRefunds w with
  | none => rfl
  | some b =>
    cases b with
    | true => simp [settleState, hE]
    | false => simp [settleState, cfg_after_eq cfg hA]

/-- the whole step: an acknowledgement on the wire that the codec accepts is the step of the mode it is classified as -/
theorem stepWith_ackw (cfg : Cfg) (hag : cfg.ackAgrees = true) (hst : cfg.ackSteps = stdAckSteps)
    (hA : cfg.ackOkCallsAfter = true)
    (hE : cfg.ackErrRefunds = true) (s : State) (l : Ch) (seq : Seq) (w : AckWire) (hc : w.isCanonical = true) (b : Bool)
    (ha : cfg.appRefunds w = some b) :
    stepWith cfg s (.ackw l seq w) = stepWith cfg s (.settle l seq (if b then .ackErr else .ackOk)) := by
  simp only [stepWith, settleW, settle]
  cases hl : lookup (l, seq) s.ctl.commits with
  | none => rfl
  | some p =>
    simp only
    rw [settleAckState_mode cfg hag hst hA hE s l seq p w hc, ha]

/-- bytes the codec rejects (or an acknowledgement no path of the application applies to): the callback fails, nothing
changes, the packet stays committed -/
theorem stepWith_ackw_undecodable (cfg : Cfg) (hst : cfg.ackSteps = stdAckSteps) (s : State) (l : Ch) (seq : Seq) (w : AckWire)
    (ha : cfg.appRefunds w = none ∨ w.isCanonical = false) :
    stepWith cfg s (.ackw l seq w) = (s, .stuck s.ctl.rel) ∨ stepWith cfg s (.ackw l seq w) = (s, .noop s.ctl.rel) := by
  simp only [stepWith, settleW]
  cases hl : lookup (l, seq) s.ctl.commits with
  | none => right; rfl
  | some p =>
    left
    have hstd := settleAckState_std cfg s l seq p w hst
    rcases ha with ha | ha <;> simp [hstd, settleAckStateStd, ha]

theorem settleW_inv (cfg : Cfg) (hs : Sound cfg) (s : State) (l : Ch) (seq : Seq) (w : AckWire) (h : Inv s.ctl) :
    Inv (settleW cfg s l seq w).1.ctl := by
  unfold settleW
  cases hl : lookup (l, seq) s.ctl.commits with
  | none => exact h
  | some p =>
    simp only
    cases hst : settleAckState cfg s l seq p w with
    | none => exact h
    | some s' =>
      simp only
      have hcan : w.isCanonical = true := by
        cases hcw : w.isCanonical with
        | true => rfl
        | false => rw [settleAckState_std cfg s l seq p w hs.ackSteps] at hst; simp [settleAckStateStd, hcw] at hst
      rw [settleAckState_agree cfg hs.ackAgrees hs.ackSteps s l seq p w hcan] at hst
      cases ha : cfg.appRefunds w with
      | none => rw [ha] at hst; cases hst
      | some b =>
        rw [ha] at hst
        cases b with
        | true => exact refundState_inv cfg hs s s' l seq p true h (lookup_mem hl) hst
        | false =>
          simp only [Option.some.injEq] at hst
          subst hst
          exact inv_ackOk { cfg with ackOkCallsAfter := true } hs.ackOkChan s.ctl _ p h (lookup_mem hl)

theorem step_inv (cfg : Cfg) (hs : Sound cfg) (s : State) (op : Op) (h : Inv s.ctl) :
    Inv (stepWith cfg s op).1.ctl := by
  cases op with
  | reset => exact inv_init
  | chan l r => exact ⟨h.fC, h.fR, h.fA, h.fE, h.fK, h.rNC, h.aNC, h.nodup, h.rNA, h.eData, h.eRel, h.rE⟩
  | vmeta l => exact ⟨h.fC, h.fR, h.fA, h.fE, h.fK, h.rNC, h.aNC, h.nodup, h.rNA, h.eData, h.eRel, h.rE⟩
  | migrate => exact ⟨h.fC, h.fR, h.fA, h.fE, h.fK, h.rNC, h.aNC, h.nodup, h.rNA, h.eData, h.eRel, h.rE⟩
  | toggle t l => simp only [stepWith]; split <;> exact h
  | pause => exact h
  | seqset l n =>
    simp only [stepWith]
    split
    · rename_i hlt
      refine inv_next_mono s.ctl _ h ?_
      intro ch
      rw [get_set]
      split
      · rename_i hc; subst hc; omega
      · exact Nat.le_refl _
    · exact h
  | fund a t l amt =>
    simp only [stepWith]
    split <;> exact h
  | recv l t k to amt m snd =>
    simp only [stepWith]
    split <;> exact h
  | send l sender t amt => exact doSend_inv cfg hs s l sender t amt true h
  | csend l sender t amt => exact doSend_inv cfg hs s l sender t amt false h
  | settle l seq mode => exact settle_inv cfg hs s l seq mode h
  | ackw l seq w => exact settleW_inv cfg hs s l seq w h
  | nop => exact h
  | bad => exact h

theorem run_inv (cfg : Cfg) (hs : Sound cfg) (ops : List Op) (s : State) (h : Inv s.ctl) :
    Inv (runWith cfg s ops).ctl := by
  induction ops generalizing s with
  | nil => exact h
  | cons op ops ih => exact ih _ (step_inv cfg hs s op h)

/-! ## relation removal and frame -/

theorem refund_rel (cfg : Cfg) (hsees : cfg.refundSees = true) (hch : cfg.refundChan = .src) (hseq : cfg.refundSeq = true)
    (hrep : cfg.deleteReports = true)
    (c : Ctl) (k : Ch × Seq) (p : Pkt) : (refundCtl cfg c k p).rel = dropRel c.rel k := by
  simp only [refundCtl, refundFound_src cfg hsees hch hseq hrep]
  by_cases hin : k ∈ c.rel
  · simp [hin, dropRelOpt]
  · simp [hin, dropRelOpt, dropRel_of_not_mem _ _ hin]

theorem ackOk_rel (cfg : Cfg) (hOk : cfg.ackOkRemoves = true) (hch : cfg.ackOkChan = .src) (hseq : cfg.ackOkSeq = true)
    (c : Ctl) (k : Ch × Seq) (p : Pkt) : (ackOkCtl cfg c k p).rel = dropRel c.rel k := by
  simp [ackOkCtl, hOk, hch, keyOf_src _ _ _ _ hseq, dropRelOpt]

/-- configuration facts under which every settlement removes exactly the record of the settled (channel, sequence) -/
structure Removes (cfg : Cfg) : Prop where
  ackOkRemoves : cfg.ackOkRemoves = true
  ackOkChan : cfg.ackOkChan = .src
  ackOkSeq : cfg.ackOkSeq = true
  ackErrRefunds : cfg.ackErrRefunds = true
  timeoutRefunds : cfg.timeoutRefunds = true
  refundSees : cfg.refundSees = true
  refundChan : cfg.refundChan = .src
  refundSeq : cfg.refundSeq = true
  deleteReports : cfg.deleteReports = true
  errPropagates : cfg.refundErrPropagates = true
  ackAgrees : cfg.ackAgrees = true
  ackSteps : cfg.ackSteps = stdAckSteps
  timeoutSteps : cfg.timeoutSteps = stdTimeoutSteps

theorem refundState_rel (cfg : Cfg) (hsees : cfg.refundSees = true) (hch : cfg.refundChan = .src)
    (hseq : cfg.refundSeq = true) (hrep : cfg.deleteReports = true) (hp : cfg.refundErrPropagates = true)
    (s s' : State) (l : Ch) (seq : Seq) (p : Pkt)
    (hr : refundState cfg s l seq p true = some s') : s'.ctl.rel = dropRel s.ctl.rel (l, seq) := by
  obtain ⟨_, _, _, _, hs'⟩ := refundState_true cfg hp s s' l seq p hr
  subst hs'
  exact refund_rel cfg hsees hch hseq hrep s.ctl _ p

/-- a processed settlement leaves the relation store as it was, minus the record of exactly that (channel, sequence) -/
theorem settleState_rel (cfg : Cfg) (hR : Removes cfg) (s s' : State) (l : Ch) (seq : Seq) (p : Pkt) (mode : Mode)
    (hr : settleState cfg s l seq p mode = some s') : s'.ctl.rel = dropRel s.ctl.rel (l, seq) := by
  rw [settleState_std cfg s l seq p hR.timeoutSteps] at hr
  cases mode with
  | ackOk =>
    simp only [settleStateStd, Option.some.injEq] at hr
    subst hr
    exact ackOk_rel cfg hR.ackOkRemoves hR.ackOkChan hR.ackOkSeq s.ctl _ p
  | ackErr =>
    simp only [settleStateStd, hR.ackErrRefunds] at hr
    exact refundState_rel cfg hR.refundSees hR.refundChan hR.refundSeq hR.deleteReports hR.errPropagates s s' l seq p hr
  | timeout =>
    simp only [settleStateStd, hR.timeoutRefunds] at hr
    exact refundState_rel cfg hR.refundSees hR.refundChan hR.refundSeq hR.deleteReports hR.errPropagates s s' l seq p hr

theorem settle_frame (cfg : Cfg) (hR : Removes cfg) (s : State) (l : Ch) (seq : Seq) (mode : Mode) :
    (stepWith cfg s (.settle l seq mode)).2.isDone →
      (stepWith cfg s (.settle l seq mode)).1.ctl.rel = dropRel s.ctl.rel (l, seq) := by
  simp only [stepWith, settle]
  cases hl : lookup (l, seq) s.ctl.commits with
  | none => intro hd; obtain ⟨_, _, _, _, _, _, _, hd⟩ := hd; cases hd
  | some p =>
    simp only
    cases hst : settleState cfg s l seq p mode with
    | none => intro hd; obtain ⟨_, _, _, _, _, _, _, hd⟩ := hd; cases hd
    | some s' => intro _; exact settleState_rel cfg hR s s' l seq p mode hst

theorem settle_removes (cfg : Cfg) (hR : Removes cfg) (s : State) (l : Ch) (seq : Seq) (mode : Mode) :
    (stepWith cfg s (.settle l seq mode)).2.isDone → (l, seq) ∉ (stepWith cfg s (.settle l seq mode)).1.ctl.rel := by
  intro hd
  rw [settle_frame cfg hR s l seq mode hd]
  exact not_mem_dropRel _ _

theorem settle_removes_failure (cfg : Cfg) (hE : cfg.ackErrRefunds = true)
    (hT : cfg.timeoutRefunds = true) (hS : cfg.refundSees = true) (hch : cfg.refundChan = .src)
    (hseq : cfg.refundSeq = true) (hrep : cfg.deleteReports = true) (hp : cfg.refundErrPropagates = true)
    (hts : cfg.timeoutSteps = stdTimeoutSteps)
    (s : State) (l : Ch) (seq : Seq) (mode : Mode) (hm : mode ≠ .ackOk) :
    (stepWith cfg s (.settle l seq mode)).2.isDone →
      (stepWith cfg s (.settle l seq mode)).1.ctl.rel = dropRel s.ctl.rel (l, seq) := by
  simp only [stepWith, settle]
  cases hl : lookup (l, seq) s.ctl.commits with
  | none => intro hd; obtain ⟨_, _, _, _, _, _, _, hd⟩ := hd; cases hd
  | some p =>
    simp only
    cases hst : settleState cfg s l seq p mode with
    | none => intro hd; obtain ⟨_, _, _, _, _, _, _, hd⟩ := hd; cases hd
    | some s' =>
      intro _
      rw [settleState_std cfg s l seq p hts] at hst
      cases mode with
      | ackOk => exact absurd rfl hm
      | ackErr =>
        simp only [settleStateStd, hE] at hst
        exact refundState_rel cfg hS hch hseq hrep hp s s' l seq p hst
      | timeout =>
        simp only [settleStateStd, hT] at hst
        exact refundState_rel cfg hS hch hseq hrep hp s s' l seq p hst

/-- whenever the success branch deletes under another prefix than the one the record is written under, a success ack
leaves the relation store exactly as it was -/
theorem settle_ackOk_keeps (cfg : Cfg) (hne : cfg.ackDelPrefix ≠ cfg.setPrefix) (s : State) (l : Ch) (seq : Seq) :
    (stepWith cfg s (.settle l seq .ackOk)).1.ctl.rel = s.ctl.rel := by
  simp only [stepWith, settle]
  cases hl : lookup (l, seq) s.ctl.commits with
  | none => rfl
  | some p =>
    have : cfg.ackOkRemoves = false := by simp [Cfg.ackOkRemoves, hne]
    simp [settleState, ackOkCtl, this]

theorem lookup_dropCommit (cs : List ((Ch × Seq) × Pkt)) (k : Ch × Seq) : lookup k (dropCommit cs k) = none := by
  induction cs with
  | nil => rfl
  | cons c r ih =>
    obtain ⟨k', q⟩ := c
    unfold dropCommit at ih ⊢
    rw [List.filter_cons]
    by_cases hk : k' = k
    · have hd : decide (((k', q) : (Ch × Seq) × Pkt).1 ≠ k) = false := by simp [hk]
      rw [hd]
      simp only [Bool.false_eq_true, ↓reduceIte]
      exact ih
    · have hd : decide (((k', q) : (Ch × Seq) × Pkt).1 ≠ k) = true := by simp [hk]
      rw [hd]
      simp only [↓reduceIte, lookup, hk]
      exact ih

theorem refundState_commits (cfg : Cfg) (s s' : State) (l : Ch) (seq : Seq) (p : Pkt) (b : Bool)
    (hr : refundState cfg s l seq p b = some s') : s'.ctl.commits = dropCommit s.ctl.commits (l, seq) := by
  cases b with
  | true =>
    obtain ⟨_, _, h | h⟩ := refundState_cases cfg s s' l seq p hr
    · obtain ⟨_, _, hs'⟩ := h; subst hs'; rfl
    · obtain ⟨_, _, hs'⟩ := h; subst hs'; rfl
  | false =>
    obtain ⟨_, _, hs'⟩ := refundState_false cfg s s' l seq p hr
    subst hs'; rfl

theorem ackCtlOf_commits (cfg : Cfg) (c : Ctl) (k : Ch × Seq) (p : Pkt) (ar : Bool) (act : HookAct) (ok : Bool) :
    (ackCtlOf cfg c k p ar act ok).commits = dropCommit c.commits k := by
  cases ar <;> cases act <;> cases ok <;> simp [ackCtlOf, refundCtl, ackOkCtl]

/-- whatever the step list: a run of a middleware callback that reaches its end has dropped the packet's commitment -/
theorem runMw_commits (cfg : Cfg) (s s' : State) (l : Ch) (seq : Seq) (p : Pkt) (i : MwIn) (steps : List (String × String))
    (hr : runMw cfg s l seq p i steps = some s') : s'.ctl.commits = dropCommit s.ctl.commits (l, seq) := by
  unfold runMw at hr
  cases hf : mwFold cfg s.ctl l seq p i steps { bal := s.bal } with
  | none => simp [hf] at hr
  | some r =>
    simp only [hf, Option.map_some, Option.some.injEq] at hr
    subst hr
    exact ackCtlOf_commits _ _ _ _ _ _ _

theorem settleState_commits (cfg : Cfg) (s s' : State) (l : Ch) (seq : Seq) (p : Pkt) (mode : Mode)
    (hr : settleState cfg s l seq p mode = some s') : s'.ctl.commits = dropCommit s.ctl.commits (l, seq) := by
  cases mode with
  | ackOk => simp only [settleState, Option.some.injEq] at hr; subst hr; rfl
  | ackErr => exact refundState_commits cfg s s' l seq p _ hr
  | timeout => exact runMw_commits cfg s s' l seq p _ _ hr

/-- a settlement that was processed (or found nothing to process) is final: every later acknowledgement or timeout of
the same (channel, sequence) is a no-op.  (A settlement whose callback failed was rolled back and can be retried.) -/
theorem settle_twice (cfg : Cfg) (s : State) (l : Ch) (seq : Seq) (mode mode' : Mode)
    (hns : ¬ (stepWith cfg s (.settle l seq mode)).2.isStuck) :
    stepWith cfg (stepWith cfg s (.settle l seq mode)).1 (.settle l seq mode') =
      ((stepWith cfg s (.settle l seq mode)).1, .noop (stepWith cfg s (.settle l seq mode)).1.ctl.rel) := by
  simp only [stepWith] at hns ⊢
  cases hl : lookup (l, seq) s.ctl.commits with
  | none =>
    have h1 : settle cfg s l seq mode = (s, .noop s.ctl.rel) := by simp [settle, hl]
    rw [h1]
    simp [settle, hl]
  | some p =>
    cases hst : settleState cfg s l seq p mode with
    | none =>
      exfalso; apply hns
      simp only [settle, hl, hst]
      exact ⟨_, rfl⟩
    | some s' =>
      have h1 : (settle cfg s l seq mode).1 = s' := by simp [settle, hl, hst]
      rw [h1]
      have h2 : lookup (l, seq) s'.ctl.commits = none := by
        rw [settleState_commits cfg s s' l seq p mode hst]; exact lookup_dropCommit _ _
      simp [settle, h2]

/-! ## the refund of an EVM-originated transfer of the aliased token, at balance level -/

/-- transfer application re-mints the voucher, `IBCCoinToBaseCoin` turns it into the base coin (alias resolved),
`IbcRefund` converts the base coin to ERC-20 for the sender -/
theorem refund_A_bal (cfg : Cfg) (vmeta : List Ch) (b : Bal) (l : Ch) (p : Pkt) (hA : p.tok = .A)
    (hres : resolve cfg vmeta false (.vA l) = .base) (hTo : cfg.refundToSender = true)
    (hon : b.paused = false ∧ b.off.contains ETok.base = false) :
    ∃ b1 b', refundApp b l p = some b1 ∧ refundHook cfg vmeta b1 l p true = some b' ∧
      sget b'.erc (p.sender, ETok.base) = sget b.erc (p.sender, ETok.base) + p.amt ∧
      (∀ k, k ≠ (p.sender, ETok.base) → sget b'.erc k = sget b.erc k) ∧
      (p.sender ≠ transferMod → p.sender ≠ erc20Mod → ∀ d, sget b'.bank (p.sender, d) = sget b.bank (p.sender, d)) ∧
      b'.marker = b.marker ∧ b'.caller = b.caller := by
  refine ⟨b.mint p.sender (.vA l) p.amt, ?_⟩
  have h1 : refundApp b l p = some (b.mint p.sender (.vA l) p.amt) := by
    simp [refundApp, hA, returning, bankDenom]
  have hlt : ¬ sget (b.mint p.sender (.vA l) p.amt).bank (p.sender, Denom.vA l) < p.amt := by
    simp [Bal.mint, get_add]
  have h2 : toBaseCoin (b.mint p.sender (.vA l) p.amt) (.vA l) .base p.sender p.amt =
      some ({ (b.mint p.sender (.vA l) p.amt) with
                bank := sadd (sadd (ssub (b.mint p.sender (.vA l) p.amt).bank (p.sender, .vA l) p.amt)
                  (transferMod, .vA l) p.amt) (p.sender, .base) p.amt }, .base) := by
    simp only [toBaseCoin, Denom.isIbc, Bool.not_true, Bool.false_eq_true, ↓reduceIte, hlt]
  have hp1 : (b.mint p.sender (.vA l) p.amt).paused = false := hon.1
  have hp2 : (b.mint p.sender (.vA l) p.amt).off.contains ETok.base = false := hon.2
  simp only [refundHook, hA, bankDenom, hres, h2, ↓reduceIte, hTo, convertCoin, pairOf, hp1, hp2, Bool.or_self,
    Bool.false_eq_true]
  have hlt2 : ¬ sget (sadd (sadd (ssub (b.mint p.sender (.vA l) p.amt).bank (p.sender, .vA l) p.amt)
      (transferMod, .vA l) p.amt) (p.sender, .base) p.amt) (p.sender, Denom.base) < p.amt := by
    simp [get_add]
  simp only [hlt2, ↓reduceIte]
  refine ⟨_, h1, rfl, ?_, ?_, ?_, rfl, rfl⟩
  · simp [Bal.mint, get_add]
  · intro k hk
    simp only [Bal.mint, get_add]
    simp [Ne.symm hk]
  · intro hn1 hn2 d
    have e1 : ¬ (transferMod = p.sender) := fun e => hn1 e.symm
    have e2 : ¬ (erc20Mod = p.sender) := fun e => hn2 e.symm
    simp only [Bal.mint, get_add, get_sub, Prod.mk.injEq, e1, e2, false_and, true_and, ↓reduceIte]
    by_cases hd1 : Denom.base = d
    · subst hd1; simp
    · by_cases hd2 : Denom.vA l = d
      · subst hd2; simp
      · simp [hd1, hd2]

/-- an error ack / timeout of an in-flight EVM-originated transfer of the aliased token pays the ERC-20 back -/
theorem settle_refund_credits (cfg : Cfg) (hs : Sound cfg) (hE : cfg.ackErrRefunds = true) (hT : cfg.timeoutRefunds = true)
    (hTo : cfg.refundToSender = true)
    (s : State) (e : SentRec) (mode : Mode) (hm : mode ≠ .ackOk) (h : Inv s.ctl)
    (he : e ∈ s.ctl.evmSent) (hB : e.tok = .A) (hc : ∃ x ∈ s.ctl.commits, x.1 = e.key)
    (hmeta : cfg.aliasFirst = true ∨ e.ch ∉ s.ctl.vmeta)
    (hon : s.bal.paused = false ∧ s.bal.off.contains ETok.base = false) :
    (stepWith cfg s (.settle e.ch e.seq mode)).2.isDone ∧
    sget (stepWith cfg s (.settle e.ch e.seq mode)).1.bal.erc (e.sender, ETok.base) = sget s.bal.erc (e.sender, ETok.base) + e.amt ∧
    (∀ k, k ≠ (e.sender, ETok.base) → sget (stepWith cfg s (.settle e.ch e.seq mode)).1.bal.erc k = sget s.bal.erc k) ∧
    (e.sender ≠ transferMod → e.sender ≠ erc20Mod →
      ∀ d, sget (stepWith cfg s (.settle e.ch e.seq mode)).1.bal.bank (e.sender, d) = sget s.bal.bank (e.sender, d)) ∧
    (stepWith cfg s (.settle e.ch e.seq mode)).1.ctl.refundLog = ⟨e.ch, e.seq, e.sender, .A, e.amt, true⟩ :: s.ctl.refundLog ∧
    (stepWith cfg s (.settle e.ch e.seq mode)).1.ctl.rel = dropRel s.ctl.rel (e.ch, e.seq) := by
  obtain ⟨x, hx, hxk⟩ := hc
  -- the lookup finds a commitment, and it carries the transfer's data
  obtain ⟨p, hl⟩ : ∃ p, lookup (e.ch, e.seq) s.ctl.commits = some p := by
    cases hl : lookup (e.ch, e.seq) s.ctl.commits with
    | none => exact absurd hxk (lookup_none_not_mem hl x hx)
    | some p => exact ⟨p, rfl⟩
  obtain ⟨hp1, hp2, hp3, _⟩ := h.eData e he _ (lookup_mem hl) rfl
  simp only at hp1 hp2 hp3
  have hpA : p.tok = .A := by rw [hp2, hB]
  have hin : (e.ch, e.seq) ∈ s.ctl.rel := h.eRel e he hB ⟨x, hx, hxk⟩
  have hfound := refundFound_src cfg hs.refundSees hs.refundChan hs.refundSeq hs.deleteReports s.ctl (e.ch, e.seq) p
  have hform : refundForm cfg s.ctl (e.ch, e.seq) p = true := by
    simp [refundForm, hfound, hin, hs.refundConverts]
  have hres : resolve cfg s.ctl.vmeta false (.vA e.ch) = .base := by
    rcases hmeta with hmeta | hmeta
    · simp [resolve, hmeta]
    · simp [resolve, hmeta]
  obtain ⟨b1, b', hb1, hb', hc1, hc2, hc3, _, _⟩ := refund_A_bal cfg s.ctl.vmeta s.bal e.ch p hpA hres hTo hon
  have hst : settleState cfg s e.ch e.seq p mode = some { bal := b', ctl := refundCtl cfg s.ctl (e.ch, e.seq) p } := by
    cases mode with
    | ackOk => exact absurd rfl hm
    | ackErr => simp [settleState, hE, refundState, hb1, hform, hb']
    | timeout => simp [settleState_std cfg _ _ _ _ hs.timeoutSteps, settleStateStd, hT, refundState, hb1, hform, hb']
  have hstep : stepWith cfg s (.settle e.ch e.seq mode) =
      ({ bal := b', ctl := refundCtl cfg s.ctl (e.ch, e.seq) p },
        doneOut { bal := b', ctl := refundCtl cfg s.ctl (e.ch, e.seq) p } e.ch p) := by
    simp [stepWith, settle, hl, hst]
  rw [hstep]
  refine ⟨⟨_, _, _, _, _, _, _, rfl⟩, ?_, ?_, ?_, ?_, ?_⟩
  · rw [← hp1, ← hp3]; exact hc1
  · intro k hk; rw [← hp1] at hk; exact hc2 k hk
  · intro hn1 hn2 d; rw [← hp1] at hn1 hn2 ⊢; exact hc3 hn1 hn2 d
  · simp [refundCtl, hform, hp1, hpA, hp3]
  · exact refund_rel cfg hs.refundSees hs.refundChan hs.refundSeq hs.deleteReports s.ctl _ p

/-- with bank metadata on the aliased voucher (and no alias-first resolution) the refund callback of an in-flight
EVM-originated transfer of the aliased token FAILS: the relayer's transaction is rolled back, nothing is refunded -/
theorem settle_refund_stuck (cfg : Cfg) (hs : Sound cfg) (hE : cfg.ackErrRefunds = true) (hT : cfg.timeoutRefunds = true)
    (s : State) (e : SentRec) (mode : Mode) (hm : mode ≠ .ackOk) (h : Inv s.ctl)
    (he : e ∈ s.ctl.evmSent) (hB : e.tok = .A) (hc : ∃ x ∈ s.ctl.commits, x.1 = e.key)
    (hmeta : cfg.aliasFirst = false ∧ e.ch ∈ s.ctl.vmeta) :
    stepWith cfg s (.settle e.ch e.seq mode) = (s, .stuck s.ctl.rel) := by
  obtain ⟨x, hx, hxk⟩ := hc
  obtain ⟨p, hl⟩ : ∃ p, lookup (e.ch, e.seq) s.ctl.commits = some p := by
    cases hl : lookup (e.ch, e.seq) s.ctl.commits with
    | none => exact absurd hxk (lookup_none_not_mem hl x hx)
    | some p => exact ⟨p, rfl⟩
  obtain ⟨hp1, hp2, hp3, _⟩ := h.eData e he _ (lookup_mem hl) rfl
  simp only at hp2
  have hpA : p.tok = .A := by rw [hp2, hB]
  have hin : (e.ch, e.seq) ∈ s.ctl.rel := h.eRel e he hB ⟨x, hx, hxk⟩
  have hfound := refundFound_src cfg hs.refundSees hs.refundChan hs.refundSeq hs.deleteReports s.ctl (e.ch, e.seq) p
  have hform : refundForm cfg s.ctl (e.ch, e.seq) p = true := by
    simp [refundForm, hfound, hin, hs.refundConverts]
  have hres : resolve cfg s.ctl.vmeta false (.vA e.ch) = .vA e.ch := by
    simp [resolve, hmeta.1, hmeta.2]
  have hlt : ¬ sget (s.bal.mint p.sender (.vA e.ch) p.amt).bank (p.sender, Denom.vA e.ch) < p.amt := by
    simp [Bal.mint, get_add]
  have hrs : refundState cfg s e.ch e.seq p true = none := by
    simp [refundState, refundApp, hpA, returning, bankDenom, refundHook, hres, toBaseCoin, Denom.isIbc, hlt, hform,
      convertCoin, pairOf, hs.errPropagates]
  have hst : settleState cfg s e.ch e.seq p mode = none := by
    cases mode with
    | ackOk => exact absurd rfl hm
    | ackErr => simp [settleState, hE, hrs]
    | timeout => simp [settleState_std cfg _ _ _ _ hs.timeoutSteps, settleStateStd, hT, hrs]
  simp [stepWith, settle, hl, hst]

/-- while the conversion of the aliased token's pair is toggled off (or the erc20 module is disabled) the refund callback
of an in-flight EVM-originated transfer fails: the relayer's transaction is rolled back, the packet stays committed and
can be retried -/
theorem settle_refund_disabled (cfg : Cfg) (hs : Sound cfg) (hE : cfg.ackErrRefunds = true) (hT : cfg.timeoutRefunds = true)
    (s : State) (e : SentRec) (mode : Mode) (hm : mode ≠ .ackOk) (h : Inv s.ctl)
    (he : e ∈ s.ctl.evmSent) (hB : e.tok = .A) (hc : ∃ x ∈ s.ctl.commits, x.1 = e.key)
    (hmeta : cfg.aliasFirst = true ∨ e.ch ∉ s.ctl.vmeta)
    (hoff : s.bal.paused = true ∨ s.bal.off.contains ETok.base = true) :
    stepWith cfg s (.settle e.ch e.seq mode) = (s, .stuck s.ctl.rel) := by
  obtain ⟨x, hx, hxk⟩ := hc
  obtain ⟨p, hl⟩ : ∃ p, lookup (e.ch, e.seq) s.ctl.commits = some p := by
    cases hl : lookup (e.ch, e.seq) s.ctl.commits with
    | none => exact absurd hxk (lookup_none_not_mem hl x hx)
    | some p => exact ⟨p, rfl⟩
  obtain ⟨_, hp2, _, _⟩ := h.eData e he _ (lookup_mem hl) rfl
  simp only at hp2
  have hpA : p.tok = .A := by rw [hp2, hB]
  have hin : (e.ch, e.seq) ∈ s.ctl.rel := h.eRel e he hB ⟨x, hx, hxk⟩
  have hfound := refundFound_src cfg hs.refundSees hs.refundChan hs.refundSeq hs.deleteReports s.ctl (e.ch, e.seq) p
  have hform : refundForm cfg s.ctl (e.ch, e.seq) p = true := by
    simp [refundForm, hfound, hin, hs.refundConverts]
  have hres : resolve cfg s.ctl.vmeta false (.vA e.ch) = .base := by
    rcases hmeta with hmeta | hmeta <;> simp [resolve, hmeta]
  have hlt : ¬ sget (s.bal.mint p.sender (.vA e.ch) p.amt).bank (p.sender, Denom.vA e.ch) < p.amt := by
    simp [Bal.mint, get_add]
  have hoff' : ((s.bal.mint p.sender (.vA e.ch) p.amt).paused || (s.bal.mint p.sender (.vA e.ch) p.amt).off.contains ETok.base) = true := by
    show (s.bal.paused || s.bal.off.contains ETok.base) = true
    rcases hoff with h1 | h1
    · rw [h1]; rfl
    · rw [h1]; exact Bool.or_true _
  have hrs : refundState cfg s e.ch e.seq p true = none := by
    simp only [refundState, refundApp, hpA, returning, bankDenom, Bool.false_eq_true, ↓reduceIte, refundHook, hres,
      toBaseCoin, Denom.isIbc, Bool.not_true, hlt, hform, convertCoin, pairOf, hoff', hs.errPropagates]
  have hst : settleState cfg s e.ch e.seq p mode = none := by
    cases mode with
    | ackOk => exact absurd rfl hm
    | ackErr => simp [settleState, hE, hrs]
    | timeout => simp [settleState_std cfg _ _ _ _ hs.timeoutSteps, settleStateStd, hT, hrs]
  simp [stepWith, settle, hl, hst]

/-! ## receive -/

/-- `IntermediateSender` hands no address through: every memo call runs as the derived account -/
theorem memoCaller_derived (cfg : Cfg) (hx : cfg.memoPassHex = false) (hb : cfg.memoPassBech = false) (src dst : Ch)
    (snd : Nat) : memoCaller cfg src dst snd = .derived (cfg.memoChan.pick src dst) (if cfg.memoSender then snd else 0) := by
  unfold memoCaller
  cases sndOf snd <;> simp [hx, hb]

theorem memoStep_bal (cfg : Cfg) (hx : cfg.memoPassHex = false) (hb : cfg.memoPassBech = false) (b : Bal) (src dst : Ch)
    (m : Memo) (snd : Nat) :
    (memoStep cfg b src dst m snd).1.bank = b.bank ∧ (memoStep cfg b src dst m snd).1.erc = b.erc ∧
    (memoStep cfg b src dst m snd).1.off = b.off ∧ (memoStep cfg b src dst m snd).1.paused = b.paused := by
  cases m <;> simp [memoStep, memoCaller_derived cfg hx hb]

theorem memoStep_ok (cfg : Cfg) (hx : cfg.memoPassHex = false) (hb : cfg.memoPassBech = false) (b : Bal) (src dst : Ch)
    (m : Memo) (snd : Nat) :
    (memoStep cfg b src dst m snd).2 = true ↔ m ≠ .callrev ∧ m ≠ .callpay := by
  cases m <;> simp [memoStep, memoCaller_derived cfg hx hb]

/-! ### the denomination the middleware recomputes -/

/-- every bank denomination of the model is recovered from its trace -/
theorem ofR_traceOf (src : Ch) (d : Denom) : Denom.ofR (traceOf src d) = some d := by
  cases d <;> simp (config := { decide := true }) [traceOf, Denom.ofR]

/-- the transfer application credits a packet of class `t` in the denomination `bankDenom t l` -/
theorem appDenom_pkt (src l : Ch) (t : Tok) : appDenom src l (pktDenom t src) = traceOf src (bankDenom t l) := by
  cases t <;> simp [appDenom, pktDenom, traceOf, bankDenom, stripHop]

/-- the program of the unchanged tree answers, for EVERY denomination path (any number of hops, any base name) on any
channel, exactly the denomination the transfer application credits -/
theorem hookDenom_std (src dst : Ch) (pd : PDenom) : hookDenom stdParseProg src dst pd = appDenom src dst pd := by
  unfold hookDenom stdParseProg appDenom
  by_cases h : pd.hops.head? = some src
  · simp (config := { decide := true }) [List.find?, evalPCond, evalPRes, chanSelOf, ChanSel.pick, h]
  · have hb : (pd.hops.head? == some src) = false := by simpa using h
    simp (config := { decide := true }) [List.find?, evalPCond, evalPRes, chanSelOf, ChanSel.pick, h, hb]

theorem hookSees_ok (cfg : Cfg) (h : ∀ src dst pd, hookDenom cfg.parseProg src dst pd = appDenom src dst pd) (src l : Ch) (t : Tok) :
    hookSees cfg src l t = some (bankDenom t l) := by
  unfold hookSees
  rw [h, appDenom_pkt, ofR_traceOf]

/-- what the receive needs from the configuration -/
structure RecvOk (cfg : Cfg) : Prop where
  discards : cfg.recvDiscards = true
  order : cfg.recvOrder = true
  guard : ∀ d, evalGuard cfg.recvGuard d = (d != Denom.fx)
  requiresHex : cfg.recvRequiresHex = true
  converts : cfg.recvConverts = true
  memoAfter : cfg.recvMemoAfter = true
  retChan : cfg.recvRetChan = .src
  noPassHex : cfg.memoPassHex = false
  noPassBech : cfg.memoPassBech = false
  /-- `parseIBCCoinDenom` answers, for every denomination path on every channel, what the transfer application credits -/
  parse : ∀ src dst pd, hookDenom cfg.parseProg src dst pd = appDenom src dst pd

theorem convStepD_bank (cfg : Cfg) (vmeta : List Ch) (b : Bal) (l : Ch) (t : Tok) (k : RKind) (to : Addr) (amt : Nat) :
    convStepD cfg vmeta b (bankDenom t l) k to amt = convStep cfg vmeta b l t k to amt := rfl

/-- a successful receive went through the transfer application, a successful conversion block and a non-reverting memo
block, in this order -/
theorem recvBal_ok (cfg : Cfg) (hc : RecvOk cfg) (vmeta : List Ch) (b : Bal) (src l : Ch) (t : Tok) (k : RKind) (to : Addr)
    (amt : Nat) (m : Memo) (snd : Nat) (h : (recvBal cfg vmeta b src l t k to amt m snd).2 = true) :
    k ≠ .bad ∧ ∃ b1 b2, recvApp b l t to amt = some b1 ∧ convStep cfg vmeta b1 l t k to amt = (b2, true) ∧ m ≠ .callrev ∧
      (recvBal cfg vmeta b src l t k to amt m snd).1 = (memoStep cfg b2 src l m snd).1 := by
  unfold recvBal at h ⊢
  by_cases hk : k = .bad
  · simp [hk] at h
  refine ⟨hk, ?_⟩
  simp only [hk, ↓reduceIte] at h ⊢
  cases ha : recvApp b l t to amt with
  | none => simp [ha] at h
  | some b1 =>
    simp only [ha, hc.order, Bool.not_true, Bool.false_eq_true, ↓reduceIte] at h ⊢
    have hret : (returning t && !(cfg.recvRetChan.pick src l == some src)) = false := by
      simp [hc.retChan, ChanSel.pick]
    simp only [recvHook, hret, Bool.false_eq_true, ↓reduceIte, hc.memoAfter, hookSees_ok cfg hc.parse, convStepD_bank] at h ⊢
    cases hcv : convStep cfg vmeta b1 l t k to amt with
    | mk b2 ok =>
      cases ok with
      | false => simp [hcv, hc.discards] at h
      | true =>
        simp only [hcv, Bool.not_true, Bool.false_eq_true, ↓reduceIte] at h ⊢
        cases hm : memoStep cfg b2 src l m snd with
        | mk b3 ok3 =>
          cases ok3 with
          | false => simp [hm, hc.discards] at h
          | true =>
            refine ⟨b1, b2, rfl, hcv, ?_, ?_⟩
            · exact ((memoStep_ok cfg hc.noPassHex hc.noPassBech b2 src l m snd).1 (by rw [hm])).1
            · simp [hm]

theorem recvApp_pos {b b1 : Bal} {l : Ch} {t : Tok} {to : Addr} {amt : Nat} (h : recvApp b l t to amt = some b1) : 0 < amt := by
  unfold recvApp at h
  by_cases h0 : amt = 0
  · simp [h0] at h
  · exact Nat.pos_of_ne_zero h0

/-- conversion block for a hex receiver under the guard `denom != FX` -/
theorem convStep_F (cfg : Cfg) (hc : RecvOk cfg) (vmeta : List Ch) (b : Bal) (l : Ch) (k : RKind) (to : Addr) (amt : Nat) :
    convStep cfg vmeta b l .F k to amt = (b, true) := by
  simp [convStep, bankDenom, hc.guard]

theorem convStep_nonhex (cfg : Cfg) (hc : RecvOk cfg) (vmeta : List Ch) (b : Bal) (l : Ch) (t : Tok) (k : RKind) (to : Addr)
    (amt : Nat) (ht : t ≠ .F) (hk : k ≠ .hex) : (convStep cfg vmeta b l t k to amt).2 = false := by
  have hd : (bankDenom t l != Denom.fx) = true := by cases t <;> simp_all [bankDenom]
  simp [convStep, hc.guard, hd, hc.requiresHex, hk]

/-- a successful conversion of a non-FX coin for a hex receiver: the token has an ERC-20 contract, exactly `amt` is
minted there, and the bank side is: coin moved from the receiver to the module accounts -/
theorem convStep_hex_ok (cfg : Cfg) (hc : RecvOk cfg) (vmeta : List Ch) (b b2 : Bal) (l : Ch) (t : Tok) (to : Addr) (amt : Nat)
    (ht : t ≠ .F) (h : convStep cfg vmeta b l t .hex to amt = (b2, true)) :
    ∃ et, ercTokOf t l = some et ∧ t ≠ .U ∧ t ≠ .X ∧ t ≠ .Y ∧ (t = .A → cfg.aliasFirst = true) ∧
      b2.erc = sadd b.erc (to, et) amt ∧ b2.marker = b.marker ∧ b2.caller = b.caller ∧
      amt ≤ sget b.bank (to, bankDenom t l) ∧
      (∀ a d, d ≠ bankDenom t l → (t = .A → d ≠ .base) → sget b2.bank (a, d) = sget b.bank (a, d)) ∧
      (to ≠ transferMod → to ≠ erc20Mod → ∀ d, d ≠ bankDenom t l → sget b2.bank (to, d) = sget b.bank (to, d)) ∧
      (to ≠ transferMod → to ≠ erc20Mod → sget b2.bank (to, bankDenom t l) = sget b.bank (to, bankDenom t l) - amt) := by
  have hd : (bankDenom t l != Denom.fx) = true := by cases t <;> simp_all [bankDenom]
  simp only [convStep, hc.guard, hd, ↓reduceIte, hc.requiresHex, bne_self_eq_false, Bool.and_false, Bool.false_eq_true,
    hc.converts, Bool.not_true] at h
  cases t with
  | F => exact absurd rfl ht
  | N =>
    simp only [bankDenom, toBaseCoin, Denom.isIbc, Bool.not_false, ↓reduceIte, convertCoin, pairOf] at h
    by_cases hoff : (b.paused || b.off.contains ETok.nat) = true
    · simp only [hoff, ↓reduceIte] at h; simp at h
    by_cases hlt : sget b.bank (to, Denom.nat) < amt
    · simp only [hoff, Bool.false_eq_true, hlt, ↓reduceIte] at h; simp at h
    · simp only [hoff, Bool.false_eq_true, hlt, ↓reduceIte, Prod.mk.injEq] at h
      obtain ⟨h, _⟩ := h
      subst h
      refine ⟨.nat, rfl, by simp, by simp, by simp, by simp, rfl, rfl, rfl, Nat.le_of_not_lt hlt, ?_, ?_, ?_⟩
      · intro a d hd1 _
        simp only [bankDenom] at hd1
        simp [get_add, get_sub, Ne.symm hd1]
      · intro _ _ d hd1
        simp only [bankDenom] at hd1
        simp [get_add, get_sub, Ne.symm hd1]
      · intro _ hn2
        have e2 : ¬ (erc20Mod = to) := fun e => hn2 e.symm
        simp [bankDenom, get_add, get_sub, e2]
  | U =>
    simp [bankDenom, toBaseCoin, Denom.isIbc, convertCoin, pairOf] at h
  | X =>
    simp only [bankDenom, toBaseCoin, Denom.isIbc, Bool.not_true, Bool.false_eq_true, ↓reduceIte, resolve] at h
    by_cases hlt : sget b.bank (to, Denom.vX l) < amt
    · simp [hlt] at h
    · simp [hlt, convertCoin, pairOf] at h
  | V =>
    simp only [bankDenom, toBaseCoin, Denom.isIbc, Bool.not_true, Bool.false_eq_true, ↓reduceIte, resolve] at h
    by_cases hlt : sget b.bank (to, Denom.vV l) < amt
    · simp [hlt] at h
    · simp only [hlt, ↓reduceIte, convertCoin, pairOf] at h
      by_cases hoff : (b.paused || b.off.contains (ETok.v l)) = true
      · simp only [hoff, ↓reduceIte] at h; simp at h
      have hlt2 : ¬ sget (sadd (sadd (ssub b.bank (to, Denom.vV l) amt) (transferMod, Denom.vV l) amt) (to, Denom.vV l) amt)
          (to, Denom.vV l) < amt := by simp [get_add]
      simp only [hoff, Bool.false_eq_true, hlt2, ↓reduceIte, Prod.mk.injEq] at h
      obtain ⟨h, _⟩ := h
      subst h
      refine ⟨.v l, rfl, by simp, by simp, by simp, by simp, rfl, rfl, rfl, Nat.le_of_not_lt hlt, ?_, ?_, ?_⟩
      · intro a d hd1 _
        simp only [bankDenom] at hd1
        simp [get_add, get_sub, Ne.symm hd1]
      · intro _ _ d hd1
        simp only [bankDenom] at hd1
        simp [get_add, get_sub, Ne.symm hd1]
      · intro hn1 hn2
        have e1 : ¬ (transferMod = to) := fun e => hn1 e.symm
        have e2 : ¬ (erc20Mod = to) := fun e => hn2 e.symm
        have hle := Nat.le_of_not_lt hlt
        simp only [bankDenom, get_add, get_sub, Prod.mk.injEq, e1, e2, and_true, ↓reduceIte]
        omega
  | W =>
    simp only [bankDenom, toBaseCoin, Denom.isIbc, Bool.not_true, Bool.false_eq_true, ↓reduceIte, resolve] at h
    by_cases hlt : sget b.bank (to, Denom.vW l) < amt
    · simp [hlt] at h
    · simp only [hlt, ↓reduceIte, convertCoin, pairOf] at h
      by_cases hoff : (b.paused || b.off.contains (ETok.w l)) = true
      · simp only [hoff, ↓reduceIte] at h; simp at h
      have hlt2 : ¬ sget (sadd (sadd (ssub b.bank (to, Denom.vW l) amt) (transferMod, Denom.vW l) amt) (to, Denom.vW l) amt)
          (to, Denom.vW l) < amt := by simp [get_add]
      simp only [hoff, Bool.false_eq_true, hlt2, ↓reduceIte, Prod.mk.injEq] at h
      obtain ⟨h, _⟩ := h
      subst h
      refine ⟨.w l, rfl, by simp, by simp, by simp, by simp, rfl, rfl, rfl, Nat.le_of_not_lt hlt, ?_, ?_, ?_⟩
      · intro a d hd1 _
        simp only [bankDenom] at hd1
        simp [get_add, get_sub, Ne.symm hd1]
      · intro _ _ d hd1
        simp only [bankDenom] at hd1
        simp [get_add, get_sub, Ne.symm hd1]
      · intro hn1 hn2
        have e1 : ¬ (transferMod = to) := fun e => hn1 e.symm
        have e2 : ¬ (erc20Mod = to) := fun e => hn2 e.symm
        have hle := Nat.le_of_not_lt hlt
        simp only [bankDenom, get_add, get_sub, Prod.mk.injEq, e1, e2, and_true, ↓reduceIte]
        omega
  | Z =>
    simp only [bankDenom, toBaseCoin, Denom.isIbc, Bool.not_true, Bool.false_eq_true, ↓reduceIte, resolve] at h
    by_cases hlt : sget b.bank (to, Denom.vZ l) < amt
    · simp [hlt] at h
    · simp only [hlt, ↓reduceIte, convertCoin, pairOf] at h
      by_cases hoff : (b.paused || b.off.contains (ETok.z l)) = true
      · simp only [hoff, ↓reduceIte] at h; simp at h
      have hlt2 : ¬ sget (sadd (sadd (ssub b.bank (to, Denom.vZ l) amt) (transferMod, Denom.vZ l) amt) (to, Denom.vZ l) amt)
          (to, Denom.vZ l) < amt := by simp [get_add]
      simp only [hoff, Bool.false_eq_true, hlt2, ↓reduceIte, Prod.mk.injEq] at h
      obtain ⟨h, _⟩ := h
      subst h
      refine ⟨.z l, rfl, by simp, by simp, by simp, by simp, rfl, rfl, rfl, Nat.le_of_not_lt hlt, ?_, ?_, ?_⟩
      · intro a d hd1 _
        simp only [bankDenom] at hd1
        simp [get_add, get_sub, Ne.symm hd1]
      · intro _ _ d hd1
        simp only [bankDenom] at hd1
        simp [get_add, get_sub, Ne.symm hd1]
      · intro hn1 hn2
        have e1 : ¬ (transferMod = to) := fun e => hn1 e.symm
        have e2 : ¬ (erc20Mod = to) := fun e => hn2 e.symm
        have hle := Nat.le_of_not_lt hlt
        simp only [bankDenom, get_add, get_sub, Prod.mk.injEq, e1, e2, and_true, ↓reduceIte]
        omega
  | Y =>
    simp only [bankDenom, toBaseCoin, Denom.isIbc, Bool.not_true, Bool.false_eq_true, ↓reduceIte, resolve] at h
    by_cases hlt : sget b.bank (to, Denom.vY l) < amt
    · simp [hlt] at h
    · simp [hlt, convertCoin, pairOf] at h
  | A =>
    simp only [bankDenom, toBaseCoin, Denom.isIbc, Bool.not_true, Bool.false_eq_true, ↓reduceIte, resolve,
      Bool.true_or] at h
    by_cases hlt : sget b.bank (to, Denom.vA l) < amt
    · simp [hlt] at h
    · cases haf : cfg.aliasFirst with
      | false => simp [hlt, haf, convertCoin, pairOf] at h
      | true =>
        simp only [hlt, ↓reduceIte, haf, convertCoin, pairOf] at h
        by_cases hoff : (b.paused || b.off.contains ETok.base) = true
        · simp only [hoff, ↓reduceIte] at h; simp at h
        have hlt2 : ¬ sget (sadd (sadd (ssub b.bank (to, Denom.vA l) amt) (transferMod, Denom.vA l) amt) (to, Denom.base) amt)
            (to, Denom.base) < amt := by simp [get_add]
        simp only [hoff, Bool.false_eq_true, hlt2, ↓reduceIte, Prod.mk.injEq] at h
        obtain ⟨h, _⟩ := h
        subst h
        refine ⟨.base, rfl, by simp, by simp, by simp, by simp, rfl, rfl, rfl, Nat.le_of_not_lt hlt, ?_, ?_, ?_⟩
        · intro a d hd1 hd2
          simp only [bankDenom] at hd1
          have hd2' := hd2 rfl
          simp [get_add, get_sub, Ne.symm hd1, Ne.symm hd2']
        · intro hn1 hn2 d hd1
          have e1 : ¬ (transferMod = to) := fun e => hn1 e.symm
          have e2 : ¬ (erc20Mod = to) := fun e => hn2 e.symm
          simp only [bankDenom] at hd1
          simp only [get_add, get_sub, Prod.mk.injEq, e1, e2, false_and, true_and, ↓reduceIte, Ne.symm hd1, and_false]
          by_cases hb : Denom.base = d
          · subst hb; simp
          · simp [hb]
        · intro hn1 hn2
          have e1 : ¬ (transferMod = to) := fun e => hn1 e.symm
          have e2 : ¬ (erc20Mod = to) := fun e => hn2 e.symm
          simp [bankDenom, get_add, get_sub, e1, e2]

theorem recvApp_eff {b b1 : Bal} {l : Ch} {t : Tok} {to : Addr} {amt : Nat} (h : recvApp b l t to amt = some b1) :
    b1.erc = b.erc ∧ b1.marker = b.marker ∧ b1.caller = b.caller ∧
    (∀ a d, d ≠ bankDenom t l → sget b1.bank (a, d) = sget b.bank (a, d)) ∧
    (to ≠ escrow l → sget b1.bank (to, bankDenom t l) = sget b.bank (to, bankDenom t l) + amt) := by
  unfold recvApp at h
  by_cases h0 : amt = 0
  · simp [h0] at h
  simp only [h0, ↓reduceIte] at h
  by_cases hr : returning t = true
  · simp only [hr, ↓reduceIte] at h
    by_cases hlt : sget b.bank (escrow l, bankDenom t l) < amt
    · simp [hlt] at h
    · simp only [hlt, ↓reduceIte, Option.some.injEq] at h
      subst h
      refine ⟨rfl, rfl, rfl, ?_, ?_⟩
      · intro a d hd; simp [Bal.move, get_add, get_sub, Ne.symm hd]
      · intro hne
        have e1 : ¬ (escrow l = to) := fun e => hne e.symm
        simp [Bal.move, get_add, get_sub, e1]
  · simp only [hr, Bool.false_eq_true, ↓reduceIte, Option.some.injEq] at h
    subst h
    refine ⟨rfl, rfl, rfl, ?_, ?_⟩
    · intro a d hd; simp [Bal.mint, get_add, Ne.symm hd]
    · intro _; simp [Bal.mint, get_add]

/-- C19, first clause, for every configuration with the receive wired as `RecvOk` says -/
theorem recvWith_credit_or_error (cfg : Cfg) (hc : RecvOk cfg) (s : State) (l : Ch) (t : Tok) (to : Addr) (amt : Nat)
    (m : Memo) (snd : Nat) :
    ((stepWith cfg s (.recv l t .hex to amt m snd)).2.isRecv true ∧ 0 < amt ∧
      (stepWith cfg s (.recv l t .hex to amt m snd)).1.ctl = s.ctl ∧ t ≠ .U ∧ t ≠ .X ∧ t ≠ .Y ∧ (t = .A → cfg.aliasFirst = true) ∧
      (t = .F →
        (to ≠ escrow l → sget (stepWith cfg s (.recv l t .hex to amt m snd)).1.bal.bank (to, Denom.fx) =
          sget s.bal.bank (to, Denom.fx) + amt) ∧
        (∀ a d, d ≠ Denom.fx → sget (stepWith cfg s (.recv l t .hex to amt m snd)).1.bal.bank (a, d) = sget s.bal.bank (a, d)) ∧
        (stepWith cfg s (.recv l t .hex to amt m snd)).1.bal.erc = s.bal.erc) ∧
      (t ≠ .F → ∃ et, ercTokOf t l = some et ∧
        sget (stepWith cfg s (.recv l t .hex to amt m snd)).1.bal.erc (to, et) = sget s.bal.erc (to, et) + amt ∧
        (∀ k, k ≠ (to, et) → sget (stepWith cfg s (.recv l t .hex to amt m snd)).1.bal.erc k = sget s.bal.erc k) ∧
        (∀ a d, d ≠ bankDenom t l → (t = .A → d ≠ Denom.base) →
          sget (stepWith cfg s (.recv l t .hex to amt m snd)).1.bal.bank (a, d) = sget s.bal.bank (a, d)) ∧
        (to ≠ transferMod → to ≠ erc20Mod → to ≠ escrow l →
          ∀ d, sget (stepWith cfg s (.recv l t .hex to amt m snd)).1.bal.bank (to, d) = sget s.bal.bank (to, d))))
    ∨ ((stepWith cfg s (.recv l t .hex to amt m snd)).2.isRecv false ∧ (stepWith cfg s (.recv l t .hex to amt m snd)).1 = s) := by
  simp only [stepWith]
  cases hr : (recvBal cfg s.ctl.vmeta s.bal (cpOf s.ctl l) l t .hex to amt m snd).2 with
  | false =>
    right
    simp only [Bool.false_eq_true, ↓reduceIte, and_true]
    exact ⟨_, _, _, _, _, _, _, rfl⟩
  | true =>
    left
    obtain ⟨_, b1, b2, ha, hcv, _, hfin⟩ := recvBal_ok cfg hc _ _ _ _ _ _ _ _ _ _ hr
    obtain ⟨ae, _, _, aother, ato⟩ := recvApp_eff ha
    obtain ⟨mb, me, _, _⟩ := memoStep_bal cfg hc.noPassHex hc.noPassBech b2 (cpOf s.ctl l) l m snd
    simp only [↓reduceIte]
    refine ⟨⟨_, _, _, _, _, _, _, rfl⟩, recvApp_pos ha, trivial, ?_⟩
    rw [hfin, mb, me]
    by_cases hF : t = .F
    · subst hF
      rw [convStep_F cfg hc] at hcv
      simp only [Prod.mk.injEq, and_true] at hcv
      subst hcv
      refine ⟨by simp, by simp, by simp, by simp, ?_, by simp⟩
      intro _
      exact ⟨fun hne => ato hne, fun a d hd => aother a d (by simpa [bankDenom] using hd), ae⟩
    · obtain ⟨et, het, hU, hX, hY, hA, ce, _, _, _, cother, cto, cto0⟩ := convStep_hex_ok cfg hc _ _ _ _ _ _ _ hF hcv
      refine ⟨hU, hX, hY, hA, fun h => absurd h hF, fun _ => ⟨et, het, ?_, ?_, ?_, ?_⟩⟩
      · rw [ce, ae]; simp [get_add]
      · intro k hk; rw [ce, ae]; simp [get_add, Ne.symm hk]
      · intro a d hd hdA; rw [cother a d hd hdA, aother a d hd]
      · intro hn1 hn2 hn3 d
        by_cases hd : d = bankDenom t l
        · subst hd; rw [cto0 hn1 hn2, ato hn3]; simp
        · rw [cto hn1 hn2 d hd, aother to d hd]

/-- a non-native token sent to a bech32 (or malformed) receiver is always answered with an error acknowledgement -/
theorem recvWith_nonhex_error (cfg : Cfg) (hc : RecvOk cfg) (s : State) (l : Ch) (t : Tok) (k : RKind) (to : Addr) (amt : Nat)
    (m : Memo) (snd : Nat) (ht : t ≠ .F) (hk : k ≠ .hex) :
    (stepWith cfg s (.recv l t k to amt m snd)).2.isRecv false ∧ (stepWith cfg s (.recv l t k to amt m snd)).1 = s := by
  simp only [stepWith]
  cases hr : (recvBal cfg s.ctl.vmeta s.bal (cpOf s.ctl l) l t k to amt m snd).2 with
  | false =>
    simp only [Bool.false_eq_true, ↓reduceIte, and_true]
    exact ⟨_, _, _, _, _, _, _, rfl⟩
  | true =>
    exfalso
    obtain ⟨_, b1, b2, _, hcv, _, _⟩ := recvBal_ok cfg hc _ _ _ _ _ _ _ _ _ _ hr
    have := convStep_nonhex cfg hc s.ctl.vmeta b1 l t k to amt ht hk
    rw [hcv] at this
    cases this

/-- every receive leaves the packet bookkeeping (commitments, relation records, sequences, logs) untouched -/
theorem recvWith_ctl (cfg : Cfg) (s : State) (l : Ch) (t : Tok) (k : RKind) (to : Addr) (amt : Nat) (m : Memo) (snd : Nat) :
    (stepWith cfg s (.recv l t k to amt m snd)).1.ctl = s.ctl := by
  simp only [stepWith]
  split <;> rfl

theorem recvWith_memo (cfg : Cfg) (hc : RecvOk cfg) (s : State) (l : Ch) (t : Tok) (k : RKind) (to : Addr) (amt : Nat)
    (snd : Nat) :
    ((stepWith cfg s (.recv l t k to amt .callrev snd)).2.isRecv false ∧ (stepWith cfg s (.recv l t k to amt .callrev snd)).1 = s) ∧
    (((stepWith cfg s (.recv l t k to amt .callok snd)).2.isRecv true ∧
        (stepWith cfg s (.recv l t k to amt .callok snd)).1.bal.marker = s.bal.marker + 1 ∧
        (stepWith cfg s (.recv l t k to amt .callok snd)).1.bal.caller =
          some (.derived (cfg.memoChan.pick (cpOf s.ctl l) l) (if cfg.memoSender then snd else 0))) ∨
      ((stepWith cfg s (.recv l t k to amt .callok snd)).2.isRecv false ∧ (stepWith cfg s (.recv l t k to amt .callok snd)).1 = s)) := by
  constructor
  · simp only [stepWith]
    cases hr : (recvBal cfg s.ctl.vmeta s.bal (cpOf s.ctl l) l t k to amt .callrev snd).2 with
    | false =>
      simp only [Bool.false_eq_true, ↓reduceIte, and_true]
      exact ⟨_, _, _, _, _, _, _, rfl⟩
    | true =>
      obtain ⟨_, _, _, _, _, hm, _⟩ := recvBal_ok cfg hc _ _ _ _ _ _ _ _ _ _ hr
      exact absurd rfl hm
  · simp only [stepWith]
    cases hr : (recvBal cfg s.ctl.vmeta s.bal (cpOf s.ctl l) l t k to amt .callok snd).2 with
    | false =>
      right
      simp only [Bool.false_eq_true, ↓reduceIte, and_true]
      exact ⟨_, _, _, _, _, _, _, rfl⟩
    | true =>
      left
      obtain ⟨_, b1, b2, ha, hcv, _, hfin⟩ := recvBal_ok cfg hc _ _ _ _ _ _ _ _ _ _ hr
      simp only [↓reduceIte]
      refine ⟨⟨_, _, _, _, _, _, _, rfl⟩, ?_, ?_⟩
      · rw [hfin]
        simp only [memoStep]
        obtain ⟨_, am, _, _, _⟩ := recvApp_eff ha
        have : b2.marker = b1.marker := by
          by_cases hF : t = .F
          · subst hF; rw [convStep_F cfg hc] at hcv; simp only [Prod.mk.injEq, and_true] at hcv; rw [hcv]
          · cases k with
            | hex =>
              obtain ⟨_, _, _, _, _, _, _, hmk, _⟩ := convStep_hex_ok cfg hc _ _ _ _ _ _ _ hF hcv
              exact hmk
            | bech =>
              have := convStep_nonhex cfg hc s.ctl.vmeta b1 l t .bech to amt hF (by simp)
              rw [hcv] at this; cases this
            | bad =>
              have := convStep_nonhex cfg hc s.ctl.vmeta b1 l t .bad to amt hF (by simp)
              rw [hcv] at this; cases this
        rw [this, am]
      · rw [hfin]; simp [memoStep, memoCaller_derived cfg hc.noPassHex hc.noPassBech]

/-- a memo call that moves the caller's funds never succeeds when `IntermediateSender` hands no address through: it runs
as the derived account, which holds nothing — whatever the packet's sender field names -/
theorem recvWith_memo_pay (cfg : Cfg) (hc : RecvOk cfg) (s : State) (l : Ch) (t : Tok) (k : RKind) (to : Addr) (amt : Nat)
    (snd : Nat) :
    (stepWith cfg s (.recv l t k to amt .callpay snd)).2.isRecv false ∧ (stepWith cfg s (.recv l t k to amt .callpay snd)).1 = s := by
  simp only [stepWith]
  cases hr : (recvBal cfg s.ctl.vmeta s.bal (cpOf s.ctl l) l t k to amt .callpay snd).2 with
  | false =>
    simp only [Bool.false_eq_true, ↓reduceIte, and_true]
    exact ⟨_, _, _, _, _, _, _, rfl⟩
  | true =>
    exfalso
    obtain ⟨_, b1, b2, _, hcv, _, _⟩ := recvBal_ok cfg hc _ _ _ _ _ _ _ _ _ _ hr
    -- recvBal_ok only names callrev; redo the last step for callpay
    unfold recvBal at hr
    by_cases hk : k = .bad
    · simp [hk] at hr
    simp only [hk, ↓reduceIte] at hr
    cases ha : recvApp s.bal l t to amt with
    | none => simp [ha] at hr
    | some b1' =>
      have hret : (returning t && !(cfg.recvRetChan.pick (cpOf s.ctl l) l == some (cpOf s.ctl l))) = false := by
        simp [hc.retChan, ChanSel.pick]
      simp only [ha, hc.order, Bool.not_true, Bool.false_eq_true, ↓reduceIte, recvHook, hret, hc.memoAfter,
        hookSees_ok cfg hc.parse, convStepD_bank] at hr
      cases hcv' : convStep cfg s.ctl.vmeta b1' l t k to amt with
      | mk b2' ok =>
        cases ok with
        | false => simp [hcv', hc.discards] at hr
        | true =>
          have hm := (memoStep_ok cfg hc.noPassHex hc.noPassBech b2' (cpOf s.ctl l) l .callpay snd)
          cases hms : memoStep cfg b2' (cpOf s.ctl l) l .callpay snd with
          | mk b3 ok3 =>
            cases ok3 with
            | true => rw [hms] at hm; exact absurd rfl (hm.1 rfl).2
            | false => simp [hcv', hms, hc.discards] at hr

/-! ## life cycle of records and EVM-originated transfers -/

/-- second invariant (needs, on top of `Sound`, that every settlement is wired as `Removes` says) -/
structure Life (c : Ctl) : Prop where
  /-- every relation record belongs to an in-flight EVM-originated transfer of a token other than FX -/
  relC : ∀ k ∈ c.rel, ∃ x ∈ c.commits, x.1 = k ∧ x.2.evm = true ∧ x.2.tok ≠ .F
  /-- every EVM-originated transfer is in flight, or was acknowledged successfully, or was refunded -/
  eLife : ∀ e ∈ c.evmSent, (∃ x ∈ c.commits, x.1 = e.key) ∨ e.key ∈ c.ackedOk ∨ (∃ r ∈ c.refundLog, r.key = e.key)
  /-- an EVM-originated commitment is logged, and its token is FX or the aliased token -/
  cE : ∀ x ∈ c.commits, x.2.evm = true → (∃ e ∈ c.evmSent, e.key = x.1 ∧ e.tok = x.2.tok) ∧ (x.2.tok = .F ∨ x.2.tok = .A)
  /-- a commitment that was not started from the EVM carries a coin of this chain -/
  cC : ∀ x ∈ c.commits, x.2.evm = false → returning x.2.tok = true
  /-- one commitment per (channel, sequence) -/
  cU : ∀ x ∈ c.commits, ∀ y ∈ c.commits, x.1 = y.1 → x = y

theorem life_init : Life init.ctl := by
  constructor <;> simp [init]

theorem sendBal_evm_tok {b b' : Bal} {l : Ch} {a : Addr} {t : Tok} {amt : Nat} (h : sendBal b l a t amt true = some b') :
    t = .F ∨ t = .A := by
  cases t <;> simp [sendBal] at h ⊢
  all_goals (split at h <;> simp at h)

theorem sendBal_cosmos_tok {b b' : Bal} {l : Ch} {a : Addr} {t : Tok} {amt : Nat} (h : sendBal b l a t amt false = some b') :
    returning t = true := by
  cases t <;> simp [sendBal, returning] at h ⊢

theorem life_send (cfg : Cfg) (s : State) (l : Ch) (sender : Addr) (t : Tok) (amt : Nat) (evm : Bool) (hi : Inv s.ctl)
    (h : Life s.ctl) : Life (doSend cfg s l sender t amt evm).1.ctl := by
  unfold doSend
  cases hb : sendBal s.bal l sender t amt evm with
  | none => exact h
  | some b =>
    simp only
    have freshE : ∀ e ∈ s.ctl.evmSent, e.key ≠ (l, nextSeq s.ctl l) := by
      intro e he hk
      have := hi.fE e he
      simp only [SentRec.key, Prod.mk.injEq] at hk
      rw [hk.1, hk.2] at this; exact absurd this (Nat.not_succ_le_self _)
    constructor
    · intro k hk
      simp only [sendCtl] at hk ⊢
      have old : k ∈ s.ctl.rel → ∃ x ∈ ((l, nextSeq s.ctl l), (⟨sender, t, amt, evm, cpOf s.ctl l⟩ : Pkt)) :: s.ctl.commits,
          x.1 = k ∧ x.2.evm = true ∧ x.2.tok ≠ .F := by
        intro hk
        obtain ⟨x, hx, hx2⟩ := h.relC k hk
        exact ⟨x, List.mem_cons_of_mem _ hx, hx2⟩
      cases hkey : sendKey cfg l (nextSeq s.ctl l) t evm with
      | none => rw [hkey] at hk; exact old hk
      | some k' =>
        rw [hkey] at hk
        simp only [List.mem_cons] at hk
        rcases hk with hk | hk
        · refine ⟨_, List.mem_cons_self, ?_⟩
          unfold sendKey at hkey
          split at hkey
          · rename_i hc
            simp only [Bool.and_eq_true, bne_iff_ne, ne_eq] at hc
            simp only [Option.some.injEq] at hkey
            exact ⟨by rw [hk, ← hkey], hc.1.1.1, hc.1.1.2⟩
          · cases hkey
        · exact old hk
    · intro e he
      simp only [sendCtl] at he ⊢
      have old : e ∈ s.ctl.evmSent →
          ((∃ x ∈ ((l, nextSeq s.ctl l), (⟨sender, t, amt, evm, cpOf s.ctl l⟩ : Pkt)) :: s.ctl.commits, x.1 = e.key) ∨
            e.key ∈ s.ctl.ackedOk ∨ (∃ r ∈ s.ctl.refundLog, r.key = e.key)) := fun he => by
        rcases h.eLife e he with ⟨x, hx, hxk⟩ | hr | hr
        · exact Or.inl ⟨x, List.mem_cons_of_mem _ hx, hxk⟩
        · exact Or.inr (Or.inl hr)
        · exact Or.inr (Or.inr hr)
      cases evm with
      | false => simp only [Bool.false_eq_true, ↓reduceIte] at he; exact old he
      | true =>
        simp only [↓reduceIte, List.mem_cons] at he
        rcases he with he | he
        · subst he; exact Or.inl ⟨_, List.mem_cons_self, rfl⟩
        · exact old he
    · intro x hx hev
      simp only [sendCtl, List.mem_cons] at hx ⊢
      rcases hx with hx | hx
      · subst hx
        simp only at hev
        subst hev
        refine ⟨⟨_, by simp only [↓reduceIte]; exact List.mem_cons_self, rfl, rfl⟩, sendBal_evm_tok hb⟩
      · obtain ⟨⟨e, he, hek⟩, ht⟩ := h.cE x hx hev
        refine ⟨⟨e, ?_, hek⟩, ht⟩
        split
        · exact List.mem_cons_of_mem _ he
        · exact he
    · intro x hx hev
      simp only [sendCtl, List.mem_cons] at hx
      rcases hx with hx | hx
      · subst hx
        simp only at hev
        subst hev
        exact sendBal_cosmos_tok hb
      · exact h.cC x hx hev
    · have freshC : ∀ x ∈ s.ctl.commits, x.1 ≠ (l, nextSeq s.ctl l) := by
        intro x hx he
        have := hi.fC x hx
        rw [he] at this; exact absurd this (Nat.not_succ_le_self _)
      intro x hx y hy hxy
      simp only [sendCtl, List.mem_cons] at hx hy
      rcases hx with hx | hx <;> rcases hy with hy | hy
      · rw [hx, hy]
      · subst hx; exact absurd hxy.symm (freshC y hy)
      · subst hy; exact absurd hxy (freshC x hx)
      · exact h.cU x hx y hy hxy

theorem life_settleState (cfg : Cfg) (hR : Removes cfg) (s s' : State) (l : Ch) (seq : Seq) (p : Pkt) (mode : Mode)
    (h : Life s.ctl) (hr : settleState cfg s l seq p mode = some s') : Life s'.ctl := by
  have hrel := settleState_rel cfg hR s s' l seq p mode hr
  have hcom := settleState_commits cfg s s' l seq p mode hr
  rw [settleState_std cfg s l seq p hR.timeoutSteps] at hr
  have hev : s'.ctl.evmSent = s.ctl.evmSent := by
    cases mode with
    | ackOk => simp only [settleStateStd, Option.some.injEq] at hr; subst hr; rfl
    | ackErr =>
      simp only [settleStateStd, hR.ackErrRefunds] at hr
      obtain ⟨_, _, _, _, hs'⟩ := refundState_true cfg hR.errPropagates s s' l seq p hr
      subst hs'; rfl
    | timeout =>
      simp only [settleStateStd, hR.timeoutRefunds] at hr
      obtain ⟨_, _, _, _, hs'⟩ := refundState_true cfg hR.errPropagates s s' l seq p hr
      subst hs'; rfl
  -- the settled key is logged as acknowledged or refunded; both logs only grow
  have hlog : ((l, seq) ∈ s'.ctl.ackedOk ∨ ∃ r ∈ s'.ctl.refundLog, r.key = (l, seq)) ∧
      (∀ k ∈ s.ctl.ackedOk, k ∈ s'.ctl.ackedOk) ∧ (∀ r ∈ s.ctl.refundLog, r ∈ s'.ctl.refundLog) := by
    cases mode with
    | ackOk =>
      simp only [settleStateStd, Option.some.injEq] at hr; subst hr
      exact ⟨Or.inl List.mem_cons_self, fun k hk => List.mem_cons_of_mem _ hk, fun r hr => hr⟩
    | ackErr =>
      simp only [settleStateStd, hR.ackErrRefunds] at hr
      obtain ⟨_, _, _, _, hs'⟩ := refundState_true cfg hR.errPropagates s s' l seq p hr
      subst hs'
      exact ⟨Or.inr ⟨_, List.mem_cons_self, rfl⟩, fun k hk => hk, fun r hr => List.mem_cons_of_mem _ hr⟩
    | timeout =>
      simp only [settleStateStd, hR.timeoutRefunds] at hr
      obtain ⟨_, _, _, _, hs'⟩ := refundState_true cfg hR.errPropagates s s' l seq p hr
      subst hs'
      exact ⟨Or.inr ⟨_, List.mem_cons_self, rfl⟩, fun k hk => hk, fun r hr => List.mem_cons_of_mem _ hr⟩
  constructor
  · intro k hk
    rw [hrel] at hk
    obtain ⟨hk1, hk2⟩ := mem_dropRel.1 hk
    obtain ⟨x, hx, hxk, hx2⟩ := h.relC k hk1
    exact ⟨x, by rw [hcom]; exact mem_dropCommit.2 ⟨hx, by rw [hxk]; exact hk2⟩, hxk, hx2⟩
  · intro e he
    rw [hev] at he
    by_cases hk : e.key = (l, seq)
    · rcases hlog.1 with ha | hrf
      · exact Or.inr (Or.inl (hk ▸ ha))
      · exact Or.inr (Or.inr (by rw [hk]; exact hrf))
    · rcases h.eLife e he with ⟨x, hx, hxk⟩ | ha | ⟨r, hr', hrk⟩
      · exact Or.inl ⟨x, by rw [hcom]; exact mem_dropCommit.2 ⟨hx, by rw [hxk]; exact hk⟩, hxk⟩
      · exact Or.inr (Or.inl (hlog.2.1 _ ha))
      · exact Or.inr (Or.inr ⟨r, hlog.2.2 _ hr', hrk⟩)
  · intro x hx hxe
    rw [hcom] at hx
    rw [hev]
    exact h.cE x (mem_dropCommit.1 hx).1 hxe
  · intro x hx hxe
    rw [hcom] at hx
    exact h.cC x (mem_dropCommit.1 hx).1 hxe
  · intro x hx y hy hxy
    rw [hcom] at hx hy
    exact h.cU x (mem_dropCommit.1 hx).1 y (mem_dropCommit.1 hy).1 hxy

theorem life_step (cfg : Cfg) (hR : Removes cfg) (s : State) (op : Op) (hi : Inv s.ctl) (h : Life s.ctl) :
    Life (stepWith cfg s op).1.ctl := by
  cases op with
  | reset => exact life_init
  | chan l r => exact ⟨h.relC, h.eLife, h.cE, h.cC, h.cU⟩
  | vmeta l => exact ⟨h.relC, h.eLife, h.cE, h.cC, h.cU⟩
  | migrate => exact ⟨h.relC, h.eLife, h.cE, h.cC, h.cU⟩
  | toggle t l => simp only [stepWith]; split <;> exact h
  | pause => exact h
  | seqset l n =>
    simp only [stepWith]
    split
    · exact ⟨h.relC, h.eLife, h.cE, h.cC, h.cU⟩
    · exact h
  | fund a t l amt =>
    simp only [stepWith]
    split <;> exact h
  | recv l t k to amt m snd =>
    simp only [stepWith]
    split <;> exact h
  | send l sender t amt => exact life_send cfg s l sender t amt true hi h
  | csend l sender t amt => exact life_send cfg s l sender t amt false hi h
  | settle l seq mode =>
    simp only [stepWith, settle]
    cases hl : lookup (l, seq) s.ctl.commits with
    | none => exact h
    | some p =>
      simp only
      cases hst : settleState cfg s l seq p mode with
      | none => exact h
      | some s' => exact life_settleState cfg hR s s' l seq p mode h hst
  | ackw l seq w =>
    have hA : cfg.ackOkCallsAfter = true := by
      have := hR.ackOkRemoves
      simp only [Cfg.ackOkRemoves, Bool.and_eq_true] at this
      exact this.1
    simp only [stepWith, settleW]
    cases hl : lookup (l, seq) s.ctl.commits with
    | none => exact h
    | some p =>
      simp only
      cases hst : settleAckState cfg s l seq p w with
      | none => exact h
      | some s' =>
        have hcan : w.isCanonical = true := by
          cases hcw : w.isCanonical with
          | true => rfl
          | false => rw [settleAckState_std cfg s l seq p w hR.ackSteps] at hst; simp [settleAckStateStd, hcw] at hst
        rw [settleAckState_mode cfg hR.ackAgrees hR.ackSteps hA hR.ackErrRefunds s l seq p w hcan] at hst
        cases ha : cfg.appRefunds w with
        | none => rw [ha] at hst; cases hst
        | some b => rw [ha] at hst; exact life_settleState cfg hR s s' l seq p _ h hst
  | nop => exact h
  | bad => exact h

theorem run_life (cfg : Cfg) (hs : Sound cfg) (hR : Removes cfg) (ops : List Op) (s : State) (hi : Inv s.ctl) (h : Life s.ctl) :
    Inv (runWith cfg s ops).ctl ∧ Life (runWith cfg s ops).ctl := by
  induction ops generalizing s with
  | nil => exact ⟨hi, h⟩
  | cons op ops ih => exact ih _ (step_inv cfg hs s op hi) (life_step cfg hR s op hi h)

/-- a transfer that was NOT started from the EVM is refunded in the form it was sent in: the coin goes back to the
sender's bank balance, no ERC-20 balance changes, whatever else is in flight -/
theorem settle_refund_cosmos (cfg : Cfg) (hs : Sound cfg) (hE : cfg.ackErrRefunds = true) (hT : cfg.timeoutRefunds = true)
    (hG : cfg.refundGuarded = true) (s : State) (l : Ch) (seq : Seq) (p : Pkt) (mode : Mode) (hm : mode ≠ .ackOk)
    (hl : Life s.ctl) (hlk : lookup (l, seq) s.ctl.commits = some p) (hev : p.evm = false ∨ p.tok = .F) :
    (stepWith cfg s (.settle l seq mode)).2.isDone →
      (stepWith cfg s (.settle l seq mode)).1.bal.erc = s.bal.erc ∧
      (p.sender ≠ escrow l → sget (stepWith cfg s (.settle l seq mode)).1.bal.bank (p.sender, bankDenom p.tok l) =
        sget s.bal.bank (p.sender, bankDenom p.tok l) + p.amt) ∧
      (∀ a d, d ≠ bankDenom p.tok l → sget (stepWith cfg s (.settle l seq mode)).1.bal.bank (a, d) = sget s.bal.bank (a, d)) ∧
      (stepWith cfg s (.settle l seq mode)).1.ctl.refundLog = ⟨l, seq, p.sender, p.tok, p.amt, false⟩ :: s.ctl.refundLog := by
  have hret : returning p.tok = true := by
    rcases hev with hev | hev
    · exact hl.cC _ (lookup_mem hlk) hev
    · rw [hev]; rfl
  -- no record under this key: records belong to EVM-started commitments, and the key has one commitment only
  have hnot : (l, seq) ∉ s.ctl.rel := by
    intro hin
    obtain ⟨x, hx, hxk, hxe, hxt⟩ := hl.relC _ hin
    have := hl.cU x hx _ (lookup_mem hlk) hxk
    rw [this] at hxe hxt
    simp only at hxe hxt
    rcases hev with hev | hev
    · rw [hev] at hxe; cases hxe
    · exact hxt hev
  have hfound : refundFound cfg s.ctl (l, seq) p = none := by
    rw [refundFound_src cfg hs.refundSees hs.refundChan hs.refundSeq hs.deleteReports]
    simp [hnot]
  have hform : refundForm cfg s.ctl (l, seq) p = false := by simp [refundForm, hfound, hG]
  have hnib : (bankDenom p.tok l).isIbc = false := by
    cases ht : p.tok <;> simp_all [returning, bankDenom, Denom.isIbc]
  simp only [stepWith, settle, hlk]
  have hmode : settleState cfg s l seq p mode = refundState cfg s l seq p true := by
    cases mode with
    | ackOk => exact absurd rfl hm
    | ackErr => simp [settleState, hE]
    | timeout => simp [settleState_std cfg _ _ _ _ hs.timeoutSteps, settleStateStd, hT]
  rw [hmode]
  simp only [refundState, refundApp, hret, ↓reduceIte]
  by_cases hlt : sget s.bal.bank (escrow l, bankDenom p.tok l) < p.amt
  · simp only [hlt, ↓reduceIte]
    intro hd; obtain ⟨_, _, _, _, _, _, _, hd⟩ := hd; cases hd
  · simp only [hlt, ↓reduceIte, refundHook, toBaseCoin, hnib, Bool.not_false, hform, Bool.false_eq_true]
    intro _
    refine ⟨rfl, ?_, ?_, ?_⟩
    · intro hne
      have e1 : ¬ (escrow l = p.sender) := fun e => hne e.symm
      simp [Bal.move, get_add, get_sub, e1]
    · intro a d hd
      simp [Bal.move, get_add, get_sub, Ne.symm hd]
    · simp [refundCtl, hform]

/-! ## text: separators -/

theorem prefix_inj (p p' c c' : List Char) (hp : '/' ∉ p) (hp' : '/' ∉ p')
    (h : p ++ '/' :: c = p' ++ '/' :: c') : p = p' ∧ c = c' := by
  induction p generalizing p' with
  | nil =>
    cases p' with
    | nil => simpa using h
    | cons a r =>
      simp only [List.nil_append, List.cons_append, List.cons.injEq] at h
      exact absurd h.1 (by intro e; apply hp'; simp [← e])
  | cons a r ih =>
    cases p' with
    | nil =>
      simp only [List.nil_append, List.cons_append, List.cons.injEq] at h
      exact absurd h.1 (by intro e; apply hp; simp [e])
    | cons a' r' =>
      simp only [List.cons_append, List.cons.injEq] at h
      have := ih r' (by intro hm; exact hp (List.mem_cons_of_mem _ hm))
        (by intro hm; exact hp' (List.mem_cons_of_mem _ hm)) h.2
      exact ⟨by rw [h.1, this.1], this.2⟩

/-- a text split at its LAST separator is split uniquely -/
theorem suffix_inj (a a' t t' : List Char) (ht : '/' ∉ t) (ht' : '/' ∉ t')
    (h : a ++ '/' :: t = a' ++ '/' :: t') : a = a' ∧ t = t' := by
  have hr : t.reverse ++ '/' :: a.reverse = t'.reverse ++ '/' :: a'.reverse := by
    have := congrArg List.reverse h
    simpa using this
  have := prefix_inj t.reverse t'.reverse a.reverse a'.reverse (by simpa using ht) (by simpa using ht') hr
  exact ⟨List.reverse_inj.1 this.2, List.reverse_inj.1 this.1⟩

theorem slash_not_in_digits (n : Nat) : '/' ∉ Nat.toDigits 10 n := by
  intro h
  have := Nat.isDigit_of_mem_toDigits (by decide) (by decide) h
  exact absurd this (by decide)

theorem toDigits_inj {m n : Nat} (h : Nat.toDigits 10 m = Nat.toDigits 10 n) : m = n := by
  have h₁ := Nat.ofDigitChars_ten_toDigits (n := m)
  have h₂ := Nat.ofDigitChars_ten_toDigits (n := n)
  rw [h] at h₁
  exact h₁.symm.trans h₂

/-! ## a transfer started from the EVM that fails gives back exactly what it took -/

theorem runWith_append (cfg : Cfg) (s : State) (a b : List Op) :
    runWith cfg s (a ++ b) = runWith cfg (runWith cfg s a) b := by
  simp [runWith, List.foldl_append]

theorem send_refund_roundtrip (cfg : Cfg) (hs : Sound cfg) (hE : cfg.ackErrRefunds = true) (hT : cfg.timeoutRefunds = true)
    (hTo : cfg.refundToSender = true) (s : State) (h : Inv s.ctl) (l : Ch) (a : Addr) (amt : Nat) (mode : Mode)
    (hm : mode ≠ .ackOk) (hmeta : cfg.aliasFirst = true ∨ l ∉ s.ctl.vmeta)
    (hon : s.bal.paused = false ∧ s.bal.off.contains ETok.base = false)
    (hok : (stepWith cfg s (.send l a .A amt)).2 ≠ .fail) :
    (stepWith cfg (stepWith cfg s (.send l a .A amt)).1 (.settle l (nextSeq s.ctl l) mode)).2.isDone ∧
    (∀ k, sget (stepWith cfg (stepWith cfg s (.send l a .A amt)).1 (.settle l (nextSeq s.ctl l) mode)).1.bal.erc k =
      sget s.bal.erc k) ∧
    (a ≠ transferMod → a ≠ erc20Mod → ∀ d,
      sget (stepWith cfg (stepWith cfg s (.send l a .A amt)).1 (.settle l (nextSeq s.ctl l) mode)).1.bal.bank (a, d) =
        sget s.bal.bank (a, d)) ∧
    (stepWith cfg (stepWith cfg s (.send l a .A amt)).1 (.settle l (nextSeq s.ctl l) mode)).1.ctl.rel = s.ctl.rel := by
  have hinv1 := step_inv cfg hs s (.send l a .A amt) h
  simp only [stepWith, doSend] at hok hinv1 ⊢
  cases hb : sendBal s.bal l a .A amt true with
  | none => simp [hb] at hok
  | some b =>
    simp only [hb] at hinv1 ⊢
    -- what the send did
    have hguard : amt ≤ sget s.bal.erc (a, ETok.base) ∧
        b = { s.bal with erc := ssub s.bal.erc (a, ETok.base) amt,
                         bank := ssub (ssub s.bal.bank (erc20Mod, Denom.base) amt) (transferMod, Denom.vA l) amt } := by
      simp only [sendBal] at hb
      split at hb
      · cases hb
      · split at hb
        · cases hb
        · rename_i hc
          simp only [not_or, Nat.not_lt] at hc
          simp only [Option.some.injEq] at hb
          exact ⟨hc.1, hb.symm⟩
    have hkey : sendKey cfg l (nextSeq s.ctl l) .A true = some (l, nextSeq s.ctl l) := by
      simp [sendKey, hs.sendSetsRel, hs.sendKeyOwn]
    let e : SentRec := ⟨l, nextSeq s.ctl l, a, .A, amt⟩
    let s1 : State := { bal := b, ctl := sendCtl s.ctl l ⟨a, .A, amt, true, cpOf s.ctl l⟩ (sendKey cfg l (nextSeq s.ctl l) .A true) }
    have he : e ∈ s1.ctl.evmSent := by simp [s1, e, sendCtl]
    have hc : ∃ x ∈ s1.ctl.commits, x.1 = e.key := ⟨_, by simp only [s1, sendCtl]; exact List.mem_cons_self, rfl⟩
    have hvm : cfg.aliasFirst = true ∨ e.ch ∉ s1.ctl.vmeta := by simpa [s1, e, sendCtl] using hmeta
    have hon1 : s1.bal.paused = false ∧ s1.bal.off.contains ETok.base = false := by
      show b.paused = false ∧ b.off.contains ETok.base = false
      rw [hguard.2]; exact hon
    obtain ⟨c1, c2, c3, c4, _, c6⟩ := settle_refund_credits cfg hs hE hT hTo s1 e mode hm hinv1 he rfl hc hvm hon1
    simp only [stepWith] at c1 c2 c3 c4 c6
    refine ⟨c1, ?_, ?_, ?_⟩
    · intro k
      by_cases hk : k = (a, ETok.base)
      · subst hk
        have := c2
        simp only [e, s1] at this
        rw [this, hguard.2]
        simp only [get_sub, ↓reduceIte]
        omega
      · have := c3 k hk
        simp only [e, s1] at this
        rw [this, hguard.2]
        simp [get_sub, Ne.symm hk]
    · intro hn1 hn2 d
      have := c4 hn1 hn2 d
      simp only [e, s1] at this
      rw [this, hguard.2]
      have e1 : ¬ (transferMod = a) := fun x => hn1 x.symm
      have e2 : ¬ (erc20Mod = a) := fun x => hn2 x.symm
      simp [get_sub, e1, e2]
    · have c6' : (settle cfg s1 l (nextSeq s.ctl l) mode).1.ctl.rel = dropRel s1.ctl.rel (l, nextSeq s.ctl l) := c6
      have hrel1 : s1.ctl.rel = (l, nextSeq s.ctl l) :: s.ctl.rel := by simp [s1, sendCtl, hkey]
      show (settle cfg s1 l (nextSeq s.ctl l) mode).1.ctl.rel = s.ctl.rel
      rw [c6', hrel1]
      have hfresh : (l, nextSeq s.ctl l) ∉ s.ctl.rel := by
        intro hin
        have := h.fK _ hin
        exact absurd this (Nat.not_succ_le_self _)
      have : dropRel ((l, nextSeq s.ctl l) :: s.ctl.rel) (l, nextSeq s.ctl l) = dropRel s.ctl.rel (l, nextSeq s.ctl l) := by
        simp [dropRel]
      rw [this, dropRel_of_not_mem _ _ hfresh]
end FxVerif.Proofs.C19
