import FxVerif.Model.C19
/-!
# C19 — helper lemmas: store algebra, the inductive invariant of the control part, per-transition preservation
-/
namespace FxVerif.Proofs.C19
open FxVerif.Model.C19

/-! ## stores -/

theorem get_filter_ne {κ : Type} [DecidableEq κ] (s : Store κ) (k k' : κ) (h : k ≠ k') :
    sget (s.filter (fun p => p.1 ≠ k)) k' = sget s k' := by
  induction s with
  | nil => rfl
  | cons p r ih =>
    obtain ⟨a, v⟩ := p
    rw [List.filter_cons]
    by_cases ha : a = k
    · have hd : decide ((a, v).1 ≠ k) = false := by simp [ha]
      rw [hd]
      simp only [Bool.false_eq_true, ↓reduceIte]
      rw [ih]
      subst ha
      simp [sget, h]
    · have hd : decide ((a, v).1 ≠ k) = true := by simp [ha]
      rw [hd]
      simp only [↓reduceIte, sget]
      rw [ih]

theorem get_set {κ : Type} [DecidableEq κ] (s : Store κ) (k k' : κ) (v : Nat) :
    sget (sset s k v) k' = if k = k' then v else sget s k' := by
  unfold sset
  by_cases h : k = k'
  · simp [sget, h]
  · simp only [sget, h, ↓reduceIte]
    exact get_filter_ne s k k' h

theorem get_add {κ : Type} [DecidableEq κ] (s : Store κ) (k k' : κ) (n : Nat) :
    sget (sadd s k n) k' = if k = k' then sget s k + n else sget s k' := by
  simp [sadd, get_set]

theorem get_sub {κ : Type} [DecidableEq κ] (s : Store κ) (k k' : κ) (n : Nat) :
    sget (ssub s k n) k' = if k = k' then sget s k - n else sget s k' := by
  simp [ssub, get_set]

/-! ## commitments -/

theorem lookup_mem {k : Ch × Seq} {cs : List ((Ch × Seq) × Pkt)} {p : Pkt} (h : lookup k cs = some p) :
    (k, p) ∈ cs := by
  induction cs with
  | nil => simp [lookup] at h
  | cons c r ih =>
    obtain ⟨k', q⟩ := c
    simp only [lookup] at h
    by_cases hk : k' = k
    · simp only [hk, ↓reduceIte, Option.some.injEq] at h
      subst hk; subst h; exact List.mem_cons_self
    · simp only [hk, ↓reduceIte] at h
      exact List.mem_cons_of_mem _ (ih h)

theorem mem_dropCommit {cs : List ((Ch × Seq) × Pkt)} {k : Ch × Seq} {c : (Ch × Seq) × Pkt} :
    c ∈ dropCommit cs k ↔ c ∈ cs ∧ c.1 ≠ k := by
  simp [dropCommit]

theorem mem_dropRel {rel : List (Ch × Seq)} {k x : Ch × Seq} : x ∈ dropRel rel k ↔ x ∈ rel ∧ x ≠ k := by
  simp [dropRel]

theorem not_mem_dropRel (rel : List (Ch × Seq)) (k : Ch × Seq) : k ∉ dropRel rel k := by
  simp [dropRel]

/-! ## the invariant -/

/-- inductive invariant of the control part (holds for every configuration that records the relation on send and whose
`IbcRefund` finds it) -/
structure Inv (c : Ctl) : Prop where
  /-- sequence freshness -/
  fC : ∀ x ∈ c.commits, x.1.2 ≤ sget c.next x.1.1
  fR : ∀ r ∈ c.refundLog, r.seq ≤ sget c.next r.ch
  fA : ∀ k ∈ c.ackedOk, k.2 ≤ sget c.next k.1
  fE : ∀ e ∈ c.evmSent, e.seq ≤ sget c.next e.ch
  /-- a refunded transfer is no longer committed -/
  rNC : ∀ r ∈ c.refundLog, ∀ x ∈ c.commits, x.1 ≠ r.key
  /-- a successfully acknowledged transfer is no longer committed -/
  aNC : ∀ k ∈ c.ackedOk, ∀ x ∈ c.commits, x.1 ≠ k
  /-- at most one refund per (channel, sequence) -/
  nodup : (c.refundLog.map RefundRec.key).Nodup
  /-- never both acknowledged successfully and refunded -/
  rNA : ∀ r ∈ c.refundLog, r.key ∉ c.ackedOk
  /-- the commitment of an EVM-originated transfer carries its sender, token and amount -/
  eData : ∀ e ∈ c.evmSent, ∀ x ∈ c.commits, x.1 = e.key → x.2 = ⟨e.sender, e.tok, e.amt⟩
  /-- an EVM-originated transfer of a bridged token that is still in flight has its relation record -/
  eRel : ∀ e ∈ c.evmSent, e.tok = .B → (∃ x ∈ c.commits, x.1 = e.key) → e.key ∈ c.rel
  /-- a refund of an EVM-originated transfer went to its sender, with its amount, and in ERC-20 form for bridged tokens -/
  rE : ∀ r ∈ c.refundLog, ∀ e ∈ c.evmSent, r.key = e.key →
    r.sender = e.sender ∧ r.tok = e.tok ∧ r.amt = e.amt ∧ (e.tok = .B → r.erc20Form = true)

theorem inv_init : Inv init.ctl := by
  constructor <;> simp [init]

/-- what the invariant needs from the configuration -/
structure Sound (cfg : Cfg) : Prop where
  sendSetsRel : cfg.sendSetsRel = true
  refundSees : cfg.refundSees = true
  refundConverts : cfg.refundConverts = true

theorem inv_send (c : Ctl) (ch : Ch) (p : Pkt) (evm setRel : Bool) (h : Inv c)
    (hrel : evm = true → p.tok = .B → setRel = true) : Inv (sendCtl c ch p evm setRel) := by
  have hn : ∀ ch', sget c.next ch' ≤ sget (sset c.next ch (nextSeq c ch)) ch' := by
    intro ch'
    rw [get_set]
    by_cases hc : ch = ch'
    · subst hc; simp [nextSeq]
    · simp [hc]
  have hself : sget (sset c.next ch (nextSeq c ch)) ch = sget c.next ch + 1 := by simp [get_set, nextSeq]
  -- nothing recorded so far carries the new key
  have freshC : ∀ x ∈ c.commits, x.1 ≠ (ch, nextSeq c ch) := by
    intro x hx he
    have := h.fC x hx
    rw [he] at this; exact absurd this (Nat.not_succ_le_self _)
  have freshR : ∀ r ∈ c.refundLog, r.key ≠ (ch, nextSeq c ch) := by
    intro r hr he
    have := h.fR r hr
    simp only [RefundRec.key, Prod.mk.injEq] at he
    rw [he.1, he.2] at this; exact absurd this (Nat.not_succ_le_self _)
  have freshA : ∀ k ∈ c.ackedOk, k ≠ (ch, nextSeq c ch) := by
    intro k hk he
    have := h.fA k hk
    rw [he] at this; exact absurd this (Nat.not_succ_le_self _)
  have freshE : ∀ e ∈ c.evmSent, e.key ≠ (ch, nextSeq c ch) := by
    intro e he hk
    have := h.fE e he
    simp only [SentRec.key, Prod.mk.injEq] at hk
    rw [hk.1, hk.2] at this; exact absurd this (Nat.not_succ_le_self _)
  have memE : ∀ e, e ∈ (if evm then (⟨ch, nextSeq c ch, p.sender, p.tok, p.amt⟩ : SentRec) :: c.evmSent else c.evmSent) →
      (evm = true ∧ e = ⟨ch, nextSeq c ch, p.sender, p.tok, p.amt⟩) ∨ e ∈ c.evmSent := by
    intro e he
    cases evm with
    | false => right; simpa using he
    | true =>
      simp only [↓reduceIte, List.mem_cons] at he
      rcases he with he | he
      · left; exact ⟨rfl, he⟩
      · right; exact he
  have relMono : ∀ k, k ∈ c.rel → k ∈ (if setRel then (ch, nextSeq c ch) :: c.rel else c.rel) := by
    intro k hk; cases setRel <;> simp [hk]
  constructor
  · -- fC
    intro x hx
    simp only [sendCtl, List.mem_cons] at hx ⊢
    rcases hx with hx | hx
    · subst hx; simp [get_set, nextSeq]
    · exact Nat.le_trans (h.fC x hx) (hn _)
  · intro r hr
    exact Nat.le_trans (h.fR r hr) (hn _)
  · intro k hk
    exact Nat.le_trans (h.fA k hk) (hn _)
  · intro e he
    rcases memE e he with ⟨_, he⟩ | he
    · subst he; simp [sendCtl, get_set, nextSeq]
    · exact Nat.le_trans (h.fE e he) (hn _)
  · -- rNC
    intro r hr x hx
    simp only [sendCtl, List.mem_cons] at hx hr
    rcases hx with hx | hx
    · subst hx; exact fun he => freshR r hr he.symm
    · exact h.rNC r hr x hx
  · intro k hk x hx
    simp only [sendCtl, List.mem_cons] at hx hk
    rcases hx with hx | hx
    · subst hx; exact fun he => freshA k hk he.symm
    · exact h.aNC k hk x hx
  · exact h.nodup
  · exact h.rNA
  · -- eData
    intro e he x hx hk
    simp only [sendCtl, List.mem_cons] at hx
    rcases memE e he with ⟨_, he⟩ | he
    · rcases hx with hx | hx
      · subst hx; subst he; rfl
      · subst he; exact absurd hk (freshC x hx)
    · rcases hx with hx | hx
      · subst hx; exact absurd hk.symm (freshE e he)
      · exact h.eData e he x hx hk
  · -- eRel
    intro e he hB hx
    obtain ⟨x, hx, hk⟩ := hx
    simp only [sendCtl, List.mem_cons] at hx ⊢
    rcases memE e he with ⟨hevm, he⟩ | he
    · subst he
      have : setRel = true := hrel hevm hB
      simp [this, SentRec.key]
    · rcases hx with hx | hx
      · subst hx; exact absurd hk.symm (freshE e he)
      · exact relMono _ (h.eRel e he hB ⟨x, hx, hk⟩)
  · -- rE
    intro r hr e he hk
    rcases memE e he with ⟨_, he⟩ | he
    · subst he; exact absurd hk (freshR r hr)
    · exact h.rE r hr e he hk

/-- only the commitment goes away (error ack / timeout without a refund hook) -/
theorem inv_drop (c : Ctl) (k : Ch × Seq) (h : Inv c) : Inv { c with commits := dropCommit c.commits k } := by
  constructor
  · intro x hx; exact h.fC x (mem_dropCommit.1 hx).1
  · exact h.fR
  · exact h.fA
  · exact h.fE
  · intro r hr x hx; exact h.rNC r hr x (mem_dropCommit.1 hx).1
  · intro a ha x hx; exact h.aNC a ha x (mem_dropCommit.1 hx).1
  · exact h.nodup
  · exact h.rNA
  · intro e he x hx; exact h.eData e he x (mem_dropCommit.1 hx).1
  · intro e he hB hx
    obtain ⟨x, hx, hk⟩ := hx
    exact h.eRel e he hB ⟨x, (mem_dropCommit.1 hx).1, hk⟩
  · exact h.rE

theorem inv_ackOk (cfg : Cfg) (c : Ctl) (k : Ch × Seq) (p : Pkt) (h : Inv c) (hk : (k, p) ∈ c.commits) :
    Inv (ackOkCtl cfg c k) := by
  constructor
  · intro x hx; exact h.fC x (mem_dropCommit.1 hx).1
  · exact h.fR
  · intro a ha
    simp only [ackOkCtl, List.mem_cons] at ha
    rcases ha with ha | ha
    · subst ha; exact h.fC _ hk
    · exact h.fA a ha
  · exact h.fE
  · intro r hr x hx; exact h.rNC r hr x (mem_dropCommit.1 hx).1
  · intro a ha x hx
    simp only [ackOkCtl, List.mem_cons] at ha hx
    rcases ha with ha | ha
    · subst ha; exact (mem_dropCommit.1 hx).2
    · exact h.aNC a ha x (mem_dropCommit.1 hx).1
  · exact h.nodup
  · intro r hr hin
    simp only [ackOkCtl, List.mem_cons] at hin hr
    rcases hin with hin | hin
    · exact h.rNC r hr _ hk hin.symm
    · exact h.rNA r hr hin
  · intro e he x hx; exact h.eData e he x (mem_dropCommit.1 hx).1
  · intro e he hB hx
    obtain ⟨x, hx, hke⟩ := hx
    have hx' := mem_dropCommit.1 hx
    have hin := h.eRel e he hB ⟨x, hx'.1, hke⟩
    simp only [ackOkCtl]
    split
    · exact mem_dropRel.2 ⟨hin, by rw [← hke]; exact hx'.2⟩
    · exact hin
  · exact h.rE

theorem inv_refund (cfg : Cfg) (c : Ctl) (k : Ch × Seq) (p : Pkt) (h : Inv c) (hk : (k, p) ∈ c.commits)
    (hsees : cfg.refundSees = true) (hconv : cfg.refundConverts = true) : Inv (refundCtl cfg c k p) := by
  constructor
  · intro x hx; exact h.fC x (mem_dropCommit.1 hx).1
  · intro r hr
    simp only [refundCtl, List.mem_cons] at hr
    rcases hr with hr | hr
    · subst hr; exact h.fC _ hk
    · exact h.fR r hr
  · exact h.fA
  · exact h.fE
  · intro r hr x hx
    simp only [refundCtl, List.mem_cons] at hr hx
    rcases hr with hr | hr
    · subst hr; exact (mem_dropCommit.1 hx).2
    · exact h.rNC r hr x (mem_dropCommit.1 hx).1
  · intro a ha x hx; exact h.aNC a ha x (mem_dropCommit.1 hx).1
  · -- nodup
    simp only [refundCtl, List.map_cons, List.nodup_cons]
    refine ⟨?_, h.nodup⟩
    intro hin
    obtain ⟨r, hr, hrk⟩ := List.mem_map.1 hin
    exact h.rNC r hr _ hk hrk.symm
  · intro r hr hin
    simp only [refundCtl, List.mem_cons] at hr hin
    rcases hr with hr | hr
    · subst hr; exact h.aNC _ hin _ hk rfl
    · exact h.rNA r hr hin
  · intro e he x hx; exact h.eData e he x (mem_dropCommit.1 hx).1
  · intro e he hB hx
    obtain ⟨x, hx, hke⟩ := hx
    have hx' := mem_dropCommit.1 hx
    have hin := h.eRel e he hB ⟨x, hx'.1, hke⟩
    simp only [refundCtl]
    split
    · exact mem_dropRel.2 ⟨hin, by rw [← hke]; exact hx'.2⟩
    · exact hin
  · intro r hr e he hke
    simp only [refundCtl, List.mem_cons] at hr he
    rcases hr with hr | hr
    · subst hr
      have hke' : k = e.key := by simpa [RefundRec.key] using hke
      have hd := h.eData e he _ hk hke'
      simp only at hd
      subst hd
      refine ⟨rfl, rfl, rfl, ?_⟩
      intro hB
      have hin := h.eRel e he hB ⟨_, hk, hke'⟩
      have hin' : k ∈ c.rel := by rw [hke']; exact hin
      simp [refundForm, refundFound, hsees, hconv, hin']
    · exact h.rE r hr e he hke

/-! ## the whole transition preserves the invariant -/

theorem refundOrDrop_inv (cfg : Cfg) (hs : Sound cfg) (s : State) (ch : Ch) (seq : Seq) (p : Pkt) (refunds : Bool)
    (h : Inv s.ctl) (hk : ((ch, seq), p) ∈ s.ctl.commits) : Inv (refundOrDrop cfg s ch seq p refunds).ctl := by
  unfold refundOrDrop
  cases refunds with
  | true => exact inv_refund cfg s.ctl _ p h hk hs.refundSees hs.refundConverts
  | false => exact inv_drop s.ctl _ h

theorem settleState_inv (cfg : Cfg) (hs : Sound cfg) (s : State) (ch : Ch) (seq : Seq) (p : Pkt) (mode : Mode)
    (h : Inv s.ctl) (hk : ((ch, seq), p) ∈ s.ctl.commits) : Inv (settleState cfg s ch seq p mode).ctl := by
  cases mode with
  | ackOk => exact inv_ackOk cfg s.ctl _ p h hk
  | ackErr => exact refundOrDrop_inv cfg hs s ch seq p _ h hk
  | timeout => exact refundOrDrop_inv cfg hs s ch seq p _ h hk

theorem settle_inv (cfg : Cfg) (hs : Sound cfg) (s : State) (ch : Ch) (seq : Seq) (mode : Mode) (h : Inv s.ctl) :
    Inv (settle cfg s ch seq mode).1.ctl := by
  unfold settle
  cases hl : lookup (ch, seq) s.ctl.commits with
  | none => exact h
  | some p => exact settleState_inv cfg hs s ch seq p mode h (lookup_mem hl)

theorem step_inv (cfg : Cfg) (hs : Sound cfg) (s : State) (op : Op) (h : Inv s.ctl) :
    Inv (stepWith cfg s op).1.ctl := by
  cases op with
  | reset => exact inv_init
  | fund a t ch amt =>
    simp only [stepWith]
    split <;> exact h
  | recv ch t k to amt m =>
    simp only [stepWith]
    split <;> exact h
  | send ch sender t amt =>
    simp only [stepWith]
    split
    · exact h
    · refine inv_send s.ctl ch _ true _ h ?_
      intro _ hB
      simp only at hB
      simp [hB, hs.sendSetsRel]
  | csend ch sender amt =>
    simp only [stepWith]
    split
    · exact h
    · exact inv_send s.ctl ch _ false false h (by simp)
  | settle ch seq mode => exact settle_inv cfg hs s ch seq mode h
  | bad => exact h

theorem run_inv (cfg : Cfg) (hs : Sound cfg) (ops : List Op) (s : State) (h : Inv s.ctl) :
    Inv (runWith cfg s ops).ctl := by
  induction ops generalizing s with
  | nil => exact h
  | cons op ops ih => exact ih _ (step_inv cfg hs s op h)

/-! ## relation removal -/

theorem refund_removes (cfg : Cfg) (c : Ctl) (k : Ch × Seq) (p : Pkt) (hsees : cfg.refundSees = true) :
    k ∉ (refundCtl cfg c k p).rel := by
  simp only [refundCtl]
  split
  · exact not_mem_dropRel _ _
  · rename_i hnf
    intro hin
    apply hnf
    simp [refundFound, hsees, hin]

theorem ackOk_removes (cfg : Cfg) (c : Ctl) (k : Ch × Seq) (h : cfg.ackOkRemoves = true) :
    k ∉ (ackOkCtl cfg c k).rel := by
  simp only [ackOkCtl, h, ↓reduceIte]
  exact not_mem_dropRel _ _

theorem ackOk_keeps (cfg : Cfg) (c : Ctl) (k : Ch × Seq) (h : cfg.ackOkRemoves = false) :
    (ackOkCtl cfg c k).rel = c.rel := by
  simp [ackOkCtl, h]

theorem settle_removes (cfg : Cfg) (hOk : cfg.ackOkRemoves = true) (hE : cfg.ackErrRefunds = true)
    (hT : cfg.timeoutRefunds = true) (hS : cfg.refundSees = true) (s : State) (ch : Ch) (seq : Seq) (mode : Mode) :
    (stepWith cfg s (.settle ch seq mode)).2.isDone → (ch, seq) ∉ (stepWith cfg s (.settle ch seq mode)).1.ctl.rel := by
  simp only [stepWith, settle]
  cases hl : lookup (ch, seq) s.ctl.commits with
  | none => intro hd; obtain ⟨_, _, _, _, hd⟩ := hd; cases hd
  | some p =>
    intro _
    cases mode with
    | ackOk => exact ackOk_removes cfg s.ctl _ hOk
    | ackErr => simp only [settleState, refundOrDrop, hE, ↓reduceIte]; exact refund_removes cfg s.ctl _ p hS
    | timeout => simp only [settleState, refundOrDrop, hT, ↓reduceIte]; exact refund_removes cfg s.ctl _ p hS

theorem settle_removes_failure (cfg : Cfg) (hE : cfg.ackErrRefunds = true)
    (hT : cfg.timeoutRefunds = true) (hS : cfg.refundSees = true) (s : State) (ch : Ch) (seq : Seq) (mode : Mode)
    (hm : mode ≠ .ackOk) :
    (stepWith cfg s (.settle ch seq mode)).2.isDone → (ch, seq) ∉ (stepWith cfg s (.settle ch seq mode)).1.ctl.rel := by
  simp only [stepWith, settle]
  cases hl : lookup (ch, seq) s.ctl.commits with
  | none => intro hd; obtain ⟨_, _, _, _, hd⟩ := hd; cases hd
  | some p =>
    intro _
    cases mode with
    | ackOk => exact absurd rfl hm
    | ackErr => simp only [settleState, refundOrDrop, hE, ↓reduceIte]; exact refund_removes cfg s.ctl _ p hS
    | timeout => simp only [settleState, refundOrDrop, hT, ↓reduceIte]; exact refund_removes cfg s.ctl _ p hS

theorem settle_ackOk_keeps (cfg : Cfg) (hne : cfg.ackDelPrefix ≠ cfg.setPrefix) (s : State) (ch : Ch) (seq : Seq) :
    (stepWith cfg s (.settle ch seq .ackOk)).1.ctl.rel = s.ctl.rel := by
  simp only [stepWith, settle]
  cases hl : lookup (ch, seq) s.ctl.commits with
  | none => rfl
  | some p =>
    have : cfg.ackOkRemoves = false := by simp [Cfg.ackOkRemoves, hne]
    exact ackOk_keeps cfg s.ctl _ this

theorem lookup_dropCommit (cs : List ((Ch × Seq) × Pkt)) (k : Ch × Seq) : lookup k (dropCommit cs k) = none := by
  induction cs with
  | nil => rfl
  | cons c r ih =>
    obtain ⟨k', q⟩ := c
    unfold dropCommit at ih ⊢
    rw [List.filter_cons]
    by_cases hk : k' = k
    · have hd : decide (((k', q) : (Ch × Seq) × Pkt).1 ≠ k) = false := by simp [hk]
      rw [hd]
      simp only [Bool.false_eq_true, ↓reduceIte]
      exact ih
    · have hd : decide (((k', q) : (Ch × Seq) × Pkt).1 ≠ k) = true := by simp [hk]
      rw [hd]
      simp only [↓reduceIte, lookup, hk]
      exact ih

theorem refundOrDrop_commits (cfg : Cfg) (s : State) (ch : Ch) (seq : Seq) (p : Pkt) (b : Bool) :
    (refundOrDrop cfg s ch seq p b).ctl.commits = dropCommit s.ctl.commits (ch, seq) := by
  cases b <;> rfl

theorem settleState_commits (cfg : Cfg) (s : State) (ch : Ch) (seq : Seq) (p : Pkt) (mode : Mode) :
    (settleState cfg s ch seq p mode).ctl.commits = dropCommit s.ctl.commits (ch, seq) := by
  cases mode with
  | ackOk => rfl
  | ackErr => exact refundOrDrop_commits ..
  | timeout => exact refundOrDrop_commits ..

theorem settle_twice (cfg : Cfg) (s : State) (ch : Ch) (seq : Seq) (mode mode' : Mode) :
    stepWith cfg (stepWith cfg s (.settle ch seq mode)).1 (.settle ch seq mode') =
      ((stepWith cfg s (.settle ch seq mode)).1, .noop (stepWith cfg s (.settle ch seq mode)).1.ctl.rel) := by
  simp only [stepWith]
  cases hl : lookup (ch, seq) s.ctl.commits with
  | none =>
    have h1 : settle cfg s ch seq mode = (s, .noop s.ctl.rel) := by simp [settle, hl]
    rw [h1]
    simp [settle, hl]
  | some p =>
    have h1 : (settle cfg s ch seq mode).1 = settleState cfg s ch seq p mode := by simp [settle, hl]
    rw [h1]
    have h2 : lookup (ch, seq) (settleState cfg s ch seq p mode).ctl.commits = none := by
      rw [settleState_commits]; exact lookup_dropCommit _ _
    simp [settle, h2]

/-- an error ack / timeout of an in-flight EVM-originated transfer of a bridged token pays the ERC-20 back -/
theorem settle_refund_credits (cfg : Cfg) (hs : Sound cfg) (hE : cfg.ackErrRefunds = true) (hT : cfg.timeoutRefunds = true)
    (s : State) (e : SentRec) (mode : Mode) (hm : mode ≠ .ackOk) (h : Inv s.ctl)
    (he : e ∈ s.ctl.evmSent) (hB : e.tok = .B) (hc : ∃ x ∈ s.ctl.commits, x.1 = e.key) :
    (stepWith cfg s (.settle e.ch e.seq mode)).2.isDone ∧
    sget (stepWith cfg s (.settle e.ch e.seq mode)).1.bal.erc (e.sender, e.ch) = sget s.bal.erc (e.sender, e.ch) + e.amt ∧
    (e.sender ≠ transferMod →
      sget (stepWith cfg s (.settle e.ch e.seq mode)).1.bal.vch (e.sender, Tok.B, e.ch) = sget s.bal.vch (e.sender, Tok.B, e.ch)) ∧
    (e.sender ≠ erc20Mod →
      sget (stepWith cfg s (.settle e.ch e.seq mode)).1.bal.base (e.sender, e.ch) = sget s.bal.base (e.sender, e.ch)) ∧
    (stepWith cfg s (.settle e.ch e.seq mode)).1.ctl.refundLog = ⟨e.ch, e.seq, e.sender, .B, e.amt, true⟩ :: s.ctl.refundLog := by
  obtain ⟨x, hx, hxk⟩ := hc
  -- the lookup finds a commitment, and it carries the transfer's data
  have hl : lookup (e.ch, e.seq) s.ctl.commits = some ⟨e.sender, .B, e.amt⟩ := by
    cases hl : lookup (e.ch, e.seq) s.ctl.commits with
    | none =>
      exfalso
      have : ∀ cs : List ((Ch × Seq) × Pkt), lookup (e.ch, e.seq) cs = none → ∀ y ∈ cs, y.1 ≠ (e.ch, e.seq) := by
        intro cs
        induction cs with
        | nil => intro _ y hy; cases hy
        | cons c r ih =>
          obtain ⟨k', q⟩ := c
          intro hn y hy
          simp only [lookup] at hn
          by_cases hk : k' = (e.ch, e.seq)
          · simp [hk] at hn
          · simp only [hk, ↓reduceIte] at hn
            rcases List.mem_cons.1 hy with hy | hy
            · subst hy; exact hk
            · exact ih hn y hy
      exact this _ hl x hx hxk
    | some p =>
      have hd := h.eData e he _ (lookup_mem hl) rfl
      simp only at hd
      rw [hd, hB]
  have hin : (e.ch, e.seq) ∈ s.ctl.rel := h.eRel e he hB ⟨x, hx, hxk⟩
  have hform : refundForm cfg s.ctl (e.ch, e.seq) = true := by
    simp [refundForm, refundFound, hs.refundSees, hs.refundConverts, hin]
  have hst : (stepWith cfg s (.settle e.ch e.seq mode)).1 =
      { bal := refundBal s.bal e.ch ⟨e.sender, .B, e.amt⟩ true, ctl := refundCtl cfg s.ctl (e.ch, e.seq) ⟨e.sender, .B, e.amt⟩ } := by
    cases mode with
    | ackOk => exact absurd rfl hm
    | ackErr => simp [stepWith, settle, hl, settleState, refundOrDrop, hE, hform]
    | timeout => simp [stepWith, settle, hl, settleState, refundOrDrop, hT, hform]
  refine ⟨?_, ?_⟩
  · simp only [stepWith, settle, hl]
    exact ⟨_, _, _, _, rfl⟩
  · rw [hst]
    refine ⟨?_, ?_, ?_, ?_⟩
    · simp [refundBal, get_add]
    · intro hne
      have : ¬ ((e.sender, Tok.B, e.ch) = (transferMod, Tok.B, e.ch)) := by
        intro h'; exact hne (by simpa using h')
      simp [refundBal, get_add, get_sub, Ne.symm hne]
    · intro hne
      simp [refundBal, get_add, get_sub, Ne.symm hne]
    · simp [refundCtl, hform]

/-! ## receive -/

theorem recvWith_credit_or_error (cfg : Cfg) (hD : cfg.recvDiscards = true) (hO : cfg.recvOrder = true)
    (s : State) (ch : Ch) (t : Tok) (to : Addr) (amt : Nat) (m : Memo) :
    ((stepWith cfg s (.recv ch t .hex to amt m)).2.isRecv true ∧ t ≠ .X ∧ 0 < amt ∧
      (stepWith cfg s (.recv ch t .hex to amt m)).1.ctl = s.ctl ∧
      (t = .B →
        sget (stepWith cfg s (.recv ch t .hex to amt m)).1.bal.erc (to, ch) = sget s.bal.erc (to, ch) + amt ∧
        (∀ k, k ≠ (to, ch) → sget (stepWith cfg s (.recv ch t .hex to amt m)).1.bal.erc k = sget s.bal.erc k) ∧
        (stepWith cfg s (.recv ch t .hex to amt m)).1.bal.fx = s.bal.fx ∧
        (to ≠ transferMod →
          sget (stepWith cfg s (.recv ch t .hex to amt m)).1.bal.vch (to, Tok.B, ch) = sget s.bal.vch (to, Tok.B, ch)) ∧
        (to ≠ erc20Mod →
          sget (stepWith cfg s (.recv ch t .hex to amt m)).1.bal.base (to, ch) = sget s.bal.base (to, ch))) ∧
      (t = .F →
        (to ≠ escrow ch → sget (stepWith cfg s (.recv ch t .hex to amt m)).1.bal.fx to = sget s.bal.fx to + amt) ∧
        (stepWith cfg s (.recv ch t .hex to amt m)).1.bal.erc = s.bal.erc ∧
        (stepWith cfg s (.recv ch t .hex to amt m)).1.bal.vch = s.bal.vch ∧
        (stepWith cfg s (.recv ch t .hex to amt m)).1.bal.base = s.bal.base))
    ∨ ((stepWith cfg s (.recv ch t .hex to amt m)).2.isRecv false ∧ (stepWith cfg s (.recv ch t .hex to amt m)).1 = s) := by
  by_cases h0 : amt = 0
  · right
    simp [stepWith, recvBal, recvApp, h0, Out.isRecv]
  have hpos : 0 < amt := Nat.pos_of_ne_zero h0
  cases t with
  | X =>
    right
    cases m <;> simp [stepWith, recvBal, recvApp, recvHook, h0, hD, hO, Out.isRecv]
  | F =>
    by_cases hesc : sget s.bal.fx (escrow ch) < amt
    · right
      simp [stepWith, recvBal, recvApp, h0, hesc, Out.isRecv]
    · cases m with
      | callrev =>
        right
        simp [stepWith, recvBal, recvApp, recvHook, h0, hesc, hD, hO, Out.isRecv]
      | none =>
        left
        refine ⟨by simp [stepWith, recvBal, recvApp, recvHook, h0, hesc, hO, Out.isRecv], by simp, hpos, ?_, by simp, ?_⟩
        · simp [stepWith, recvBal, recvApp, recvHook, h0, hesc, hO]
        · intro _
          refine ⟨?_, ?_, ?_, ?_⟩ <;> simp [stepWith, recvBal, recvApp, recvHook, h0, hesc, hO, get_add, get_sub]
          intro hne; simp [Ne.symm hne]
      | junk =>
        left
        refine ⟨by simp [stepWith, recvBal, recvApp, recvHook, h0, hesc, hO, Out.isRecv], by simp, hpos, ?_, by simp, ?_⟩
        · simp [stepWith, recvBal, recvApp, recvHook, h0, hesc, hO]
        · intro _
          refine ⟨?_, ?_, ?_, ?_⟩ <;> simp [stepWith, recvBal, recvApp, recvHook, h0, hesc, hO, get_add, get_sub]
          intro hne; simp [Ne.symm hne]
      | callok =>
        left
        refine ⟨by simp [stepWith, recvBal, recvApp, recvHook, h0, hesc, hO, Out.isRecv], by simp, hpos, ?_, by simp, ?_⟩
        · simp [stepWith, recvBal, recvApp, recvHook, h0, hesc, hO]
        · intro _
          refine ⟨?_, ?_, ?_, ?_⟩ <;> simp [stepWith, recvBal, recvApp, recvHook, h0, hesc, hO, get_add, get_sub]
          intro hne; simp [Ne.symm hne]
  | B =>
    cases m with
    | callrev =>
      right
      simp [stepWith, recvBal, recvApp, recvHook, h0, hD, hO, Out.isRecv]
    | none =>
      left
      refine ⟨by simp [stepWith, recvBal, recvApp, recvHook, h0, hO, Out.isRecv], by simp, hpos, ?_, ?_, by simp⟩
      · simp [stepWith, recvBal, recvApp, recvHook, h0, hO]
      · intro _
        refine ⟨?_, ?_, ?_, ?_, ?_⟩ <;>
          simp [stepWith, recvBal, recvApp, recvHook, coinToEvm, h0, hO, get_add, get_sub]
        · intro a b hne h1 h2; exact absurd h2.symm (hne h1.symm)
        · intro hne; simp [Ne.symm hne]
        · intro hne; simp [Ne.symm hne]
    | junk =>
      left
      refine ⟨by simp [stepWith, recvBal, recvApp, recvHook, h0, hO, Out.isRecv], by simp, hpos, ?_, ?_, by simp⟩
      · simp [stepWith, recvBal, recvApp, recvHook, h0, hO]
      · intro _
        refine ⟨?_, ?_, ?_, ?_, ?_⟩ <;>
          simp [stepWith, recvBal, recvApp, recvHook, coinToEvm, h0, hO, get_add, get_sub]
        · intro a b hne h1 h2; exact absurd h2.symm (hne h1.symm)
        · intro hne; simp [Ne.symm hne]
        · intro hne; simp [Ne.symm hne]
    | callok =>
      left
      refine ⟨by simp [stepWith, recvBal, recvApp, recvHook, h0, hO, Out.isRecv], by simp, hpos, ?_, ?_, by simp⟩
      · simp [stepWith, recvBal, recvApp, recvHook, h0, hO]
      · intro _
        refine ⟨?_, ?_, ?_, ?_, ?_⟩ <;>
          simp [stepWith, recvBal, recvApp, recvHook, coinToEvm, h0, hO, get_add, get_sub]
        · intro a b hne h1 h2; exact absurd h2.symm (hne h1.symm)
        · intro hne; simp [Ne.symm hne]
        · intro hne; simp [Ne.symm hne]

theorem recvWith_bech_error (cfg : Cfg) (hD : cfg.recvDiscards = true) (hO : cfg.recvOrder = true)
    (s : State) (ch : Ch) (t : Tok) (to : Addr) (amt : Nat) (m : Memo) (ht : t ≠ .F) :
    (stepWith cfg s (.recv ch t .bech to amt m)).2.isRecv false ∧ (stepWith cfg s (.recv ch t .bech to amt m)).1 = s := by
  by_cases h0 : amt = 0
  · simp [stepWith, recvBal, recvApp, h0, Out.isRecv]
  cases t with
  | F => exact absurd rfl ht
  | B => cases m <;> simp [stepWith, recvBal, recvApp, recvHook, h0, hD, hO, Out.isRecv]
  | X => cases m <;> simp [stepWith, recvBal, recvApp, recvHook, h0, hD, hO, Out.isRecv]

theorem recvWith_memo (cfg : Cfg) (hD : cfg.recvDiscards = true) (hO : cfg.recvOrder = true)
    (s : State) (ch : Ch) (t : Tok) (k : RKind) (to : Addr) (amt : Nat) :
    ((stepWith cfg s (.recv ch t k to amt .callrev)).2.isRecv false ∧ (stepWith cfg s (.recv ch t k to amt .callrev)).1 = s) ∧
    (((stepWith cfg s (.recv ch t k to amt .callok)).2.isRecv true ∧
        (stepWith cfg s (.recv ch t k to amt .callok)).1.bal.marker = s.bal.marker + 1) ∨
      ((stepWith cfg s (.recv ch t k to amt .callok)).2.isRecv false ∧ (stepWith cfg s (.recv ch t k to amt .callok)).1 = s)) := by
  by_cases h0 : amt = 0
  · simp [stepWith, recvBal, recvApp, h0, Out.isRecv]
  cases t with
  | F =>
    by_cases hesc : sget s.bal.fx (escrow ch) < amt
    · simp [stepWith, recvBal, recvApp, h0, hesc, Out.isRecv]
    · simp [stepWith, recvBal, recvApp, recvHook, h0, hesc, hD, hO, Out.isRecv]
  | B => cases k <;> simp [stepWith, recvBal, recvApp, recvHook, coinToEvm, h0, hD, hO, Out.isRecv]
  | X => cases k <;> simp [stepWith, recvBal, recvApp, recvHook, h0, hD, hO, Out.isRecv]

/-! ## the memo-call sender -/

theorem prefix_inj (p p' c c' : List Char) (hp : '/' ∉ p) (hp' : '/' ∉ p')
    (h : p ++ '/' :: c = p' ++ '/' :: c') : p = p' ∧ c = c' := by
  induction p generalizing p' with
  | nil =>
    cases p' with
    | nil => simpa using h
    | cons a r =>
      simp only [List.nil_append, List.cons_append, List.cons.injEq] at h
      exact absurd h.1 (by intro e; apply hp'; simp [← e])
  | cons a r ih =>
    cases p' with
    | nil =>
      simp only [List.nil_append, List.cons_append, List.cons.injEq] at h
      exact absurd h.1 (by intro e; apply hp; simp [e])
    | cons a' r' =>
      simp only [List.cons_append, List.cons.injEq] at h
      have := ih r' (by intro hm; exact hp (List.mem_cons_of_mem _ hm))
        (by intro hm; exact hp' (List.mem_cons_of_mem _ hm)) h.2
      exact ⟨by rw [h.1, this.1], this.2⟩

end FxVerif.Proofs.C19
