import FxVerif.Proofs.C14InvG
/-!
# C14 — the set of accounts with a usable key is not changed by any operation

`keyOf s = s.hasKey` is preserved by every operation of the model (`hasKey_*`), hence along every history.  Used to discharge
"the source is not a module pool" for reachable states: a module pool has no key, and `checkMigrateFrom` demands one.
-/
namespace FxVerif.Proofs.C14
open FxVerif.Model.C14

def keyOf (s : State) : List Addr := s.hasKey

theorem touchPre_key {s s' : State} {d v rw} (h : touchPre s d v rw = some s') : keyOf s' = keyOf s := by
  unfold touchPre at h
  split at h
  · cases h; rfl
  · split at h
    · cases h
    · cases h; rfl

theorem unbond_key {s s' : State} {d v amt rw} (h : unbond s d v amt rw = some s') : keyOf s' = keyOf s := by
  unfold unbond at h
  split at h
  · cases h
  · split at h
    · cases h
    · split at h
      · cases h
      · rename_i s1 h1
        cases h
        have := touchPre_key h1
        split <;> simpa [touchPost, keyOf] using this

theorem addShares_key {s s' : State} {d v amt rw} (h : addShares s d v amt rw = some s') : keyOf s' = keyOf s := by
  unfold addShares at h
  split at h
  · cases h
  · rename_i s1 h1
    cases h
    simpa [touchPost, keyOf] using touchPre_key h1

theorem delegate_key {s s' : State} {d v amt rw} (h : delegate s d v amt rw = some s') : keyOf s' = keyOf s := by
  unfold delegate at h
  split at h
  · cases h
  · split at h
    · cases h
    · rename_i s1 h1
      split at h
      · cases h
      · cases h
        simpa [touchPost, keyOf] using touchPre_key h1

theorem undelegate_key {s s' : State} {d v amt rw} (h : undelegate s d v amt rw = some s') : keyOf s' = keyOf s := by
  unfold undelegate at h
  split at h
  · cases h
  · simp only [] at h
    split at h
    · cases h
    · split at h
      · cases h
      · rename_i s1 h1
        split at h
        · cases h
        · cases h
          exact (unbond_key h1 : keyOf s1 = keyOf s)

theorem redelegate_key {s s' : State} {d a b amt r1 r2} (h : redelegate s d a b amt r1 r2 = some s') :
    keyOf s' = keyOf s := by
  unfold redelegate at h
  split at h
  · cases h
  · split at h
    · cases h
    · simp only [] at h
      split at h
      · cases h
      · split at h
        · cases h
        · rename_i s1 h1
          split at h
          · cases h
          · rename_i s2 h2
            cases h
            exact ((addShares_key h2 : keyOf s2 = keyOf s1).trans (unbond_key h1))

theorem withdraw_key {s s' : State} {d v rw} (h : withdraw s d v rw = some s') : keyOf s' = keyOf s := by
  unfold withdraw at h
  split at h
  · cases h
  · split at h
    · cases h
    · rename_i s1 h1
      cases h
      simpa [touchPost, keyOf] using touchPre_key h1

theorem completeUnbonding_key (s : State) (d v) : keyOf (completeUnbonding s d v) = keyOf s := by
  unfold completeUnbonding
  split
  · rfl
  · simp only []
    split <;> rfl

theorem completeRedelegation_key (s : State) (d a b) : keyOf (completeRedelegation s d a b) = keyOf s := by
  unfold completeRedelegation
  split
  · rfl
  · simp only []
    split <;> rfl

theorem stakingEnd_key (s : State) : keyOf (stakingEnd s) = keyOf s := by
  unfold stakingEnd
  refine (foldl_keep keyOf _ (by intros; exact completeRedelegation_key _ _ _ _) _ _).trans ?_
  exact foldl_keep keyOf _ (by intros; exact completeUnbonding_key _ _ _) _ _


theorem submit_key {s s' : State} {a dep} (h : submit s a dep = some s') : keyOf s' = keyOf s := by
  unfold submit at h
  split at h
  · cases h
  · cases h; rfl

theorem deposit_key {s s' : State} {a id amt} (h : deposit s a id amt = some s') : keyOf s' = keyOf s := by
  unfold deposit at h
  split at h
  · cases h
  · split at h
    · cases h
    · split at h
      · cases h
      · cases h; rfl

theorem vote_key {s s' : State} {a id} (h : vote s a id = some s') : keyOf s' = keyOf s := by
  unfold vote at h
  split at h
  · cases h
  · split at h
    · cases h
    · cases h; rfl

theorem govEnd_key (s : State) : keyOf (govEnd s) = keyOf s := by
  unfold govEnd
  refine (foldl_keep keyOf _ (by intros; rfl) _ _).trans ?_
  exact foldl_keep keyOf _ (by intros; rfl) _ _

theorem endBlock_key (s : State) (dt) : keyOf (endBlock s dt) = keyOf s := by
  unfold endBlock
  exact (govEnd_key _).trans (stakingEnd_key _)

theorem migrated_key (c : Cfg) (s : State) (frm to : Addr) :
    keyOf (setRecord c (stakingExecute c (bankExecute c s frm to) frm to) frm to) = keyOf s :=
  (stakingExecute_frame c (bankExecute c s frm to) frm to).hasKey

end FxVerif.Proofs.C14
