import FxVerif.Proofs.C03
import FxVerif.Model.C03Attest

/-!
# C03 — helper lemmas: paths of different claim types never coincide; invariants of the attestation model
-/
namespace FxVerif.Proofs.C03
open FxVerif.Model.C03

/-! ## counting separators -/

def slashes (s : Str) : Nat := s.count '/'

theorem NoSlash.slashes {a : Str} (h : NoSlash a) : slashes a = 0 :=
  List.count_eq_zero.mpr fun hm => h _ hm rfl

theorem slashes_sep {a r : Str} (h : NoSlash a) : slashes (a ++ '/' :: r) = slashes r + 1 := by
  simp only [slashes, List.count_append, List.count_cons_self]
  have := h.slashes
  simp only [slashes] at this
  omega

theorem slashes_app {a r : Str} (h : NoSlash a) : slashes (a ++ r) = slashes r := by
  simp only [slashes, List.count_append]
  have := h.slashes
  simp only [slashes] at this
  omega

theorem slashes_end : slashes ['/'] = 1 := by decide

theorem ne_of_slashes {p q : Str} {m n : Nat} (hp : slashes p = m) (hq : slashes q = n) (hmn : m ≠ n) : p ≠ q := by
  intro e
  rw [e, hq] at hp
  exact hmn hp.symm

/-! ## number of separators of the path of a valid claim, per type (over the regenerated `path` and `validGen`) -/

theorem stf_slashes {k : AddrKind} {c : MsgSendToFxClaim} (v : c.valid k = true) : slashes c.path = 5 := by
  simp only [MsgSendToFxClaim.valid, MsgSendToFxClaim.validGen, Bool.and_eq_true] at v
  obtain ⟨⟨⟨⟨⟨⟨⟨_, s⟩, t⟩, r⟩, _⟩, ti⟩, _⟩, _⟩ := v
  simp only [MsgSendToFxClaim.path, fmt_d_uint64, fmt_s_string, fmt_s_IntString]
  rw [slashes_sep (noSlash_nat _), slashes_app (noSlash_nat _), slashes_sep (noSlash_addr t), slashes_sep (noSlash_addr s),
    slashes_sep (noSlash_int _), slashes_sep (noSlash_bech r), (noSlash_hex ti).slashes]

theorem bc_slashes {k : AddrKind} {c : MsgBridgeCallClaim} (v : c.valid k = true) : slashes c.path = 10 := by
  simp only [MsgBridgeCallClaim.valid, MsgBridgeCallClaim.validGen, Bool.and_eq_true] at v
  obtain ⟨⟨⟨⟨⟨⟨⟨⟨⟨⟨⟨_, tc⟩, _⟩, s⟩, to⟩, rf⟩, _⟩, d⟩, _⟩, _⟩, o⟩, m⟩ := v
  simp only [MsgBridgeCallClaim.path, fmt_d_uint64, fmt_s_string, fmt_v_string, fmt_s_IntString, fmt_s_sliceString,
    fmt_v_sliceInt]
  rw [slashes_sep (noSlash_nat _), slashes_sep (noSlash_nat _), slashes_sep (noSlash_addr s), slashes_sep (noSlash_addr rf),
    slashes_sep (noSlash_addr to), slashes_sep (noSlash_addrs tc), slashes_sep (noSlash_ints _), slashes_sep (noSlash_hex d),
    slashes_sep (noSlash_int _), slashes_sep (noSlash_addr o), (noSlash_hex m).slashes]

theorem bcr_slashes {k : AddrKind} {c : MsgBridgeCallResultClaim} (v : c.valid k = true) : slashes c.path = 5 := by
  simp only [MsgBridgeCallResultClaim.valid, MsgBridgeCallResultClaim.validGen, Bool.and_eq_true] at v
  obtain ⟨⟨⟨⟨⟨_, _⟩, _⟩, _⟩, o⟩, ca⟩ := v
  simp only [MsgBridgeCallResultClaim.path, fmt_d_uint64, fmt_s_string]
  rw [slashes_sep (noSlash_nat _), slashes_sep (noSlash_nat _), slashes_sep (noSlash_nat _), slashes_sep (noSlash_bool _),
    slashes_sep (noSlash_hex ca), (noSlash_addr o).slashes]

theorem ste_slashes {k : AddrKind} {c : MsgSendToExternalClaim} (v : c.valid k = true) : slashes c.path = 4 := by
  simp only [MsgSendToExternalClaim.valid, MsgSendToExternalClaim.validGen, Bool.and_eq_true] at v
  obtain ⟨⟨⟨⟨_, t⟩, _⟩, _⟩, _⟩ := v
  simp only [MsgSendToExternalClaim.path, fmt_d_uint64, fmt_s_string]
  rw [slashes_sep (noSlash_nat _), slashes_sep (noSlash_nat _), slashes_sep (noSlash_addr t), slashes_app (noSlash_nat _),
    slashes_end]

theorem bt_slashes {k : AddrKind} {c : MsgBridgeTokenClaim} (v : c.valid k = true) : slashes c.path = 6 := by
  simp only [MsgBridgeTokenClaim.valid, MsgBridgeTokenClaim.validGen, Bool.and_eq_true] at v
  obtain ⟨⟨⟨⟨⟨⟨⟨⟨_, t⟩, ch⟩, _⟩, _⟩, _⟩, _⟩, n⟩, sy⟩ := v
  simp only [MsgBridgeTokenClaim.path, fmt_d_uint64, fmt_s_string, fmt_x_string]
  rw [slashes_sep (noSlash_nat _), slashes_app (noSlash_nat _), slashes_sep (noSlash_addr t), slashes_sep (noSlash_hexStr n),
    slashes_sep (noSlash_hexStr sy), slashes_sep (noSlash_nat _), slashes_app (noSlash_hex ch), slashes_end]

theorem osu_slashes {k : AddrKind} {c : MsgOracleSetUpdatedClaim} (v : c.valid k = true) : slashes c.path = 4 := by
  simp only [MsgOracleSetUpdatedClaim.valid, MsgOracleSetUpdatedClaim.validGen, Bool.and_eq_true] at v
  obtain ⟨⟨⟨⟨_, _⟩, m⟩, _⟩, _⟩ := v
  have m := members_addr m
  simp only [MsgOracleSetUpdatedClaim.path, fmt_d_uint64, fmt_v_sliceBridgeValidator]
  rw [slashes_sep (noSlash_nat _), slashes_sep (noSlash_nat _), slashes_sep (noSlash_nat _), slashes_app (members_noslash m),
    slashes_end]

/-! ## the two pairs of types with equally many separators -/

theorem digits_ne_bool {a : Option Int} (ha : isNonNeg a = true) (b : Bool) : fmtInt a ≠ fmt_t_bool b := by
  intro e
  match a, ha with
  | some (Int.ofNat n), _ =>
    simp only [fmtInt] at e
    have hd := fmtNat_digits n
    cases b
    · simp only [fmt_t_bool, Bool.false_eq_true, if_false] at e
      exact absurd (hd 'f' (by rw [e]; simp)) (by decide)
    · simp only [fmt_t_bool, if_true] at e
      exact absurd (hd 't' (by rw [e]; simp)) (by decide)

/-- send-to-fx `h/nT/S/amount/R/target` vs bridge-call-result `h/n/nonce/bool/cause/origin`: the fourth component is a
number in one and `true`/`false` in the other -/
theorem stf_ne_bcr {k₁ k₂ : AddrKind} {a : MsgSendToFxClaim} {b : MsgBridgeCallResultClaim}
    (va : a.valid k₁ = true) (_vb : b.valid k₂ = true) : a.path ≠ b.path := by
  intro h
  simp only [MsgSendToFxClaim.valid, MsgSendToFxClaim.validGen, Bool.and_eq_true] at va
  obtain ⟨⟨⟨⟨⟨⟨⟨_, s⟩, t⟩, r⟩, am⟩, _⟩, _⟩, _⟩ := va
  simp only [MsgSendToFxClaim.path, MsgBridgeCallResultClaim.path, fmt_d_uint64, fmt_s_string, fmt_s_IntString] at h
  obtain ⟨_, h⟩ := split_sep (noSlash_nat _) (noSlash_nat _) h
  rw [← List.append_assoc] at h
  obtain ⟨_, h⟩ := split_sep ((noSlash_nat _).append (noSlash_addr t)) (noSlash_nat _) h
  obtain ⟨_, h⟩ := split_sep (noSlash_addr s) (noSlash_nat _) h
  obtain ⟨e, _⟩ := split_sep (noSlash_int _) (noSlash_bool _) h
  exact digits_ne_bool am _ e

/-- send-to-external `h/n/T/batch/` vs oracle-set-updated `h/set/n/[members]/`: the fourth component is a number in one
and starts with `[` in the other -/
theorem ste_ne_osu {k₁ k₂ : AddrKind} {a : MsgSendToExternalClaim} {b : MsgOracleSetUpdatedClaim}
    (va : a.valid k₁ = true) (vb : b.valid k₂ = true) : a.path ≠ b.path := by
  intro h
  simp only [MsgSendToExternalClaim.valid, MsgSendToExternalClaim.validGen, Bool.and_eq_true] at va
  obtain ⟨⟨⟨⟨_, t⟩, _⟩, _⟩, _⟩ := va
  simp only [MsgOracleSetUpdatedClaim.valid, MsgOracleSetUpdatedClaim.validGen, Bool.and_eq_true] at vb
  obtain ⟨⟨⟨⟨_, _⟩, m⟩, _⟩, _⟩ := vb
  have m := members_addr m
  simp only [MsgSendToExternalClaim.path, MsgOracleSetUpdatedClaim.path, fmt_d_uint64, fmt_s_string,
    fmt_v_sliceBridgeValidator] at h
  obtain ⟨_, h⟩ := split_sep (noSlash_nat _) (noSlash_nat _) h
  obtain ⟨_, h⟩ := split_sep (noSlash_nat _) (noSlash_nat _) h
  obtain ⟨_, h⟩ := split_sep (noSlash_addr t) (noSlash_nat _) h
  have e := split_end (noSlash_nat _) (members_noslash m) h
  simp only [fmtSlice] at e
  exact absurd (fmtNat_digits a.BatchNonce '[' (by rw [e]; simp)) (by decide)

/-! ## the attestation model: what every stored vote and every execution satisfies -/

section
variable {η : Type} [DecidableEq η]

/-- the claim recorded in an attestation and every vote stored in it were submitted under that attestation's key, and
satisfy `P` -/
def AttOk (key : AnyClaim → η) (P : AnyClaim → Prop) (a : Att η) : Prop :=
  (a.claim.nonce = a.nonce ∧ key a.claim = a.hash ∧ P a.claim) ∧
  ∀ v ∈ a.votes, v.2.nonce = a.nonce ∧ key v.2 = a.hash ∧ P v.2

/-- every execution handed the handler a claim with the key of the attestation whose votes were tallied -/
def ExecOk (key : AnyClaim → η) (P : AnyClaim → Prop) (e : Exec) : Prop :=
  P e.claim ∧ ∀ v ∈ e.tallied, v.2.nonce = e.claim.nonce ∧ key v.2 = key e.claim ∧ P v.2

/-- `F`: the attestations that were NOT filed by this code under the current key function (left behind by an earlier
release, imported): nothing is known about them except that no submitted claim has their key (`Stale`) -/
def Inv (key : AnyClaim → η) (P : AnyClaim → Prop) (F : Att η → Prop) (s : AState η) : Prop :=
  (∀ a ∈ s.atts, AttOk key P a ∨ F a) ∧ (∀ e ∈ s.executed, ExecOk key P e)

/-- no claim satisfying `P` (= submitted in the history) has the store key of an attestation in `F` -/
def Stale (key : AnyClaim → η) (P : AnyClaim → Prop) (F : Att η → Prop) : Prop :=
  ∀ a, F a → ∀ c, P c → ¬(a.nonce = c.nonce ∧ a.hash = key c)

/-- what `ExecuteClaim` finds and what it has run was handed to the handler by an observed attestation of that nonce -/
def PendInv (s : AState η) : Prop :=
  (∀ p ∈ s.pending, p.2.nonce = p.1 ∧ ∃ e ∈ s.executed, e.claim = p.2) ∧ (∀ c ∈ s.ran, ∃ e ∈ s.executed, e.claim = c)

theorem mem_setAtt {atts : List (Att η)} {a b : Att η} (h : b ∈ setAtt atts a) : b = a ∨ b ∈ atts := by
  simp only [setAtt, List.mem_cons, List.mem_filter] at h
  rcases h with h | h
  · exact Or.inl h
  · exact Or.inr h.1

theorem getAtt_mem {atts : List (Att η)} {n : Nat} {h : η} {a : Att η} (hg : getAtt atts n h = some a) :
    a ∈ atts ∧ a.nonce = n ∧ a.hash = h := by
  simp only [getAtt] at hg
  have hm := List.mem_of_find?_eq_some hg
  have hp := List.find?_some hg
  simp only [sameKey, Bool.and_eq_true, beq_iff_eq] at hp
  exact ⟨hm, hp.1, hp.2⟩

omit [DecidableEq η] in
theorem attOk_freshAtt (key : AnyClaim → η) (P : AnyClaim → Prop) (c : AnyClaim) (hc : P c) : AttOk key P (freshAtt key c) :=
  ⟨⟨rfl, rfl, hc⟩, fun _ h => (by cases h)⟩

/-- a lookup that only looks under the voter's own key (every entry of the REGENERATED `attestLookup` is `ownKey` or
`fresh`) yields an attestation with the voter's key that this code filed, and takes nothing from another key -/
theorem lookup_own (key : AnyClaim → η) (P : AnyClaim → Prop) (F : Att η → Prop) (le : η → η → Bool) (s : AState η) (c : AnyClaim)
    (hs : Inv key P F s) (hF : Stale key P F) (hc : P c) :
    ∀ (srcs : List AttSource), (∀ x ∈ srcs, x.own = true) →
      (lookupWith le key s c srcs).2 = none ∧ AttOk key P (lookupWith le key s c srcs).1
      ∧ (lookupWith le key s c srcs).1.nonce = c.nonce ∧ (lookupWith le key s c srcs).1.hash = key c
  | [], _ => ⟨rfl, attOk_freshAtt key P c hc, rfl, rfl⟩
  | .ownKey :: r, own => by
    simp only [lookupWith]
    cases hg : getAtt s.atts c.nonce (key c) with
    | none => exact lookup_own key P F le s c hs hF hc r (fun x hx => own x (List.mem_cons_of_mem _ hx))
    | some a =>
      obtain ⟨ham, hn, hh⟩ := getAtt_mem hg
      rcases hs.1 a ham with ok | f
      · exact ⟨rfl, ok, hn, hh⟩
      · exact absurd ⟨hn, hh⟩ (hF a f c hc)
  | .fresh :: _, _ => ⟨rfl, attOk_freshAtt key P c hc, rfl, rfl⟩
  | .otherStored src :: _, own => by
    have := own (.otherStored src) List.mem_cons_self
    simp [AttSource.own] at this

omit [DecidableEq η] in
theorem attOk_withVote (key : AnyClaim → η) (P : AnyClaim → Prop) (a : Att η) (o : Nat) (c : AnyClaim)
    (ha : AttOk key P a) (hn : a.nonce = c.nonce) (hh : a.hash = key c) (hc : P c) : AttOk key P (withVote a o c) := by
  refine ⟨ha.1, ?_⟩
  intro v hv
  simp only [withVote, List.mem_append, List.mem_singleton] at hv ⊢
  rcases hv with hv | rfl
  · exact ha.2 v hv
  · exact ⟨hn.symm, hh.symm, hc⟩

/-- the attestation the vote is filed in, and the table it is filed into, when the lookup is under the own key only -/
theorem voted_own (key : AnyClaim → η) (P : AnyClaim → Prop) (F : Att η → Prop) (le : η → η → Bool) (s : AState η) (o : Nat)
    (c : AnyClaim) (srcs : List AttSource) (own : ∀ x ∈ srcs, x.own = true)
    (hs : Inv key P F s) (hF : Stale key P F) (hc : P c) :
    baseWith srcs le key s c = s ∧ AttOk key P (votedAttWith srcs le key s o c)
    ∧ (votedAttWith srcs le key s o c).nonce = c.nonce ∧ (votedAttWith srcs le key s o c).hash = key c := by
  obtain ⟨h2, hok, hn, hh⟩ := lookup_own key P F le s c hs hF hc srcs own
  refine ⟨by simp only [baseWith, h2], ?_, rfl, rfl⟩
  have := attOk_withVote key P _ o c hok hn hh hc
  refine ⟨⟨?_, ?_, this.1.2.2⟩, fun v hv => ?_⟩
  · exact this.1.1.trans hn
  · exact this.1.2.1.trans hh
  · have hv' := this.2 v hv
    exact ⟨hv'.1.trans hn, hv'.2.1.trans hh, hv'.2.2⟩

/-! ### the call sites -/

omit [DecidableEq η] in
theorem mem_insertBy {le : η → η → Bool} {a b : Att η} : ∀ {xs : List (Att η)}, b ∈ insertBy le a xs → b = a ∨ b ∈ xs
  | [], h => by simpa [insertBy] using h
  | x :: r, h => by
    simp only [insertBy] at h
    split at h
    · simpa using h
    · simp only [List.mem_cons] at h ⊢
      rcases h with h | h
      · exact Or.inr (Or.inl h)
      · rcases mem_insertBy h with h | h
        · exact Or.inl h
        · exact Or.inr (Or.inr h)

omit [DecidableEq η] in
theorem mem_sortAtts {le : η → η → Bool} {b : Att η} : ∀ {xs : List (Att η)}, b ∈ sortAtts le xs → b ∈ xs
  | [], h => by simpa [sortAtts] using h
  | x :: r, h => by
    simp only [sortAtts, List.foldr_cons] at h
    rcases mem_insertBy h with h | h
    · simp [h]
    · exact List.mem_cons_of_mem _ (mem_sortAtts (xs := r) h)

omit [DecidableEq η] in
theorem mem_candidates {le : η → η → Bool} {s : AState η} {a1 b : Att η} {c : AnyClaim} {t : AttSel}
    (h : b ∈ candidates le s a1 c t) : (t = .voted ∧ b = a1) ∨ b ∈ s.atts := by
  cases t with
  | voted => simp only [candidates, List.mem_singleton] at h; exact Or.inl ⟨rfl, h⟩
  | stored =>
    simp only [candidates] at h
    have := mem_sortAtts h
    simp only [List.mem_filter] at this
    exact Or.inr this.1
  | other => simp [candidates] at h

omit [DecidableEq η] in
theorem firstCrossing_mem {s : AState η} {a : Att η} : ∀ {xs : List (Att η)}, firstCrossing s xs = some a → a ∈ xs
  | [], h => by simp [firstCrossing] at h
  | x :: r, h => by
    simp only [firstCrossing] at h
    split at h
    · simp only [Option.some.injEq] at h
      simp [h]
    · exact List.mem_cons_of_mem _ (firstCrossing_mem h)

omit [DecidableEq η] in
/-- what a walk over the call sites returns: an attestation one of the sites selects, and the claim that site hands over -/
theorem trySites_spec {le : η → η → Bool} {s : AState η} {a1 a : Att η} {c ch : AnyClaim} :
    ∀ {sites : List TrySite}, trySites le s a1 c sites = some (a, ch) →
      ∃ t ∈ sites, a ∈ candidates le s a1 c t.att ∧ ch = handed a c t.claim
  | [], h => by simp [trySites] at h
  | t :: r, h => by
    simp only [trySites] at h
    split at h
    · rename_i a' hf
      simp only [Option.some.injEq, Prod.mk.injEq] at h
      exact ⟨t, by simp, h.1 ▸ firstCrossing_mem hf, h.1 ▸ h.2.symm⟩
    · obtain ⟨t', ht', hc⟩ := trySites_spec h
      exact ⟨t', List.mem_cons_of_mem _ ht', hc⟩

omit [DecidableEq η] in
/-- **the obligation on the call structure**: if every call site is well keyed, the claim handed to the handler has the
key (nonce and hash) of the attestation whose votes are tallied.  `hsel`: either every site is handed the attestation of the
vote itself, or the table holds no attestation from another source -/
theorem handed_key (key : AnyClaim → η) (P : AnyClaim → Prop) (F : Att η → Prop) {le : η → η → Bool} {s1 : AState η} {a1 a : Att η}
    {c ch : AnyClaim} {sites : List TrySite} (wk : ∀ t ∈ sites, t.wellKeyed = true)
    (hsel : (∀ t ∈ sites, t.att = .voted) ∨ ∀ b, ¬F b)
    (hs : ∀ b ∈ s1.atts, AttOk key P b ∨ F b) (h1 : AttOk key P a1) (hn1 : a1.nonce = c.nonce) (hh1 : a1.hash = key c) (hc : P c)
    (h : trySites le s1 a1 c sites = some (a, ch)) :
    AttOk key P a ∧ ch.nonce = a.nonce ∧ key ch = a.hash ∧ P ch := by
  obtain ⟨t, ht, hcand, hch⟩ := trySites_spec h
  have hw := wk t ht
  have ha : AttOk key P a := by
    rcases hsel with hv | hnf
    · have := hv t ht
      rw [this] at hcand
      simp only [candidates, List.mem_singleton] at hcand
      exact hcand ▸ h1
    · rcases mem_candidates hcand with ⟨_, rfl⟩ | hm
      · exact h1
      · rcases hs a hm with ok | f
        · exact ok
        · exact absurd f (hnf a)
  refine ⟨ha, ?_⟩
  simp only [TrySite.wellKeyed, Bool.or_eq_true, Bool.and_eq_true, beq_iff_eq] at hw
  rcases hw with ⟨hv, hcl⟩ | hcl
  · rcases mem_candidates hcand with ⟨_, rfl⟩ | _
    · rw [hch, hcl]
      exact ⟨hn1.symm, hh1.symm, hc⟩
    · rw [hv] at hcand
      simp only [candidates, List.mem_singleton] at hcand
      subst hcand
      rw [hch, hcl]
      exact ⟨hn1.symm, hh1.symm, hc⟩
  · rw [hch, hcl]
    exact ha.1

theorem inv_observe (key : AnyClaim → η) (P : AnyClaim → Prop) (F : Att η → Prop) (s : AState η) (a : Att η) (ch : AnyClaim)
    (hs : Inv key P F s) (ha : AttOk key P a) (hn : ch.nonce = a.nonce) (hh : key ch = a.hash) (hc : P ch) :
    Inv key P F (observe key s a ch) := by
  refine ⟨?_, ?_⟩
  · intro b hb
    rcases mem_setAtt hb with rfl | hb
    · refine Or.inl ⟨⟨?_, ?_, ha.1.2.2⟩, fun v hv => ?_⟩
      · exact ha.1.1.trans hn.symm
      · exact ha.1.2.1.trans hh.symm
      · have := ha.2 v hv
        exact ⟨this.1.trans hn.symm, this.2.1.trans hh.symm, this.2.2⟩
    · exact hs.1 b hb
  · intro e he
    simp only [observe, List.mem_append, List.mem_singleton] at he
    rcases he with he | rfl
    · exact hs.2 e he
    · refine ⟨hc, fun v hv => ?_⟩
      have := ha.2 v hv
      exact ⟨this.1.trans hn.symm, this.2.1.trans hh.symm, this.2.2⟩

theorem inv_afterVote (key : AnyClaim → η) (P : AnyClaim → Prop) (F : Att η → Prop) (s : AState η) (a : Att η)
    (hs : Inv key P F s) (ha : AttOk key P a) : Inv key P F (afterVote s a) := by
  refine ⟨?_, hs.2⟩
  intro b hb
  rcases mem_setAtt hb with rfl | hb
  · exact Or.inl ha
  · exact hs.1 b hb

theorem inv_vote (sites : List TrySite) (srcs : List AttSource) (wk : ∀ t ∈ sites, t.wellKeyed = true)
    (own : ∀ x ∈ srcs, x.own = true) (key : AnyClaim → η) (le : η → η → Bool)
    (P : AnyClaim → Prop) (F : Att η → Prop) (hF : Stale key P F) (hsel : (∀ t ∈ sites, t.att = .voted) ∨ ∀ b, ¬F b)
    (s : AState η) (o : Nat) (c : AnyClaim) (hp : Bool)
    (hs : Inv key P F s) (hc : P c) : Inv key P F (voteWith sites srcs key le s o c hp).1 := by
  obtain ⟨hb, h1, hn, hh⟩ := voted_own key P F le s o c srcs own hs hF hc
  have hs1 := inv_afterVote key P F s _ hs h1
  unfold voteWith
  rw [hb]
  split
  · exact hs
  split
  · exact hs
  split
  · rename_i a ch hhit
    split
    · exact hs
    · simp only [hit] at hhit
      split at hhit
      · obtain ⟨ha, hcn, hck, hpc⟩ := handed_key key P F wk hsel hs1.1 h1 hn hh hc hhit
        exact inv_observe key P F _ a ch hs1 ha hcn hck hpc
      · cases hhit
  · exact hs1

theorem inv_step (sites : List TrySite) (srcs : List AttSource) (wk : ∀ t ∈ sites, t.wellKeyed = true)
    (own : ∀ x ∈ srcs, x.own = true) (key : AnyClaim → η) (le : η → η → Bool)
    (P : AnyClaim → Prop) (F : Att η → Prop) (hF : Stale key P F) (hsel : (∀ t ∈ sites, t.att = .voted) ∨ ∀ b, ¬F b)
    (s : AState η) (op : Op)
    (hs : Inv key P F s) (hop : ∀ o c hp, op = .vote o c hp → P c) : Inv key P F (stepWith sites srcs key le s op) := by
  cases op with
  | vote o c hp => exact inv_vote sites srcs wk own key le P F hF hsel s o c hp hs (hop o c hp rfl)
  | setPower o p => cases p <;> exact hs
  | setTotal t => exact hs
  | setExts xs => exact hs
  | setLastObserved n => exact hs
  | setOracleLast o n => cases n <;> exact hs
  | execute n f =>
    simp only [stepWith, execute]
    split
    · exact hs
    · split <;> exact hs

/-! ### the pending store -/

theorem pendInv_observe (key : AnyClaim → η) (s : AState η) (a : Att η) (ch : AnyClaim) (hs : PendInv s) :
    PendInv (observe key s a ch) := by
  refine ⟨?_, ?_⟩
  · intro p hp
    simp only [observe] at hp ⊢
    have old : p ∈ s.pending → p.2.nonce = p.1 ∧ ∃ e ∈ s.executed ++ [{ claim := ch, tallied := a.votes }], e.claim = p.2 := by
      intro h
      obtain ⟨hn, e, he, hc⟩ := hs.1 p h
      exact ⟨hn, e, List.mem_append_left _ he, hc⟩
    split at hp
    · simp only [setPending, List.mem_cons, List.mem_filter] at hp
      rcases hp with rfl | hp
      · exact ⟨rfl, _, List.mem_append_right _ (List.mem_singleton.mpr rfl), rfl⟩
      · exact old hp.1
    · exact old hp
  · intro c' hc'
    obtain ⟨e, he, hc⟩ := hs.2 c' hc'
    exact ⟨e, List.mem_append_left _ he, hc⟩

theorem pendInv_base (srcs : List AttSource) (key : AnyClaim → η) (le : η → η → Bool) (s : AState η) (c : AnyClaim)
    (hs : PendInv s) : PendInv (baseWith srcs le key s c) := by
  unfold baseWith
  split <;> exact hs

theorem pendInv_vote (sites : List TrySite) (srcs : List AttSource) (key : AnyClaim → η) (le : η → η → Bool) (s : AState η) (o : Nat)
    (c : AnyClaim) (hp : Bool) (hs : PendInv s) : PendInv (voteWith sites srcs key le s o c hp).1 := by
  unfold voteWith
  split
  · exact hs
  split
  · exact hs
  split
  · split
    · exact hs
    · exact pendInv_observe key (afterVote (baseWith srcs le key s c) _) _ _ (pendInv_base srcs key le s c hs)
  · exact pendInv_base srcs key le s c hs

omit [DecidableEq η] in
theorem pendInv_execute (s : AState η) (n : Nat) (f : Bool) (hs : PendInv s) : PendInv (execute s n f) := by
  unfold execute
  split
  · exact hs
  · rename_i c hl
    split
    · exact hs
    · refine ⟨?_, ?_⟩
      · intro p hp
        simp only [List.mem_filter] at hp
        exact hs.1 p hp.1
      · intro c' hc'
        simp only [List.mem_append, List.mem_singleton] at hc'
        rcases hc' with hc' | rfl
        · exact hs.2 c' hc'
        · have hm : (n, c') ∈ s.pending := by
            have := List.lookup_eq_some_iff.mp hl
            obtain ⟨l₁, l₂, h, _⟩ := this
            rw [h]
            simp
          exact (hs.1 _ hm).2

theorem pendInv_step (sites : List TrySite) (srcs : List AttSource) (key : AnyClaim → η) (le : η → η → Bool) (s : AState η) (op : Op)
    (hs : PendInv s) : PendInv (stepWith sites srcs key le s op) := by
  cases op with
  | vote o c hp => exact pendInv_vote sites srcs key le s o c hp hs
  | setPower o p => cases p <;> exact hs
  | setTotal t => exact hs
  | setExts xs => exact hs
  | setLastObserved n => exact hs
  | setOracleLast o n => cases n <;> exact hs
  | execute n f => exact pendInv_execute s n f hs

theorem pendInv_run (sites : List TrySite) (srcs : List AttSource) (key : AnyClaim → η) (le : η → η → Bool) (ops : List Op)
    (s : AState η) (hs : PendInv s) : PendInv (runWith sites srcs key le s ops) := by
  induction ops generalizing s with
  | nil => exact hs
  | cons op r ih =>
    simp only [runWith, List.foldl_cons]
    exact ih _ (pendInv_step sites srcs key le s op hs)

omit [DecidableEq η] in
theorem pendInv_init : PendInv ({} : AState η) := ⟨fun _ h => (by cases h), fun _ h => (by cases h)⟩

/-! ### the recorded external block height is the executed claim's -/

/-- `SetLastObservedBlockHeight` is only written together with an entry of the execution log -/
def HeightInv (s : AState η) : Prop := ∀ e, s.executed.getLast? = some e → s.lastHeight = e.claim.blockHeight

theorem heightInv_init : HeightInv ({} : AState η) := fun _ h => by cases h

theorem heightInv_observe (key : AnyClaim → η) (s : AState η) (a : Att η) (ch : AnyClaim) : HeightInv (observe key s a ch) := by
  intro e he
  simp only [observe, List.getLast?_append, List.getLast?_singleton, Option.some_or, Option.some.injEq] at he
  subst he
  rfl

theorem heightInv_base (srcs : List AttSource) (key : AnyClaim → η) (le : η → η → Bool) (s : AState η) (c : AnyClaim)
    (hs : HeightInv s) : HeightInv (baseWith srcs le key s c) := by
  unfold baseWith
  split <;> exact hs

theorem heightInv_vote (sites : List TrySite) (srcs : List AttSource) (key : AnyClaim → η) (le : η → η → Bool) (s : AState η) (o : Nat)
    (c : AnyClaim) (hp : Bool) (hs : HeightInv s) : HeightInv (voteWith sites srcs key le s o c hp).1 := by
  unfold voteWith
  split
  · exact hs
  split
  · exact hs
  split
  · split
    · exact hs
    · exact heightInv_observe key (afterVote (baseWith srcs le key s c) _) _ _
  · exact heightInv_base srcs key le s c hs

theorem heightInv_step (sites : List TrySite) (srcs : List AttSource) (key : AnyClaim → η) (le : η → η → Bool) (s : AState η) (op : Op)
    (hs : HeightInv s) : HeightInv (stepWith sites srcs key le s op) := by
  cases op with
  | vote o c hp => exact heightInv_vote sites srcs key le s o c hp hs
  | setPower o p => cases p <;> exact hs
  | setTotal t => exact hs
  | setExts xs => exact hs
  | setLastObserved n => exact hs
  | setOracleLast o n => cases n <;> exact hs
  | execute n f =>
    simp only [stepWith, execute]
    split
    · exact hs
    · split <;> exact hs

theorem heightInv_run (sites : List TrySite) (srcs : List AttSource) (key : AnyClaim → η) (le : η → η → Bool) (ops : List Op)
    (s : AState η) (hs : HeightInv s) : HeightInv (runWith sites srcs key le s ops) := by
  induction ops generalizing s with
  | nil => exact hs
  | cons op r ih => exact ih _ (heightInv_step sites srcs key le s op hs)

theorem effect_blockHeight {c₁ c₂ : AnyClaim} (h : c₁.effect = c₂.effect) : c₁.blockHeight = c₂.blockHeight := by
  cases c₁ <;> cases c₂ <;> simp only [AnyClaim.effect, reduceCtorEq, AnyClaim.stf.injEq, AnyClaim.bc.injEq,
    AnyClaim.bcr.injEq, AnyClaim.ste.injEq, AnyClaim.bt.injEq, AnyClaim.osu.injEq] at h
  all_goals
    rename_i a b
    cases a; cases b
    simp_all [AnyClaim.blockHeight, MsgSendToFxClaim.effect, MsgBridgeCallClaim.effect, MsgBridgeCallResultClaim.effect,
      MsgSendToExternalClaim.effect, MsgBridgeTokenClaim.effect, MsgOracleSetUpdatedClaim.effect]

theorem mem_claims_of_vote {o : Nat} {c : AnyClaim} {hp : Bool} : ∀ {ops : List Op}, Op.vote o c hp ∈ ops → c ∈ Op.claims ops
  | [], h => by cases h
  | x :: r, h => by
    cases x
    case vote o' c' hp' =>
      simp only [Op.claims, List.mem_cons]
      rcases List.mem_cons.mp h with e | h
      · left
        injection e with _ e2 _
      · right
        exact mem_claims_of_vote h
    all_goals
      simp only [Op.claims]
      rcases List.mem_cons.mp h with e | h
      · cases e
      · exact mem_claims_of_vote h

theorem claims_cons_subset {op : Op} {r : List Op} {c : AnyClaim} (h : c ∈ Op.claims r) : c ∈ Op.claims (op :: r) := by
  cases op
  case vote => simp only [Op.claims, List.mem_cons]; exact Or.inr h
  all_goals simpa only [Op.claims] using h

theorem inv_run (sites : List TrySite) (srcs : List AttSource) (wk : ∀ t ∈ sites, t.wellKeyed = true)
    (own : ∀ x ∈ srcs, x.own = true) (key : AnyClaim → η) (le : η → η → Bool)
    (P : AnyClaim → Prop) (F : Att η → Prop) (hF : Stale key P F) (hsel : (∀ t ∈ sites, t.att = .voted) ∨ ∀ b, ¬F b)
    (ops : List Op) (s : AState η)
    (hs : Inv key P F s) (hops : ∀ c ∈ Op.claims ops, P c) : Inv key P F (runWith sites srcs key le s ops) := by
  induction ops generalizing s with
  | nil => exact hs
  | cons op r ih =>
    simp only [runWith, List.foldl_cons]
    apply ih
    · apply inv_step sites srcs wk own key le P F hF hsel s op hs
      intro o c hp e
      subst e
      exact hops c (mem_claims_of_vote List.mem_cons_self)
    · intro c hc
      exact hops c (claims_cons_subset hc)

omit [DecidableEq η] in
theorem inv_init (key : AnyClaim → η) (P : AnyClaim → Prop) (F : Att η → Prop) : Inv key P F ({} : AState η) :=
  ⟨fun _ h => (by cases h), fun _ h => (by cases h)⟩

omit [DecidableEq η] in
/-- nothing is foreign -/
theorem stale_false (key : AnyClaim → η) (P : AnyClaim → Prop) : Stale key P (fun _ => False) := fun _ h => h.elim

/-! ### stale attestations are left exactly where they are -/

theorem mem_setAtt_of_ne {atts : List (Att η)} {a b : Att η} (hb : b ∈ atts) (hne : ¬(b.nonce = a.nonce ∧ b.hash = a.hash)) :
    b ∈ setAtt atts a := by
  simp only [setAtt, List.mem_cons, List.mem_filter]
  refine Or.inr ⟨hb, ?_⟩
  simp only [sameKey, Bool.not_eq_true', Bool.and_eq_false_iff, beq_eq_false_iff_ne, ne_eq]
  by_cases h1 : b.nonce = a.nonce
  · exact Or.inr (fun h2 => hne ⟨h1, h2⟩)
  · exact Or.inl h1

/-- every call site hands over the attestation of the vote itself together with the voter's claim -/
def OwnSites (sites : List TrySite) : Prop := ∀ t ∈ sites, t.att = .voted ∧ t.claim = .voter

theorem trySites_own {le : η → η → Bool} {s : AState η} {a1 a : Att η} {c ch : AnyClaim} {sites : List TrySite}
    (hown : OwnSites sites) (h : trySites le s a1 c sites = some (a, ch)) : a = a1 ∧ ch = c := by
  obtain ⟨t, ht, hcand, hch⟩ := trySites_spec h
  obtain ⟨h1, h2⟩ := hown t ht
  rw [h1] at hcand
  simp only [candidates, List.mem_singleton] at hcand
  rw [h2] at hch
  exact ⟨hcand, hch⟩

/-- a vote leaves every attestation whose key the voter's claim does not have where it is -/
theorem keeps_vote (sites : List TrySite) (srcs : List AttSource) (hown : OwnSites sites) (own : ∀ x ∈ srcs, x.own = true)
    (key : AnyClaim → η) (le : η → η → Bool) (P : AnyClaim → Prop) (F : Att η → Prop) (hF : Stale key P F)
    (s : AState η) (o : Nat) (c : AnyClaim) (hp : Bool) (hs : Inv key P F s) (hc : P c)
    (b : Att η) (hb : F b) (hm : b ∈ s.atts) : b ∈ (voteWith sites srcs key le s o c hp).1.atts := by
  obtain ⟨hbase, _, hn, hh⟩ := voted_own key P F le s o c srcs own hs hF hc
  have hne : ¬(b.nonce = (votedAttWith srcs le key s o c).nonce ∧ b.hash = (votedAttWith srcs le key s o c).hash) := by
    rw [hn, hh]
    exact hF b hb c hc
  have h1 : b ∈ (afterVote s (votedAttWith srcs le key s o c)).atts := mem_setAtt_of_ne hm hne
  unfold voteWith
  rw [hbase]
  split
  · exact hm
  split
  · exact hm
  split
  · rename_i a ch hhit
    split
    · exact hm
    · simp only [hit] at hhit
      split at hhit
      · obtain ⟨rfl, rfl⟩ := trySites_own hown hhit
        simp only [setLast, observe]
        apply mem_setAtt_of_ne h1
        exact hF b hb _ hc
      · cases hhit
  · exact h1

theorem keeps_step (sites : List TrySite) (srcs : List AttSource) (hown : OwnSites sites) (own : ∀ x ∈ srcs, x.own = true)
    (key : AnyClaim → η) (le : η → η → Bool) (P : AnyClaim → Prop) (F : Att η → Prop) (hF : Stale key P F)
    (s : AState η) (op : Op) (hs : Inv key P F s) (hop : ∀ o c hp, op = .vote o c hp → P c)
    (b : Att η) (hb : F b) (hm : b ∈ s.atts) : b ∈ (stepWith sites srcs key le s op).atts := by
  cases op with
  | vote o c hp => exact keeps_vote sites srcs hown own key le P F hF s o c hp hs (hop o c hp rfl) b hb hm
  | setPower o p => cases p <;> exact hm
  | setTotal t => exact hm
  | setExts xs => exact hm
  | setLastObserved n => exact hm
  | setOracleLast o n => cases n <;> exact hm
  | execute n f =>
    simp only [stepWith, execute]
    split
    · exact hm
    · split <;> exact hm

theorem keeps_run (sites : List TrySite) (srcs : List AttSource) (wk : ∀ t ∈ sites, t.wellKeyed = true) (hown : OwnSites sites)
    (own : ∀ x ∈ srcs, x.own = true) (key : AnyClaim → η) (le : η → η → Bool) (P : AnyClaim → Prop) (F : Att η → Prop)
    (hF : Stale key P F) (ops : List Op) (s : AState η) (hs : Inv key P F s) (hops : ∀ c ∈ Op.claims ops, P c)
    (b : Att η) (hb : F b) (hm : b ∈ s.atts) : b ∈ (runWith sites srcs key le s ops).atts := by
  induction ops generalizing s with
  | nil => exact hm
  | cons op r ih =>
    simp only [runWith, List.foldl_cons]
    have hop : ∀ o c hp, op = .vote o c hp → P c := by
      intro o c hp e
      subst e
      exact hops c (mem_claims_of_vote List.mem_cons_self)
    apply ih
    · exact inv_step sites srcs wk own key le P F hF (Or.inl fun t ht => (hown t ht).1) s op hs hop
    · intro c hc
      exact hops c (claims_cons_subset hc)
    · exact keeps_step sites srcs hown own key le P F hF s op hs hop b hb hm

end
end FxVerif.Proofs.C03
