import FxVerif.Proofs.C04Step
/-! C04: fxcore's pending batches are exactly the batches the external bridge contract still accepts — invariant over
all operation sequences.  The external side (`created`, `extLast`, `expired`) is ghost state of the model. -/
namespace FxVerif.Proofs.C04
open FxVerif.Model.Ledger FxVerif.Model.Flows FxVerif.Model.C04 FxVerif.Proofs.Ledger

structure BatchInv (cs : ChainSt) : Prop where
  /-- every pending batch was built here and is still acceptable outside -/
  pend_ok : ∀ b ∈ cs.batches, b ∈ cs.created ∧ cs.extLast b.g < b.nonce ∧ (b.g, b.nonce) ∉ cs.expired
  /-- every batch that is still acceptable outside is pending here -/
  acc_pend : ∀ b ∈ cs.created, cs.extLast b.g < b.nonce → (b.g, b.nonce) ∉ cs.expired → b ∈ cs.batches
  created_lt : ∀ b ∈ cs.created, b.nonce < cs.nextBatch
  last_lt : ∀ g, cs.extLast g < cs.nextBatch
  exp_lt : ∀ p ∈ cs.expired, p.2 < cs.nextBatch
  nodup : cs.batches.Pairwise (fun a b => a.nonce ≠ b.nonce)

theorem BatchInv.init : BatchInv {} := by
  constructor <;> simp

/-- the invariant only reads the batch-related components -/
theorem BatchInv.congr {cs cs' : ChainSt} (h : BatchInv cs) (h1 : cs'.batches = cs.batches)
    (h2 : cs'.created = cs.created) (h3 : cs'.extLast = cs.extLast) (h4 : cs'.expired = cs.expired)
    (h5 : cs'.nextBatch = cs.nextBatch) : BatchInv cs' := by
  obtain ⟨a, b, c, d, e, f⟩ := h
  constructor <;> simp only [h1, h2, h3, h4, h5] <;> assumption

theorem BatchInv.batch {cs cs' : ChainSt} {tf ao : Bool} {a : BArgs} (h : BatchInv cs)
    (hb : batchResult tf ao a cs = .ok cs') : BatchInv cs' := by
  obtain ⟨_, _, _, _, rfl⟩ := batchResult_ok hb
  obtain ⟨h1, h2, h3, h4, h5, h6⟩ := h
  constructor
  · intro b hb
    simp only [List.mem_cons] at hb ⊢
    rcases hb with rfl | hb
    · refine ⟨Or.inl rfl, h4 _, ?_⟩
      intro hm; have := h5 _ hm; simp at this
    · obtain ⟨x, y, z⟩ := h1 b hb
      exact ⟨Or.inr x, y, z⟩
  · intro b hb hl he
    simp only [List.mem_cons] at hb ⊢
    rcases hb with rfl | hb
    · exact Or.inl rfl
    · exact Or.inr (h2 b hb hl he)
  · intro b hb
    simp only [List.mem_cons] at hb
    rcases hb with rfl | hb
    · exact Nat.lt_succ_self _
    · have := h3 b hb; simp only; omega
  · intro g; have := h4 g; simp only; omega
  · intro p hp; have := h5 p hp; simp only; omega
  · simp only [List.pairwise_cons]
    refine ⟨?_, h6⟩
    intro b hb
    have := h3 b (h1 b hb).1
    omega

theorem BatchInv.executed {cs : ChainSt} {g nonce : Nat} (h : BatchInv cs)
    (hex : (cs.batches.filter (isBatch g nonce)).isEmpty = false) : BatchInv (executedWith cancelRule cs g nonce) := by
  obtain ⟨h1, h2, h3, h4, h5, h6⟩ := h
  -- the executed batch
  obtain ⟨e, he, heg⟩ : ∃ e ∈ cs.batches, isBatch g nonce e = true := by
    cases hf : cs.batches.filter (isBatch g nonce) with
    | nil => simp [hf] at hex
    | cons e _ =>
      have : e ∈ cs.batches.filter (isBatch g nonce) := by rw [hf]; exact List.mem_cons_self
      exact ⟨e, (List.mem_filter.mp this).1, (List.mem_filter.mp this).2⟩
  simp only [isBatch, Bool.and_eq_true, beq_iff_eq] at heg
  obtain ⟨heg1, heg2⟩ := heg
  have hlast : cs.extLast g < nonce := by have := (h1 e he).2.1; rw [heg1, heg2] at this; exact this
  have hnn : nonce < cs.nextBatch := by have := h3 e (h1 e he).1; omega
  have keep : ∀ b, (!cancels cancelRule g nonce b && !isBatch g nonce b) = true ↔ ¬ (b.g = g ∧ b.nonce ≤ nonce) := by
    intro b
    simp only [cancels, cancelRule, Cmp.eval, isBatch, Bool.not_true, Bool.false_or, Bool.and_eq_true,
      Bool.not_eq_true', Bool.and_eq_false_iff, decide_eq_false_iff_not, beq_eq_false_iff_ne, ne_eq]
    constructor
    · rintro ⟨h1 | h1, h2 | h2⟩ ⟨h3, h4⟩ <;> first | exact h1 h3 | exact h2 h3 | omega
    · intro hn
      by_cases hg : b.g = g
      · have : ¬ b.nonce ≤ nonce := fun h => hn ⟨hg, h⟩
        exact ⟨Or.inl (by omega), Or.inr (by omega)⟩
      · exact ⟨Or.inr hg, Or.inl hg⟩
  constructor
  · intro b hb
    simp only [executedWith, List.mem_filter] at hb ⊢
    obtain ⟨hb, hk⟩ := hb
    have hk := (keep b).mp hk
    obtain ⟨x, y, z⟩ := h1 b hb
    refine ⟨x, ?_, z⟩
    by_cases hg : b.g = g
    · simp only [hg, ↓reduceIte]; have : ¬ b.nonce ≤ nonce := fun h => hk ⟨hg, h⟩; omega
    · simp only [hg, ↓reduceIte]; exact y
  · intro b hb hl hx
    simp only [executedWith, List.mem_filter] at hb hl hx ⊢
    by_cases hg : b.g = g
    · simp only [hg, ↓reduceIte] at hl
      have hb' := h2 b hb (by rw [hg]; omega) hx
      exact ⟨hb', (keep b).mpr (fun h => by omega)⟩
    · simp only [hg, ↓reduceIte] at hl
      exact ⟨h2 b hb hl hx, (keep b).mpr (fun h => hg h.1)⟩
  · exact h3
  · intro g'
    simp only [executedWith]
    split
    · exact hnn
    · exact h4 g'
  · exact h5
  · exact List.Pairwise.sublist List.filter_sublist h6

theorem BatchInv.btimeout {cs : ChainSt} {g nonce : Nat} (h : BatchInv cs)
    (hex : (cs.batches.filter (isBatch g nonce)).isEmpty = false) :
    BatchInv { cs with pool := (cs.batches.filter (isBatch g nonce)).flatMap (·.txs) ++ cs.pool,
                       batches := cs.batches.filter (fun b => !isBatch g nonce b),
                       expired := (g, nonce) :: cs.expired } := by
  obtain ⟨h1, h2, h3, h4, h5, h6⟩ := h
  obtain ⟨e, he, heg⟩ : ∃ e ∈ cs.batches, isBatch g nonce e = true := by
    cases hf : cs.batches.filter (isBatch g nonce) with
    | nil => simp [hf] at hex
    | cons e _ =>
      have : e ∈ cs.batches.filter (isBatch g nonce) := by rw [hf]; exact List.mem_cons_self
      exact ⟨e, (List.mem_filter.mp this).1, (List.mem_filter.mp this).2⟩
  simp only [isBatch, Bool.and_eq_true, beq_iff_eq] at heg
  have hnn : nonce < cs.nextBatch := by have := h3 e (h1 e he).1; omega
  have keep : ∀ b : Batch, (!isBatch g nonce b) = true ↔ ¬ (b.g = g ∧ b.nonce = nonce) := by
    intro b; simp [isBatch]; constructor
    · rintro (h | h) h' <;> first | exact absurd h' h | exact h
    · intro h; by_cases hg : b.g = g
      · exact Or.inr (h hg)
      · exact Or.inl hg
  constructor
  · intro b hb
    simp only [List.mem_filter] at hb
    obtain ⟨hb, hk⟩ := hb
    obtain ⟨x, y, z⟩ := h1 b hb
    refine ⟨x, y, ?_⟩
    simp only [List.mem_cons, Prod.mk.injEq, not_or]
    exact ⟨(keep b).mp hk, z⟩
  · intro b hb hl hx
    simp only [List.mem_cons, Prod.mk.injEq, not_or] at hx
    simp only [List.mem_filter]
    exact ⟨h2 b hb hl hx.2, (keep b).mpr hx.1⟩
  · exact h3
  · exact h4
  · intro p hp
    simp only [List.mem_cons] at hp
    rcases hp with rfl | hp
    · exact hnn
    · exact h5 p hp
  · exact List.Pairwise.sublist List.filter_sublist h6

/-- the batch-related components of a chain's records -/
def SameBatches (a b : ChainSt) : Prop :=
  a.batches = b.batches ∧ a.created = b.created ∧ a.extLast = b.extLast ∧ a.expired = b.expired ∧ a.nextBatch = b.nextBatch

theorem run_chains {s s1 : State} {fl : List Prim} (h : run s fl = .ok s1) : s1.chains = s.chains :=
  (held_run 0 h).2.1

theorem sameBatches_finish (s s1 : State) (c : Nat) (cs : ChainSt) (dep wd : List (Nat × Nat)) (c' : Nat)
    (h1 : s1.chains = s.chains) (h2 : SameBatches cs (s.chains c)) :
    SameBatches ((finish s1 c cs dep wd).chains c') (s.chains c') := by
  simp only [finish, setChain]
  split
  · rename_i h; subst h; exact h2
  · rw [h1]; exact ⟨rfl, rfl, rfl, rfl, rfl⟩

theorem refundCall_frame (cfg : Cfg) (s s' : State) (c : Nat) (call : OutCall) (cs' : ChainSt) (c' : Nat)
    (h2 : SameBatches cs' (s.chains c)) (h : refundCall cfg s c call cs' = .ok s') :
    SameBatches (s'.chains c') (s.chains c') := by
  simp only [refundCall, bind, Except.bind, pure, Except.pure] at h
  repeat' (split at h)
  all_goals first | cases h | skip
  all_goals
    rename_i hr
    exact sameBatches_finish s _ c cs' _ _ c' (run_chains hr) h2

theorem stepCore_frame (cfg : Cfg) (s s' : State) (op : Op) (h : stepCore cfg s op = .ok s')
    (hop : op.touchesBatches = false) (c' : Nat) : SameBatches (s'.chains c') (s.chains c') := by
  cases op <;> simp only [Op.touchesBatches] at hop <;> first | cases hop | skip
  all_goals simp only [stepCore, bind, Except.bind, pure, Except.pure] at h
  all_goals repeat' (split at h)
  all_goals try (cases h)
  all_goals first
    | exact sameBatches_finish s _ _ _ _ _ c' (run_chains ‹_›) ⟨rfl, rfl, rfl, rfl, rfl⟩
    | exact sameBatches_finish s _ _ _ _ _ c' (run_chains ‹_›) (by rw [run_chains ‹_›]; exact ⟨rfl, rfl, rfl, rfl, rfl⟩)
    | exact sameBatches_finish s s _ _ _ _ c' rfl ⟨rfl, rfl, rfl, rfl, rfl⟩
    | (refine refundCall_frame cfg s s' _ _ _ c' ?_ h; exact ⟨rfl, rfl, rfl, rfl, rfl⟩)
    | (rw [run_chains h]; exact ⟨rfl, rfl, rfl, rfl, rfl⟩)


theorem BatchInv.same {a b : ChainSt} (h : BatchInv b) (hs : SameBatches a b) : BatchInv a :=
  h.congr hs.1 hs.2.1 hs.2.2.1 hs.2.2.2.1 hs.2.2.2.2

theorem inv_finish (s : State) (c : Nat) (cs : ChainSt) (dep wd : List (Nat × Nat))
    (hinv : ∀ c, BatchInv (s.chains c)) (hcs : BatchInv cs) : ∀ c', BatchInv ((finish s c cs dep wd).chains c') := by
  intro c'
  simp only [finish, setChain]
  split
  · exact hcs.congr rfl rfl rfl rfl rfl
  · exact hinv c'

/-- every successful operation keeps the batch invariant of every chain -/
theorem stepCore_inv (cfg : Cfg) (s s' : State) (op : Op) (h : stepCore cfg s op = .ok s')
    (hinv : ∀ c, BatchInv (s.chains c)) : ∀ c, BatchInv (s'.chains c) := by
  cases hop : op.touchesBatches
  · intro c'; exact (hinv c').same (stepCore_frame cfg s s' op h hop c')
  · cases op <;> simp only [Op.touchesBatches] at hop <;> first | cases hop | skip
    · rename_i c g bf mf ao
      simp only [stepCore, bind, Except.bind, pure, Except.pure] at h
      split at h
      · cases h
      · rw [request_closed] at h
        cases hb : batchResult (bridged cfg g c).isSome ao ⟨g, bf, mf⟩ (s.chains c) with
        | error e => simp [hb] at h
        | ok cs' =>
          simp only [hb, Except.ok.injEq] at h; subst h
          exact inv_finish s c cs' _ _ hinv ((hinv c).batch hb)
    · rename_i c g nonce
      simp only [stepCore, pure, Except.pure] at h
      split at h
      · cases h
      · rename_i hne
        cases h
        exact inv_finish s c _ _ _ hinv ((hinv c).executed (by simpa using hne))
    · rename_i c g nonce
      simp only [stepCore, pure, Except.pure] at h
      split at h
      · cases h
      · rename_i hne
        cases h
        exact inv_finish s c _ _ _ hinv ((hinv c).btimeout (by simpa using hne))

theorem step_inv (cfg : Cfg) (s s' : State) (op : Op) (h : step cfg s op = .ok s')
    (hinv : ∀ c, BatchInv (s.chains c)) : ∀ c, BatchInv (s'.chains c) := by
  unfold step at h
  split at h
  · split at h
    · exact stepCore_inv cfg s s' op h hinv
    · cases h
  · exact stepCore_inv cfg s s' op h hinv

theorem runOps_inv (cfg : Cfg) (ops : List Op) (s : State) (hinv : ∀ c, BatchInv (s.chains c)) :
    ∀ c, BatchInv ((runOps cfg s ops).chains c) := by
  induction ops generalizing s with
  | nil => exact hinv
  | cons op ops ih =>
    simp only [runOps, List.foldl_cons] at ih ⊢
    apply ih
    unfold stepT
    cases h : step cfg s op with
    | error e => exact hinv
    | ok s' => exact step_inv cfg s s' op h hinv

theorem init_inv (L : Ledger) (e0 : Nat → Nat → Nat) : ∀ c, BatchInv ((initE L e0).chains c) :=
  fun _ => BatchInv.init.congr rfl rfl rfl rfl rfl

/-- with pairwise distinct nonces the filter for one (token, nonce) finds exactly the batch -/
theorem filter_isBatch_unique (bs : List Batch) (b : Batch) (hb : b ∈ bs)
    (hn : bs.Pairwise (fun a b => a.nonce ≠ b.nonce)) : bs.filter (isBatch b.g b.nonce) = [b] := by
  induction bs with
  | nil => cases hb
  | cons x xs ih =>
    simp only [List.pairwise_cons] at hn
    simp only [List.mem_cons] at hb
    rcases hb with rfl | hb
    · have : xs.filter (isBatch b.g b.nonce) = [] := by
        apply List.filter_eq_nil_iff.mpr
        intro y hy
        have := hn.1 y hy
        simp only [isBatch, Bool.and_eq_true, beq_iff_eq, not_and]
        intro _ h; exact this h.symm
      simp [isBatch, this]
    · have hx : isBatch b.g b.nonce x = false := by
        have := hn.1 b hb
        simp only [isBatch, Bool.and_eq_false_iff, beq_eq_false_iff_ne, ne_eq]
        exact Or.inr this
      simp only [List.filter_cons, hx, Bool.false_eq_true, ↓reduceIte]
      exact ih hb hn.2

end FxVerif.Proofs.C04
