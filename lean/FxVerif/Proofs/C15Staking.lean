import FxVerif.Model.C15Staking
import FxVerif.Proofs.C15Tally
/-!
# C15 — invariants of the small staking model: bonded validators keep their delegator shares, and the gov component of the
combined machine is a state of the gov machine
-/
namespace FxVerif.Proofs.C15
open FxVerif.Gen.C15 FxVerif.Model.C15

def SOk (st : StakingSt) : Prop := ∀ v ∈ st.vals, 0 < v.shares

theorem mem_updVal {vs : List Val} {v x : Val} (h : x ∈ updVal vs v) : x ∈ vs ∨ x = v := by
  induction vs with
  | nil => simp [updVal] at h
  | cons a r ih =>
    simp only [updVal] at h
    split at h
    · rcases List.mem_cons.mp h with e | e
      · exact Or.inr e
      · exact Or.inl (List.mem_cons_of_mem _ e)
    · rcases List.mem_cons.mp h with e | e
      · exact Or.inl (e ▸ List.mem_cons_self)
      · rcases ih e with e' | e'
        · exact Or.inl (List.mem_cons_of_mem _ e')
        · exact Or.inr e'

theorem sDelegate_sok {st st' : StakingSt} {who val amt : Nat} (h : SOk st) (hd : sDelegate st who val amt = some st') : SOk st' := by
  unfold sDelegate at hd
  split at hd
  · cases hd
  · rename_i v hv
    split at hd
    · cases hd
    · rename_i sh _
      cases hd
      intro x hx
      rcases mem_updVal hx with e | e
      · exact h x e
      · have := h v (findVal_mem hv)
        rw [e]; show 0 < v.shares + sh; omega

theorem sSlash_sok {st : StakingSt} {val factor : Nat} (h : SOk st) : SOk (sSlash st val factor) := by
  unfold sSlash
  split
  · exact h
  · rename_i v hv
    intro x hx
    rcases mem_updVal hx with e | e
    · exact h x e
    · rw [e]; exact h v (findVal_mem hv)

theorem wstep_sok {w : World} (op : WOp) (h : SOk w.stk) : SOk (wstep w op).1.stk := by
  cases op with
  | gov op => cases op <;> exact h
  | genesis st =>
    simp only [wstep]
    split
    · rename_i hg
      intro v hv
      simp only [genesisOk, Bool.and_eq_true] at hg
      have := List.all_eq_true.mp hg.1.1.2 v hv
      simpa using this
    · exact h
  | delegate who val amt =>
    simp only [wstep]
    split
    · exact h
    · rename_i st' hd
      split
      · exact sDelegate_sok h hd
      · exact h
  | slash val factor => exact sSlash_sok h

theorem wrun_sok : ∀ (ops : List WOp) (w : World), SOk w.stk → SOk (wrun w ops).stk := by
  intro ops
  induction ops with
  | nil => intro w h; exact h
  | cons o r ih => intro w h; exact ih _ (wstep_sok o h)

theorem run_snoc' : ∀ (ops : List Op) (s : State) (op : Op), run s (ops ++ [op]) = (step (run s ops) op).1 := by
  intro ops
  induction ops with
  | nil => intro s op; rfl
  | cons o r ih => intro s op; simp only [List.cons_append, run]; exact ih _ op

/-- every step of the combined machine is a step of the gov machine (or none) on its gov component -/
theorem wstep_gov (w : World) (op : WOp) : (wstep w op).1.gov = w.gov ∨ ∃ gop, (wstep w op).1.gov = (step w.gov gop).1 := by
  cases op with
  | gov op => cases op <;> exact Or.inr ⟨_, rfl⟩
  | genesis st => simp only [wstep]; split <;> exact Or.inl rfl
  | delegate who val amt =>
    simp only [wstep]
    split
    · exact Or.inl rfl
    · split <;> exact Or.inr ⟨.spend who amt, rfl⟩
  | slash val factor => exact Or.inl rfl

theorem wrun_gov : ∀ (ops : List WOp) (w : World), (∃ gops, w.gov = run init gops) → ∃ gops, (wrun w ops).gov = run init gops := by
  intro ops
  induction ops with
  | nil => intro w h; exact h
  | cons o r ih =>
    intro w ⟨gops, hg⟩
    refine ih _ ?_
    rcases wstep_gov w o with e | ⟨gop, e⟩
    · exact ⟨gops, e.trans hg⟩
    · exact ⟨gops ++ [gop], by rw [e, hg, run_snoc']⟩

/-- … and a gov operation that is `opNoGovSpend` whenever the operation of the combined machine is `wopNoGovSpend` -/
theorem wstep_gov_clean (w : World) (op : WOp) (hop : wopNoGovSpend op = true) :
    (wstep w op).1.gov = w.gov ∨ ∃ gop, (wstep w op).1.gov = (step w.gov gop).1 ∧ opNoGovSpend gop = true := by
  cases op with
  | gov op => cases op <;> exact Or.inr ⟨_, rfl, by first | exact hop | rfl⟩
  | genesis st => simp only [wstep]; split <;> exact Or.inl rfl
  | delegate who val amt =>
    simp only [wstep]
    split
    · exact Or.inl rfl
    · split <;> exact Or.inr ⟨.spend who amt, rfl, rfl⟩
  | slash val factor => exact Or.inl rfl

theorem noGovSpend_snoc {gops : List Op} {gop : Op} (h1 : NoGovSpend gops = true) (h2 : opNoGovSpend gop = true) :
    NoGovSpend (gops ++ [gop]) = true := by
  simp only [NoGovSpend, List.all_append, List.all_cons, List.all_nil, Bool.and_true, Bool.and_eq_true] at h1 ⊢
  exact ⟨h1, h2⟩

theorem wrun_gov_clean : ∀ (ops : List WOp), WNoGovSpend ops = true → ∀ (w : World),
    (∃ gops, w.gov = run init gops ∧ NoGovSpend gops = true) → ∃ gops, (wrun w ops).gov = run init gops ∧ NoGovSpend gops = true := by
  intro ops
  induction ops with
  | nil => intro _ w h; exact h
  | cons o r ih =>
    intro hc w ⟨gops, hg, hcl⟩
    have hc' : wopNoGovSpend o = true ∧ WNoGovSpend r = true := by simpa [WNoGovSpend] using hc
    refine ih hc'.2 _ ?_
    rcases wstep_gov_clean w o hc'.1 with e | ⟨gop, e, hgop⟩
    · exact ⟨gops, e.trans hg, hcl⟩
    · exact ⟨gops ++ [gop], by rw [e, hg, run_snoc'], noGovSpend_snoc hcl hgop⟩

/-! ### the recorded delegations to a validator never exceed its delegator shares -/

theorem delSum_addDel (ds : List Del) (who val sh a : Nat) :
    delSum (addDel ds who val sh) a = delSum ds a + (if val = a then sh else 0) := by
  induction ds with
  | nil => by_cases h : val = a <;> simp [addDel, delSum, sumShares, h]
  | cons d r ih =>
    simp only [addDel]
    split
    · rename_i hc
      simp only [Bool.and_eq_true, beq_iff_eq] at hc
      by_cases h : val = a
      · have hd : (d.val == a) = true := by simp [hc.2, h]
        simp only [delSum, List.filter_cons, hd, if_true, sumShares, h]
        omega
      · have hd : (d.val == a) = false := by simp [hc.2, h]
        simp [delSum, hd, h]
    · unfold delSum at ih ⊢
      simp only [List.filter_cons]
      split
      · simp only [sumShares]; rw [ih]; omega
      · exact ih

def distinctOps (vs : List Val) : Prop := distinctNat (vs.map (·.op)) = true

theorem updVal_ops (vs : List Val) (v : Val) : (updVal vs v).map (·.op) = vs.map (·.op) := by
  induction vs with
  | nil => rfl
  | cons a r ih =>
    simp only [updVal]
    split
    · rename_i h; simp only [List.map_cons]; rw [beq_iff_eq.mp h]
    · simp only [List.map_cons, ih]

theorem mem_updVal_distinct {vs : List Val} {v x : Val} (hd : distinctOps vs) (h : x ∈ updVal vs v) :
    x = v ∨ (x ∈ vs ∧ x.op ≠ v.op) := by
  induction vs with
  | nil => simp [updVal] at h
  | cons a r ih =>
    unfold distinctOps at hd
    simp only [List.map_cons, distinctNat, Bool.and_eq_true, Bool.not_eq_true', List.contains_eq_mem, decide_eq_false_iff_not] at hd
    simp only [updVal] at h
    split at h
    · rename_i ha
      rcases List.mem_cons.mp h with e | e
      · exact Or.inl e
      · refine Or.inr ⟨List.mem_cons_of_mem _ e, fun hx => hd.1 ?_⟩
        rw [beq_iff_eq.mp ha, ← hx]
        exact List.mem_map.mpr ⟨x, e, rfl⟩
    · rename_i ha
      rcases List.mem_cons.mp h with e | e
      · refine Or.inr ⟨e ▸ List.mem_cons_self, ?_⟩
        rw [e]; simpa using ha
      · rcases ih hd.2 e with e' | e'
        · exact Or.inl e'
        · exact Or.inr ⟨List.mem_cons_of_mem _ e'.1, e'.2⟩

structure DOk (st : StakingSt) : Prop where
  distinct : distinctOps st.vals
  within : ∀ v ∈ st.vals, delSum st.dels v.op ≤ v.shares

theorem findVal_op {vals : List Val} {a : Addr} {v : Val} (h : findVal vals a = some v) : v.op = a := by
  induction vals with
  | nil => simp [findVal] at h
  | cons x r ih =>
    simp only [findVal] at h
    split at h
    · rename_i hx; cases h; exact beq_iff_eq.mp hx
    · exact ih h

theorem sDelegate_dok {st st' : StakingSt} {who val amt : Nat} (h : DOk st) (hd : sDelegate st who val amt = some st') : DOk st' := by
  unfold sDelegate at hd
  split at hd
  · cases hd
  · rename_i v hv
    split at hd
    · cases hd
    · rename_i sh _
      cases hd
      have hop : v.op = val := findVal_op hv
      refine ⟨?_, ?_⟩
      · show distinctNat ((updVal st.vals _).map (·.op)) = true
        rw [updVal_ops]; exact h.distinct
      · intro x hx
        show delSum (addDel st.dels who val sh) x.op ≤ x.shares
        rw [delSum_addDel]
        rcases mem_updVal_distinct h.distinct hx with e | e
        · have := h.within v (findVal_mem hv)
          rw [hop] at this
          rw [e]
          simp only [hop, if_true]
          show delSum st.dels val + sh ≤ v.shares + sh
          omega
        · have hne : ¬ val = x.op := fun e' => e.2 (by show x.op = v.op; rw [hop, e'])
          simp only [hne, if_false]
          exact h.within x e.1

theorem sSlash_dok {st : StakingSt} {val factor : Nat} (h : DOk st) : DOk (sSlash st val factor) := by
  unfold sSlash
  split
  · exact h
  · rename_i v hv
    refine ⟨?_, ?_⟩
    · show distinctNat ((updVal st.vals _).map (·.op)) = true
      rw [updVal_ops]; exact h.distinct
    · intro x hx
      rcases mem_updVal_distinct h.distinct hx with e | e
      · rw [e]; exact h.within v (findVal_mem hv)
      · exact h.within x e.1

theorem wstep_dok {w : World} (op : WOp) (h : DOk w.stk) : DOk (wstep w op).1.stk := by
  cases op with
  | gov op => cases op <;> exact ⟨h.distinct, h.within⟩
  | genesis st =>
    simp only [wstep]
    split
    · rename_i hg
      simp only [genesisOk, Bool.and_eq_true] at hg
      refine ⟨hg.1.2, fun v hv => ?_⟩
      have := List.all_eq_true.mp hg.2 v hv
      simpa using this
    · exact h
  | delegate who val amt =>
    simp only [wstep]
    split
    · exact h
    · rename_i st' hd
      split
      · exact sDelegate_dok h hd
      · exact h
  | slash val factor => exact sSlash_dok h

theorem wrun_dok : ∀ (ops : List WOp) (w : World), DOk w.stk → DOk (wrun w ops).stk := by
  intro ops
  induction ops with
  | nil => intro w h; exact h
  | cons o r ih => intro w h; exact ih _ (wstep_dok o h)

end FxVerif.Proofs.C15
